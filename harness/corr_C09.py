"""
C09 -- focal results are statistics of exactly the cells under the kernel.

Tie:  G  loop bounds / index expressions / guards / tables of focal.py and convolution.py are regenerated into
         Gen/Focal.lean (harness/facts_focal.py), the hotspot classifier into Gen/Kernels.lean (T1); the model
         (Model/Focal.lean) is built from them and Props/C09.lean proves the property about that model.
      H  the public functions (focal.apply / focal_stats / mean / hotspots, convolution.convolution_2d) are run on
         generated rasters and kernels and compared with the model executed by the Lean driver on the same inputs.
Oracle (independent of the model, written from the property statement): direct window computation in plain
Python -- the cells under the 1-entries, clipped, NaN ignored -> statistic; user reducers on the expected window;
iterated clipped 3x3 mean with pass-through; full-window weighted sum with NaN margin; z-score classes, the
value set and the negation law.  mean / var / std are computed in exact rational arithmetic from the float32-cast cells; a
variance / standard deviation must be a non-negative number wherever a valid cell lies under the kernel (rasters re-scaled
to a + b*v, a up to 1e6, b down to 1e-3, flat and two-level windows up to 7x7: `gen_scaled`).
The same oracle judges a Dask stream: the five public functions on Dask-backed rasters (a case carries `chunks`:
1-cell chunks, one chunk, row / column strips, random compositions), so that "the full 3x3 window, applied
`passes` times" and "the cells under the kernel" are checked against the property text on every backend the
functions accept -- not through a NumPy-vs-Dask comparison (that is C01's subject).
Layer T3: stream `il:convolve2d` -- the ILang program `Gen.IL.convolve2d` (generated statement by statement from
`_convolve_2d_numpy`; the subject of the refinement theorems `il_convolve_refines` / `il_conv_cell` / `il_conv_finite`) is run by
the Lean driver and compared exactly with the numba-compiled function of /repo (il_corr.py); streams `il:meanNumpy`,
`il:applyMean` ... `il:applyVar` do the same for the generated programs of `_mean_numpy` / `_apply_numpy` (the subjects of
`il_mean_refines` / `il_apply_refines` / `il_apply_stats`; `_apply_numpy` computes in float32: compared within 1e-6 relative).
"""
import json
import math
import os
from fractions import Fraction

import numpy as np
import xarray as xr

import il_corr
from common import Driver, close, tok, untok

PROP = "C09"
NAN = float("nan")
STATS = ["mean", "max", "min", "range", "std", "var", "sum"]
USER = ["posw", "count", "nanpos", "first", "last", "centre", "corner"]
TOL = dict(rel=2e-5, abs_=2e-5)

_reducers = {}


def reducers():
    """the numba-jitted family of user reducers (twins: Driver/Focal.lean `userReducer`, `py_reducer` below)"""
    if _reducers:
        return _reducers
    from xrspatial import focal
    from xrspatial.utils import ngjit

    @ngjit
    def posw(w):
        s = 0.0
        for a in range(w.shape[0]):
            for b in range(w.shape[1]):
                if not np.isnan(w[a, b]):
                    s += (a * 7 + b * 3 + 1) * w[a, b]
        return s

    @ngjit
    def count(w):
        s = 0.0
        for a in range(w.shape[0]):
            for b in range(w.shape[1]):
                if not np.isnan(w[a, b]):
                    s += 1.0
        return s

    @ngjit
    def nanpos(w):
        s = 0.0
        for a in range(w.shape[0]):
            for b in range(w.shape[1]):
                if np.isnan(w[a, b]):
                    s += a * 11 + b * 5 + 1
        return s

    # `first`/`last`/`centre`/`corner` must return one float type on every path
    @ngjit
    def first_(w):
        r = -1.0
        found = False
        for a in range(w.shape[0]):
            for b in range(w.shape[1]):
                if (not found) and (not np.isnan(w[a, b])):
                    r = float(w[a, b])
                    found = True
        return r

    @ngjit
    def last_(w):
        r = -1.0
        for a in range(w.shape[0]):
            for b in range(w.shape[1]):
                if not np.isnan(w[a, b]):
                    r = float(w[a, b])
        return r

    @ngjit
    def centre_(w):
        v = float(w[w.shape[0] // 2, w.shape[1] // 2])
        if np.isnan(v):
            return -7.0
        return v

    @ngjit
    def corner_(w):
        v = float(w[0, w.shape[1] - 1])
        if np.isnan(v):
            return -7.0
        return v

    _reducers.update(posw=posw, count=count, nanpos=nanpos, first=first_, last=last_, centre=centre_, corner=corner_)
    for s in STATS:
        _reducers["stat:" + s] = getattr(focal, "_calc_" + s)
    return _reducers


# ------------------------------------------------------------------ plain-Python oracle (from the property statement)
def isnan(v):
    return v != v


def exp_window(data, kernel, y, x):
    """what a reducer must receive at (y, x): data under the 1-entries (window centred, clipped), NaN elsewhere"""
    rows, cols = len(data), len(data[0])
    kr, kc = len(kernel), len(kernel[0])
    hr, hc = (kr - 1) // 2, (kc - 1) // 2
    w = [[NAN] * kc for _ in range(kr)]
    for a in range(kr):
        for b in range(kc):
            i, j = y - hr + a, x - hc + b
            if kernel[a][b] == 1 and 0 <= i < rows and 0 <= j < cols:
                w[a][b] = data[i][j]
    return w


def stat_of(name, vals):
    """the statistic of a list of finite-or-inf values (NaN already dropped).  mean / var / std of finite values are computed
    in exact rational arithmetic from the values as given (the float32-cast cells) and rounded once: the expected variance of a
    flat window is exactly 0 whatever the level, and an offset of 1e6 costs no digit of a spread of 1e-3"""
    n = len(vals)
    if name == "sum":
        return math.fsum(vals) if all(math.isfinite(v) for v in vals) else sum(vals)
    if n == 0:
        return NAN
    if name == "max":
        return max(vals)
    if name == "min":
        return min(vals)
    if name == "range":
        return max(vals) - min(vals)
    if not all(math.isfinite(v) for v in vals):
        s = sum(vals)
        if name == "mean":
            return s / n
        return NAN  # var / std with an infinite member: inf - inf
    fv = [Fraction(v) for v in vals]
    m = sum(fv) / n
    if name == "mean":
        return float(m)
    var = sum((v - m) ** 2 for v in fv) / n
    return float(var) if name == "var" else math.sqrt(var)


def py_reducer(name, w):
    flat = [(a, b, v) for a, row in enumerate(w) for b, v in enumerate(row)]
    if name.startswith("stat:"):
        return stat_of(name[5:], [v for _, _, v in flat if not isnan(v)])
    if name == "posw":
        return sum((a * 7 + b * 3 + 1) * v for a, b, v in flat if not isnan(v))
    if name == "count":
        return float(sum(1 for _, _, v in flat if not isnan(v)))
    if name == "nanpos":
        return float(sum(a * 11 + b * 5 + 1 for a, b, v in flat if isnan(v)))
    if name == "first":
        return next((v for _, _, v in flat if not isnan(v)), -1.0)
    if name == "last":
        return next((v for _, _, v in reversed(flat) if not isnan(v)), -1.0)
    if name == "centre":
        v = w[len(w) // 2][len(w[0]) // 2]
        return -7.0 if isnan(v) else v
    if name == "corner":
        v = w[0][-1]
        return -7.0 if isnan(v) else v
    raise KeyError(name)


def oracle_apply(data, kernel, func):
    rows, cols = len(data), len(data[0])
    return [[py_reducer(func, exp_window(data, kernel, y, x)) for x in range(cols)] for y in range(rows)]


def oracle_mean(data, passes, excludes):
    rows, cols = len(data), len(data[0])
    cur = [list(r) for r in data]
    for _ in range(passes):
        nxt = [[NAN] * cols for _ in range(rows)]
        for y in range(rows):
            for x in range(cols):
                v = cur[y][x]
                if any(v == e or (isnan(v) and isnan(e)) for e in excludes):
                    nxt[y][x] = v
                    continue
                s, n = 0.0, 0
                for i in (y - 1, y, y + 1):
                    for j in (x - 1, x, x + 1):
                        if 0 <= i < rows and 0 <= j < cols and not isnan(cur[i][j]):
                            s += cur[i][j]
                            n += 1
                nxt[y][x] = s / n if n else NAN
        cur = nxt
    return cur


def oracle_conv(data, kernel):
    rows, cols = len(data), len(data[0])
    kr, kc = len(kernel), len(kernel[0])
    hr, hc = (kr - 1) // 2, (kc - 1) // 2
    out = [[NAN] * cols for _ in range(rows)]
    for y in range(hr, rows - hr):
        for x in range(hc, cols - hc):
            s = 0.0
            for a in range(kr):
                for b in range(kc):
                    s += kernel[a][b] * data[y - hr + a][x - hc + b]
            out[y][x] = s
    return out


THRESH = (1.65, 1.96, 2.58)


def hot_class(z):
    if isnan(z):
        return 0
    c = 99 if abs(z) > 2.58 else 95 if abs(z) > 1.96 else 90 if abs(z) > 1.65 else 0
    return c if z > 0 else -c if z < 0 else 0


def borderline(z):
    return (not isnan(z)) and any(abs(abs(z) - t) <= 2e-4 * t for t in THRESH)


def oracle_hot_z(data, kernel):
    ks = sum(sum(r) for r in kernel)
    kn = [[v / ks for v in r] for r in kernel]
    m = oracle_conv(data, kn)
    vals = [v for r in data for v in r if not isnan(v)]
    gm = stat_of("mean", vals)
    gs = stat_of("std", vals)
    return [[(v - gm) / gs if gs != 0 else NAN for v in r] for r in m], gs


# ------------------------------------------------------------------ generators
FLOAT_DT = ["float64", "float32"]
INT_DT = ["int64", "int32"]


LEVELS = [0.1, 1 / 3, math.pi, 0.7, 2.5, 7.0, 19.1237, 27.315]
OFFSETS = [0.0, 0.0, 100.0, 273.15, 1912.37, 1e4, 12345.678, 1e5, 1e6]
SCALES = [1e-3, 0.01, 0.1, 1 / 3, math.pi, 1.0, 1.0, 10.0]


def gen_scaled(rng, rows, cols, dtype):
    """value re-scaling v -> a + b*v (a up to 1e6, b down to 1e-3; levels with full float32 mantissas such as 0.1, 1/3, pi)
    of a *flat* raster, a *two-level* raster (split along a column / a row, checkerboard, random mask), small integers or a
    ramp: the magnitude / scale classes real rasters come in (temperatures in K, elevations in m, reflectances 0..1) and the
    windows on which a statistic degenerates (every cell under the kernel equal; two plateaus).  Integer rasters: integer
    offsets up to 2^24 and steps 1 / 10 / 100.  -> (values, pattern, a, b)"""
    if dtype in INT_DT:
        a, b = rng.choice([0, 1000, 10 ** 5, 10 ** 6, 2 ** 24 - 40]), rng.choice([1, 1, 10, 100])
        levels = [float(rng.randrange(0, 60)) for _ in range(2)]
    else:
        a, b = rng.choice(OFFSETS), rng.choice(SCALES)
        levels = [rng.choice(LEVELS + [rng.uniform(0, 100), float(rng.randrange(1, 100))]) for _ in range(2)]
    pattern = rng.choice(["flat", "flat", "two-level", "two-level", "ints", "ramp"])
    if levels[0] == levels[1] and pattern == "two-level":
        levels[1] = levels[0] + 1.0
    if pattern == "flat":
        v = [[levels[0]] * cols for _ in range(rows)]
    elif pattern == "two-level":
        how = rng.choice(["cols", "rows", "checker", "mask"])
        cut_c, cut_r, dens = rng.randrange(1, max(2, cols)), rng.randrange(1, max(2, rows)), rng.choice([0.1, 0.3, 0.5])
        pick = dict(cols=lambda i, j: j >= cut_c, rows=lambda i, j: i >= cut_r, checker=lambda i, j: (i + j) % 2 == 1,
                    mask=lambda i, j: rng.random() < dens)[how]
        v = [[levels[1] if pick(i, j) else levels[0] for j in range(cols)] for i in range(rows)]
    elif pattern == "ints":
        v = [[float(rng.randrange(0, 10)) for _ in range(cols)] for _ in range(rows)]
    else:
        v = [[float(i * cols + j) for j in range(cols)] for i in range(rows)]
    return [a + b * x for row in v for x in row], pattern, a, b


def gen_data(rng, shape=None, dtype=None, kind=None):
    kind = kind or rng.choice(["small", "small", "dyadic", "wide", "distinct", "scaled", "scaled"])
    if kind == "scaled":
        shape = shape or (rng.randrange(3, 10), rng.randrange(3, 10))
    rows, cols = shape or (rng.randrange(1, 8), rng.randrange(1, 9))
    dtype = dtype or rng.choice(["float64"] * 5 + ["float32", "int64", "int32"])
    n = rows * cols
    if kind == "scaled":
        vals, pattern, off, unit = gen_scaled(rng, rows, cols, dtype)
        a = np.array(vals, dtype=np.float64).reshape(rows, cols).astype(dtype)
        nan_cells = 0
        if dtype in FLOAT_DT:
            p = rng.choice([0.0, 0.0, 0.0, 0.1, 0.3])
            for i in range(rows):
                for j in range(cols):
                    if rng.random() < p:
                        a[i, j] = np.nan
                        nan_cells += 1
        return a, dict(dtype=dtype, kind=kind, nan_cells=nan_cells, unit=float(unit), pattern=pattern,
                       offset="0" if off == 0 else "<=1e3" if off <= 1e3 else "<=1e5" if off <= 1e5 else ">1e5")
    if kind == "distinct" and n > 42:
        kind = "wide"
    if kind == "small":
        vals = [float(rng.randrange(0, 10)) for _ in range(n)]
    elif kind == "dyadic":
        vals = [rng.randrange(-40, 41) / 4 for _ in range(n)]
    elif kind == "wide":
        vals = [float(rng.randrange(-60, 61)) for _ in range(n)]
    else:  # distinct powers / primes: every window position is recognisable in a sum
        pool = [1, 2, 4, 8, 16, 32, 64, 128, 256, 512, 1024, 3, 5, 7, 11, 13, 17, 19, 23, 29, 31, 37, 41, 43, 47,
                53, 59, 61, 67, 71, 73, 79, 83, 89, 97, 101, 103, 107, 109, 113, 127, 131]
        rng.shuffle(pool)
        vals = [float(v) for v in pool[:n]]
    a = np.array(vals, dtype=np.float64).reshape(rows, cols)
    if dtype in INT_DT:
        a = np.floor(a)
    a = a.astype(dtype)
    nan_cells = 0
    if dtype in FLOAT_DT:
        p = rng.choice([0.0, 0.0, 0.15, 0.15, 0.4, 1.0 if rng.random() < 0.15 else 0.3])
        for i in range(rows):
            for j in range(cols):
                if rng.random() < p:
                    a[i, j] = np.nan
                    nan_cells += 1
    return a, dict(dtype=dtype, kind=kind, nan_cells=nan_cells)


BIG_SHAPES = [(3, 3), (3, 5), (5, 3), (5, 5), (5, 5), (3, 7), (7, 3), (5, 7), (7, 5), (7, 7), (7, 7)]


def gen_kernel_big(rng):
    """0/1 kernels 3x3 .. 7x7 that select many cells: all ones, an ellipse (circle kernels), dense / half-dense random"""
    kr, kc = rng.choice(BIG_SHAPES)
    how = rng.choice(["ones", "ones", "ellipse", "dense", "half"])
    hr, hc = kr // 2, kc // 2
    if how == "ones":
        return np.ones((kr, kc))
    if how == "ellipse":
        return np.array([[1.0 if ((a - hr) / (hr + 0.5)) ** 2 + ((b - hc) / (hc + 0.5)) ** 2 <= 1 else 0.0 for b in range(kc)]
                         for a in range(kr)])
    dens = 0.85 if how == "dense" else 0.5
    return np.array([[1.0 if rng.random() < dens else 0.0 for _ in range(kc)] for _ in range(kr)])


def scale_kw(info):
    """what a case records of a re-scaled raster (the oracle's tolerances are in units of the spread)"""
    if info["kind"] != "scaled":
        return {}
    return dict(unit=info["unit"], pattern=info["pattern"], offset=info["offset"])


def gen_kernel01(rng, max_side=7, shape=None):
    kr, kc = shape or (rng.choice([1, 3, 3, 3, 5, 7][:max(1, max_side)]), rng.choice([1, 3, 3, 3, 5, 7]))
    dens = rng.choice([0.2, 0.5, 0.5, 0.8, 1.0])
    k = np.array([[1.0 if rng.random() < dens else 0.0 for _ in range(kc)] for _ in range(kr)])
    return k


def mk(a, chunks=None):
    if chunks is not None:
        import dask.array as da
        a = da.from_array(a, chunks=(tuple(chunks[0]), tuple(chunks[1])))
    return xr.DataArray(a, dims=["y", "x"])


def val(x):
    """the computed value of a (possibly Dask-backed) result"""
    if hasattr(x, "compute"):
        x = x.compute(scheduler="synchronous")
    return np.asarray(x)


def rows_of(a):
    return [[float(v) for v in r] for r in np.asarray(a, dtype=np.float64).tolist()]


def grid(a):
    a = np.asarray(a, dtype=np.float64)
    return f"{a.shape[0]}x{a.shape[1]}:" + ",".join(tok(v) for v in a.ravel().tolist())


def parse_flat(s):
    shape, body = s.split(":", 1)
    h, w = (int(t) for t in shape.split("x"))
    vals = [untok(t) for t in body.split(",")] if body else []
    return [vals[i * w:(i + 1) * w] for i in range(h)]


def jcase(kind, data, dtype, kernel=None, kdtype=None, **kw):
    c = dict(kind=kind, dtype=dtype, data=[[tok(v) for v in r] for r in np.asarray(data, dtype=np.float64).tolist()])
    if kernel is not None:
        c["kernel"] = [[tok(v) for v in r] for r in np.asarray(kernel, dtype=np.float64).tolist()]
        c["kdtype"] = kdtype or "float64"
    c.update(kw)
    return c


def from_j(c):
    data = np.array([[untok(t) for t in r] for r in c["data"]], dtype=np.float64).reshape(len(c["data"]), -1).astype(c["dtype"])
    kernel = None
    if "kernel" in c:
        kernel = np.array([[untok(t) for t in r] for r in c["kernel"]], dtype=np.float64).astype(c["kdtype"])
    return data, kernel


def tol_of(c, data, kernel, stat=None):
    """tolerance of a value comparison for this case: 2e-5 relative, 2e-5 absolute *in units of the raster's spread* (`unit`: the
    b of a re-scaled raster a + b*v, 1 otherwise; squared for a variance), plus what a float64 evaluation over the window can
    lose against the exact value: n * 2^-50 * max|cell| on a mean (hence on a standard deviation of a flat window; squared on its
    variance) and on a kernel-weighted sum whose terms cancel.  Unscaled rasters (|cell| <= 2048): the added terms are < 1e-10."""
    unit = float(c.get("unit", 1.0))
    fin = np.abs(data[np.isfinite(data)]) if data.size else np.array([])
    mag = float(fin.max()) if fin.size else 0.0
    kabs = float(np.nansum(np.abs(kernel))) if kernel is not None else 9.0
    lost = max(kabs, 1.0) * 2.0 ** -50 * mag
    if stat == "var":
        return dict(rel=TOL["rel"], abs_=TOL["abs_"] * unit * unit + lost * lost)
    return dict(rel=TOL["rel"], abs_=TOL["abs_"] * unit + lost)


def negative_moment(stat, real, exp):
    """a variance / standard deviation is a non-negative real number wherever the window holds a valid cell (the expected value
    is not NaN): -> None or (i, j, real, expected)"""
    if stat not in ("var", "std"):
        return None
    for i, (rr, er) in enumerate(zip(real, exp)):
        for j, (a, b) in enumerate(zip(rr, er)):
            if not isnan(float(b)) and (isnan(float(a)) or float(a) < 0):
                return (i, j, float(a), float(b))
    return None


def grids_close(real, exp, tol=TOL):
    """-> None or (i, j, real, expected)"""
    for i, (rr, er) in enumerate(zip(real, exp)):
        for j, (a, b) in enumerate(zip(rr, er)):
            if not close(float(a), float(b), **tol):
                return (i, j, float(a), float(b))
    if len(real) != len(exp) or any(len(a) != len(b) for a, b in zip(real, exp)):
        return (-1, -1, "shape", "shape")
    return None


# ------------------------------------------------------------------ running the real code
def run_real(c):
    """-> (status, payload): 'ok' + nested float lists (or list of layers), or the exception class name"""
    from xrspatial import convolution, focal
    data, kernel = from_j(c)
    kind = c["kind"]
    ch = c.get("chunks")
    try:
        if kind == "apply":
            out = focal.apply(mk(data, ch), kernel, reducers()[c["func"]])
            return "ok", rows_of(val(out.data))
        if kind == "stats":
            out = focal.focal_stats(mk(data, ch), kernel, stats_funcs=list(c["stats"]))
            names = [str(s) for s in out.coords["stats"].values.tolist()]
            layers = val(out.data)
            return "ok", dict(names=names, layers=[rows_of(layers[i]) for i in range(out.shape[0])])
        if kind == "mean":
            ex = [untok(t) for t in c["excludes"]]
            out = focal.mean(mk(data, ch), passes=c["passes"], excludes=ex)
            return "ok", rows_of(val(out.data))
        if kind == "conv":
            out = convolution.convolution_2d(mk(data, ch), kernel)
            return "ok", rows_of(val(out.data))
        if kind == "hot":
            out = focal.hotspots(mk(data, ch), kernel)
            return "ok", rows_of(val(out.data))
        if kind == "malformed":
            return run_malformed(c, data, kernel)
    except Exception as ex:  # ValueError / TypeError / KeyError / ZeroDivisionError / numba TypingError ...
        import re
        msg = " ".join(re.sub(r"\x1b\[[0-9;]*m", "", str(ex)).split())
        return type(ex).__name__, msg[:200]
    raise AssertionError(kind)


def run_malformed(c, data, kernel):
    from xrspatial import focal
    what, fn = c["what"], c["fn"]
    r = mk(data)
    k = kernel
    if what == "kernel-list":
        k = kernel.tolist()
    elif what == "kernel-1d":
        k = kernel.ravel()
    elif what == "raster-ndarray":
        r = data
    elif what == "raster-3d":
        r = xr.DataArray(data[None, :, :])
    if fn == "apply":
        out = focal.apply(r, k)
    else:
        out = focal.focal_stats(r, k, stats_funcs=["mean"])
    return "ok", rows_of(np.asarray(out.data).reshape(-1, data.shape[1]))


def request(c):
    data, kernel = from_j(c)
    kind = c["kind"]
    if kind == "apply":
        return f"fapply data={grid(data.astype('f4'))} kernel={grid(kernel)} func={c['func']}"
    if kind == "stats":
        return f"fstats data={grid(data.astype('f4'))} kernel={grid(kernel)} stats={','.join(c['stats'])}"
    if kind == "mean":
        return f"fmean data={grid(data.astype(float))} passes={c['passes']} excludes={','.join(c['excludes'])}"
    if kind == "conv":
        return f"fconv data={grid(data.astype('f4'))} kernel={grid(kernel)}"
    if kind == "hot":
        return f"fhot data={grid(data.astype('f4'))} kernel={grid(kernel)}"
    if kind == "malformed":
        return f"fvalid krows={kernel.shape[0]} kcols={kernel.shape[1]}"
    raise AssertionError(kind)


# ------------------------------------------------------------------ the property oracle on the real output
def oracle(c, status, out):
    """None, or (finding key, description) when the *property* fails on the real code for this case"""
    data, kernel = from_j(c)
    kind = c["kind"]
    if kind == "apply":
        if status != "ok":
            return ("apply:raised", f"apply raised {status}: {out}")
        exp = oracle_apply(rows_of(data.astype("f4")), rows_of(kernel), c["func"])
        stat = c["func"][5:] if c["func"].startswith("stat:") else None
        neg = negative_moment(stat, out, exp)
        if neg:
            return ("apply:stat", f"apply func={c['func']}: cell ({neg[0]},{neg[1]}) is {neg[2]}: the {stat} of the cells under the "
                                  f"kernel is a non-negative number ({neg[3]})")
        bad = grids_close(out, exp, tol_of(c, data.astype("f4"), kernel, stat))
        if bad:
            return ("apply:" + ("stat" if c["func"].startswith("stat:") else "window"),
                    f"apply func={c['func']}: cell ({bad[0]},{bad[1]}) is {bad[2]}, the window under the kernel gives {bad[3]}")
        return None
    if kind == "stats":
        known = all(s in STATS for s in c["stats"])
        if not known:
            return None if status == "KeyError" else ("stats:unknown-name", f"unknown stat name accepted: {status}")
        if status != "ok":
            return ("stats:raised", f"focal_stats raised {status}: {out}")
        if out["names"] != list(c["stats"]):
            return ("stats:order", f"layers labelled {out['names']} for request {c['stats']}")
        d, k = rows_of(data.astype("f4")), rows_of(kernel)
        for s, layer in zip(c["stats"], out["layers"]):
            exp = oracle_apply(d, k, "stat:" + s)
            neg = negative_moment(s, layer, exp)
            if neg:
                return ("stats:" + s, f"focal_stats layer '{s}': cell ({neg[0]},{neg[1]}) is {neg[2]}: the {s} of the cells under the "
                                      f"kernel is a non-negative number ({neg[3]})")
            bad = grids_close(layer, exp, tol_of(c, data.astype("f4"), kernel, s))
            if bad:
                return ("stats:" + s, f"focal_stats layer '{s}': cell ({bad[0]},{bad[1]}) is {bad[2]}, the cells under the kernel give {bad[3]}")
        return None
    if kind == "mean":
        ex = [untok(t) for t in c["excludes"]]
        if status != "ok":
            key = "mean:empty-excludes" if not ex else "mean:raised"
            return (key, f"mean(passes={c['passes']}, excludes={ex}) raised {status}: {out}")
        exp = oracle_mean(rows_of(data.astype(float)), c["passes"], ex)
        bad = grids_close(out, exp, dict(rel=1e-9, abs_=1e-9 * float(c.get("unit", 1.0))))
        if bad:
            return ("mean:value", f"mean passes={c['passes']} excludes={ex}: cell ({bad[0]},{bad[1]}) is {bad[2]}, "
                                  f"iterated clipped 3x3 mean with pass-through gives {bad[3]}")
        return None
    if kind == "conv":
        if status != "ok":
            return ("conv:raised", f"convolution_2d raised {status}: {out}")
        exp = oracle_conv(rows_of(data.astype("f4")), rows_of(kernel))
        bad = grids_close(out, exp, tol_of(c, data.astype("f4"), kernel))
        if bad:
            return ("conv:value", f"convolution_2d: cell ({bad[0]},{bad[1]}) is {bad[2]}, kernel-weighted window sum gives {bad[3]}")
        return None
    if kind == "hot":
        d = rows_of(data.astype("f4"))
        vals = [v for r in d for v in r if not isnan(v)]
        const = len(set(vals)) <= 1
        if status == "ZeroDivisionError":
            return None if const else ("hot:zero-std", "ZeroDivisionError raised for a raster with two distinct values")
        if status != "ok":
            return ("hot:raised", f"hotspots raised {status}: {out}")
        if const and c.get("chunks"):
            # the Dask path cannot test the deviation without computing; the property says nothing about a raster
            # without deviation, so only the value set is judged
            bad = [v for r in out for v in r if v not in {0.0, 90.0, -90.0, 95.0, -95.0, 99.0, -99.0}]
            return ("hot:values", f"hotspots returned {bad[0]}") if bad else None
        if const and vals:
            return ("hot:zero-std", "constant raster accepted (global standard deviation is 0)")
        allowed = {0.0, 90.0, -90.0, 95.0, -95.0, 99.0, -99.0}
        for r in out:
            for v in r:
                if v not in allowed:
                    return ("hot:values", f"hotspots returned {v}")
        z, _ = oracle_hot_z(d, rows_of(kernel))
        for i, (zr, orow) in enumerate(zip(z, out)):
            for j, (zv, ov) in enumerate(zip(zr, orow)):
                if borderline(zv):
                    continue
                if hot_class(zv) != ov:
                    return ("hot:class", f"hotspots cell ({i},{j}) is {ov}; z-score {zv} -> {hot_class(zv)}")
        if c["dtype"] in ("float64", "float32", "int64", "int32"):
            c2 = dict(c, data=[[tok(-untok(t)) for t in r] for r in c["data"]])
            st2, out2 = run_real(c2)
            if st2 != "ok":
                return ("hot:negate", f"negated raster raised {st2}")
            for i, (r1, r2) in enumerate(zip(out, out2)):
                for j, (a, b) in enumerate(zip(r1, r2)):
                    if a != -b:
                        return ("hot:negate", f"hotspots(-raster)[{i},{j}] = {b} but hotspots(raster) = {a}")
        return None
    if kind == "malformed":
        want = {"kernel-list": "ValueError", "kernel-1d": "ValueError", "kernel-even": "ValueError",
                "raster-ndarray": "TypeError", "raster-3d": "ValueError", "valid": "ok"}[c["what"]]
        if status != want:
            return ("validation:" + c["what"], f"{c['fn']} with {c['what']} (kernel shape {kernel.shape}): {status}, expected {want}")
        return None
    raise AssertionError(kind)


# ------------------------------------------------------------------ model vs real
def compare_model(r, c, status, out, reply):
    """record a disagreement between the Lean model's reply and the real output"""
    kind = c["kind"]
    stream = "model-vs-real:" + kind

    def dis(what_real, what_model):
        r.disagree(stream, c, what_real, what_model)

    if kind == "malformed":
        if c["what"] in ("kernel-even", "valid"):
            real_acc = "1" if status == "ok" else "0"
            if reply != real_acc:
                dis(f"custom_kernel accepted={real_acc} ({status})", f"model accepted={reply}")
        return
    if reply.startswith("err:"):
        if kind == "hot" and c.get("chunks") and reply == "err:ZeroDivisionError" and status == "ok":
            return  # the lazy Dask path does not evaluate the zero-deviation guard (outside the property text)
        if status != reply[4:]:
            dis(f"status {status}", reply)
        return
    if reply.startswith("bad-"):
        dis(f"status {status}", "driver: " + reply)
        return
    if status != "ok":
        if kind == "mean" and not c["excludes"]:
            return  # reported through the oracle (numba cannot type an empty tuple)
        dis(f"status {status}: {out}", "model computed a result")
        return
    if kind == "stats":
        layers = [parse_flat(s) for s in reply.split("|")] if reply else []
        if len(layers) != len(out["layers"]):
            dis(f"{len(out['layers'])} layers", f"{len(layers)} layers")
            return
        for s, a, b in zip(c["stats"], out["layers"], layers):
            bad = grids_close(a, b)
            if bad:
                dis(f"layer {s} ({bad[0]},{bad[1]}) = {bad[2]}", f"{bad[3]}")
                return
        return
    if kind == "hot":
        zs, cs = reply.split(" ")
        z, cl = parse_flat(zs[2:]), parse_flat(cs[2:])
        for i, (zr, cr, orow) in enumerate(zip(z, cl, out)):
            for j, (zv, cv, ov) in enumerate(zip(zr, cr, orow)):
                if borderline(zv):
                    r.tag("hot:borderline_skipped")
                    continue
                if cv != ov:
                    dis(f"({i},{j}) class {ov}", f"class {cv} (z = {zv})")
                    return
        return
    tol = dict(rel=1e-9, abs_=1e-9) if kind == "mean" else TOL
    bad = grids_close(out, parse_flat(reply), tol)
    if bad:
        dis(f"({bad[0]},{bad[1]}) = {bad[2]}", f"{bad[3]}")


# ------------------------------------------------------------------ case streams
def s_apply_random(rng, n, restricted_dtypes=True):
    for _ in range(n):
        data, info = gen_data(rng)
        kernel = gen_kernel01(rng)
        kd = "float64"
        funcs = ["stat:" + s for s in STATS] + USER
        scaled = info["kind"] == "scaled"
        if scaled:
            kernel = gen_kernel_big(rng)
            funcs = ["stat:var", "stat:std", "stat:var", "stat:std", "stat:mean", "stat:range", "stat:sum", "stat:max", "posw", "centre"]
        if info["dtype"] != "float64":
            # (every (raster dtype, reducer) pair is one more numba specialisation of _apply_numpy)
            funcs = ["stat:mean", "stat:sum", "posw"] + (["stat:var", "stat:std"] * 2 if scaled and info["dtype"] == "float32" else [])
        elif scaled:
            pass
        elif rng.random() < 0.12:
            kd = "int64"
            funcs = ["stat:mean", "posw"]
        func = rng.choice(funcs)
        if kd == "float64" and rng.random() < 0.12:  # entries that are not 0/1 select nothing
            for _ in range(rng.randrange(1, 4)):
                kernel[rng.randrange(kernel.shape[0]), rng.randrange(kernel.shape[1])] = rng.choice([2.0, 0.5, -1.0, np.nan])
        yield jcase("apply", data, info["dtype"], kernel.astype(kd), kd, func=func, gen=info["kind"], nan_cells=info["nan_cells"],
                    **scale_kw(info))


EXH_SHAPES = [(1, 1), (1, 3), (3, 1), (3, 3)]
EXH_RASTERS = [
    ("float64", [[1, 2, 4, 8], [16, 32, NAN, 128], [256, 512, 1024, 2048]]),
    ("float64", [[3, 5], [7, 11]]),
    ("int64", [[1, 2, 4]]),
]


def all_kernels(shape):
    kr, kc = shape
    n = kr * kc
    for m in range(2 ** n):
        yield np.array([[float((m >> (a * kc + b)) & 1) for b in range(kc)] for a in range(kr)])


def s_apply_exhaustive(rng, sample=None):
    ks = [k for sh in EXH_SHAPES for k in all_kernels(sh)]
    if sample is not None:
        ks = [ks[i] for i in sorted(rng.sample(range(len(ks)), sample))]
    for k in ks:
        for dt, rows in EXH_RASTERS:
            for func in ("posw", "stat:mean"):
                yield jcase("apply", np.array(rows, dtype=np.float64), dt, k, "float64", func=func, gen="exhaustive", nan_cells=1)


def s_stats(rng, n):
    for _ in range(n):
        data, info = gen_data(rng, dtype=rng.choice(["float64"] * 4 + ["float32", "int64"]))
        scaled = info["kind"] == "scaled"
        if info["dtype"] != "float64":
            stats = rng.sample(["mean", "sum"], rng.randrange(1, 3))
            if scaled and info["dtype"] == "float32":
                stats = rng.sample(["mean", "sum", "var", "std"], rng.randrange(1, 5))
        else:
            stats = rng.sample(STATS, rng.randrange(1, 8))
            if rng.random() < 0.3:
                stats = list(STATS)
            if rng.random() < 0.08:
                stats.insert(rng.randrange(len(stats) + 1), rng.choice(["median", "Mean", "count"]))
        yield jcase("stats", data, info["dtype"], gen_kernel_big(rng) if scaled else gen_kernel01(rng), "float64", stats=stats,
                    gen=info["kind"], nan_cells=info["nan_cells"], **scale_kw(info))


EXCLUDES = [["nan"], ["nan"], ["nan", "0"], ["2"], ["nan", "1", "3"], ["0"], ["nan", "5"], ["-1", "7"], []]


def s_mean(rng, n):
    for _ in range(n):
        data, info = gen_data(rng, kind=rng.choice(["small", "small", "dyadic", "wide", "scaled"]))
        ex = rng.choice(EXCLUDES)
        yield jcase("mean", data, info["dtype"], passes=rng.choice([0, 1, 1, 2, 2, 3, 4]), excludes=list(ex),
                    gen=info["kind"], nan_cells=info["nan_cells"], **scale_kw(info))


def s_conv(rng, n):
    for _ in range(n):
        data, info = gen_data(rng, shape=(rng.randrange(1, 9), rng.randrange(1, 9)))
        kr, kc = rng.choice([1, 3, 3, 5, 7]), rng.choice([1, 3, 3, 5, 7])
        if rng.random() < 0.8:  # mostly kernels that fit (otherwise the whole output is NaN)
            kr = rng.choice([k for k in (1, 3, 5, 7) if k <= data.shape[0]])
            kc = rng.choice([k for k in (1, 3, 5, 7) if k <= data.shape[1]])
        wk = rng.choice(["int", "dyadic", "01"])
        if wk == "int":
            k = np.array([[float(rng.randrange(-3, 4)) for _ in range(kc)] for _ in range(kr)])
        elif wk == "dyadic":
            k = np.array([[rng.randrange(-8, 9) / 4 for _ in range(kc)] for _ in range(kr)])
        else:
            k = gen_kernel01(rng, shape=(kr, kc))
        kd = "int64" if (wk != "dyadic" and rng.random() < 0.15) else "float64"
        yield jcase("conv", data, info["dtype"], k.astype(kd), kd, gen=info["kind"] + "/" + wk, nan_cells=info["nan_cells"],
                    **scale_kw(info))


def s_hot(rng, n):
    for _ in range(n):
        rows, cols = rng.randrange(2, 8), rng.randrange(2, 9)
        dtype = rng.choice(["float64", "float64", "int64", "float32", "int32"])
        a = np.zeros((rows, cols))
        mode = rng.choice(["spikes", "spikes", "ramp", "const", "noise"])
        if mode == "spikes":
            for _ in range(rng.randrange(1, 4)):
                a[rng.randrange(rows), rng.randrange(cols)] = rng.choice([100, -100, 1000, -1000, 50, -900])
        elif mode == "ramp":
            a = np.arange(rows * cols, dtype=float).reshape(rows, cols) * rng.choice([1, -1, 3])
        elif mode == "noise":
            a = np.array([[float(rng.randrange(-5, 6)) ** 3 for _ in range(cols)] for _ in range(rows)])
        else:
            a[:] = rng.choice([0, 4, -2])
        a = a.astype(dtype)
        nan_cells = 0
        if dtype in FLOAT_DT and rng.random() < 0.3:
            a[rng.randrange(rows), rng.randrange(cols)] = np.nan
            nan_cells = 1
        kr, kc = rng.choice([1, 3, 3, 5]), rng.choice([1, 3, 3, 5])
        if rng.random() < 0.8:
            kr = rng.choice([k for k in (1, 3, 5) if k <= rows])
            kc = rng.choice([k for k in (1, 3, 5) if k <= cols])
        k = gen_kernel01(rng, shape=(kr, kc))
        if k.sum() == 0:
            k[k.shape[0] // 2, k.shape[1] // 2] = 1.0
        yield jcase("hot", a, dtype, k, "float64", gen=mode, nan_cells=nan_cells)


def s_malformed(rng, n):
    for _ in range(n):
        data, info = gen_data(rng, dtype="float64", kind="small")
        what = rng.choice(["kernel-list", "kernel-1d", "kernel-even", "kernel-even", "raster-ndarray", "raster-3d", "valid"])
        if what == "kernel-even":
            shape = rng.choice([(2, 3), (3, 2), (2, 2), (4, 1), (1, 4), (4, 6), (3, 4)])
        else:
            shape = rng.choice([(1, 1), (3, 3), (1, 3), (5, 3)])
        k = np.ones(shape)
        yield jcase("malformed", data, "float64", k, "float64", what=what, fn=rng.choice(["apply", "focal_stats"]), gen=what, nan_cells=0)


def composition(rng, n):
    out, left = [], n
    while left > 0:
        k = rng.randrange(1, left + 1) if rng.random() < 0.7 else 1
        out.append(k)
        left -= k
    return out


def gen_chunks(rng, rows, cols):
    """a split of the raster into blocks: (row chunk sizes, column chunk sizes), and its name"""
    how = rng.choice(["ones", "ones", "single", "row-strips", "col-strips", "random", "random", "random"])
    if how == "ones":
        return [[1] * rows, [1] * cols], how
    if how == "single":
        return [[rows], [cols]], how
    if how == "row-strips":
        return [composition(rng, rows), [cols]], how
    if how == "col-strips":
        return [[rows], composition(rng, cols)], how
    return [composition(rng, rows), composition(rng, cols)], how


DASK_EXCLUDES = [["nan"], ["nan"], [], [], ["0"], ["0"], ["nan", "0"], ["2"], ["nan", "1", "3"]]


def s_dask(rng, n):
    """the five public functions on Dask-backed rasters, judged by the same oracle as the NumPy streams.
    Kernels no wider than the raster allows (dask refuses a halo deeper than the array)."""
    sources = dict(mean=s_mean, apply=s_apply_random, stats=s_stats, conv=s_conv, hot=s_hot)
    order = ["mean", "mean", "mean", "apply", "apply", "stats", "conv", "conv", "hot"]
    made = 0
    while made < n:
        kind = rng.choice(order)
        c = next(iter(sources[kind](rng, 1)))
        rows, cols = len(c["data"]), len(c["data"][0])
        if "kernel" in c:
            kr, kc = len(c["kernel"]), len(c["kernel"][0])
            if kr // 2 > rows or kc // 2 > cols:
                continue
        if kind == "mean":
            c["passes"] = rng.choice([0, 1, 2, 2, 3, 3])
            c["excludes"] = list(rng.choice(DASK_EXCLUDES))
        c["chunks"], c["chunking"] = gen_chunks(rng, rows, cols)
        made += 1
        yield c


def tags_of(c):
    t = [f"kind:{c['kind']}", f"dtype:{c['dtype']}", f"gen:{c.get('gen')}"]
    if "unit" in c:
        t += [f"scaled:pattern={c.get('pattern')}", f"scaled:offset={c.get('offset')}",
              "scaled:unit=" + ("<=1e-2" if c["unit"] <= 0.01 else "<1" if c["unit"] < 1 else "1" if c["unit"] == 1 else ">1")]
    if c.get("chunks"):
        t += ["backend:dask", f"chunking:{c.get('chunking')}", f"blocks:{min(len(c['chunks'][0]) * len(c['chunks'][1]), 9)}",
              f"dask-kind:{c['kind']}"]
        if c["kind"] == "mean":
            t.append(f"dask-mean-passes:{c['passes']}")
    if "kernel" in c:
        kr, kc = len(c["kernel"]), len(c["kernel"][0])
        rows, cols = len(c["data"]), len(c["data"][0])
        t.append(f"kshape:{kr}x{kc}")
        t.append("kernel:" + ("square" if kr == kc else "non-square"))
        k = np.array([[untok(v) for v in r] for r in c["kernel"]])
        if kr == kc and not np.array_equal(k, k.T, equal_nan=True):
            t.append("kernel:asymmetric")
        if not np.array_equal(k, k[::-1, ::-1], equal_nan=True):
            t.append("kernel:not-point-symmetric")
        if kr > rows or kc > cols:
            t.append("kernel:larger-than-raster")
        t.append(f"kdtype:{c['kdtype']}")
    if c.get("nan_cells"):
        t.append("has-nan-cells")
    for key in ("func", "passes", "what"):
        if key in c:
            t.append(f"{key}:{c[key]}")
    if c["kind"] == "mean":
        t.append("excludes:" + ",".join(c["excludes"]))
    return t


def nontrivial(c):
    if c["kind"] == "malformed":
        return True
    cells = sum(1 for r in c["data"] for v in r if v != "nan")
    return cells >= 2


def process(r, cases, stream):
    """run real + oracle per case, then the model in one driver batch"""
    pend, reqs = [], []
    for c in cases:
        c = dict(c)
        c["stream"] = stream
        status, out = run_real(c)
        r.case({k: v for k, v in c.items() if k not in ("gen", "nan_cells", "stream", "chunking", "pattern", "offset")},
               desc={k: v for k, v in c.items() if k not in ("nan_cells",)} if r.evaluations % 97 == 0 else None,
               nontrivial=nontrivial(c), tags=tags_of(c) + [f"status:{status}", f"stream:{stream}"])
        bad = oracle(c, status, out)
        if bad:
            r.fail(bad[0], bad[1], c)
        pend.append((c, status, out))
        reqs.append(request(c))
    replies = Driver().ask(reqs)
    for (c, status, out), rep in zip(pend, replies):
        compare_model(r, c, status, out, rep)


def check_scalars(r):
    """the generated `_equal_numpy` condition and hotspot classifier against the real numba functions"""
    from xrspatial import focal
    vals = [NAN, 0.0, -0.0, 1.0, 2.0, 2.5, -3.0, float("inf")]
    reqs, want = [], []
    for a in vals:
        for b in vals:
            reqs.append(f"feq a={tok(a)} b={tok(b)}")
            want.append("1" if focal._equal_numpy(a, b) else "0")
            r.case(dict(kind="equal_numpy", a=tok(a), b=tok(b)), nontrivial=True, tags=["kind:equal_numpy"])
    zs = [NAN, 0.0, 1.0, 1.29, 1.3, 1.64, 1.65, 1.66, 1.95, 1.96, 1.97, 2.0, 2.32, 2.33, 2.34, 2.57, 2.58, 2.59, 3.0, 50.0,
          float("inf")]
    zs = zs + [-z for z in zs[1:]]
    real = focal._calc_hotspots_numpy(np.array([zs], dtype=np.float64))[0].tolist()
    reqs.append("fclass z=" + ",".join(tok(z) for z in zs))
    want.append(",".join(tok(float(v)) for v in real))
    for z, v in zip(zs, real):
        r.case(dict(kind="hot_class", z=tok(z)), nontrivial=True, tags=["kind:hot_class"])
        if not isnan(z) and float(v) != hot_class(z):
            r.fail("hot:class", f"_calc_hotspots_numpy({z}) = {v}, thresholds 1.65/1.96/2.58 give {hot_class(z)}", dict(kind="hot_class", z=tok(z)))
    for q, w, rep in zip(reqs, want, Driver().ask(reqs)):
        try:
            same = [untok(t) for t in rep.split(",")] == [untok(t) for t in w.split(",")]
        except ValueError:
            same = False
        if not same:
            r.disagree("model-vs-real:scalar", q, w, rep)


SIZES = {
    "quick": dict(apply=500, exh=120, stats=100, mean=300, conv=300, hot=200, malformed=60, dask=300),
    "thorough": dict(apply=27000, exh=None, stats=4000, mean=15000, conv=15000, hot=8000, malformed=600, dask=6000),
}


def run(r, scale=1):
    r.rule = ("rasters 1..7 x 1..8 (conv up to 8x8), dtypes float64/float32/int64/int32, values from small ints, dyadics, "
              "-60..60, distinct powers/primes, and (2 in 7; apply, focal_stats, mean, convolution and their Dask twins) re-scaled rasters a + b*v "
              "3..9 x 3..9 with a in {0, 100, 273.15, 1912.37, 1e4, 12345.678, 1e5, 1e6}, b in {1e-3 .. 10, 1/3, pi}, v flat / two-level "
              "(column / row split, checkerboard, random mask; levels 0.1, 1/3, pi, random doubles) / small ints / ramp, float64 / float32 "
              "/ int (offsets to 2^24), with kernels 3x3..7x7 of all ones / an ellipse / dense: the expected statistic is computed in exact "
              "rational arithmetic from the float32-cast cells, var >= 0 and std not NaN wherever a valid cell lies under the kernel, "
              "tolerances in units of b; NaN density 0..100%; kernels: odd shapes 1..7 x 1..7 (non-square, asymmetric, "
              "larger than the raster), 0/1 entries of density 0.2..1, some non-0/1 and NaN entries, int and float dtype; "
              "weighted kernels for convolution; reducers: 7 built-ins + 7 jitted user reducers (position-weighted, first/last, "
              "NaN-position, centre, corner); passes 0..4; excludes lists incl. empty; thorough: all 0/1 kernels of shapes "
              "1x1,1x3,3x1,3x3 on three rasters; dask stream: mean (passes 0..3, excludes [nan] / [] / [0] / ...), apply, focal_stats, "
              "convolution_2d, hotspots on Dask-backed rasters split into 1-cell chunks, one chunk, row / column strips and random "
              "compositions, judged by the same property oracle; non-trivial = at least two non-NaN cells")
    sz = SIZES[r.tier]
    for body in r.corpus():
        c = body.get("case", body)
        status, out = run_real(c)
        r.case(c, nontrivial=True, tags=["stream:corpus", f"kind:{c['kind']}"])
        bad = oracle(c, status, out)
        if bad:
            r.fail(bad[0], bad[1], c)
    check_scalars(r)
    process(r, s_apply_exhaustive(r.rng, sample=sz["exh"]), "apply-small-kernels")
    if sz["exh"] is None:
        r.exhaustive = "all 0/1 kernels of shapes 1x1, 1x3, 3x1, 3x3 (530) x 3 rasters x {posw, mean}"
    process(r, s_apply_random(r.rng, sz["apply"] * scale), "apply-random")
    process(r, s_stats(r.rng, sz["stats"] * scale), "focal_stats")
    process(r, s_mean(r.rng, sz["mean"] * scale), "mean")
    process(r, s_conv(r.rng, sz["conv"] * scale), "convolution")
    process(r, s_hot(r.rng, sz["hot"] * scale), "hotspots")
    process(r, s_malformed(r.rng, sz["malformed"] * scale), "malformed")
    process(r, s_dask(r.rng, sz["dask"] * scale), "dask")
    # layer T3: the generated ILang program of `_convolve_2d_numpy` (subject of il_convolve_refines) against the numba
    # function: result array and both inputs after the call, compared exactly on exactly computable inputs
    il_corr.stream(r, ["convolve2d"], (600 if r.tier == "quick" else 6000) * scale)
    # the other focal programs of layer T3 (`_mean_numpy`, `_apply_numpy` bound to each of the seven statistic functions):
    # the subjects of il_mean_refines / il_apply_refines (Props/C09.lean Part D) against the numba functions
    il_corr.stream(r, ["meanNumpy", "applyMean", "applySum", "applyMin", "applyMax", "applyRange", "applyStd", "applyVar"],
                   (300 if r.tier == "quick" else 3000) * scale)
    r.trusted += ["numba / numpy (np.nanmean, np.nansum, np.nanmin, np.nanmax, np.nanstd, np.nanvar are modelled by hand and "
                  "validated by the correspondence run)", "xarray DataArray construction"]
    r.assumptions += ["exact field arithmetic in the value theorems (float32 rounding covered by the correspondence run only)",
                      "±inf cells are outside the NV model (covered by the Float driver in the correspondence run only)",
                      "the model is of the numpy backend; the Dask-backed calls are judged by the property oracle and compared "
                      "with the same model (that Dask = NumPy for every chunking / scheduler is C01's theorem)"]


def search(r):
    """a proof obligation or the correspondence broke: look for a failing input with the oracle on more cases"""
    run(r, scale=3)


def replay(r, body):
    c = body["case"]
    if "prog" in c:                       # a case of an il:<prog> stream (translator validation, layer T3)
        bad = il_corr.replay_case(c)
        print("still disagrees" if bad else "does not fail on the current tree")
        return bad
    if c.get("kind") in ("equal_numpy", "hot_class"):
        check_scalars(r)
        bad = r.failures or r.disagreements
        print("still fails" if bad else "does not fail on the current tree")
        return 1 if bad else 0
    status, out = run_real(c)
    bad = oracle(c, status, out)
    if bad:
        print("still fails:", bad[1])
        return 1
    print("does not fail on the current tree")
    return 0
