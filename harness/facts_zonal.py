"""
Layer T2 facts for C02 / C03 / C04: structural facts of xrspatial/zonal.py -> lean/XrsVerif/Gen/Zonal.lean.

Every fact is read from the `ast` of /repo's *current* source.  A shape that is not recognised is
emitted as the value the theorems cannot work with (`false` / `Comb.unknown`), never as a default
that would make them pass.  The theorems of Props/C02..C04 mention these constants, so an edit of
the source changes the statement `lake build` has to accept; the Lean driver runs the model with the
same constants, so the correspondence run compares the code with the model *of that code*.

  stripIndices      D1  `_sort_and_stride` drops the non-finite-zone entries from `sorted_indices`
                        before `values_by_zones` is gathered
  comb*             D2  the shapes of the `_DASK_STATS` lambdas
  blockStatsOk          the shapes of the `_DASK_BLOCK_STATS` lambdas
  dask*Args             which columns `_stats_dask_numpy` hands to `_dask_mean/_std/_var`
  catStartAlways    D3  `cat_start = zone_cat_breaks[j]` is executed for every category
  rowsSortedNumpy   D4  `_crosstab_numpy` lists the requested zones in the order of `unique_zones`
  rowsSortedDask    D4  same for `_crosstab_dask_numpy`
  statsAligns           `stats` calls `validate_arrays(zones, values)` (which rechunks the values)
  crosstab2dAligns  D12 2-D dask `crosstab` brings the values onto the zones chunking
  crosstab3dAligns      the 3-D dask path does
"""
import ast
import os

REL = "xrspatial/zonal.py"


def find_func(mod, name):
    for n in mod.body:
        if isinstance(n, ast.FunctionDef) and n.name == name:
            return n
    return None


def u(n):
    return ast.unparse(n).replace(" ", "")


def lean_bool(b):
    return "true" if b else "false"


def lean_strs(xs):
    return "[" + ", ".join('"' + x.replace('"', "'") + '"' for x in xs) + "]"


# ---------------------------------------------------------------- D1
def fact_strip(mod):
    f = find_func(mod, "_sort_and_stride")
    if f is None:
        return False, "no _sort_and_stride"
    first_gather = None
    strip_line = None
    for n in ast.walk(f):
        if isinstance(n, ast.Assign) and len(n.targets) == 1:
            t = u(n.targets[0])
            if t.startswith("values_by_zones") and first_gather is None:
                first_gather = n.lineno
            if t == "sorted_indices" and isinstance(n.value, ast.Subscript) and u(n.value.value) == "sorted_indices" \
                    and u(n.value.slice) in ("np.isfinite(flatten_zones[sorted_indices])",
                                             "np.isfinite(sorted_zones)"):
                strip_line = n.lineno
    # every gather must use fancy indexing with sorted_indices (the 3-D loop form needs equal lengths)
    src = u(f)
    gathers_ok = "values.ravel()[sorted_indices]" in src
    ok = strip_line is not None and first_gather is not None and strip_line < first_gather and gathers_ok
    return ok, f"strip at line {strip_line}, first gather at line {first_gather}"


# ---------------------------------------------------------------- D2
def nan_aware_sum_helper(mod, name):
    """def f(b): [b = np.asarray(b, ...)]; return np.where(np.all(np.isnan(b), axis=0), np.nan, np.nansum(b, axis=0))"""
    f = find_func(mod, name)
    if f is None or len(f.args.args) != 1:
        return False
    a = f.args.args[0].arg
    body = [s for s in f.body if not (isinstance(s, ast.Expr) and isinstance(s.value, ast.Constant))]
    if not body or not isinstance(body[-1], ast.Return):
        return False
    for s in body[:-1]:
        if not (isinstance(s, ast.Assign) and u(s.targets[0]) == a and u(s.value).startswith(f"np.asarray({a}")):
            return False
    return u(body[-1].value) == f"np.where(np.all(np.isnan({a}),axis=0),np.nan,np.nansum({a},axis=0))"


def classify_comb(mod, lam):
    if not isinstance(lam, ast.Lambda) or len(lam.args.args) != 1:
        return "unknown", False
    a = lam.args.args[0].arg
    body = lam.body
    squared = False
    if isinstance(body, ast.BinOp) and isinstance(body.op, ast.Pow) and u(body.right) == "2":
        squared = True
        body = body.left
    s = u(body)
    if s == f"np.nanmax({a},axis=0)":
        return "nanmax", squared
    if s == f"np.nanmin({a},axis=0)":
        return "nanmin", squared
    if s == f"np.nansum({a},axis=0)":
        return "nansum", squared
    if isinstance(body, ast.Call) and isinstance(body.func, ast.Name) and len(body.args) == 1 \
            and u(body.args[0]) == a and not body.keywords and nan_aware_sum_helper(mod, body.func.id):
        return "nansumNaN", squared
    return "unknown", squared


def dict_call(mod, name):
    for n in mod.body:
        if isinstance(n, ast.Assign) and u(n.targets[0]) == name and isinstance(n.value, ast.Call) \
                and u(n.value.func) == "dict":
            return {k.arg: k.value for k in n.value.keywords}
    return {}


BLOCK_SHAPES = {"max": ["{z}.max()"], "min": ["{z}.min()"], "sum": ["{z}.sum()"], "count": ["_stats_count({z})"],
                # the square is taken in float64 since the D23 repair (a square in the raster's own narrow
                # integer dtype wraps around; the model's exact arithmetic corresponds to the float form only)
                "sum_squares": ["({z}.astype(np.float64)**2).sum()", "({z}.astype(float)**2).sum()"]}


def fact_block_stats(mod):
    d = dict_call(mod, "_DASK_BLOCK_STATS")
    if set(d) != set(BLOCK_SHAPES):
        return False
    for k, lam in d.items():
        if not isinstance(lam, ast.Lambda) or len(lam.args.args) != 1:
            return False
        if u(lam.body) not in [sh.format(z=lam.args.args[0].arg) for sh in BLOCK_SHAPES[k]]:
            return False
    return True


def fact_dask_args(mod):
    f = find_func(mod, "_stats_dask_numpy")
    out = {"_dask_mean": None, "_dask_std": None, "_dask_var": None}
    if f is None:
        return out
    for n in ast.walk(f):
        if isinstance(n, ast.Call) and isinstance(n.func, ast.Name) and n.func.id in out:
            out[n.func.id] = [u(a).replace("stats_dict", "").replace("['", "").replace("']", "") for a in n.args]
    return out


# ---------------------------------------------------------------- D3
def fact_cat_start(mod):
    f = find_func(mod, "_single_zone_crosstab_2d")
    if f is None:
        return False
    for n in f.body:
        if isinstance(n, ast.For):
            for s in n.body:      # statements directly in the loop body: executed for every category
                if isinstance(s, ast.Assign) and u(s.targets[0]) == "cat_start" and u(s.value) == "zone_cat_breaks[j]":
                    return True
    return False


# ---------------------------------------------------------------- D4
def select_ids_iterates_second(mod):
    """_select_ids(unique_ids, ids): `for i in ids: if i in unique_ids: append(i)`"""
    f = find_func(mod, "_select_ids")
    if f is None or [a.arg for a in f.args.args] != ["unique_ids", "ids"]:
        return False
    for n in f.body:
        if isinstance(n, ast.For) and u(n.iter) == "ids" and len(n.body) == 1 and isinstance(n.body[0], ast.If) \
                and u(n.body[0].test) == f"{u(n.target)}inunique_ids":
            return True
    return False


def fact_rows_sorted_numpy(mod):
    f = find_func(mod, "_crosstab_numpy")
    if f is None:
        return False
    for n in ast.walk(f):
        if isinstance(n, ast.Assign) and u(n.targets[0]) == "zone_ids" and isinstance(n.value, ast.ListComp):
            g = n.value.generators
            if len(g) == 1 and len(g[0].ifs) == 1:
                v = u(g[0].target)
                if u(n.value.elt) == v and u(g[0].iter) == "unique_zones" and u(g[0].ifs[0]) == f"{v}inzone_ids":
                    return True
    return False


def fact_rows_sorted_dask(mod):
    f = find_func(mod, "_crosstab_dask_numpy")
    if f is None or not select_ids_iterates_second(mod):
        return False
    for n in ast.walk(f):
        if isinstance(n, ast.Assign) and u(n.targets[0]) == "zone_ids" and isinstance(n.value, ast.Call) \
                and u(n.value.func) == "_select_ids":
            # the function keeps the members of its 2nd argument that are in the 1st, in the 2nd's order
            return [u(a) for a in n.value.args] == ["zone_ids", "unique_zones"]
    return False


# ---------------------------------------------------------------- chunk alignment
def fact_stats_aligns(mod, repo):
    f = find_func(mod, "stats")
    if f is None:
        return False
    calls = any(isinstance(n, ast.Call) and u(n.func) == "validate_arrays" and [u(a) for a in n.args] == ["zones", "values"]
                for n in ast.walk(f))
    um = ast.parse(open(os.path.join(repo, "xrspatial/utils.py")).read())
    va = find_func(um, "validate_arrays")
    rech = va is not None and "arrays[i].data=arrays[i].data.rechunk(first_array.chunks)" in u(va)
    return calls and rech


def fact_crosstab_aligns(mod, repo):
    f = find_func(mod, "crosstab")
    g = find_func(mod, "_crosstab_dask_numpy")
    src_f = u(f) if f else ""
    src_g = u(g) if g else ""
    a3 = "values.data=values.data.rechunk(expected_values_chunks)" in src_f and \
         "1:zones_chunks[0]" in src_f and "2:zones_chunks[1]" in src_f
    a2 = "values=values.rechunk(zones.chunks)" in src_g or \
         ("validate_arrays(zones,values)" in src_f and fact_stats_aligns(mod, repo))
    return a2, a3


def generate(repo):
    mod = ast.parse(open(os.path.join(repo, REL)).read())
    strip, strip_note = fact_strip(mod)
    combs = {}
    d = dict_call(mod, "_DASK_STATS")
    for k in ("max", "min", "sum", "count", "sum_squares"):
        kind, sq = classify_comb(mod, d.get(k))
        combs[k] = "unknown" if sq else kind
    block_ok = fact_block_stats(mod)
    args = fact_dask_args(mod)
    cat_always = fact_cat_start(mod)
    rows_np = fact_rows_sorted_numpy(mod)
    rows_dk = fact_rows_sorted_dask(mod)
    st_al = fact_stats_aligns(mod, repo)
    a2, a3 = fact_crosstab_aligns(mod, repo)
    rep = dict(stripIndices=strip, strip_note=strip_note, comb=combs, blockStatsOk=block_ok, daskArgs=args,
               catStartAlways=cat_always, rowsSortedNumpy=rows_np, rowsSortedDask=rows_dk,
               statsAligns=st_al, crosstab2dAligns=a2, crosstab3dAligns=a3)
    lines = ["import XrsVerif.Model.ZonalDask",
             "/-! GENERATED by harness/facts_zonal.py from the current /repo source (xrspatial/zonal.py) -- do not edit. -/",
             "namespace XrsVerif.Gen.Zonal", "open XrsVerif.Zonal", "",
             "/-- `_sort_and_stride` removes the non-finite-zone entries from `sorted_indices` before the gather -/",
             f"def stripIndices : Bool := {lean_bool(strip)}", "",
             "/-- shapes of the `_DASK_STATS` lambdas -/",
             "def comb : BStat → Comb",
             f"  | .max => .{combs['max']}", f"  | .min => .{combs['min']}", f"  | .sum => .{combs['sum']}",
             f"  | .count => .{combs['count']}", f"  | .sumSquares => .{combs['sum_squares']}", "",
             "/-- `_DASK_BLOCK_STATS` = max / min / sum / count / sum of squares of the block's zone values -/",
             f"def blockStatsOk : Bool := {lean_bool(block_ok)}", "",
             "/-- the columns handed to `_dask_mean`, `_dask_std`, `_dask_var` -/",
             f"def daskMeanArgs : List String := {lean_strs(args['_dask_mean'] or ['?'])}",
             f"def daskStdArgs : List String := {lean_strs(args['_dask_std'] or ['?'])}",
             f"def daskVarArgs : List String := {lean_strs(args['_dask_var'] or ['?'])}", "",
             "/-- `_single_zone_crosstab_2d` advances `cat_start` for every category -/",
             f"def catStartAlways : Bool := {lean_bool(cat_always)}", "",
             "/-- the `zone` column lists the requested zones in the order the rows are computed in -/",
             f"def rowsSortedNumpy : Bool := {lean_bool(rows_np)}",
             f"def rowsSortedDask : Bool := {lean_bool(rows_dk)}", "",
             "/-- the values raster is rechunked onto the zones chunking before the blocks are paired -/",
             f"def statsAligns : Bool := {lean_bool(st_al)}",
             f"def crosstab2dAligns : Bool := {lean_bool(a2)}",
             f"def crosstab3dAligns : Bool := {lean_bool(a3)}", "",
             "end XrsVerif.Gen.Zonal", ""]
    yield "Zonal.lean", "\n".join(lines), rep
