"""
Layer T2 facts for C02 / C03 / C04: structural facts of xrspatial/zonal.py -> lean/XrsVerif/Gen/Zonal.lean.

Every fact is read from the `ast` of /repo's *current* source.  A shape that is not recognised is
emitted as the value the theorems cannot work with (`false` / `Comb.unknown`), never as a default
that would make them pass.  The theorems of Props/C02..C04 mention these constants, so an edit of
the source changes the statement `lake build` has to accept; the Lean driver runs the model with the
same constants, so the correspondence run compares the code with the model *of that code*.

  stripIndices      D1  `_sort_and_stride` drops the non-finite-zone entries from `sorted_indices`
                        before `values_by_zones` is gathered
  comb*             D2  the shapes of the `_DASK_STATS` lambdas
  blockStatsOk          the shapes of the `_DASK_BLOCK_STATS` lambdas
  dask*Args             which columns `_stats_dask_numpy` hands to `_dask_mean/_std/_var`
  catStartAlways    D3  `cat_start = zone_cat_breaks[j]` is executed for every category
  rowsSortedNumpy   D4  `_crosstab_numpy` lists the requested zones in the order of `unique_zones`
  rowsSortedDask    D4  same for `_crosstab_dask_numpy`
  statsAligns           `stats` calls `validate_arrays(zones, values)` (which rechunks the values) and hands the backend
                        `zones.data` / `values.data` as read after that call
  crosstab2dAligns  D12 2-D dask `crosstab` brings the values onto the zones chunking
  crosstab3dAligns      the 3-D dask path does
  stridesBits           width of the integer array `_strides` returns (the crosstab counts are differences of it)
  stridesProg           `_strides` itself, translated statement by statement into the loop language of Model/ZonalLoop.lean
  mask*                 the validity filters `A[mask]` of `_calc_stats`, `_find_cats`, `_single_zone_crosstab_2d/_3d` as `MExpr`
  pctNumpy / pctDask    the `percentage` expression of `_crosstab_numpy` / `_crosstab_df_dask`, translated into a
                        `PExpr` tree (Model/Crosstab.lean) over count / total / literals / `*` / `/`

Equivalent spellings.  The recognisers work on a *normalised* view of the source, so that a rewrite that cannot
change behaviour does not change a fact: a name that is assigned exactly once is replaced by its value (`inline`),
`for i in range(len(xs))` + `xs[i]`, `for x in xs`, `for i, x in enumerate(xs)` are the same loop (`elem_loops`;
`range(1, len(xs))` / `xs[1:]` = the elements after the first), positional and keyword arguments of the numpy
reductions are the same call (`canon`), `float('nan')` / `math.nan` / `np.nan` / `np.NaN` are the same constant,
a filtering list comprehension and the loop appending to a fresh list are the same selection (`selections`).
Whatever is still not recognised after that is reported as unknown / false.
"""
import ast
import copy
import os

REL = "xrspatial/zonal.py"


def find_func(mod, name):
    for n in mod.body:
        if isinstance(n, ast.FunctionDef) and n.name == name:
            return n
    return None


def u(n):
    return ast.unparse(n).replace(" ", "")


def lean_bool(b):
    return "true" if b else "false"


def lean_strs(xs):
    return "[" + ", ".join('"' + x.replace('"', "'") + '"' for x in xs) + "]"


# ---------------------------------------------------------------- normalisation (equivalent spellings)
class _Subst(ast.NodeTransformer):
    def __init__(self, env):
        self.env = env

    def visit_Name(self, n):
        if isinstance(n.ctx, ast.Load) and n.id in self.env:
            return ast.copy_location(copy.deepcopy(self.env[n.id]), n)
        return n


MUTATORS = ("append", "extend", "sort", "insert", "pop", "remove", "update", "clear", "fill", "put", "resize", "setdefault",
            "itemset", "partition", "byteswap", "setflags")


def single_assignments(func):
    """{name: value} for the local names that are bound exactly once in `func`, by a plain `name = value`
    (no augmented assignment, not a loop / with / comprehension target, not a parameter), whose value does not
    mention the name itself: such a name is a temporary and can be replaced by its value wherever it is read"""
    counts, values = {}, {}
    params = {a.arg for a in func.args.args + func.args.kwonlyargs + func.args.posonlyargs}
    if func.args.vararg:
        params.add(func.args.vararg.arg)
    if func.args.kwarg:
        params.add(func.args.kwarg.arg)
    for n in ast.walk(func):
        if isinstance(n, ast.Name) and isinstance(n.ctx, (ast.Store, ast.Del)):
            counts[n.id] = counts.get(n.id, 0) + 1
        if isinstance(n, ast.Assign) and len(n.targets) == 1 and isinstance(n.targets[0], ast.Name):
            values[n.targets[0].id] = n.value
    mutated = set()
    for n in ast.walk(func):
        if isinstance(n, (ast.Subscript, ast.Attribute)) and isinstance(n.ctx, (ast.Store, ast.Del)) and isinstance(n.value, ast.Name):
            mutated.add(n.value.id)
        if isinstance(n, ast.AugAssign):
            t = n.target
            while isinstance(t, (ast.Subscript, ast.Attribute)):
                t = t.value
            if isinstance(t, ast.Name):
                mutated.add(t.id)
        if isinstance(n, ast.Call) and isinstance(n.func, ast.Attribute) and isinstance(n.func.value, ast.Name) \
                and n.func.attr in MUTATORS:
            mutated.add(n.func.value.id)
        if isinstance(n, ast.Call) and any(k.arg == "out" for k in n.keywords):
            mutated.update(m.id for k in n.keywords if k.arg == "out" for m in ast.walk(k.value) if isinstance(m, ast.Name))
    out = {}
    for k, v in values.items():
        free = {m.id for m in ast.walk(v) if isinstance(m, ast.Name)} - {"np", "da", "math"}
        if free & mutated:
            continue
        # the names the value reads must be stable themselves (parameters never rebound, names bound at most once)
        stable = all(counts.get(f, 0) <= (0 if f in params else 1) for f in free)
        if counts.get(k) == 1 and k not in params and k not in free and stable:
            out[k] = v
    return out


def single_assignments_raw(func):
    """{name: value} of the names bound exactly once by a plain assignment, without the stability conditions"""
    counts, values = {}, {}
    for n in ast.walk(func):
        if isinstance(n, ast.Name) and isinstance(n.ctx, (ast.Store, ast.Del)):
            counts[n.id] = counts.get(n.id, 0) + 1
        if isinstance(n, ast.Assign) and len(n.targets) == 1 and isinstance(n.targets[0], ast.Name):
            values[n.targets[0].id] = n.value
    return {k: v for k, v in values.items() if counts.get(k) == 1}


def pure_expr(v):
    """no call except a few value-only ones: replacing a name by such an expression cannot reorder effects"""
    for m in ast.walk(v):
        if isinstance(m, ast.Call):
            fn = u(m.func)
            value_only = fn in ("len", "range", "list", "tuple", "type", "isinstance", "float", "int") or \
                (fn.startswith("np.") and fn.count(".") == 1 and not fn.startswith("np.random")) or \
                (isinstance(m.func, ast.Attribute) and m.func.attr in ("ravel", "astype", "reshape", "sum", "max", "min"))
            if not value_only or any(k.arg == "out" for k in m.keywords):
                return False
        if isinstance(m, (ast.Lambda, ast.ListComp, ast.DictComp, ast.SetComp, ast.GeneratorExp, ast.Await, ast.Yield,
                          ast.Dict, ast.List, ast.Set)):       # a fresh mutable object is not a value
            return False
    return True


def inline(node, func, only=None, depth=4):
    """`node` with the temporaries of `func` replaced by their values (repeated: temporaries of temporaries)"""
    env = {k: v for k, v in single_assignments(func).items() if pure_expr(v) and (only is None or k in only)}
    node = copy.deepcopy(node)
    for _ in range(depth):
        before = ast.dump(node)
        node = _Subst(env).visit(node)
        if ast.dump(node) == before:
            break
    return node


NAN_SPELLINGS = ("np.nan", "np.NaN", "np.NAN", "numpy.nan", "math.nan", "float('nan')", 'float("nan")', "float('NaN')")
AXIS_REDUCTIONS = ("np.nanmax", "np.nanmin", "np.nansum", "np.all", "np.any", "np.sum", "np.max", "np.min")


class _Canon(ast.NodeTransformer):
    """np.nan spellings -> np.nan; `np.nansum(b, 0)` -> `np.nansum(b, axis=0)`; redundant parentheses vanish in unparse"""

    def visit_Call(self, n):
        self.generic_visit(n)
        if ast.unparse(n).replace(" ", "") in NAN_SPELLINGS:
            return ast.copy_location(ast.parse("np.nan", mode="eval").body, n)
        if ast.unparse(n.func) in AXIS_REDUCTIONS and len(n.args) == 2 and not any(k.arg == "axis" for k in n.keywords):
            n.keywords = [ast.keyword(arg="axis", value=n.args[1])] + n.keywords
            n.args = n.args[:1]
        return n

    def visit_Attribute(self, n):
        self.generic_visit(n)
        if ast.unparse(n) in NAN_SPELLINGS:
            return ast.copy_location(ast.parse("np.nan", mode="eval").body, n)
        return n


def canon(node):
    return _Canon().visit(copy.deepcopy(node))


def cu(node):
    """canonical text of an expression / statement"""
    return u(canon(node))


def elem_loops(func, seq, tail=False, within=None):
    """the `for` loops of `func` that visit the elements of `seq` (tail: the elements after the first) once each, in
    order, in any of the usual spellings; yields (loop, element text): the text that denotes the current element in the body.
    Temporaries are inlined first (`rest = seq[1:]; for x in rest`)."""
    nodes = ast.walk(func) if within is None else (m for st in within for m in ast.walk(st))
    for n in nodes:
        if not isinstance(n, ast.For) or n.orelse:
            continue
        it = u(inline(n.iter, func))
        tgt = n.target
        whole, rest = seq, f"{seq}[1:]"
        want = rest if tail else whole
        if isinstance(tgt, ast.Name):
            if it == want or it in (f"list({want})", f"tuple({want})"):
                yield n, tgt.id
            elif not tail and it in (f"range(len({seq}))", f"range(0,len({seq}))"):
                yield n, f"{seq}[{tgt.id}]"
            elif tail and it == f"range(1,len({seq}))":
                yield n, f"{seq}[{tgt.id}]"
        elif isinstance(tgt, ast.Tuple) and len(tgt.elts) == 2 and all(isinstance(e, ast.Name) for e in tgt.elts):
            if it == f"enumerate({want})" or (tail and it == f"enumerate({rest},1)") or (tail and it == f"enumerate({rest},start=1)"):
                yield n, tgt.elts[1].id


class _Rename(ast.NodeTransformer):
    """replace every expression whose text is a key of `table` by the name it maps to"""

    def __init__(self, table):
        self.table = table

    def visit(self, n):
        if isinstance(n, ast.expr) and u(n) in self.table:
            return ast.copy_location(ast.Name(id=self.table[u(n)], ctx=ast.Load()), n)
        return self.generic_visit(n)


def body_text(stmts, func, table):
    """canonical text of a statement list with the temporaries inlined and the expressions of `table`
    (current element, first element, ...) replaced by placeholder names"""
    out = []
    for st in stmts:
        if isinstance(st, ast.Expr) and isinstance(st.value, ast.Constant):
            continue                                          # docstring / stray string
        out.append(u(_Rename(table).visit(canon(inline(st, func)))))
    return out


def selections(func):
    """the `name = [x for x in ITER if x in CONT]` selections of `func`, also when written as a loop that appends
    to a fresh list (optionally renamed afterwards): [(name, ITER text, CONT text)]"""
    out = []
    fresh = {}
    for n in ast.walk(func):
        if isinstance(n, ast.Assign) and len(n.targets) == 1 and isinstance(n.targets[0], ast.Name):
            name, v = n.targets[0].id, n.value
            if isinstance(v, ast.ListComp) and len(v.generators) == 1 and len(v.generators[0].ifs) == 1 \
                    and not v.generators[0].is_async:
                g = v.generators[0]
                x = u(g.target)
                t = g.ifs[0]
                if u(v.elt) == x and isinstance(t, ast.Compare) and len(t.ops) == 1 and isinstance(t.ops[0], ast.In) \
                        and u(t.left) == x:
                    out.append((name, u(g.iter), u(t.comparators[0])))
            if isinstance(v, ast.List) and not v.elts:
                fresh[name] = n.lineno
    for n in ast.walk(func):
        if isinstance(n, ast.For) and not n.orelse and isinstance(n.target, ast.Name) and len(n.body) == 1 \
                and isinstance(n.body[0], ast.If) and not n.body[0].orelse and len(n.body[0].body) == 1:
            x, t, act = n.target.id, n.body[0].test, n.body[0].body[0]
            if isinstance(t, ast.Compare) and len(t.ops) == 1 and isinstance(t.ops[0], ast.In) and u(t.left) == x \
                    and isinstance(act, ast.Expr) and isinstance(act.value, ast.Call):
                call = act.value
                if isinstance(call.func, ast.Attribute) and call.func.attr == "append" and isinstance(call.func.value, ast.Name) \
                        and call.func.value.id in fresh and fresh[call.func.value.id] < n.lineno \
                        and len(call.args) == 1 and u(call.args[0]) == x:
                    acc = call.func.value.id
                    out.append((acc, u(n.iter), u(t.comparators[0])))
                    for m in ast.walk(func):      # `zone_ids = selected` afterwards
                        if isinstance(m, ast.Assign) and len(m.targets) == 1 and isinstance(m.targets[0], ast.Name) \
                                and isinstance(m.value, ast.Name) and m.value.id == acc and m.lineno > n.lineno:
                            out.append((m.targets[0].id, u(n.iter), u(t.comparators[0])))
    return out


def call_args(call, funcdef):
    """the arguments of `call` in the order of `funcdef`'s parameters (keywords resolved); None if that is not possible"""
    names = [a.arg for a in funcdef.args.args]
    got = {}
    for i, a in enumerate(call.args):
        if isinstance(a, ast.Starred) or i >= len(names):
            return None
        got[names[i]] = a
    for k in call.keywords:
        if k.arg is None or k.arg not in names or k.arg in got:
            return None
        got[k.arg] = k.value
    if set(got) != set(names):
        return None
    return [got[nm] for nm in names]


# ---------------------------------------------------------------- D1
def STRIP_TEMPS(f):
    """the names that may be inlined into the mask of the strip: everything bound once except `sorted_indices`
    (bound twice anyway) -- `sorted_zones = flatten_zones[sorted_indices]` taken *before* the strip is the same mask"""
    return {k for k in single_assignments(f)}


def adjacent_value(func, stmt, expr):
    """`expr`, or -- when it is a name bound by the statement right before `stmt` in the same block -- that value
    (`mask = ...; a = a[mask]`: nothing can happen in between)"""
    if not isinstance(expr, ast.Name):
        return expr
    for n in ast.walk(func):
        for field in ("body", "orelse", "finalbody"):
            blk = getattr(n, field, None)
            if isinstance(blk, list) and stmt in blk:
                i = blk.index(stmt)
                if i > 0 and isinstance(blk[i - 1], ast.Assign) and len(blk[i - 1].targets) == 1 \
                        and u(blk[i - 1].targets[0]) == expr.id:
                    return blk[i - 1].value
    return expr


def fact_strip(mod):
    f = find_func(mod, "_sort_and_stride")
    if f is None:
        return False, "no _sort_and_stride"
    first_gather = None
    strip_line = None
    for n in ast.walk(f):
        if isinstance(n, ast.Assign) and len(n.targets) == 1:
            t = u(n.targets[0])
            if t.startswith("values_by_zones") and first_gather is None:
                first_gather = n.lineno
            if t == "sorted_indices" and isinstance(n.value, ast.Subscript) and u(n.value.value) == "sorted_indices" \
                    and u(inline(adjacent_value(f, n, n.value.slice), f, only=STRIP_TEMPS(f))) in (
                        "np.isfinite(flatten_zones[sorted_indices])", "np.isfinite(zones.ravel()[sorted_indices])"):
                strip_line = n.lineno
    # every gather must use fancy indexing with sorted_indices (the 3-D loop form needs equal lengths)
    src = u(f)
    gathers_ok = "values.ravel()[sorted_indices]" in src
    ok = strip_line is not None and first_gather is not None and strip_line < first_gather and gathers_ok
    return ok, f"strip at line {strip_line}, first gather at line {first_gather}"


# ---------------------------------------------------------------- D2
def nan_aware_sum_helper(mod, name):
    """def f(b): [b = np.asarray(b, ...)]; return np.where(np.all(np.isnan(b), axis=0), np.nan, np.nansum(b, axis=0))"""
    f = find_func(mod, name)
    if f is None or len(f.args.args) != 1:
        return False
    a = f.args.args[0].arg
    body = [s for s in f.body if not (isinstance(s, ast.Expr) and isinstance(s.value, ast.Constant))]
    if not body or not isinstance(body[-1], ast.Return):
        return False
    for s in body[:-1]:
        if isinstance(s, ast.Assign) and u(s.targets[0]) == a and u(s.value).startswith(f"np.asarray({a}"):
            continue
        if isinstance(s, ast.Assign) and len(s.targets) == 1 and isinstance(s.targets[0], ast.Name) \
                and s.targets[0].id in single_assignments(f):
            continue                                      # a temporary, inlined below
        return False
    return cu(inline(body[-1].value, f)) == f"np.where(np.all(np.isnan({a}),axis=0),np.nan,np.nansum({a},axis=0))"


def classify_comb(mod, lam):
    if not isinstance(lam, ast.Lambda) or len(lam.args.args) != 1:
        return "unknown", False
    a = lam.args.args[0].arg
    body = lam.body
    squared = False
    if isinstance(body, ast.BinOp) and isinstance(body.op, ast.Pow) and u(body.right) == "2":
        squared = True
        body = body.left
    s = cu(body)
    if s == f"np.nanmax({a},axis=0)":
        return "nanmax", squared
    if s == f"np.nanmin({a},axis=0)":
        return "nanmin", squared
    if s == f"np.nansum({a},axis=0)":
        return "nansum", squared
    if isinstance(body, ast.Call) and isinstance(body.func, ast.Name) and len(body.args) == 1 \
            and u(body.args[0]) == a and not body.keywords and nan_aware_sum_helper(mod, body.func.id):
        return "nansumNaN", squared
    return "unknown", squared


def dict_call(mod, name):
    """`name = dict(k=v, ...)` or `name = {'k': v, ...}` at module level"""
    for n in mod.body:
        if isinstance(n, ast.Assign) and u(n.targets[0]) == name:
            if isinstance(n.value, ast.Call) and u(n.value.func) == "dict" and not n.value.args:
                return {k.arg: k.value for k in n.value.keywords}
            if isinstance(n.value, ast.Dict) and all(isinstance(k, ast.Constant) and isinstance(k.value, str) for k in n.value.keys):
                return {k.value: v for k, v in zip(n.value.keys, n.value.values)}
    return {}


BLOCK_SHAPES = {"max": ["{z}.max()", "np.max({z})"], "min": ["{z}.min()", "np.min({z})"], "sum": ["{z}.sum()", "np.sum({z})"],
                "count": ["_stats_count({z})"],
                # the square is taken in float64 since the D23 repair (a square in the raster's own narrow
                # integer dtype wraps around; the model's exact arithmetic corresponds to the float form only)
                "sum_squares": ["({z}.astype(np.float64)**2).sum()", "({z}.astype(float)**2).sum()",
                                "({z}.astype('float64')**2).sum()", "np.sum({z}.astype(np.float64)**2)",
                                "np.square({z}.astype(np.float64)).sum()"]}


def fact_block_stats(mod):
    d = dict_call(mod, "_DASK_BLOCK_STATS")
    if set(d) != set(BLOCK_SHAPES):
        return False
    for k, lam in d.items():
        if not isinstance(lam, ast.Lambda) or len(lam.args.args) != 1:
            return False
        if u(lam.body) not in [sh.format(z=lam.args.args[0].arg) for sh in BLOCK_SHAPES[k]]:
            return False
    return True


def fact_dask_args(mod):
    f = find_func(mod, "_stats_dask_numpy")
    out = {"_dask_mean": None, "_dask_std": None, "_dask_var": None}
    if f is None:
        return out
    for n in ast.walk(f):
        if isinstance(n, ast.Call) and isinstance(n.func, ast.Name) and n.func.id in out:
            fd = find_func(mod, n.func.id)
            args = call_args(n, fd) if fd is not None else None
            if args is None:
                continue
            out[n.func.id] = [u(inline(a, f)).replace("stats_dict", "").replace("['", "").replace("']", "").replace('["', "").replace('"]', "")
                              for a in args]
    return out


# ---------------------------------------------------------------- D3
def fact_cat_start(mod):
    f = find_func(mod, "_single_zone_crosstab_2d")
    if f is None:
        return False
    for n in f.body:
        if isinstance(n, ast.For) and not n.orelse:
            # the index of the current category: `for j, cat in enumerate(unique_cats)` / `for j in range(len(unique_cats))`
            it = u(n.iter)
            if isinstance(n.target, ast.Tuple) and it == "enumerate(unique_cats)":
                j = u(n.target.elts[0])
            elif isinstance(n.target, ast.Name) and it in ("range(len(unique_cats))", "range(0,len(unique_cats))",
                                                           "range(unique_cats.shape[0])", "range(unique_cats.size)"):
                j = n.target.id
            else:
                continue
            for s in n.body:      # statements directly in the loop body: executed for every category
                if isinstance(s, ast.Assign) and u(s.targets[0]) == "cat_start" \
                        and u(inline(s.value, f, only={k for k in single_assignments(f) if k != "cat_start"})) == f"zone_cat_breaks[{j}]":
                    return True
    return False


# ---------------------------------------------------------------- D4
def select_ids_iterates_second(mod):
    """_select_ids(unique_ids, ids): `for i in ids: if i in unique_ids: append(i)`"""
    f = find_func(mod, "_select_ids")
    if f is None or [a.arg for a in f.args.args] != ["unique_ids", "ids"]:
        return False
    # `for i in ids: if i in unique_ids: selected.append(i)` or `return [i for i in ids if i in unique_ids]`
    if any(it == "ids" and cont == "unique_ids" for _, it, cont in selections(f)):
        return True
    for n in ast.walk(f):
        if isinstance(n, ast.Return) and isinstance(n.value, ast.ListComp):
            fake = ast.parse("r__ = 0").body[0]
            fake.value = n.value
            g = ast.FunctionDef(name="g", args=f.args, body=[fake], decorator_list=[], lineno=0, col_offset=0)
            if any(it == "ids" and cont == "unique_ids" for _, it, cont in selections(g)):
                return True
    return False


def fact_rows_sorted_numpy(mod):
    f = find_func(mod, "_crosstab_numpy")
    if f is None:
        return False
    # `zone_ids = [z for z in unique_zones if z in zone_ids]`, or the same selection as an appending loop
    return any(name == "zone_ids" and it == "unique_zones" and cont == "zone_ids" for name, it, cont in selections(f))


def fact_rows_sorted_dask(mod):
    f = find_func(mod, "_crosstab_dask_numpy")
    if f is None or not select_ids_iterates_second(mod):
        return False
    for n in ast.walk(f):
        if isinstance(n, ast.Assign) and u(n.targets[0]) == "zone_ids" and isinstance(n.value, ast.Call) \
                and u(n.value.func) == "_select_ids":
            # the function keeps the members of its 2nd argument that are in the 1st, in the 2nd's order
            args = call_args(n.value, find_func(mod, "_select_ids"))
            return args is not None and [u(a) for a in args] == ["zone_ids", "unique_zones"]
    return False


# ---------------------------------------------------------------- chunk alignment
def fact_stats_aligns(mod, repo):
    """`stats` calls `validate_arrays(zones, values)` as a statement of its own, that function rechunks the later arrays
    onto the first one's chunks by re-binding their `.data`, and the arrays handed to the backend function
    (`mapper(values)(<zones array>, <values array>, …)`) are `zones.data` / `values.data` read *after* that statement --
    written in the call itself, or through a local assigned once after it.  A `.data` read before the validation is
    the array from before the rechunk."""
    f = find_func(mod, "stats")
    if f is None:
        return False
    body = list(f.body)
    val_at = [i for i, s in enumerate(body) if isinstance(s, ast.Expr) and isinstance(s.value, ast.Call)
              and u(s.value.func) == "validate_arrays" and [u(a) for a in s.value.args] == ["zones", "values"]
              and not s.value.keywords]
    if len(val_at) != 1:
        return False
    backend = [(i, n) for i, s in enumerate(body) for n in ast.walk(s)
               if isinstance(n, ast.Call) and isinstance(n.func, ast.Call) and len(n.args) >= 2]
    if len(backend) != 1 or backend[0][0] <= val_at[0]:
        return False
    stores = {}
    for n in ast.walk(f):
        if isinstance(n, ast.Name) and isinstance(n.ctx, ast.Store):
            stores[n.id] = stores.get(n.id, 0) + 1
    if stores.get("zones") or stores.get("values"):
        return False

    def read_after(arg, want):
        if u(arg) == want:
            return True
        if isinstance(arg, ast.Name) and stores.get(arg.id) == 1:
            at = [i for i, s in enumerate(body) if isinstance(s, ast.Assign) and len(s.targets) == 1
                  and u(s.targets[0]) == arg.id and u(s.value) == want]
            return len(at) == 1 and at[0] > val_at[0]
        return False
    call = backend[0][1]
    if not (read_after(call.args[0], "zones.data") and read_after(call.args[1], "values.data")):
        return False
    um = ast.parse(open(os.path.join(repo, "xrspatial/utils.py")).read())
    return validate_arrays_rechunks(find_func(um, "validate_arrays"))


def validate_arrays_rechunks(va):
    """`validate_arrays(*arrays)`: when the first array is dask-backed, every later array whose chunks differ is
    rechunked to the first one's chunks (any spelling of the loop over the later arrays; unconditional rechunk is fine too)"""
    if va is None or va.args.vararg is None or va.args.args:
        return False
    seq = va.args.vararg.arg
    first = f"{seq}[0]"
    for loop, elem in elem_loops(va, seq, tail=True):
        # the loop must sit under `if isinstance(<first>.data, da.Array):` (or at function level: rechunk of a numpy
        # array would raise, so a guard is required)
        guard = None
        for n in ast.walk(va):
            if isinstance(n, ast.If) and loop in n.body and not n.orelse:
                guard = cu(inline(n.test, va))
                for nm, v in single_assignments_raw(va).items():
                    if u(v) == first:
                        guard = guard.replace(f"isinstance({nm}.data", f"isinstance({first}.data")
        if guard not in (f"isinstance({first}.data,da.Array)", f"isinstance({first}.data,dask.array.Array)"):
            continue
        table = {elem: "E_", first: "F_"}
        for n in va.body:          # `first_array = arrays[0]`
            if isinstance(n, ast.Assign) and len(n.targets) == 1 and isinstance(n.targets[0], ast.Name) and u(n.value) == first \
                    and sum(1 for m in ast.walk(va) if isinstance(m, ast.Name) and m.id == n.targets[0].id
                            and isinstance(m.ctx, ast.Store)) == 1:
                table[n.targets[0].id] = "F_"
        body = body_text(loop.body, va, table)
        if body in (["ifF_.chunks!=E_.chunks:\nE_.data=E_.data.rechunk(F_.chunks)"],
                    ["ifnotF_.chunks==E_.chunks:\nE_.data=E_.data.rechunk(F_.chunks)"],
                    ["ifE_.chunks!=F_.chunks:\nE_.data=E_.data.rechunk(F_.chunks)"],
                    ["E_.data=E_.data.rechunk(F_.chunks)"]):
            return True
    return False


def fact_crosstab_aligns(mod, repo):
    f = find_func(mod, "crosstab")
    g = find_func(mod, "_crosstab_dask_numpy")
    src_f = u(f) if f else ""
    src_g = u(g) if g else ""
    a3 = "values.data=values.data.rechunk(expected_values_chunks)" in src_f and \
         "1:zones_chunks[0]" in src_f and "2:zones_chunks[1]" in src_f
    a2 = "values=values.rechunk(zones.chunks)" in src_g or \
         ("validate_arrays(zones,values)" in src_f and fact_stats_aligns(mod, repo))
    return a2, a3


# ---------------------------------------------------------------- integer width of the breaks / the percentage expression
INT_BITS = {"np.int8": 8, "np.int16": 16, "np.int32": 32, "np.int64": 64, "np.intp": 64, "np.int_": 64, "int": 64,
            "'int8'": 8, "'int16'": 16, "'int32'": 32, "'int64'": 64, "'i4'": 32, "'i8'": 64, "'i2'": 16, "'i1'": 8}


def fact_strides_bits(mod):
    """`_strides` returns `strides`, created by `np.zeros(<n>, dtype=<signed integer type>)` (or np.empty / np.full):
    the width of that type; 0 = not recognised"""
    f = find_func(mod, "_strides")
    if f is None:
        return 0
    rets = [n for n in ast.walk(f) if isinstance(n, ast.Return)]
    if len(rets) != 1 or not isinstance(rets[0].value, ast.Name):
        return 0
    name = rets[0].value.id
    made = [n for n in ast.walk(f) if isinstance(n, ast.Assign) and len(n.targets) == 1 and u(n.targets[0]) == name]
    if len(made) != 1 or not isinstance(made[0].value, ast.Call) or u(made[0].value.func) not in ("np.zeros", "np.empty", "np.full"):
        return 0
    call = made[0].value
    dt = [k.value for k in call.keywords if k.arg == "dtype"]
    npos = 3 if u(call.func) == "np.full" else 2
    if not dt and len(call.args) == npos:
        dt = [call.args[npos - 1]]
    if len(dt) != 1:
        return 0
    return INT_BITS.get(u(dt[0]).replace('"', "'"), 0)


def pexpr_of(node, table):
    """Python expression over count / total / numeric literals / `*` / `/` -> Lean `PExpr` term; None = not of that form"""
    t = u(node)
    if t in table:
        return "." + table[t]
    if isinstance(node, ast.Constant) and isinstance(node.value, bool):
        return None
    if isinstance(node, ast.Constant) and isinstance(node.value, int) and 0 <= node.value < 2 ** 31:
        return f"(.lit {node.value})"
    if isinstance(node, ast.Constant) and isinstance(node.value, float) and node.value == int(node.value) and 0 <= node.value < 2 ** 31:
        return f"(.flit {int(node.value)})"
    if isinstance(node, ast.BinOp) and isinstance(node.op, (ast.Mult, ast.Div)):
        a, b = pexpr_of(node.left, table), pexpr_of(node.right, table)
        if a is None or b is None:
            return None
        return f"(.{'mul' if isinstance(node.op, ast.Mult) else 'div'} {a} {b})"
    return None


def fact_pct_expr(mod, fname):
    """under `if agg == 'percentage':` of `fname`: one loop over `cat_ids` whose body is the single statement
    `D[cat] = <expr over D[cat], D[TOTAL_COUNT], literals>`; returns (Lean PExpr term, python text)"""
    f = find_func(mod, fname)
    if f is None:
        return "PExpr.unknown", "no " + fname
    found = []
    for n in ast.walk(f):
        if isinstance(n, ast.If) and cu(n.test) in ("agg=='percentage'", "'percentage'==agg"):
            for loop, elem in elem_loops(f, "cat_ids", within=n.body):
                body = [st for st in loop.body if not (isinstance(st, ast.Expr) and isinstance(st.value, ast.Constant))]
                if len(body) != 1 or not isinstance(body[0], ast.Assign) or len(body[0].targets) != 1:
                    return "PExpr.unknown", "loop body is not a single assignment"
                tgt = body[0].targets[0]
                if not (isinstance(tgt, ast.Subscript) and isinstance(tgt.value, ast.Name) and u(tgt.slice) == elem):
                    return "PExpr.unknown", "target is not D[cat]"
                d = tgt.value.id
                table = {f"{d}[{elem}]": "count", f"{d}[TOTAL_COUNT]": "total", f"{d}['{TOTAL}']": "total"}
                for nm, v in single_assignments_raw(f).items():      # `totals = D[TOTAL_COUNT]` inside the branch
                    if u(v) in (f"{d}[TOTAL_COUNT]", f"{d}['{TOTAL}']"):
                        table[nm] = "total"
                e = pexpr_of(body[0].value, table)
                found.append((e, ast.unparse(body[0].value)))
    if len(found) != 1 or found[0][0] is None:
        return "PExpr.unknown", (found[0][1] if found else "no percentage loop")
    e = found[0][0]
    return ("PExpr" + e[1:-1] if e.startswith("(") else "PExpr" + e), found[0][1]


TOTAL = "_total_count"

# ---------------------------------------------------------------- `_strides` -> a loop program (Model/ZonalLoop.lean)
class _NotLoopLang(Exception):
    pass


def strides_prog(mod):
    """`_strides` statement by statement -> Lean `LProg` term, in normal form: the temporaries bound once to a value
    (`num_elements = flatten_zones.shape[0]`) are inlined, the array parameters are `a0, a1, ...`, the scalars
    `v0, v1, ...` in the order of their first binding, `x += k` is `x = x + k`, the allocation
    `out = np.zeros(<n>, dtype=...)` of the returned array becomes `outLen`.  (text, ok, note)"""
    f = find_func(mod, "_strides")
    bad = "{ outLen := .lit 0, body := [], ok := false }"
    if f is None:
        return bad, False, "no _strides"
    arrays = {a.arg: f"a{i}" for i, a in enumerate(f.args.args)}
    rets = [n for n in ast.walk(f) if isinstance(n, ast.Return)]
    if len(rets) != 1 or not isinstance(rets[0].value, ast.Name) or f.body[-1] is not rets[0]:
        return bad, False, "not a single trailing `return <array>`"
    out = rets[0].value.id
    temps = {k: v for k, v in single_assignments(f).items() if pure_expr(v) and k != out
             and not any(isinstance(m, ast.Call) and u(m.func).startswith("np.") for m in ast.walk(v))}
    scalars = {}

    def ne(x):
        x = _Subst(temps).visit(copy.deepcopy(x))
        for _ in range(3):
            x = _Subst(temps).visit(x)
        if isinstance(x, ast.Constant) and isinstance(x.value, int) and not isinstance(x.value, bool) and x.value >= 0:
            return f"(.lit {x.value})"
        if isinstance(x, ast.Name):
            if x.id in arrays or x.id == out:
                raise _NotLoopLang("array used as a number: " + x.id)
            if x.id not in scalars:
                raise _NotLoopLang("scalar read before it is bound: " + x.id)
            return f'(.var "{scalars[x.id]}")'
        if isinstance(x, ast.BinOp) and isinstance(x.op, ast.Add):
            return f"(.add {ne(x.left)} {ne(x.right)})"
        t = u(x)
        for a, nm in arrays.items():
            if t in (f"len({a})", f"{a}.shape[0]", f"{a}.size"):
                return f'(.len "{nm}")'
        raise _NotLoopLang("number expression " + ast.unparse(x))

    def be(x):
        if isinstance(x, ast.BoolOp) and isinstance(x.op, ast.And):
            parts = [be(v) for v in x.values]
            acc = parts[0]
            for q in parts[1:]:
                acc = f"(.and {acc} {q})"
            return acc
        if isinstance(x, ast.Compare) and len(x.ops) == 1:
            l, r, op = x.left, x.comparators[0], x.ops[0]
            if isinstance(op, ast.Lt):
                return f"(.lt {ne(l)} {ne(r)})"
            if isinstance(op, ast.Gt):
                return f"(.lt {ne(r)} {ne(l)})"
            if isinstance(op, ast.Eq) and isinstance(l, ast.Subscript) and isinstance(r, ast.Subscript) \
                    and u(l.value) in arrays and u(r.value) in arrays:
                return f'(.eqAt "{arrays[u(l.value)]}" {ne(l.slice)} "{arrays[u(r.value)]}" {ne(r.slice)})'
        raise _NotLoopLang("condition " + ast.unparse(x))

    def bind(name):
        if name in arrays or name == out:
            raise _NotLoopLang("array rebound: " + name)
        if name not in scalars:
            scalars[name] = f"v{len(scalars)}"
        return scalars[name]

    out_len = [None]

    def stmts(body):
        res = []
        for st in body:
            if isinstance(st, ast.Expr) and isinstance(st.value, ast.Constant):
                continue
            if isinstance(st, ast.Return):
                continue
            if isinstance(st, ast.Assign) and len(st.targets) == 1 and isinstance(st.targets[0], ast.Name):
                nm = st.targets[0].id
                if nm in temps:
                    continue
                if nm == out:
                    call = st.value
                    if out_len[0] is not None or not (isinstance(call, ast.Call) and u(call.func) in ("np.zeros", "np.empty") and call.args):
                        raise _NotLoopLang("allocation of the returned array")
                    out_len[0] = ne(call.args[0])
                    continue
                e = ne(st.value)
                res.append(f'.assign "{bind(nm)}" {e}')
            elif isinstance(st, ast.AugAssign) and isinstance(st.target, ast.Name) and isinstance(st.op, ast.Add):
                e = f'(.add {ne(st.target)} {ne(st.value)})'
                res.append(f'.assign "{bind(st.target.id)}" {e}')
            elif isinstance(st, ast.Assign) and len(st.targets) == 1 and isinstance(st.targets[0], ast.Subscript) \
                    and u(st.targets[0].value) == out:
                res.append(f".store {ne(st.targets[0].slice)} {ne(st.value)}")
            elif isinstance(st, ast.While) and not st.orelse:
                c = be(st.test)
                res.append(f".whileDo {c} [{', '.join(stmts(st.body))}]")
            elif isinstance(st, ast.For) and not st.orelse and isinstance(st.target, ast.Name) and isinstance(st.iter, ast.Call) \
                    and u(st.iter.func) == "range" and len(st.iter.args) == 1 and not st.iter.keywords:
                n = ne(st.iter.args[0])
                v = bind(st.target.id)
                res.append(f'.forRange "{v}" {n} [{", ".join(stmts(st.body))}]')
            else:
                raise _NotLoopLang("statement " + ast.unparse(st).splitlines()[0])
        return res

    try:
        body = stmts(f.body)
        if out_len[0] is None:
            raise _NotLoopLang("the returned array is not allocated by np.zeros / np.empty")
    except _NotLoopLang as ex_:
        return bad, False, str(ex_)
    return "{ outLen := " + out_len[0] + "\n    body := [" + ",\n      ".join(body) + "]\n    ok := true }", True, "ok"


# ---------------------------------------------------------------- the validity filters, translated
NODATA = "nodata_values"


def mexpr_of(node, v):
    """numpy boolean mask over the array whose text is `v` (and the scalar `nodata_values`) -> Lean `MExpr` term;
    None = not of that form"""
    if isinstance(node, ast.Call) and not node.keywords:
        fn = u(node.func)
        if len(node.args) == 1 and u(node.args[0]) == v and fn in ("np.isfinite", "np.isnan", "np.isinf"):
            return "." + fn[3:]
        if fn == "np.logical_not" and len(node.args) == 1:
            a = mexpr_of(node.args[0], v)
            return None if a is None else f"(.not {a})"
        if fn in ("np.logical_and", "np.logical_or") and len(node.args) == 2:
            a, b = mexpr_of(node.args[0], v), mexpr_of(node.args[1], v)
            return None if a is None or b is None else f"(.{'and' if fn.endswith('and') else 'or'} {a} {b})"
        return None
    if isinstance(node, ast.Compare) and len(node.ops) == 1:
        l, r, op = u(node.left), u(node.comparators[0]), node.ops[0]
        if {l, r} == {v, NODATA} and isinstance(op, (ast.NotEq, ast.Eq)):
            return ".neNodata" if isinstance(op, ast.NotEq) else ".eqNodata"
        if l == NODATA and r == "None" and isinstance(op, (ast.Is, ast.IsNot)):
            return ".nodataNone" if isinstance(op, ast.Is) else "(.not .nodataNone)"
        return None
    if isinstance(node, ast.BinOp) and isinstance(node.op, (ast.BitAnd, ast.BitOr)):
        a, b = mexpr_of(node.left, v), mexpr_of(node.right, v)
        return None if a is None or b is None else f"(.{'and' if isinstance(node.op, ast.BitAnd) else 'or'} {a} {b})"
    if isinstance(node, ast.BoolOp):          # python-level and / or of scalar tests
        parts = [mexpr_of(x, v) for x in node.values]
        if any(x is None for x in parts):
            return None
        out = parts[0]
        for x in parts[1:]:
            out = f"(.{'and' if isinstance(node.op, ast.And) else 'or'} {out} {x})"
        return out
    if isinstance(node, ast.UnaryOp) and isinstance(node.op, (ast.Invert, ast.Not)):
        a = mexpr_of(node.operand, v)
        return None if a is None else f"(.not {a})"
    return None


def block_of(func, node):
    """(innermost statement list, index) of the statement that contains `node`"""
    def search(blk):
        for i, st in enumerate(blk):
            if st is node or any(m is node for m in ast.walk(st)):
                for field in ("body", "orelse", "finalbody", "handlers"):
                    sub = getattr(st, field, None)
                    if isinstance(sub, list) and sub and isinstance(sub[0], ast.stmt):
                        r = search(sub)
                        if r[0] is not None:
                            return r
                return blk, i
        return None, None
    return search(func.body)


def mask_by_name(func, use, name, v):
    """the mask held by the local `name` at the statement `use`: built by `name = M`, then any of `name &= M`,
    `name |= M`, `name = name & M`, `if <scalar test>: name &= M` in the same block; anything else -> None"""
    blk, idx = block_of(func, use)
    if blk is None:
        return None
    cur = None
    for st in blk[:idx]:
        stores = [m for m in ast.walk(st) if isinstance(m, ast.Name) and m.id == name and isinstance(m.ctx, ast.Store)]
        if not stores:
            continue
        if isinstance(st, ast.Assign) and len(st.targets) == 1 and u(st.targets[0]) == name:
            val = st.value
            if isinstance(val, ast.BinOp) and isinstance(val.op, (ast.BitAnd, ast.BitOr)) and u(val.left) == name and cur is not None:
                b = mexpr_of(val.right, v)
                cur = None if b is None else f"(.{'and' if isinstance(val.op, ast.BitAnd) else 'or'} {cur} {b})"
            else:
                cur = mexpr_of(val, v)
            if cur is None:
                return None
        elif isinstance(st, ast.AugAssign) and u(st.target) == name and isinstance(st.op, (ast.BitAnd, ast.BitOr)) and cur is not None:
            b = mexpr_of(st.value, v)
            if b is None:
                return None
            cur = f"(.{'and' if isinstance(st.op, ast.BitAnd) else 'or'} {cur} {b})"
        elif isinstance(st, ast.If) and not st.orelse and len(st.body) == 1 and isinstance(st.body[0], ast.AugAssign) \
                and u(st.body[0].target) == name and isinstance(st.body[0].op, ast.BitAnd) and cur is not None:
            c, b = mexpr_of(st.test, v), mexpr_of(st.body[0].value, v)
            if c is None or b is None:
                return None
            cur = f"(.and {cur} (.or (.not {c}) {b}))"      # the conjunct only applies when the test holds
        else:
            return None
    return cur


def fact_mask(mod, fname):
    """the one boolean-mask selection `A[M]` of `fname` whose mask is built from isfinite / isnan / isinf / comparisons
    with nodata_values: (Lean MExpr term, python text)"""
    f = find_func(mod, fname)
    if f is None:
        return "MExpr.unknown", "no " + fname
    found = []
    for n in ast.walk(f):
        if isinstance(n, ast.Subscript) and isinstance(n.ctx, ast.Load) and not isinstance(n.slice, (ast.Slice, ast.Tuple, ast.Constant)):
            v = u(n.value)
            m = mexpr_of(n.slice, v)
            if m is None and isinstance(n.slice, ast.Name):
                if n.slice.id in single_assignments_raw(f) and not any(
                        isinstance(x, ast.AugAssign) and u(x.target) == n.slice.id for x in ast.walk(f)):
                    m = mexpr_of(single_assignments_raw(f)[n.slice.id], v)
                else:
                    m = mask_by_name(f, n, n.slice.id, v)
                if m is None and any(isinstance(x, (ast.Assign, ast.AugAssign)) and any(
                        isinstance(y, ast.Call) and u(y.func).startswith("np.is") for y in ast.walk(x)) and
                        any(isinstance(y, ast.Name) and y.id == n.slice.id and isinstance(y.ctx, ast.Store) for y in ast.walk(x))
                        for x in ast.walk(f)):
                    m = "?"           # a mask variable built in a way that is not understood
            if m is not None:
                found.append((m, ast.unparse(n)))
    if len(found) != 1 or found[0][0] == "?":
        return "MExpr.unknown", "; ".join(x[1] for x in found) or "no mask selection"
    e = found[0][0]
    return ("MExpr" + e[1:-1] if e.startswith("(") else "MExpr" + e), found[0][1]



def generate(repo):
    mod = ast.parse(open(os.path.join(repo, REL)).read())
    strip, strip_note = fact_strip(mod)
    combs = {}
    d = dict_call(mod, "_DASK_STATS")
    for k in ("max", "min", "sum", "count", "sum_squares"):
        kind, sq = classify_comb(mod, d.get(k))
        combs[k] = "unknown" if sq else kind
    block_ok = fact_block_stats(mod)
    args = fact_dask_args(mod)
    cat_always = fact_cat_start(mod)
    rows_np = fact_rows_sorted_numpy(mod)
    rows_dk = fact_rows_sorted_dask(mod)
    st_al = fact_stats_aligns(mod, repo)
    a2, a3 = fact_crosstab_aligns(mod, repo)
    bits = fact_strides_bits(mod)
    pct_np, pct_np_src = fact_pct_expr(mod, "_crosstab_numpy")
    pct_dk, pct_dk_src = fact_pct_expr(mod, "_crosstab_df_dask")
    sprog, sprog_ok, sprog_note = strides_prog(mod)
    masks = {nm: fact_mask(mod, fn) for nm, fn in (("maskCalcStats", "_calc_stats"), ("maskFindCats", "_find_cats"),
                                                   ("maskZone2d", "_single_zone_crosstab_2d"),
                                                   ("maskZone3d", "_single_zone_crosstab_3d"))}
    rep = dict(stripIndices=strip, strip_note=strip_note, comb=combs, blockStatsOk=block_ok, daskArgs=args,
               catStartAlways=cat_always, rowsSortedNumpy=rows_np, rowsSortedDask=rows_dk,
               statsAligns=st_al, crosstab2dAligns=a2, crosstab3dAligns=a3,
               stridesBits=bits, pctNumpy=pct_np, pctNumpy_src=pct_np_src, pctDask=pct_dk, pctDask_src=pct_dk_src,
               masks={k: v[0] for k, v in masks.items()}, stridesProg=" ".join(sprog.split()), stridesProg_note=sprog_note)
    lines = ["import XrsVerif.Model.Crosstab", "import XrsVerif.Model.ZonalLoop",
             "/-! GENERATED by harness/facts_zonal.py from the current /repo source (xrspatial/zonal.py) -- do not edit. -/",
             "namespace XrsVerif.Gen.Zonal", "open XrsVerif.Zonal", "",
             "/-- `_sort_and_stride` removes the non-finite-zone entries from `sorted_indices` before the gather -/",
             f"def stripIndices : Bool := {lean_bool(strip)}", "",
             "/-- shapes of the `_DASK_STATS` lambdas -/",
             "def comb : BStat → Comb",
             f"  | .max => .{combs['max']}", f"  | .min => .{combs['min']}", f"  | .sum => .{combs['sum']}",
             f"  | .count => .{combs['count']}", f"  | .sumSquares => .{combs['sum_squares']}", "",
             "/-- `_DASK_BLOCK_STATS` = max / min / sum / count / sum of squares of the block's zone values -/",
             f"def blockStatsOk : Bool := {lean_bool(block_ok)}", "",
             "/-- the columns handed to `_dask_mean`, `_dask_std`, `_dask_var` -/",
             f"def daskMeanArgs : List String := {lean_strs(args['_dask_mean'] or ['?'])}",
             f"def daskStdArgs : List String := {lean_strs(args['_dask_std'] or ['?'])}",
             f"def daskVarArgs : List String := {lean_strs(args['_dask_var'] or ['?'])}", "",
             "/-- `_single_zone_crosstab_2d` advances `cat_start` for every category -/",
             f"def catStartAlways : Bool := {lean_bool(cat_always)}", "",
             "/-- the `zone` column lists the requested zones in the order the rows are computed in -/",
             f"def rowsSortedNumpy : Bool := {lean_bool(rows_np)}",
             f"def rowsSortedDask : Bool := {lean_bool(rows_dk)}", "",
             "/-- the values raster is rechunked onto the zones chunking before the blocks are paired -/",
             f"def statsAligns : Bool := {lean_bool(st_al)}",
             f"def crosstab2dAligns : Bool := {lean_bool(a2)}",
             f"def crosstab3dAligns : Bool := {lean_bool(a3)}", "",
             "/-- width (bits) of the signed integers `_strides` returns; the crosstab counts are differences of them -/",
             f"def stridesBits : Nat := {bits}", "",
             "/-- the `percentage` expression of `_crosstab_numpy`: " + pct_np_src.replace("-/", "- /") + " -/",
             f"def pctNumpy : PExpr := {pct_np}",
             "/-- the `percentage` expression of `_crosstab_df_dask`: " + pct_dk_src.replace("-/", "- /") + " -/",
             f"def pctDask : PExpr := {pct_dk}", "",
             "-- the validity filters (`A[mask]`) of `_calc_stats`, `_find_cats` (2-D), `_single_zone_crosstab_2d/_3d`"] + [
             x for nm, (term, src) in masks.items() for x in
             ("/-- " + " ".join(src.split()).replace("-/", "- /") + " -/", f"def {nm} : MExpr := {term}")] + [
             "", "/-- `_strides`, statement by statement, in the translator's normal form (" + sprog_note + ") -/",
             "def stridesProg : LProg :=", "  " + sprog,
             "", "end XrsVerif.Gen.Zonal", ""]
    yield "Zonal.lean", "\n".join(lines), rep
