"""
Self-test of harness/facts_zonal.py (not part of ./check): behaviour-preserving respellings of the shapes the
extractors match must leave every generated fact unchanged (or, for the translated expressions / programs, change
it to a term the theorems still accept -- marked `~`), edits that change behaviour (prefix `X-`) must change a fact.

  /venv/bin/python harness/selftest_facts_zonal.py [name ...]        (reads /repo or $XRS_REPO, writes nothing there)
  KEEP=<dir> ... <name>    leave the edited copy in <dir> (then: translate.py --repo <dir>; lk build XrsVerif.Props.C0x)
"""
import ast
import os
import shutil
import sys
import tempfile

sys.path.insert(0, os.path.dirname(os.path.abspath(__file__)))
import facts_zonal as F  # noqa: E402

REPO = os.environ.get("XRS_REPO", "/repo")
Z = 'xrspatial/zonal.py'
U = 'xrspatial/utils.py'
MAY_CHANGE_TERM = {"pct-temp-total", "mask-swap", "mask-guarded", "mask-logical-and"}     # the generated term changes, the theorem still holds
R = {
 'strip-temp': (Z, [("    sorted_indices = sorted_indices[np.isfinite(flatten_zones[sorted_indices])]\n",
                    "    finite = np.isfinite(flatten_zones[sorted_indices])\n    sorted_indices = sorted_indices[finite]\n")]),
 'comb-positional-axis': (Z, [("np.nanmax(block_maxes, axis=0)", "np.nanmax(block_maxes, 0)"), ("np.nanmin(block_mins, axis=0)", "np.nanmin(block_mins, 0)")]),
 'nansum-temp-floatnan': (Z, [("    return np.where(np.all(np.isnan(blocks), axis=0), np.nan, np.nansum(blocks, axis=0))\n",
                               "    all_nan = np.all(np.isnan(blocks), axis=0)\n    return np.where(all_nan, float('nan'), np.nansum(blocks, 0))\n")]),
 'dask-args-keywords': (Z, [("""        stats_dict['std'] = _dask_std(
            stats_dict['sum_squares'], stats_dict['sum'] ** 2, stats_dict['count']
        )""", """        stats_dict['std'] = _dask_std(
            n=stats_dict['count'], sum_squares=stats_dict['sum_squares'], squared_sum=stats_dict['sum'] ** 2
        )""")]),
 'catloop-range-temp': (Z, [("""    for j, cat in enumerate(unique_cats):
        if cat in cat_ids:
            count = zone_cat_breaks[j] - cat_start
            crosstab_dict[cat].append(count)
        # skip the cells of a category that is not selected as well
        cat_start = zone_cat_breaks[j]
""", """    for j in range(len(unique_cats)):
        cat = unique_cats[j]
        cat_end = zone_cat_breaks[j]
        if cat in cat_ids:
            count = cat_end - cat_start
            crosstab_dict[cat].append(count)
        # skip the cells of a category that is not selected as well
        cat_start = cat_end
""")]),
 'rows-loop-append': (Z, [("        zone_ids = [z for z in unique_zones if z in zone_ids]\n\n    crosstab_dict = {}",
                           "        selected = []\n        for z in unique_zones:\n            if z in zone_ids:\n                selected.append(z)\n        zone_ids = selected\n\n    crosstab_dict = {}")]),
 'select-ids-comprehension': (Z, [("""    selected_ids = []
    for i in ids:
        if i in unique_ids:
            selected_ids.append(i)
    return selected_ids
""", """    return [i for i in ids if i in unique_ids]
""")]),
 'select-ids-keywords': (Z, [("zone_ids = _select_ids(zone_ids, unique_zones)", "zone_ids = _select_ids(ids=unique_zones, unique_ids=zone_ids)")]),
 'validate-enumerate': (U, [("""        for i in range(1, len(arrays)):
            if first_array.chunks != arrays[i].chunks:
                arrays[i].data = arrays[i].data.rechunk(first_array.chunks)""", """        for k, other in enumerate(arrays[1:], 1):
            if not first_array.chunks == other.chunks:
                other.data = other.data.rechunk(arrays[0].chunks)""")]),
 'dict-literal': (Z, [("""_DASK_STATS = dict(
    max=lambda block_maxes: np.nanmax(block_maxes, axis=0),
    min=lambda block_mins: np.nanmin(block_mins, axis=0),
    sum=lambda block_sums: _nansum_or_nan(block_sums),
    count=lambda block_counts: _nansum_or_nan(block_counts),
    sum_squares=lambda block_sum_squares: _nansum_or_nan(block_sum_squares),
    squared_sum=lambda block_sums: _nansum_or_nan(block_sums)**2,
)""", """_DASK_STATS = {
    'max': lambda block_maxes: np.nanmax(block_maxes, axis=0),
    'min': lambda block_mins: np.nanmin(block_mins, axis=0),
    'sum': lambda block_sums: _nansum_or_nan(block_sums),
    'count': lambda block_counts: _nansum_or_nan(block_counts),
    'sum_squares': lambda block_sum_squares: _nansum_or_nan(block_sum_squares),
    'squared_sum': lambda block_sums: _nansum_or_nan(block_sums)**2,
}""")]),
 'pct-temp-total': (Z, [("""        for cat in cat_ids:
            crosstab_dict[cat] = crosstab_dict[cat] / crosstab_dict[TOTAL_COUNT] * 100  # noqa
""", """        totals = crosstab_dict[TOTAL_COUNT]
        for cat in cat_ids:
            crosstab_dict[cat] = 100 * (crosstab_dict[cat] / totals)
""")]),
 'strides-dtype-string': (Z, [("strides = np.zeros(len(unique_zones), dtype=np.int32)", "strides = np.zeros(num_zones, dtype='int32')")]),
 'mask-swap': (Z, [("            zone_values = zone_values[np.isfinite(zone_values) & (zone_values != nodata_values)]\n",
                    "            zone_values = zone_values[(nodata_values != zone_values) & np.isfinite(zone_values)]\n")]),
 'mask-temp': (Z, [("            zone_values = zone_values[np.isfinite(zone_values) & (zone_values != nodata_values)]\n",
                    "            valid = np.isfinite(zone_values) & (zone_values != nodata_values)\n            zone_values = zone_values[valid]\n")]),
 'mask-guarded': (Z, [("            zone_values = zone_values[np.isfinite(zone_values) & (zone_values != nodata_values)]\n",
                    "            valid = np.isfinite(zone_values)\n            if nodata_values is not None:\n                valid &= zone_values != nodata_values\n            zone_values = zone_values[valid]\n")]),
 'mask-logical-and': (Z, [("            zone_values = zone_values[np.isfinite(zone_values) & (zone_values != nodata_values)]\n",
                    "            zone_values = zone_values[np.logical_and(~np.isnan(zone_values) & ~np.isinf(zone_values), ~(zone_values == nodata_values))]\n")]),
 'X-mask-gt': (Z, [("            zone_values = zone_values[np.isfinite(zone_values) & (zone_values != nodata_values)]\n",
                    "            zone_values = zone_values[np.isfinite(zone_values) & (zone_values > nodata_values)]\n")]),
 'X-mask-notnan': (Z, [("            zone_values = zone_values[np.isfinite(zone_values) & (zone_values != nodata_values)]\n",
                    "            zone_values = zone_values[~np.isnan(zone_values) & (zone_values != nodata_values)]\n")]),
 'strides-rename': (Z, [("""    count = 0
    for i in range(num_zones):
        while (count < num_elements) and (
                flatten_zones[count] == unique_zones[i]):
            count += 1
        strides[i] = count
""", """    pos = 0
    for k in range(len(unique_zones)):
        while pos < flatten_zones.shape[0] and flatten_zones[pos] == unique_zones[k]:
            pos = pos + 1
        strides[k] = pos
""")]),
 'X-strides-off-by-one': (Z, [("        strides[i] = count\n", "        strides[i] = count + 1\n")]),
 'X-strides-no-bound': (Z, [("(count < num_elements) and (\n                flatten_zones[count] == unique_zones[i])", "(count < num_elements - 1) and (\n                flatten_zones[count] == unique_zones[i])")]),
 # NOT equivalent: must change a fact
 'X-strip-after-gather': (Z, [("    sorted_zones = flatten_zones[sorted_indices]\n\n    values_shape", "    sorted_zones = flatten_zones[sorted_indices]\n    sorted_zones = sorted_zones[np.isfinite(sorted_zones)]\n\n    values_shape"),
                               ("    sorted_indices = sorted_indices[np.isfinite(flatten_zones[sorted_indices])]\n", "")]),
 'X-pct-mul-first': (Z, [("crosstab_dict[cat] / crosstab_dict[TOTAL_COUNT] * 100", "crosstab_dict[cat] * 100 / crosstab_dict[TOTAL_COUNT]")]),
 'data-locals-after-validate': (Z, [("    result = mapper(values)(\n        zones.data, values.data, zone_ids,", "    zones_arr = zones.data\n    values_arr = values.data\n    result = mapper(values)(\n        zones_arr, values_arr, zone_ids,")]),
 'X-data-hoisted-before-validate': (Z, [("    validate_arrays(zones, values)\n\n    if not (\n        issubclass(zones.data.dtype.type, np.integer)", "    values_arr = values.data\n    validate_arrays(zones, values)\n\n    if not (\n        issubclass(zones.data.dtype.type, np.integer)"),
                                       ("    result = mapper(values)(\n        zones.data, values.data, zone_ids,", "    result = mapper(values)(\n        zones.data, values_arr, zone_ids,")]),
 'X-rechunk-first-only': (U, [("for i in range(1, len(arrays)):\n            if first_array.chunks", "for i in range(1, 2):\n            if first_array.chunks")]),
}


def main(only):
    base = [r for _, _, r in F.generate(REPO)][0]
    bad = 0
    for name, (path, reps) in R.items():
        if only and name not in only:
            continue
        tmp = os.environ.get("KEEP") or tempfile.mkdtemp(prefix="facts-zonal-")
        os.makedirs(os.path.join(tmp, "xrspatial"), exist_ok=True)
        for f in (Z, U):
            shutil.copy(os.path.join(REPO, f), os.path.join(tmp, f))
        src = open(os.path.join(tmp, path)).read()
        missing = [a for a, _ in reps if a not in src]
        if missing:
            print(f"{name:28s} skipped (anchor text not in the current source)")
            continue
        for a, b in reps:
            src = src.replace(a, b)
        ast.parse(src)
        open(os.path.join(tmp, path), "w").write(src)
        rep = [r for _, _, r in F.generate(tmp)][0]
        diff = {k: (base[k], rep[k]) for k in base if base[k] != rep.get(k) and not k.endswith("_note") and not k.endswith("_src")}
        expect_change = name.startswith("X-")
        ok = bool(diff) if expect_change else (not diff or name in MAY_CHANGE_TERM)
        bad += 0 if ok else 1
        print(f"{name:28s} {'ok ' if ok else 'BAD'} {'same' if not diff else '~ ' + ', '.join(sorted(diff))}")
        if not os.environ.get("KEEP"):
            shutil.rmtree(tmp, ignore_errors=True)
    return 1 if bad else 0


if __name__ == "__main__":
    sys.exit(main(sys.argv[1:]))
