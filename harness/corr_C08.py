"""
C08 -- slope, aspect, curvature, hillshade are local 3x3 formulas with NaN borders.

Tie:  G  the three numba kernels (Gen/Kernels.lean), hillshade's numpy code read per cell, and the wiring of
         every public function (Gen/Terrain.lean, harness/facts_terrain.py) are regenerated from /repo;
         the theorems of Props/C08.lean are about exactly those definitions.
      H  (validation of the translator and of the np.gradient contract) the public functions are run on
         generated rasters and compared with the generated wiring + kernel executed by the Lean driver
         (`terrain fn=...`) on the same f4-cast raster and the *intended* cell sizes; the resolution model
         (`resolution ...`) is compared with `utils.get_dataarray_resolution`.
Oracles (written from the property statement and the cited documentation, independent of model and code):
      formula (Horn / five-point Laplacian / GeoExamples shading in float64), NaN border for every size,
      locality (change one cell -> only its 3x3 neighbourhood may change), offset invariance, flat windows,
      ranges, quarter turn, summarize_terrain, dask == numpy, and "the raster's cell size" for rasters as they
      occur in a workflow: DERIVED from a raster that was analysed before (strided overview, window, coordinates
      rescaled to other units -- xarray operations that carry attrs along); the caller never set a `res`
      attribute, so the cell size of the derived raster is the spacing of its own coordinates.
"""
import json
import math
import os

import numpy as np
import xarray as xr

from common import LEAN, Driver, close, grid_tok, parse_grid, tok, untok

PROP = "C08"
FUNCS = ["slope", "aspect", "curvature", "hillshade"]
DTYPES = ["float32", "float64", "int8", "uint8", "int16", "uint16", "int32", "int64"]
SIZES = [0.5, 1.0, 2.0, 4.0, 0.25, 3.0, 10.0, 1.5, 30.0, 8.0]
AZIMUTHS = [225, 0, 90, 315, 45.5, 360, -30, 720, 180.25, 135]
ALTITUDES = [25, 0, 90, 45, 60.25, -10, 100, 12.5, 180]
TOL = {"slope": (2e-6, 2e-5), "aspect": (0.0, 2e-4), "curvature": (2e-6, 2e-6), "hillshade": (0.0, 5e-6)}


def fns():
    import xrspatial
    return {"slope": xrspatial.slope, "aspect": xrspatial.aspect, "curvature": xrspatial.curvature,
            "hillshade": xrspatial.hillshade}


# ------------------------------------------------------------------ cases
def gen_data(rng, h, w, dtype, kind):
    unsigned = dtype.startswith("uint")
    tiny = dtype in ("int8", "uint8")
    if kind == "flat":
        v = rng.choice([0, 1, 5, 100, 37])
        a = np.full((h, w), v, dtype=np.float64)
    elif kind == "ramp":
        p, q = rng.choice([0, 1, -1, 2, 3]), rng.choice([0, 1, -2, 2, 5])
        a = np.fromfunction(lambda i, j: p * i + q * j, (h, w)) + 40
        if rng.random() < 0.5:
            a[rng.randrange(h), rng.randrange(w)] += rng.choice([1, -1, 4])
    elif kind == "dyadic":
        a = np.array([rng.randrange(-128, 129) / 8 for _ in range(h * w)], dtype=np.float64).reshape(h, w)
    elif kind == "wide":
        a = np.array([rng.randrange(0, 120 if tiny else 250) for _ in range(h * w)], dtype=np.float64).reshape(h, w)
    else:  # small (many ties)
        a = np.array([rng.choice([0, 0, 1, 1, 2, 3, -1, -2, 5, 8]) for _ in range(h * w)], dtype=np.float64).reshape(h, w)
    if unsigned:
        a = np.abs(a)
    if not dtype.startswith("float"):
        a = np.floor(a)
    return a.astype(dtype)


def gen_case(rng, fn, force=None):
    force = force or {}
    if "shape" in force:
        h, w = force["shape"]
    elif rng.random() < 0.2:
        h, w = rng.choice([(1, 1), (1, 4), (4, 1), (2, 2), (2, 5), (3, 2), (1, 3), (3, 1), (2, 3)])
    else:
        h, w = rng.randrange(3, 8), rng.randrange(3, 8)
    dtype = force.get("dtype") or rng.choice(DTYPES)
    kind = force.get("kind") or rng.choice(["small", "small", "dyadic", "ramp", "wide", "flat"])
    data = gen_data(rng, h, w, dtype, kind)
    if dtype.startswith("float") and rng.random() < 0.45:
        for _ in range(rng.randrange(1, 4)):
            data[rng.randrange(h), rng.randrange(w)] = np.nan
    modes = ["attr_pair", "attr_pair", "attr_list", "attr_scalar", "attr_ndarray", "attr_int"]
    if h >= 2 and w >= 2:   # a single row / column has no coordinate spacing (calc_res divides by w-1, h-1)
        modes += ["coords", "coords", "coords_desc", "coords_named", "nocoords"]
    mode = force.get("mode") or rng.choice(modes)
    if force.get("square") or rng.random() < 0.35:
        rx = ry = rng.choice(SIZES)
    else:
        rx, ry = rng.sample(SIZES, 2)
    if mode == "attr_scalar":
        ry = rx
    if mode == "attr_int":
        rx, ry = float(int(max(1, rx))), float(int(max(1, ry)))
    if mode == "nocoords":
        rx = ry = 1.0
    x0, y0 = rng.choice([0.0, -3.5, 100.0, 0.125]), rng.choice([0.0, 7.25, -40.0])
    c = dict(fn=fn, dtype=dtype, kind=kind, mode=mode, rx=rx, ry=ry, x0=x0, y0=y0,
             data=[[tok(v) for v in row] for row in data.tolist()],
             az=rng.choice(AZIMUTHS), alt=rng.choice(ALTITUDES))
    # metamorphic parameters (stored so that a replay repeats exactly the same checks)
    i0, j0 = rng.randrange(h), rng.randrange(w)
    new = rng.choice(["nan", "nan", "7", "-3", "100", "0", "inf"])
    if not dtype.startswith("float") and new in ("nan", "inf"):
        new = rng.choice(["7", "0", "100"])
    if dtype.startswith("uint") and new == "-3":
        new = "3"
    c["change"] = [i0, j0, new]
    if dtype.startswith("float"):
        c["offset"] = rng.choice([1, 5, 16, 64, 1000, -250, 0.5])
    else:   # stay inside the integer type
        room = int(np.iinfo(dtype).max) - int(data.max())
        c["offset"] = rng.choice([o for o in (1, 5, 16, 64, 1000) if o <= room] or [0])
    return c


def data_of(c):
    return np.array([[untok(t) for t in row] for row in c["data"]], dtype=np.float64).astype(c["dtype"])


def build(c, data, name="terrain"):
    """the DataArray of case `c` holding `data` (any shape): resolution by attribute or by coordinates"""
    h, w = data.shape
    mode, rx, ry = c["mode"], c["rx"], c["ry"]
    dims = ("lat", "lon") if mode == "coords_named" else ("y", "x")
    kw = dict(dims=dims, name=name)
    if mode.startswith("coords"):
        xs = c["x0"] + rx * np.arange(w)
        ys = c["y0"] + ry * np.arange(h)
        if mode == "coords_desc":
            ys = ys[::-1].copy()
        kw["coords"] = {dims[0]: ys, dims[1]: xs}
    elif mode == "attr_pair":
        kw["attrs"] = {"res": (rx, ry)}
    elif mode == "attr_list":
        kw["attrs"] = {"res": [rx, ry]}
    elif mode == "attr_ndarray":
        kw["attrs"] = {"res": np.array([rx, ry], dtype=np.float64)}
    elif mode == "attr_scalar":
        kw["attrs"] = {"res": rx}
    elif mode == "attr_int":
        kw["attrs"] = {"res": (int(rx), int(ry))}
    return xr.DataArray(data, **kw)


def call(fn, agg, c, backend="numpy", chunks=None):
    f = fns()[fn]
    if backend == "dask":
        import dask.array as da
        agg = agg.copy()
        agg.data = da.from_array(np.asarray(agg.data), chunks=chunks)
    try:
        out = f(agg, azimuth=c["az"], angle_altitude=c["alt"]) if fn == "hillshade" else f(agg)
        arr = out.data
        if backend == "dask":
            arr = arr.compute()
        return "ok", np.asarray(arr)
    except (ValueError, ZeroDivisionError, TypeError, IndexError) as ex:
        return type(ex).__name__, str(ex)


# ------------------------------------------------------------------ independent reference (documentation)
def reference(fn, z, rx, ry, az, alt):
    """documented formulas in float64 on the f4-cast elevations `z`; NaN border; rows grow southwards"""
    h, w = z.shape
    out = np.full((h, w), np.nan)
    if h < 3 or w < 3:
        return out
    N, S, W, E = z[:-2, 1:-1], z[2:, 1:-1], z[1:-1, :-2], z[1:-1, 2:]
    NW, NE, SW, SE, C = z[:-2, :-2], z[:-2, 2:], z[2:, :-2], z[2:, 2:], z[1:-1, 1:-1]
    with np.errstate(all="ignore"):
        if fn == "slope":      # ArcGIS "How slope works"
            dzdx = ((NE + 2 * E + SE) - (NW + 2 * W + SW)) / (8 * rx)
            dzdy = ((SW + 2 * S + SE) - (NW + 2 * N + NE)) / (8 * ry)
            v = np.degrees(np.arctan(np.sqrt(dzdx * dzdx + dzdy * dzdy)))
        elif fn == "aspect":   # ArcGIS "How aspect works"
            dzdx = ((NE + 2 * E + SE) - (NW + 2 * W + SW)) / 8
            dzdy = ((SW + 2 * S + SE) - (NW + 2 * N + NE)) / 8
            A = np.degrees(np.arctan2(dzdy, -dzdx))
            v = np.where(A < 0, 90 - A, np.where(A > 90, 360 - A + 90, 90 - A))
            v = np.where((dzdx == 0) & (dzdy == 0), -1.0, v)
        elif fn == "curvature":  # -100 * Laplacian / cellsize^2, cellsize = mean of the two
            cs = (rx + ry) / 2
            v = -100 * (N + S + E + W - 4 * C) / (cs * cs)
        else:                  # GeoExamples shaded relief, unit-spaced central differences
            gx, gy = (S - N) / 2, (E - W) / 2
            slope = math.pi / 2 - np.arctan(np.sqrt(gx * gx + gy * gy))
            aspect = np.arctan2(-gx, gy)
            azr, altr = math.radians(360.0 - az), math.radians(alt)
            v = (math.sin(altr) * np.sin(slope) + math.cos(altr) * np.cos(slope) * np.cos(azr - math.pi / 2 - aspect) + 1) / 2
    out[1:-1, 1:-1] = v
    return out


def same(fn, a, b, scale=1.0):
    """None or (i, j) of the first cell where two outputs differ (NaN pattern exact, aspect compared on the circle)"""
    rel, ab = TOL[fn]
    h, w = a.shape
    for i in range(h):
        for j in range(w):
            x, y = float(a[i, j]), float(b[i, j])
            if x != x or y != y:
                if not (x != x and y != y):
                    return (i, j)
                continue
            if fn == "aspect":
                if (x == -1.0) != (y == -1.0):
                    return (i, j)
                d = abs(x - y)
                if min(d, abs(360 - d)) > ab * scale:
                    return (i, j)
            elif not close(x, y, rel=rel * scale, abs_=ab * scale):
                return (i, j)
    return None


def in_range(fn, out):
    v = out[~np.isnan(out)]
    if fn == "slope":
        return bool(((v >= 0) & (v <= 90)).all())
    if fn == "aspect":
        return bool(((v == -1) | ((v >= 0) & (v <= 360))).all())
    if fn == "hillshade":
        return bool(((v >= -1e-7) & (v <= 1 + 1e-7)).all())
    return True


# ------------------------------------------------------------------ oracles on one case
def check_case(c, model=None, thorough=True):
    """run every applicable oracle; returns (list of (key, message), real output or None).
    `model` = the driver's reply grid for this case (or None)."""
    fn, bad = c["fn"], []
    data = data_of(c)
    h, w = data.shape
    rx, ry = c["rx"], c["ry"]
    z = data.astype("f4").astype(np.float64)
    agg = build(c, data)
    st, out = call(fn, agg, c)
    if st != "ok":
        if fn == "hillshade" and (h < 2 or w < 2) and st == "ValueError":
            bad.append((f"{fn}:small-raster-raises", f"{fn} on a {h}x{w} raster raised {st}: {out[:80]} "
                        f"(every cell is a border cell: an all-NaN raster is expected, as slope/aspect/curvature "
                        f"and hillshade's own dask path return)"))
        else:
            bad.append((f"{fn}:raises", f"{fn} raised {st}: {out[:120]} on {h}x{w} {c['dtype']} mode={c['mode']}"))
        return bad, None
    if out.shape != (h, w):
        return [(f"{fn}:shape", f"output shape {out.shape} for input {(h, w)}")], None
    finite_in = not np.isinf(z).any()
    # border NaN, every size
    edge = np.ones((h, w), bool)
    edge[1:-1, 1:-1] = False
    if not np.isnan(out[edge]).all():
        idx = tuple(int(t) for t in np.argwhere(edge & ~np.isnan(out))[0])
        bad.append((f"{fn}:border", f"border cell {idx} of a {h}x{w} raster is {out[idx]}, expected NaN"))
    # documented formula
    ref = reference(fn, z, rx, ry, c["az"], c["alt"])
    d = same(fn, out, ref)
    if d is not None and finite_in:
        bad.append((f"{fn}:formula", f"cell {d}: got {out[d]}, documented formula gives {ref[d]} "
                    f"(cell sizes x={rx} y={ry}, mode={c['mode']}, dtype={c['dtype']})"))
    if not in_range(fn, out):
        bad.append((f"{fn}:range", f"value outside the stated range: min={np.nanmin(out)} max={np.nanmax(out)}"))
    # flat windows
    if c["kind"] == "flat" and h >= 3 and w >= 3 and not np.isnan(z).any():
        want = {"slope": 0.0, "aspect": -1.0, "curvature": 0.0}.get(fn)
        if want is not None and not (out[1:-1, 1:-1] == want).all():
            bad.append((f"{fn}:flat", f"flat raster gave {out[1:-1, 1:-1].ravel()[:4]}, expected {want}"))
    # model (generated kernel + wiring) vs real
    if model is not None:
        d = same(fn, out, np.array(model, dtype=np.float64))
        if d is not None:
            bad.append(("@model", f"cell {d}: real={out[d]} model={model[d[0]][d[1]]}"))
    if not thorough:
        return bad, out
    # locality: change one cell
    i0, j0, new = c["change"]
    d2 = data.copy()
    d2[i0, j0] = untok(new)
    st2, out2 = call(fn, build(c, d2), c)
    if st2 != "ok":
        bad.append((f"{fn}:raises", f"after changing one cell: {st2}"))
    else:
        far = np.ones((h, w), bool)
        far[max(0, i0 - 1):i0 + 2, max(0, j0 - 1):j0 + 2] = False
        diff = far & ~((out == out2) | (np.isnan(out) & np.isnan(out2)))
        if diff.any():
            idx = tuple(int(t) for t in np.argwhere(diff)[0])
            bad.append((f"{fn}:locality", f"changing cell ({i0},{j0}) to {new} changed output cell {idx} "
                        f"({out[idx]} -> {out2[idx]}), outside its 3x3 neighbourhood"))
    # offset invariance (offsets are exactly representable together with the data)
    off = c["offset"]
    d3 = (data.astype(np.float64) + off).astype(c["dtype"])
    st3, out3 = call(fn, build(c, d3), c)
    if st3 != "ok":
        bad.append((f"{fn}:raises", f"after adding {off}: {st3}"))
    else:
        d = same(fn, out, out3)
        if d is not None:
            bad.append((f"{fn}:offset", f"adding {off} to every elevation changed cell {d}: {out[d]} -> {out3[d]}"))
    # quarter turn (square cells)
    if rx == ry and fn != "hillshade":
        dr = np.rot90(data).copy()
        st4, out4 = call(fn, build(c, dr), c)
        if st4 != "ok":
            bad.append((f"{fn}:raises", f"on the turned raster: {st4}"))
        else:
            exp = np.rot90(out)
            if fn == "aspect":
                exp = np.where(np.isnan(exp) | (exp == -1), exp, np.mod(exp - 90.0, 360.0))
            d = same(fn, out4, exp)
            if d is not None:
                bad.append((f"{fn}:quarter-turn", f"turned raster cell {d}: got {out4[d]}, expected {exp[d]} "
                            f"(= {'aspect - 90 mod 360' if fn == 'aspect' else 'turned output'})"))
    return bad, out


def check_wild(c):
    """random magnitudes / inf / NaN / arbitrary cell sizes: border, range, locality only"""
    fn, bad = c["fn"], []
    data = data_of(c)
    h, w = data.shape
    st, out = call(fn, build(c, data), c)
    if st != "ok":
        return [(f"{fn}:raises", f"{fn} raised {st}: {out[:100]}")]
    edge = np.ones((h, w), bool)
    edge[1:-1, 1:-1] = False
    if not np.isnan(out[edge]).all():
        bad.append((f"{fn}:border", "border cell not NaN (wild raster)"))
    if not in_range(fn, out):
        bad.append((f"{fn}:range", f"value outside the stated range: min={np.nanmin(out)} max={np.nanmax(out)}"))
    i0, j0, new = c["change"]
    d2 = data.copy()
    d2[i0, j0] = untok(new)
    st2, out2 = call(fn, build(c, d2), c)
    if st2 == "ok":
        far = np.ones((h, w), bool)
        far[max(0, i0 - 1):i0 + 2, max(0, j0 - 1):j0 + 2] = False
        diff = far & ~((out == out2) | (np.isnan(out) & np.isnan(out2)))
        if diff.any():
            idx = tuple(int(t) for t in np.argwhere(diff)[0])
            bad.append((f"{fn}:locality", f"changing cell ({i0},{j0}) changed output cell {idx} (wild raster)"))
    return bad


def gen_wild(rng, fn):
    h, w = rng.randrange(3, 7), rng.randrange(3, 7)
    dtype = rng.choice(["float32", "float64"])
    k = rng.choice([-3, 0, 3, 8, 20, 30, 38])
    vals = [rng.gauss(0, 1) * 10.0 ** k for _ in range(h * w)]
    for _ in range(rng.randrange(0, 3)):
        vals[rng.randrange(h * w)] = rng.choice([float("inf"), float("-inf"), float("nan"), 3.4e38, 1e-45])
    with np.errstate(all="ignore"):
        data = np.array(vals).reshape(h, w).astype(dtype)
    c = dict(fn=fn, dtype=dtype, kind="wild", mode=rng.choice(["attr_pair", "coords"]),
             rx=rng.choice([1e-3, 0.37, 1.0, 29.7, 1e3]), ry=rng.choice([1e-3, 0.37, 1.0, 29.7, 1e3]),
             x0=0.0, y0=0.0, data=[[tok(v) for v in row] for row in data.tolist()],
             az=rng.uniform(-400, 800), alt=rng.uniform(-100, 200),
             change=[rng.randrange(h), rng.randrange(w), rng.choice(["nan", "inf", "1", "-1000000"])], offset=0)
    return c


def model_request(c):
    data = data_of(c)
    h, w = data.shape
    z = data.astype("f4").astype(np.float64)
    req = f"terrain fn={c['fn']} rows={h} cols={w} resx={tok(c['rx'])} resy={tok(c['ry'])} data={grid_tok(z)}"
    if c["fn"] == "hillshade":
        req += f" p:azimuth={tok(float(c['az']))} p:angle_altitude={tok(float(c['alt']))}"
    return req


# ------------------------------------------------------------------ other streams
def check_resolution(c, drv_reply):
    """utils.get_dataarray_resolution on the case's DataArray vs the intended cell sizes and vs the model"""
    from xrspatial.utils import get_dataarray_resolution
    data = data_of(c)
    h, w = data.shape
    agg = build(c, data)
    try:
        gx, gy = get_dataarray_resolution(agg)
    except ZeroDivisionError:
        return [("resolution:raises", f"ZeroDivisionError for mode {c['mode']} shape {(h, w)}")]
    bad = []
    if float(gx) != c["rx"] or float(gy) != c["ry"]:
        bad.append(("resolution:value", f"get_dataarray_resolution gave ({gx}, {gy}) for intended x={c['rx']} "
                    f"y={c['ry']} (mode {c['mode']}, shape {(h, w)})"))
    if drv_reply is not None:
        mx, my = (untok(t) for t in drv_reply.split(","))
        if not (close(float(gx), mx) and close(float(gy), my)):
            bad.append(("@model", f"resolution real=({gx},{gy}) model=({mx},{my})"))
    return bad


def resolution_request(c):
    data = data_of(c)
    h, w = data.shape
    mode = c["mode"]
    if mode in ("attr_pair", "attr_list", "attr_ndarray", "attr_int"):
        return f"resolution attr=pair ax={tok(c['rx'])} ay={tok(c['ry'])}"
    if mode == "attr_scalar":
        return f"resolution attr=scalar ax={tok(c['rx'])}"
    if mode == "nocoords":
        xs, ys = np.arange(w, dtype=float), np.arange(h, dtype=float)
    else:
        xs, ys = c["x0"] + c["rx"] * np.arange(w), c["y0"] + c["ry"] * np.arange(h)
    return (f"resolution attr=other xmin={tok(xs.min())} xmax={tok(xs.max())} ymin={tok(ys.min())} "
            f"ymax={tok(ys.max())} h={h} w={w}")


def check_summarize(c):
    from xrspatial.analytics import summarize_terrain
    data = data_of(c)
    agg = build(c, data, name="dem")
    try:
        ds = summarize_terrain(agg)
    except Exception as ex:  # noqa: BLE001
        return [("summarize:raises", f"summarize_terrain raised {type(ex).__name__}: {ex}")]
    bad = []
    z = data.astype("f4").astype(np.float64)
    for fn in ("slope", "curvature", "aspect"):
        key = f"dem-{fn}"
        if key not in ds:
            bad.append(("summarize:names", f"variable {key} missing: {list(ds.data_vars)}"))
            continue
        ref = reference(fn, z, c["rx"], c["ry"], 0, 0)
        d = same(fn, np.asarray(ds[key].data), ref)
        if d is not None and not np.isinf(z).any():
            bad.append(("summarize:value", f"{key} cell {d}: {np.asarray(ds[key].data)[d]} vs documented {fn} {ref[d]}"))
    return bad


def gen_derived(rng, fn):
    """a raster whose cell size comes from its coordinates (no `res` attribute), a first call on it, and a second
    raster derived from the same object the way callers derive rasters"""
    c = gen_case(rng, fn, dict(mode=rng.choice(["coords", "coords", "coords_desc", "coords_named"]),
                               shape=(rng.randrange(6, 11), rng.randrange(6, 11)),
                               dtype=rng.choice(["float32", "float64", "int16", "int32"]),
                               kind=rng.choice(["small", "dyadic", "ramp", "wide"])))
    op = rng.choice(["stride", "stride", "rescale", "rescale", "window"])
    if op == "stride":
        c["derive"] = dict(op="stride", sy=rng.choice([1, 2, 2, 3]), sx=rng.choice([2, 2, 1, 3]))
    elif op == "rescale":
        c["derive"] = dict(op="rescale", k=rng.choice([0.001, 1000.0, 0.5, 4.0]))
    else:
        c["derive"] = dict(op="window", y0=1, x0=rng.choice([0, 1, 2]))
    c["first"] = rng.choice(["slope", "curvature", "slope", "curvature", "aspect", "hillshade", "summarize", "none"])
    return c


def check_derived(c):
    """fn on a raster derived from an already analysed one: documented formula with the derived raster's OWN cell size"""
    fn = c["fn"]
    data = data_of(c)
    base = build(c, data)
    if dict(base.attrs):
        return []          # (never: the coords modes set no attribute) a `res` set by the caller would be the cell size
    if c["first"] == "summarize":
        from xrspatial.analytics import summarize_terrain
        try:
            summarize_terrain(base)
        except Exception:  # noqa: BLE001 -- reported by the summarize stream
            pass
    elif c["first"] != "none":
        call(c["first"], base, c)
    d = c["derive"]
    ydim, xdim = base.dims
    rx, ry = c["rx"], c["ry"]
    if d["op"] == "stride":
        der = base[::d["sy"], ::d["sx"]]
        rx, ry = rx * d["sx"], ry * d["sy"]
    elif d["op"] == "window":
        der = base[d["y0"]:, d["x0"]:]
    else:
        der = base.assign_coords({ydim: base[ydim] * d["k"], xdim: base[xdim] * d["k"]})
        rx, ry = rx * d["k"], ry * d["k"]
    h, w = der.shape
    if h < 2 or w < 2:
        return []
    z = np.asarray(der.data).astype("f4").astype(np.float64)
    st, out = call(fn, der, c)
    if st != "ok":
        return [(f"{fn}:raises", f"{fn} raised {st}: {out[:100]} on a raster derived by {d}")]
    ref = reference(fn, z, rx, ry, c["az"], c["alt"])
    bad = same(fn, out, ref)
    if bad is not None and not np.isinf(z).any():
        return [(f"{fn}:derived-cellsize",
                 f"{fn} of a {h}x{w} raster derived ({d}) from a raster on which {c['first']} was called before: cell {bad} is "
                 f"{out[bad]}, the documented formula with the derived raster's own cell size x={rx} y={ry} (its coordinate "
                 f"spacing; no `res` attribute was ever set by the caller) gives {ref[bad]}; attrs now: {dict(der.attrs)}")]
    return []


def check_dask(c, rng_chunks):
    fn = c["fn"]
    data = data_of(c)
    st, out = call(fn, build(c, data), c)
    st2, out2 = call(fn, build(c, data), c, backend="dask", chunks=rng_chunks)
    if st != "ok":
        return []       # reported by the main stream
    if st2 != "ok":
        return [(f"{fn}:dask", f"dask backend raised {st2} (chunks {rng_chunks})")]
    d = same(fn, out, out2)
    if d is not None:
        return [(f"{fn}:dask", f"dask (chunks {rng_chunks}) differs from numpy at {d}: {out2[d]} vs {out[d]}")]
    return []


# ------------------------------------------------------------------ the check
def facts_ok(r):
    """T2 facts that have an observable are observed: margins (1,1,1,1), summarize_calls"""
    rep = json.load(open(os.path.join(LEAN, "XrsVerif", "Gen", "report.json"))).get("facts:Terrain.lean", {})
    if not rep.get("hillshade_cpu", {}).get("ok"):
        r.disagree("facts", "hillshade_cpu", "hillshade._run_numpy", "untranslatable: " + str(rep.get("hillshade_cpu")))
    return rep


def run(r, n_override=None):
    n = {"quick": 150, "thorough": 8000}[r.tier] if n_override is None else n_override
    r.rule = ("per function: shapes 1x1..7x7 (20% with a side < 3), 8 dtypes, values small ints with ties / dyadics / "
              "ramps / flat / 0..250, NaN cells for floats, cell size by res attr (tuple, list, ndarray, scalar, int) "
              "or coordinates (ascending, descending, renamed dims) with x != y in 65%, 10 azimuths x 9 altitudes; "
              "each case also runs one-cell change, offset, quarter turn; derived stream: a 6..10-cell raster with coordinates "
              "only, one of slope/curvature/aspect/hillshade/summarize_terrain called on it, then a strided overview / window / "
              "unit-rescaled copy derived from the same object is analysed with its own coordinate spacing as cell size; "
              "non-trivial = distinct case with an interior")
    r.trusted += ["np.gradient interior stencil (contract of Gen.hillshade_cpu; checked by the hillshade correspondence stream)"]
    r.assumptions += ["values over exact reals / an ordered field: float rounding is covered by correspondence only",
                      "±inf elevations are not represented in NV (covered by the wild oracle stream)"]
    facts_ok(r)
    drv = Driver()
    # corpus first
    for body in r.corpus():
        c = body["case"]
        bad = _check_any(c)
        r.case(c, nontrivial=True, tags=["corpus"])
        for key, msg in bad:
            if key != "@model":
                r.fail(key, msg, c)
    cases, reqs, rreqs = [], [], []
    for fn in FUNCS:
        # a few forced cases: every dtype once, square + non-square, int cell sizes
        forced = [dict(dtype=dt) for dt in DTYPES] + [dict(square=True, shape=(5, 4)), dict(mode="coords", shape=(4, 6)),
                                                       dict(mode="coords_desc", shape=(6, 3)), dict(shape=(1, 4)),
                                                       dict(shape=(4, 1)), dict(shape=(1, 1)), dict(shape=(2, 2)),
                                                       dict(kind="flat", shape=(4, 4))]
        for k in range(n):
            c = gen_case(r.rng, fn, forced[k] if k < len(forced) else None)
            cases.append(c)
            reqs.append(model_request(c))
            rreqs.append(resolution_request(c))
    replies = drv.ask(reqs + rreqs)
    mrep, rrep = replies[:len(reqs)], replies[len(reqs):]
    for k, (c, rep, rr) in enumerate(zip(cases, mrep, rrep)):
        fn = c["fn"]
        h, w = len(c["data"]), len(c["data"][0])
        model = parse_grid(rep) if rep[:1].isdigit() else None
        if model is None:
            r.disagree("kernel-vs-real", c, "real output", f"driver said {rep[:200]}")
        bad, out = check_case(c, model)
        r.case(c, desc=dict(fn=fn, shape=[h, w], dtype=c["dtype"], mode=c["mode"], rx=c["rx"], ry=c["ry"]) if k % n == 0 else None,
               nontrivial=(h >= 3 and w >= 3 and c["kind"] != "flat"),
               tags=[f"fn:{fn}", f"dtype:{c['dtype']}", f"mode:{c['mode']}", f"kind:{c['kind']}",
                     "shape:small" if (h < 3 or w < 3) else "shape:interior",
                     "cells:square" if c["rx"] == c["ry"] else "cells:x!=y"])
        if out is not None:
            r.tag("nan_interior_cells", int(np.isnan(out[1:-1, 1:-1]).sum()) if h >= 3 and w >= 3 else 0)
        for key, msg in bad:
            if key == "@model":
                r.disagree("kernel-vs-real", c, msg, reqs[k][:400])
            else:
                r.fail(key, msg, c)
        if fn in ("slope", "curvature"):
            for key, msg in check_resolution(c, rr):
                if key == "@model":
                    r.disagree("resolution-vs-real", c, msg, rreqs[k])
                else:
                    r.fail(key, msg, dict(c, stream="resolution"))
    # wild stream (oracles only)
    for fn in FUNCS:
        for k in range(max(10, n // 3)):
            c = gen_wild(r.rng, fn)
            r.case(c, nontrivial=True, tags=[f"fn:{fn}", "stream:wild"])
            for key, msg in check_wild(c):
                r.fail(key, msg, dict(c, stream="wild"))
    # summarize_terrain
    for k in range(max(8, n // 6)):
        c = gen_case(r.rng, "slope", dict(dtype=r.rng.choice(["float32", "float64", "int32"])))
        r.case(c, nontrivial=True, tags=["fn:summarize_terrain"])
        for key, msg in check_summarize(c):
            r.fail(key, msg, dict(c, stream="summarize"))
    # rasters derived from an analysed raster: the cell size is the derived raster's own
    for k in range(max(16, n // 4)):
        fn = r.rng.choice(["slope", "curvature", "slope", "curvature", "aspect", "hillshade"])
        c = gen_derived(r.rng, fn)
        r.case(c, nontrivial=True, tags=[f"fn:{fn}", "stream:derived", f"derive:{c['derive']['op']}", f"first:{c['first']}"])
        for key, msg in check_derived(c):
            r.fail(key, msg, dict(c, stream="derived"))
    # dask == numpy
    for fn in FUNCS:
        for k in range(max(4, n // 12)):
            c = gen_case(r.rng, fn, dict(shape=(r.rng.randrange(3, 9), r.rng.randrange(3, 9))))
            h, w = len(c["data"]), len(c["data"][0])
            chunks = (r.rng.randrange(1, h + 1), r.rng.randrange(1, w + 1))
            r.case(dict(c, chunks=chunks), nontrivial=True, tags=[f"fn:{fn}", "stream:dask"])
            for key, msg in check_dask(c, chunks):
                r.fail(key, msg, dict(c, stream="dask", chunks=list(chunks)))


def _check_any(c):
    s = c.get("stream")
    if s == "wild":
        return check_wild(c)
    if s == "summarize":
        return check_summarize(c)
    if s == "dask":
        return check_dask(c, tuple(c["chunks"]))
    if s == "resolution":
        return check_resolution(c, None)
    if s == "derived":
        return check_derived(c)
    return check_case(c, None)[0]


def search(r):
    """a proof obligation or the correspondence broke: run the oracles on many more cases"""
    run(r, n_override={"quick": 250, "thorough": 1500}[r.tier])


def replay(r, body):
    bad = [b for b in _check_any(body["case"]) if b[0] != "@model"]
    want = body.get("key")
    hit = [b for b in bad if b[0] == want] or bad
    if hit:
        print("still fails:", hit[0][0], "--", hit[0][1])
        return 1
    print("does not fail on the current tree")
    return 0
