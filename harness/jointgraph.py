"""
Joint-graph evaluation of several lazy (Dask-backed) results -- shared by corr_C01 / corr_C07 / corr_C13.

A public call on a Dask-backed raster returns a lazy result: a task graph whose keys are `(layer name, i, j)`.
Computing one result on its own evaluates one graph.  As soon as two lazy results are evaluated *together* -- one
`dask.compute(a.data, b.data)`, an expression such as `a - b`, the variables of one `xr.Dataset` -- dask merges their
graphs into ONE dictionary: tasks with equal keys are taken to be the same task and one replaces the other.  The
property "the Dask result equals the NumPy result of the same call" is a statement about the computed value of each
result *however it is computed*; two results whose graphs share a key although they compute different things are
both right alone and (all but one) wrong together.  Key uniqueness is dask's job (it names a layer after a token of
the function and of all arguments) unless a call site names its own key; see Props/C01.lean section 6b
(`no_call_site_names_its_graph_key`) and Proofs/GraphKeys.lean for the model.

This module holds what is independent of the property: the three ways of putting results into one graph and the
judgement of each result against its *own* expected (NumPy-backed) value.
"""
import numpy as np

MODES = ["compute", "minus", "dataset"]


def _aligned(lazies):
    """same dims, shape and coordinate values: xarray arithmetic / Dataset construction will not re-index"""
    z0 = lazies[0]
    for z in lazies[1:]:
        if z.dims != z0.dims or z.shape != z0.shape:
            return False
        for d in z0.dims:
            if (d in z0.coords) != (d in z.coords):
                return False
            if d in z0.coords and not np.array_equal(np.asarray(z0[d].values), np.asarray(z[d].values)):
                return False
    return True


def effective_mode(lazies, mode):
    """`minus` and `dataset` need aligned results (`minus` also float results); otherwise fall back to `compute`"""
    if mode == "compute" or len(lazies) < 2 or not _aligned(lazies):
        return "compute"
    if mode == "minus" and not all(np.issubdtype(z.dtype, np.floating) for z in lazies):
        return "compute"
    return mode


def evaluate(lazies, mode, sched=("synchronous", None)):
    """evaluate the lazy DataArrays in ONE graph.
       compute : dask.compute(a.data, b.data, ...)            -> ("each", [ndarray per result])
       dataset : xr.Dataset({v0: a, v1: b, ...}).compute()    -> ("each", [ndarray per result])
       minus   : (a - b).data.compute() for b in the others   -> ("minus", [ndarray per pair (0, i)])"""
    import dask
    import xarray as xr
    kw = dict(scheduler=sched[0])
    if sched[1]:
        kw["num_workers"] = sched[1]
    mode = effective_mode(lazies, mode)
    with dask.config.set(**kw):
        if mode == "compute":
            return "each", [np.asarray(g) for g in dask.compute(*[z.data for z in lazies])]
        if mode == "dataset":
            ds = xr.Dataset({f"v{i}": z for i, z in enumerate(lazies)}).compute()
            return "each", [np.asarray(ds[f"v{i}"].data) for i in range(len(lazies))]
        return "minus", [np.asarray((lazies[0] - z).data.compute()) for z in lazies[1:]]


def same_cells(a, b):
    return a.shape == b.shape and bool(np.all(np.where(np.isnan(a) | np.isnan(b), np.isnan(a) & np.isnan(b), a == b)))


def minus_bad(e0, ei, got, rtol=1e-4):
    """None, or how `got` differs from `e0 - ei`.  The two operands were each allowed a few float32 ulps against
    their NumPy value (re-ordered global reductions), so the difference is allowed the same, relative to the
    operands' magnitude -- a key collision gives `a - a` (zero wherever `e0 - ei` is not), far outside that."""
    e0, ei, got = (np.asarray(x, dtype=np.float64) for x in (e0, ei, got))
    if got.shape != e0.shape or e0.shape != ei.shape:
        return f"shape {got.shape} vs {e0.shape}"
    with np.errstate(all="ignore"):
        exp = e0 - ei
        scale = np.maximum(np.abs(np.nan_to_num(e0, nan=0.0, posinf=0.0, neginf=0.0)),
                           np.abs(np.nan_to_num(ei, nan=0.0, posinf=0.0, neginf=0.0)))
        ok = np.where(np.isnan(exp) | np.isnan(got), np.isnan(exp) & np.isnan(got),
                      (exp == got) | (np.abs(exp - got) <= rtol * scale + 1e-9))
    if ok.all():
        return None
    i = tuple(int(t) for t in np.argwhere(~ok)[0])
    return f"(a - b) is {got[i]} at {i}, NumPy gives {e0[i]} - {ei[i]} = {exp[i]} ({int((~ok).sum())} cells differ)"


def distinct(expected):
    """do the expected results of the calls differ from each other (so that one replacing the other would show)?"""
    return any(not same_cells(np.asarray(expected[0], dtype=np.float64), np.asarray(e, dtype=np.float64))
               for e in expected[1:])
