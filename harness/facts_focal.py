"""
Layer T2 for C09 (focal / convolution): structural facts of /repo's current source -> Gen/Focal.lean.

What is extracted (every item is an `ast` pattern; nothing from /repo is imported or executed):

  focal._apply_numpy        half widths (`int(krows / 2)`), the two gather loops' ranges, the bounds guard,
                            `kyidx / kxidx`, which kernel entry is tested against which constant, which buffer
                            position is written from which data cell, whether the buffer is reset to NaN for
                            every output cell, where the reducer's value is stored
  focal._mean_numpy         the slice bounds of the 3x3 window (`max(x-1, 0)` ...), which axis they slice,
                            the reducer (np.nanmean), the pass-through branch, the exclusion loop
  focal._equal_numpy        the comparison as a KLang condition (T1 `C`)
  focal.mean                float cast + `for i in range(passes)` iteration
  focal._calc_*             which numpy reduction each built-in reducer is
  focal._focal_stats_cpu    the stat-name -> reducer table, the per-name `apply` loop; default stat list
  focal.apply/focal_stats   `custom_kernel(kernel)` is called before the mapper; default reducer of apply
  focal._hotspots_numpy     kernel normalisation, z-score expression, zero-std guard
  convolution._convolve_2d_numpy   half widths, outer loop margins, inner window ranges, kernel / data indices
                            of the accumulated product, NaN pre-fill
  convolution.custom_kernel the ndarray test and the rejected-shape predicate

When a pattern is not found the fact is emitted with a value that cannot satisfy the theorems that use it
(`*_ok := false`, expressions `:= 0`), never with the expected one.
"""
import ast
import os

from translate import KernelTranslator, Untranslatable, call_name, find_func, lean_str, str_list


class NoMatch(Exception):
    pass


def parse(repo, rel):
    return ast.parse(open(os.path.join(repo, rel)).read())


# ------------------------------------------------------------------ integer / boolean expressions
class IX:
    """python integer expression -> Lean term over `Int` (or `Nat` when nat=True); `env` maps python names to Lean text"""

    def __init__(self, env, nat=False):
        self.env, self.nat = dict(env), nat

    def num(self, n):
        if isinstance(n, ast.Constant) and isinstance(n.value, int) and not isinstance(n.value, bool):
            return str(n.value) if n.value >= 0 else f"({n.value})"
        if isinstance(n, ast.Constant) and isinstance(n.value, float) and n.value == int(n.value):
            return str(int(n.value))
        if isinstance(n, ast.Name):
            if n.id in self.env:
                return self.env[n.id]
            raise NoMatch(f"free name {n.id}")
        if isinstance(n, ast.UnaryOp) and isinstance(n.op, ast.USub):
            if self.nat:
                raise NoMatch("negation in a shape expression")
            return f"(-{self.num(n.operand)})"
        if isinstance(n, ast.BinOp):
            if isinstance(n.op, (ast.Add, ast.Sub, ast.Mult)):
                op = {ast.Add: "+", ast.Sub: "-", ast.Mult: "*"}[type(n.op)]
                return f"({self.num(n.left)} {op} {self.num(n.right)})"
            if isinstance(n.op, (ast.FloorDiv, ast.Mod)) and isinstance(n.right, ast.Constant) \
                    and isinstance(n.right.value, int) and n.right.value > 0:
                # floor division / modulo by a positive literal: Lean's `/`, `%` on Int (and Nat) are exactly these
                op = "/" if isinstance(n.op, ast.FloorDiv) else "%"
                return f"({self.num(n.left)} {op} {n.right.value})"
            raise NoMatch(f"binop {ast.unparse(n)}")
        if isinstance(n, ast.Call):
            nm = call_name(n.func)
            if nm in ("max", "min") and len(n.args) == 2 and not n.keywords:
                return f"({nm} {self.num(n.args[0])} {self.num(n.args[1])})"
            if nm == "int" and len(n.args) == 1 and isinstance(n.args[0], ast.BinOp) \
                    and isinstance(n.args[0].op, ast.Div) and isinstance(n.args[0].right, ast.Constant) \
                    and isinstance(n.args[0].right.value, int) and n.args[0].right.value > 0:
                if not self.nat:
                    raise NoMatch("int(a / c) outside a shape expression")
                # int(a / c) truncates; for a >= 0 (array extents) this is Nat division
                return f"({self.num(n.args[0].left)} / {n.args[0].right.value})"
        raise NoMatch(f"expression {ast.unparse(n)}")

    def boolean(self, n):
        if isinstance(n, ast.BoolOp):
            op = " && " if isinstance(n.op, ast.And) else " || "
            return "(" + op.join(self.boolean(v) for v in n.values) + ")"
        if isinstance(n, ast.UnaryOp) and isinstance(n.op, ast.Not):
            return f"(!{self.boolean(n.operand)})"
        if isinstance(n, ast.Compare):
            ops = {ast.Lt: "<", ast.LtE: "≤", ast.Gt: ">", ast.GtE: "≥", ast.Eq: "=", ast.NotEq: "≠"}
            parts, left = [], n.left
            for o, right in zip(n.ops, n.comparators):
                if type(o) not in ops:
                    raise NoMatch(f"comparison {ast.unparse(n)}")
                parts.append(f"decide ({self.num(left)} {ops[type(o)]} {self.num(right)})")
                left = right
            return "(" + " && ".join(parts) + ")"
        raise NoMatch(f"condition {ast.unparse(n)}")


def shape_bindings(func):
    """`rows, cols = data.shape` / `nx = data.shape[0]`  ->  {python name: (array, axis)}"""
    out = {}
    for st in func.body:
        if isinstance(st, ast.Assign) and len(st.targets) == 1:
            t, v = st.targets[0], st.value
            if isinstance(t, ast.Tuple) and len(t.elts) == 2 and isinstance(v, ast.Attribute) and v.attr == "shape" \
                    and isinstance(v.value, ast.Name) and all(isinstance(e, ast.Name) for e in t.elts):
                out[t.elts[0].id] = (v.value.id, 0)
                out[t.elts[1].id] = (v.value.id, 1)
            if isinstance(t, ast.Name) and isinstance(v, ast.Subscript) and isinstance(v.value, ast.Attribute) \
                    and v.value.attr == "shape" and isinstance(v.value.value, ast.Name) \
                    and isinstance(v.slice, ast.Constant) and v.slice.value in (0, 1):
                out[t.id] = (v.value.value.id, v.slice.value)
    return out


def simple_assigns(stmts):
    """name -> value for `a = e` and `a, b = e1, e2` statements of a block (in order, later wins)"""
    out = {}
    for st in stmts:
        if isinstance(st, ast.Assign) and len(st.targets) == 1:
            t, v = st.targets[0], st.value
            if isinstance(t, ast.Name):
                out[t.id] = v
            elif isinstance(t, ast.Tuple) and isinstance(v, ast.Tuple) and len(t.elts) == len(v.elts) \
                    and all(isinstance(e, ast.Name) for e in t.elts):
                for e, x in zip(t.elts, v.elts):
                    out[e.id] = x
    return out


def range_args(call):
    if not (isinstance(call, ast.Call) and call_name(call.func) in ("range", "prange") and not call.keywords):
        raise NoMatch(f"loop iterator {ast.unparse(call)}")
    a = call.args
    if len(a) == 1:
        return ast.Constant(0), a[0]
    if len(a) == 2 or (len(a) == 3 and isinstance(a[2], ast.Constant) and a[2].value == 1):
        return a[0], a[1]
    raise NoMatch(f"range with a step: {ast.unparse(call)}")


def idx2(sub, arr=None):
    """`arr[e1, e2]` -> (arr, e1, e2)"""
    if isinstance(sub, ast.Subscript) and isinstance(sub.value, ast.Name) and isinstance(sub.slice, ast.Tuple) \
            and len(sub.slice.elts) == 2 and (arr is None or sub.value.id == arr):
        return sub.value.id, sub.slice.elts[0], sub.slice.elts[1]
    raise NoMatch(f"2-d subscript expected: {ast.unparse(sub)}")


def is_np_nan(n):
    return isinstance(n, ast.Attribute) and n.attr == "nan"


class Emit:
    def __init__(self):
        self.lines = []
        self.rep = {}

    def define(self, name, sig, typ, value, src):
        self.lines.append(f"/-- `{src}` -/" if src else "/-- NOT FOUND in the source -/")
        self.lines.append(f"def {name} {sig}: {typ} := {value}\n")
        self.rep[name] = src if src else "NOT FOUND"


# ------------------------------------------------------------------ focal._apply_numpy
APPLY_VARS = ["rows", "cols", "krows", "kcols", "hrows", "hcols", "y", "x", "ky", "kx"]


def facts_apply(mod, em):
    names = ["apply_hrows", "apply_hcols", "apply_ky_lo", "apply_ky_hi", "apply_kx_lo", "apply_kx_hi",
             "apply_in_bounds", "apply_test_idx", "apply_test_val", "apply_store_idx", "apply_read_idx"]
    f = find_func(mod, "_apply_numpy")
    try:
        if f is None:
            raise NoMatch("focal._apply_numpy not found")
        params = [a.arg for a in f.args.args]
        if len(params) != 3:
            raise NoMatch("signature")
        data, kernel, func = params
        sh = shape_bindings(f)
        # python names of the extents
        role = {}
        for nm, (arr, ax) in sh.items():
            if arr == data:
                role[nm] = "rows" if ax == 0 else "cols"
            elif arr == kernel:
                role[nm] = "krows" if ax == 0 else "kcols"
        top = simple_assigns(f.body)
        outer = [s for s in f.body if isinstance(s, ast.For)]
        if len(outer) != 1 or not isinstance(outer[0].target, ast.Name):
            raise NoMatch("outer loop")
        yl = outer[0]
        if len(yl.body) != 1 or not isinstance(yl.body[0], ast.For) or not isinstance(yl.body[0].target, ast.Name):
            raise NoMatch("inner loop")
        xl = yl.body[0]
        yv, xv = yl.target.id, xl.target.id
        # the output loops cover the whole raster
        for loop, want in ((yl, "rows"), (xl, "cols")):
            lo, hi = range_args(loop.iter)
            if not (isinstance(lo, ast.Constant) and lo.value == 0 and isinstance(hi, ast.Name)
                    and role.get(hi.id) == want):
                raise NoMatch(f"output loop {ast.unparse(loop.iter)} is not range({want})")
        # half widths: expressions over the kernel shape
        hw = [nm for nm in top if nm not in sh and nm not in (data,) and isinstance(top[nm], (ast.Call, ast.BinOp))
              and any(isinstance(n, ast.Name) and role.get(n.id) in ("krows", "kcols") for n in ast.walk(top[nm]))
              and not any(isinstance(n, ast.Attribute) for n in ast.walk(top[nm]))]
        shape_env = {nm: r for nm, r in role.items() if r in ("krows", "kcols")}
        ixn = IX(shape_env, nat=True)
        # body of the x loop
        body = list(xl.body)
        fill_each = False
        buf = None
        if body and isinstance(body[0], ast.Expr) and isinstance(body[0].value, ast.Call) \
                and call_name(body[0].value.func) == "fill" and len(body[0].value.args) == 1 \
                and is_np_nan(body[0].value.args[0]) and isinstance(body[0].value.func.value, ast.Name):
            fill_each = True
            buf = body[0].value.func.value.id
            body = body[1:]
        if len(body) != 2 or not isinstance(body[0], ast.For) or not isinstance(body[1], ast.Assign):
            raise NoMatch("x-loop body is not [reset,] gather loops, store")
        kyl = body[0]
        if len(kyl.body) != 1 or not isinstance(kyl.body[0], ast.For):
            raise NoMatch("gather loops")
        kxl = kyl.body[0]
        kyv, kxv = kyl.target.id, kxl.target.id
        # out[y, x] = func(buf)
        st = body[1]
        oarr, oy, ox = idx2(st.targets[0])
        if not (isinstance(oy, ast.Name) and oy.id == yv and isinstance(ox, ast.Name) and ox.id == xv):
            raise NoMatch("output index is not [y, x]")
        if not (isinstance(st.value, ast.Call) and isinstance(st.value.func, ast.Name) and st.value.func.id == func
                and len(st.value.args) == 1 and isinstance(st.value.args[0], ast.Name)):
            raise NoMatch("reducer call")
        if buf is None:
            buf = st.value.args[0].id
        if st.value.args[0].id != buf:
            raise NoMatch("reducer does not receive the gathered buffer")
        # buffer allocated once with the kernel's shape
        alloc = top.get(buf)
        if not (isinstance(alloc, ast.Call) and call_name(alloc.func) == "zeros_like" and alloc.args
                and isinstance(alloc.args[0], ast.Name) and alloc.args[0].id == kernel):
            raise NoMatch("window buffer is not zeros_like(kernel)")
        if not fill_each:
            # a reset elsewhere (before the loops) still has to exist, else the buffer starts as zeros
            pass
        env = {}
        for nm, r in role.items():
            env[nm] = f"v.{r}"
        env[yv], env[xv], env[kyv], env[kxv] = "v.y", "v.x", "v.ky", "v.kx"
        hnames = {}
        for nm in hw:
            # which half width is it?  the one used in the ky range is hrows, in the kx range hcols
            pass
        # identify hrows / hcols by use: names in the ky range / kx range that are half widths
        klo, khi = range_args(kyl.iter)
        xlo, xhi = range_args(kxl.iter)
        used_y = {n.id for e in (klo, khi) for n in ast.walk(e) if isinstance(n, ast.Name)} & set(hw)
        used_x = {n.id for e in (xlo, xhi) for n in ast.walk(e) if isinstance(n, ast.Name)} & set(hw)
        if len(hw) != 2:
            raise NoMatch(f"expected two half-width definitions, found {hw}")
        # keep the *source's* naming: first defined = hrows, second = hcols
        h_first, h_second = hw
        env[h_first], env[h_second] = "v.hrows", "v.hcols"
        ix = IX(env)
        em.define("apply_hrows", "(krows kcols : Nat) ", "Nat", ixn.num(top[h_first]), f"{h_first} = {ast.unparse(top[h_first])}")
        em.define("apply_hcols", "(krows kcols : Nat) ", "Nat", ixn.num(top[h_second]), f"{h_second} = {ast.unparse(top[h_second])}")
        em.define("apply_ky_lo", "(v : ApplyVars) ", "Int", ix.num(klo), f"for {kyv} in {ast.unparse(kyl.iter)}")
        em.define("apply_ky_hi", "(v : ApplyVars) ", "Int", ix.num(khi), f"for {kyv} in {ast.unparse(kyl.iter)}")
        em.define("apply_kx_lo", "(v : ApplyVars) ", "Int", ix.num(xlo), f"for {kxv} in {ast.unparse(kxl.iter)}")
        em.define("apply_kx_hi", "(v : ApplyVars) ", "Int", ix.num(xhi), f"for {kxv} in {ast.unparse(kxl.iter)}")
        # innermost body: if <bounds>: idx assigns; if kernel[..] == c: buf[..] = data[..]
        inner = kxl.body
        if len(inner) != 1 or not isinstance(inner[0], ast.If) or inner[0].orelse:
            raise NoMatch("innermost body is not a single bounds `if`")
        g = inner[0]
        em.define("apply_in_bounds", "(v : ApplyVars) ", "Bool", ix.boolean(g.test), "if " + ast.unparse(g.test))
        loc = simple_assigns(g.body)
        ix2 = IX(env)
        for nm, val in loc.items():
            ix2.env[nm] = ix2.num(val)
        tests = [s for s in g.body if isinstance(s, ast.If)]
        if len(tests) != 1 or tests[0].orelse or len(tests[0].body) != 1:
            raise NoMatch("kernel test")
        t = tests[0]
        if not (isinstance(t.test, ast.Compare) and len(t.test.ops) == 1 and isinstance(t.test.ops[0], ast.Eq)
                and isinstance(t.test.comparators[0], ast.Constant) and isinstance(t.test.comparators[0].value, int)):
            raise NoMatch("kernel test is not `kernel[..] == <int>`")
        _, t1, t2 = idx2(t.test.left, kernel)
        em.define("apply_test_idx", "(v : ApplyVars) ", "Int × Int", f"({ix2.num(t1)}, {ix2.num(t2)})",
                  "if " + ast.unparse(t.test) + "   with " + "; ".join(f"{k} = {ast.unparse(v)}" for k, v in loc.items()))
        em.define("apply_test_val", "", "Int", str(t.test.comparators[0].value), "if " + ast.unparse(t.test))
        s = t.body[0]
        if not (isinstance(s, ast.Assign) and len(s.targets) == 1):
            raise NoMatch("gather store")
        _, s1, s2 = idx2(s.targets[0], buf)
        _, r1, r2 = idx2(s.value, data)
        em.define("apply_store_idx", "(v : ApplyVars) ", "Int × Int", f"({ix2.num(s1)}, {ix2.num(s2)})", ast.unparse(s))
        em.define("apply_read_idx", "(v : ApplyVars) ", "Int × Int", f"({ix2.num(r1)}, {ix2.num(r2)})", ast.unparse(s))
        em.define("apply_fill_each_step", "", "Bool", "true" if fill_each else "false",
                  f"{buf}.fill(np.nan) is the first statement of the per-cell loop body: {fill_each}")
        em.define("apply_ok", "", "Bool", "true", "all patterns of focal._apply_numpy recognised")
        em.rep["apply_half_width_use"] = dict(ky=sorted(used_y), kx=sorted(used_x))
    except NoMatch as ex:
        em.rep["apply_error"] = str(ex)
        done = set(em.rep)
        for nm in names:
            if nm in done:
                continue
            if nm in ("apply_hrows", "apply_hcols"):
                em.define(nm, "(krows kcols : Nat) ", "Nat", "0", None)
            elif nm == "apply_in_bounds":
                em.define(nm, "(v : ApplyVars) ", "Bool", "false", None)
            elif nm in ("apply_test_idx", "apply_store_idx", "apply_read_idx"):
                em.define(nm, "(v : ApplyVars) ", "Int × Int", "(0, 0)", None)
            elif nm == "apply_test_val":
                em.define(nm, "", "Int", "0", None)
            else:
                em.define(nm, "(v : ApplyVars) ", "Int", "0", None)
        if "apply_fill_each_step" not in done:
            em.define("apply_fill_each_step", "", "Bool", "false", None)
        em.define("apply_ok", "", "Bool", "false", None)


# ------------------------------------------------------------------ focal._mean_numpy / _equal_numpy / mean

def mean_dispatch_fact(mod):
    """the glue `focal._mean(data, excludes)`: one ArrayTypeFunctionMapping; the backend function it selects is called
    exactly once, outside any control flow, with (the data, excludes), and its value is what `_mean` returns
    -> (ok, source text, why not)"""
    from facts_dask import local_bindings
    try:
        f = find_func(mod, "_mean")
        if f is None:
            raise NoMatch("_mean not found")
        params = [a.arg for a in f.args.args]
        if len(params) != 2 or f.args.vararg or f.args.kwarg or f.args.kwonlyargs:
            raise NoMatch("signature of _mean")
        data, excl = params
        if any(isinstance(n, (ast.For, ast.While, ast.ListComp, ast.GeneratorExp, ast.SetComp, ast.DictComp, ast.If,
                              ast.IfExp, ast.Try)) for n in ast.walk(f)):
            raise NoMatch("control flow in _mean")
        maps = [n for n in ast.walk(f) if isinstance(n, ast.Call) and call_name(n.func) == "ArrayTypeFunctionMapping"]
        if len(maps) != 1:
            raise NoMatch("ArrayTypeFunctionMapping calls")
        binds = local_bindings(f)
        mnames = [k for k, vs in binds.items() if len(vs) == 1 and vs[0] is maps[0]]
        # the selection `mapper(agg)` (or the mapping called directly), possibly bound once to a local name
        def is_selection(n):
            return isinstance(n, ast.Call) and len(n.args) == 1 and not n.keywords and \
                ((isinstance(n.func, ast.Name) and n.func.id in mnames) or n.func is maps[0])
        sel_names = [k for k, vs in binds.items() if len(vs) == 1 and is_selection(vs[0])]
        uses = [n for n in ast.walk(f) if isinstance(n, ast.Call)
                and (is_selection(n.func) or (isinstance(n.func, ast.Name) and n.func.id in sel_names))]
        if len(uses) != 1:
            raise NoMatch(f"{len(uses)} calls of the selected backend function")
        use = uses[0]
        if use.keywords or len(use.args) != 2:
            raise NoMatch("arguments of the backend call")
        # first argument: the data (directly, or `.data` of a DataArray built from it)
        a0 = use.args[0]
        wraps = [k for k, vs in binds.items() if len(vs) == 1 and isinstance(vs[0], ast.Call)
                 and call_name(vs[0].func) == "DataArray" and len(vs[0].args) == 1 and not vs[0].keywords
                 and isinstance(vs[0].args[0], ast.Name) and vs[0].args[0].id == data]
        ok0 = (isinstance(a0, ast.Name) and a0.id == data) or \
            (isinstance(a0, ast.Attribute) and a0.attr == "data" and isinstance(a0.value, ast.Name) and a0.value.id in wraps)
        if not ok0 or not (isinstance(use.args[1], ast.Name) and use.args[1].id == excl):
            raise NoMatch("the backend is not called with (data, excludes)")
        if len(binds.get(data, [])) or len(binds.get(excl, [])):
            raise NoMatch("parameters rebound")
        rets = [n for n in ast.walk(f) if isinstance(n, ast.Return)]
        if len(rets) != 1:
            raise NoMatch("returns")
        rv = rets[0].value
        if rv is use:
            pass
        elif isinstance(rv, ast.Name) and len(binds.get(rv.id, [])) == 1 and binds[rv.id][0] is use:
            pass
        else:
            raise NoMatch("the backend's value is not what _mean returns")
        return True, ast.unparse(use), ""
    except NoMatch as ex:
        return False, None, str(ex)


def mean_loop_fact(mod):
    """the wrapper `focal.mean`: is the result `passes` applications of the one-pass function to the (float) raster?

        out = agg.data.astype(float)            # or `agg.data`; any name for `out`
        ...                                     # statements that do not touch `out`
        for <v> in range(passes):               # range(passes) / range(0, passes) / range(0, passes, 1)
            out = _mean(out, <excludes ...>)    # fed back; the only call of the one-pass function in `mean`
        return DataArray(out, ...)              # the iterated value is what is returned

    -> (ok, source text, why not).  Anything else (loop moved into a helper / a backend, different trip count, result
    not fed back, extra calls of the one-pass function, `out` rebound after the loop) is reported as not recognised."""
    f = find_func(mod, "mean")
    if f is None:
        return False, None, "focal.mean not found"
    params = [a.arg for a in f.args.args]
    if len(params) < 2 or "passes" not in params:
        return False, None, "no `passes` parameter"
    agg = params[0]
    body = [st for st in f.body if not (isinstance(st, ast.Expr) and isinstance(st.value, ast.Constant))]  # docstring
    loops = [i for i, st in enumerate(body) if isinstance(st, (ast.For, ast.While))]
    if len(loops) != 1 or not isinstance(body[loops[0]], ast.For):
        return False, None, f"{len(loops)} loops at the top level of mean()"
    li = loops[0]
    lp = body[li]
    try:
        lo, hi = range_args(lp.iter)
    except NoMatch as ex:
        return False, None, str(ex)
    if not (isinstance(lo, ast.Constant) and lo.value == 0 and isinstance(hi, ast.Name) and hi.id == "passes"):
        return False, None, f"trip count {ast.unparse(lp.iter)}"
    if lp.orelse or len(lp.body) != 1 or not isinstance(lp.body[0], ast.Assign) or len(lp.body[0].targets) != 1:
        return False, None, "loop body is not a single assignment"
    st = lp.body[0]
    if not (isinstance(st.targets[0], ast.Name) and isinstance(st.value, ast.Call) and isinstance(st.value.func, ast.Name)
            and len(st.value.args) + len(st.value.keywords) == 2 and st.value.args
            and isinstance(st.value.args[0], ast.Name) and st.value.args[0].id == st.targets[0].id):
        return False, None, "loop body is not `out = <one-pass>(out, excludes)`"
    out, one = st.targets[0].id, st.value.func.id
    if one != "_mean":
        return False, None, f"one-pass function is {one}"
    second = st.value.args[1] if len(st.value.args) == 2 else st.value.keywords[0].value
    if "excludes" not in {n.id for n in ast.walk(second) if isinstance(n, ast.Name)}:
        return False, None, "second argument does not carry `excludes`"
    if isinstance(lp.target, ast.Name) and lp.target.id in (out, "passes", "excludes"):
        return False, None, "loop variable shadows a name used in the body"
    if sum(1 for n in ast.walk(f) if isinstance(n, ast.Call) and call_name(n.func) == one) != 1:
        return False, None, "more than one call of the one-pass function"
    # passes / excludes / out are not rebound elsewhere (out: exactly once before the loop)
    stores = {}
    for n in ast.walk(f):
        if isinstance(n, ast.Name) and isinstance(n.ctx, (ast.Store, ast.Del)):
            stores[n.id] = stores.get(n.id, 0) + 1
    if stores.get("passes", 0) != 0:
        return False, None, "`passes` is rebound"
    if stores.get(out, 0) != 2:
        return False, None, f"`{out}` is bound {stores.get(out, 0)} times"
    init = [s2 for s2 in body[:li] if isinstance(s2, ast.Assign) and len(s2.targets) == 1
            and isinstance(s2.targets[0], ast.Name) and s2.targets[0].id == out]
    if len(init) != 1:
        return False, None, f"`{out}` is not initialised before the loop"
    iv = init[0].value
    data_attr = f"{agg}.data"
    if not (ast.unparse(iv) == data_attr
            or (isinstance(iv, ast.Call) and isinstance(iv.func, ast.Attribute) and iv.func.attr == "astype"
                and ast.unparse(iv.func.value) == data_attr)):
        return False, None, f"initial value {ast.unparse(iv)}"
    rets = [n for n in ast.walk(f) if isinstance(n, ast.Return)]
    if len(rets) != 1 or body[-1] is not rets[0]:
        return False, None, "not exactly one return at the end"
    rv = rets[0].value
    if not (isinstance(rv, ast.Call) and call_name(rv.func) == "DataArray" and rv.args
            and isinstance(rv.args[0], ast.Name) and rv.args[0].id == out):
        return False, None, "the iterated value is not what is returned"
    return True, (ast.unparse(init[0]) + "; " + ast.unparse(lp).replace("\n", "; ") + "; return DataArray(" + out + ", ...)"), ""


def facts_mean(mod, em):
    names_int = ["mean_row_lo", "mean_row_hi", "mean_col_lo", "mean_col_hi"]
    f = find_func(mod, "_mean_numpy")
    try:
        if f is None:
            raise NoMatch("focal._mean_numpy not found")
        params = [a.arg for a in f.args.args]
        if len(params) != 2:
            raise NoMatch("signature")
        data, excl = params
        sh = shape_bindings(f)
        env = {}
        for nm, (arr, ax) in sh.items():
            if arr == data:
                env[nm] = "v.rows" if ax == 0 else "v.cols"
        outer = [s for s in f.body if isinstance(s, ast.For)]
        if len(outer) != 1 or len(outer[0].body) != 1 or not isinstance(outer[0].body[0], ast.For):
            raise NoMatch("loop nest")
        yl, xl = outer[0], outer[0].body[0]
        yv, xv = yl.target.id, xl.target.id
        for loop, want in ((yl, "v.rows"), (xl, "v.cols")):
            lo, hi = range_args(loop.iter)
            if not (isinstance(lo, ast.Constant) and lo.value == 0 and isinstance(hi, ast.Name) and env.get(hi.id) == want):
                raise NoMatch(f"output loop {ast.unparse(loop.iter)}")
        env[yv], env[xv] = "v.y", "v.x"
        body = xl.body
        # exclude = False; for ex in excludes: if _equal_numpy(data[y, x], ex): exclude = True; break
        if len(body) != 3:
            raise NoMatch("per-cell body is not [flag, exclusion loop, if/else]")
        flag_st, loop_st, if_st = body
        if not (isinstance(flag_st, ast.Assign) and isinstance(flag_st.targets[0], ast.Name)
                and isinstance(flag_st.value, ast.Constant) and flag_st.value.value is False):
            raise NoMatch("flag initialisation")
        flag = flag_st.targets[0].id
        ok_loop = False
        eq_fn = None
        if isinstance(loop_st, ast.For) and isinstance(loop_st.iter, ast.Name) and loop_st.iter.id == excl \
                and isinstance(loop_st.target, ast.Name) and len(loop_st.body) == 1 and isinstance(loop_st.body[0], ast.If):
            t = loop_st.body[0]
            if isinstance(t.test, ast.Call) and isinstance(t.test.func, ast.Name) and len(t.test.args) == 2 and not t.orelse:
                a0, a1 = t.test.args
                try:
                    _, i1, i2 = idx2(a0, data)
                    cell_ok = isinstance(i1, ast.Name) and i1.id == yv and isinstance(i2, ast.Name) and i2.id == xv
                except NoMatch:
                    cell_ok = False
                sets = [s for s in t.body if isinstance(s, ast.Assign) and isinstance(s.targets[0], ast.Name)
                        and s.targets[0].id == flag and isinstance(s.value, ast.Constant) and s.value.value is True]
                if cell_ok and isinstance(a1, ast.Name) and a1.id == loop_st.target.id and sets:
                    ok_loop = True
                    eq_fn = t.test.func.id
        if not ok_loop:
            raise NoMatch("exclusion loop")
        # `if not exclude: <mean> else: <copy>`  or, with the branches swapped, `if exclude: <copy> else: <mean>`
        if isinstance(if_st, ast.If) and isinstance(if_st.test, ast.UnaryOp) and isinstance(if_st.test.op, ast.Not) \
                and isinstance(if_st.test.operand, ast.Name) and if_st.test.operand.id == flag:
            mean_body, copy_body = if_st.body, if_st.orelse
        elif isinstance(if_st, ast.If) and isinstance(if_st.test, ast.Name) and if_st.test.id == flag:
            mean_body, copy_body = if_st.orelse, if_st.body
        else:
            raise NoMatch("if not exclude")
        loc = simple_assigns(mean_body)
        ix = IX(env)
        for nm, val in loc.items():
            try:
                ix.env[nm] = ix.num(val)
            except NoMatch:
                pass
        # kernel_data = data[a:b, c:d]; out[y, x] = np.nanmean(kernel_data)
        sl = None
        for nm, val in loc.items():
            if isinstance(val, ast.Subscript) and isinstance(val.value, ast.Name) and val.value.id == data \
                    and isinstance(val.slice, ast.Tuple) and len(val.slice.elts) == 2 \
                    and all(isinstance(e, ast.Slice) and e.step is None and e.lower is not None and e.upper is not None
                            for e in val.slice.elts):
                sl = (nm, val)
        if sl is None:
            raise NoMatch("window slice")
        wname, wsub = sl
        s0, s1 = wsub.slice.elts
        store = [s for s in mean_body if isinstance(s, ast.Assign) and isinstance(s.targets[0], ast.Subscript)]
        if len(store) != 1:
            raise NoMatch("store of the mean")
        _, oy, ox = idx2(store[0].targets[0])
        v = store[0].value
        if not (isinstance(oy, ast.Name) and oy.id == yv and isinstance(ox, ast.Name) and ox.id == xv
                and isinstance(v, ast.Call) and len(v.args) == 1 and isinstance(v.args[0], ast.Name) and v.args[0].id == wname):
            raise NoMatch("out[y, x] = reducer(window)")
        em.define("mean_row_lo", "(v : MeanVars) ", "Int", ix.num(s0.lower), ast.unparse(wsub) + "  with " +
                  "; ".join(f"{k} = {ast.unparse(x)}" for k, x in loc.items() if k != wname))
        em.define("mean_row_hi", "(v : MeanVars) ", "Int", ix.num(s0.upper), ast.unparse(wsub))
        em.define("mean_col_lo", "(v : MeanVars) ", "Int", ix.num(s1.lower), ast.unparse(wsub))
        em.define("mean_col_hi", "(v : MeanVars) ", "Int", ix.num(s1.upper), ast.unparse(wsub))
        em.define("mean_reducer", "", "String", lean_str(call_name(v.func) or "?"), ast.unparse(store[0]))
        # else: out[y, x] = data[y, x]
        pt = False
        if len(copy_body) == 1 and isinstance(copy_body[0], ast.Assign):
            e = copy_body[0]
            try:
                _, a, b = idx2(e.targets[0])
                _, c, d = idx2(e.value, data)
                pt = all(isinstance(n, ast.Name) for n in (a, b, c, d)) and (a.id, b.id, c.id, d.id) == (yv, xv, yv, xv)
            except NoMatch:
                pt = False
        em.define("mean_excluded_pass_through", "", "Bool", "true" if pt else "false",
                  "else: " + (ast.unparse(copy_body[0]) if copy_body else "<missing>"))
        em.define("mean_equal_fn", "", "String", lean_str(eq_fn), ast.unparse(loop_st.body[0].test))
        em.define("mean_kernel_ok", "", "Bool", "true", "all patterns of focal._mean_numpy recognised")
    except NoMatch as ex:
        em.rep["mean_error"] = str(ex)
        for nm in names_int:
            if nm not in em.rep:
                em.define(nm, "(v : MeanVars) ", "Int", "0", None)
        if "mean_reducer" not in em.rep:
            em.define("mean_reducer", "", "String", '"?"', None)
        if "mean_excluded_pass_through" not in em.rep:
            em.define("mean_excluded_pass_through", "", "Bool", "false", None)
        if "mean_equal_fn" not in em.rep:
            em.define("mean_equal_fn", "", "String", '"?"', None)
        em.define("mean_kernel_ok", "", "Bool", "false", None)

    # _equal_numpy(x, y): `if <cond>: return True` / `return False`   ->  KLang condition over E.var "a", E.var "b"
    f = find_func(mod, "_equal_numpy")
    cond = None
    if f is not None and len(f.args.args) == 2 and len(f.body) == 2 and isinstance(f.body[0], ast.If) \
            and not f.body[0].orelse and len(f.body[0].body) == 1 and isinstance(f.body[0].body[0], ast.Return) \
            and isinstance(f.body[0].body[0].value, ast.Constant) and f.body[0].body[0].value.value is True \
            and isinstance(f.body[1], ast.Return) and isinstance(f.body[1].value, ast.Constant) \
            and f.body[1].value.value is False:
        try:
            tr = KernelTranslator(mod, f)
            tr.yvar = tr.xvar = None
            cond = tr.cond(f.body[0].test)
            a, b = [x.arg for x in f.args.args]
            em.rep["equal_numpy_args"] = [a, b]
        except Untranslatable:
            cond = None
    if cond is not None:
        a, b = em.rep["equal_numpy_args"]
        em.define("equal_numpy_cond", "", "C", cond, "_equal_numpy: if " + ast.unparse(f.body[0].test) + ": return True; return False")
        em.define("equal_numpy_args", "", "String × String", f"({lean_str(a)}, {lean_str(b)})", "def _equal_numpy(" + a + ", " + b + ")")
    else:
        em.define("equal_numpy_cond", "", "C", "C.ff", None)
        em.define("equal_numpy_args", "", "String × String", '("?", "?")', None)

    ok, src, why = mean_loop_fact(mod)
    if ok:
        ok, dsrc, why = mean_dispatch_fact(mod)
        src = f"{src}   with _mean: return {dsrc}" if ok else None
    if not ok:
        em.rep["mean_iterates_passes_error"] = why
    em.define("mean_iterates_passes", "", "Bool", "true" if ok else "false", src if ok else None)


# ------------------------------------------------------------------ built-in reducers, focal_stats table
def calc_of(mod, name, depth=0):
    """`_calc_x`: `return np.nanmean(array)` -> "nanmean";  `_calc_range` -> "nanmax-nanmin" """
    f = find_func(mod, name)
    if f is None or len(f.args.args) != 1 or depth > 3:
        return "?"
    arr = f.args.args[0].arg
    loc = {}
    for st in f.body:
        if isinstance(st, ast.Assign) and isinstance(st.targets[0], ast.Name):
            loc[st.targets[0].id] = st.value
        elif isinstance(st, ast.Return):
            def ev(n):
                if isinstance(n, ast.Name) and n.id in loc:
                    return ev(loc[n.id])
                if isinstance(n, ast.Call) and len(n.args) == 1 and isinstance(n.args[0], ast.Name) and n.args[0].id == arr:
                    if isinstance(n.func, ast.Attribute) and isinstance(n.func.value, ast.Name) and n.func.value.id == "np":
                        return n.func.attr
                    if isinstance(n.func, ast.Name):
                        return calc_of(mod, n.func.id, depth + 1)
                if isinstance(n, ast.BinOp) and isinstance(n.op, ast.Sub):
                    return ev(n.left) + "-" + ev(n.right)
                return "?"
            return ev(st.value)
    return "?"


def facts_stats(mod, em):
    f = find_func(mod, "_focal_stats_cpu")
    table, src, loop_ok = [], None, False
    if f is not None:
        for st in f.body:
            if isinstance(st, ast.Assign) and isinstance(st.value, ast.Dict) and isinstance(st.targets[0], ast.Name):
                tname = st.targets[0].id
                for k, v in zip(st.value.keys, st.value.values):
                    if isinstance(k, ast.Constant) and isinstance(k.value, str) and isinstance(v, ast.Name):
                        table.append((k.value, calc_of(mod, v.id)))
                    else:
                        table.append(("?", "?"))
                src = ast.unparse(st).replace("\n", " ")
                # for stats in stats_funcs: stats_agg = apply(agg, kernel, func=table[stats]); stats_aggs.append(stats_agg)
                for lp in f.body:
                    if isinstance(lp, ast.For) and isinstance(lp.target, ast.Name) and isinstance(lp.iter, ast.Name) \
                            and lp.iter.id == f.args.args[2].arg:
                        calls = [n for n in ast.walk(lp) if isinstance(n, ast.Call) and call_name(n.func) == "apply"]
                        if len(calls) == 1 and len(calls[0].args) == 2 \
                                and [ast.unparse(a) for a in calls[0].args] == [f.args.args[0].arg, f.args.args[1].arg]:
                            kws = {k.arg: k.value for k in calls[0].keywords}
                            fv = kws.get("func")
                            if isinstance(fv, ast.Subscript) and isinstance(fv.value, ast.Name) and fv.value.id == tname \
                                    and isinstance(fv.slice, ast.Name) and fv.slice.id == lp.target.id:
                                loop_ok = True
    em.define("focal_stats_table", "", "List (String × String)",
              "[" + ", ".join(f"({lean_str(k)}, {lean_str(v)})" for k, v in table) + "]", src)
    em.define("focal_stats_applies_each", "", "Bool", "true" if loop_ok else "false",
              "for stats in stats_funcs: apply(agg, kernel, func=_function_mapping[stats])" if loop_ok else None)
    f = find_func(mod, "focal_stats")
    dflt = None
    if f is not None and f.args.defaults:
        d = f.args.defaults[-1]
        if isinstance(d, ast.List) and all(isinstance(e, ast.Constant) and isinstance(e.value, str) for e in d.elts):
            dflt = [e.value for e in d.elts]
    em.define("focal_stats_default", "", "List String", str_list(dflt or []), f"stats_funcs={dflt}" if dflt else None)
    f = find_func(mod, "apply")
    dfn = "?"
    if f is not None:
        args = [a.arg for a in f.args.args]
        if "func" in args and f.args.defaults:
            i = args.index("func") - (len(args) - len(f.args.defaults))
            if i >= 0 and isinstance(f.args.defaults[i], ast.Name):
                dfn = calc_of(mod, f.args.defaults[i].id)
    em.define("apply_default_reducer", "", "String", lean_str(dfn), "def apply(raster, kernel, func=...)" if dfn != "?" else None)

    def validates(fname):
        f = find_func(mod, fname)
        if f is None:
            return False
        seen = False
        for st in f.body:
            if isinstance(st, ast.Assign) and isinstance(st.targets[0], ast.Name) and st.targets[0].id == "kernel" \
                    and isinstance(st.value, ast.Call) and call_name(st.value.func) == "custom_kernel" \
                    and len(st.value.args) == 1 and isinstance(st.value.args[0], ast.Name) and st.value.args[0].id == "kernel":
                seen = True
            if any(isinstance(n, ast.Call) and isinstance(n.func, ast.Call) and call_name(n.func.func) == "mapper"
                   for n in ast.walk(st)):
                return seen
        return False
    for fn in ("apply", "focal_stats"):
        ok = validates(fn)
        em.define(f"{fn}_validates_kernel", "", "Bool", "true" if ok else "false",
                  "kernel = custom_kernel(kernel) precedes the backend call" if ok else None)


# ------------------------------------------------------------------ hotspots wrapper
class _Inline(ast.NodeTransformer):
    """replace local names bound exactly once (top-level `a = e`) by their value, parameters by p0, p1, ..."""

    def __init__(self, binds, params):
        self.binds, self.params, self.depth = binds, params, 0

    def visit_Name(self, n):
        if isinstance(n.ctx, ast.Load):
            if n.id in self.params:
                return ast.Name(id=f"p{self.params.index(n.id)}", ctx=ast.Load())
            if n.id in self.binds and self.depth < 12:
                self.depth += 1
                out = self.visit(ast.parse(ast.unparse(self.binds[n.id]), mode="eval").body)
                self.depth -= 1
                return out
        return n


def inlined(func, expr):
    """canonical text of `expr` inside `func`: single-assignment locals inlined, parameters renamed positionally --
    invariant under renaming of locals / parameters and under introducing or removing temporaries"""
    counts, binds = {}, {}
    for n in ast.walk(func):
        if isinstance(n, ast.Name) and isinstance(n.ctx, (ast.Store, ast.Del)):
            counts[n.id] = counts.get(n.id, 0) + 1
    for st in func.body:
        if isinstance(st, ast.Assign) and len(st.targets) == 1 and isinstance(st.targets[0], ast.Name) \
                and counts.get(st.targets[0].id) == 1:
            binds[st.targets[0].id] = st.value
    params = [a.arg for a in func.args.args]
    tree = _Inline(binds, params).visit(ast.parse(ast.unparse(expr), mode="eval").body)
    return ast.unparse(ast.fix_missing_locations(tree))


def facts_hotspots(mod, em):
    f = find_func(mod, "_hotspots_numpy")
    norm = z = guard = False
    if f is not None and len(f.args.args) == 2:
        D = "p0.data.astype(np.float32)"
        conv = f"convolve_2d({D}, p1 / p1.sum())"
        want = f"_calc_hotspots_numpy(({conv} - np.nanmean({D})) / np.nanstd({D}))"
        rets = [n for n in ast.walk(f) if isinstance(n, ast.Return)]
        if len(rets) == 1 and f.body[-1] is rets[0] and rets[0].value is not None:
            got = inlined(f, rets[0].value)
            norm = conv in got
            z = got == want
        for st in f.body:
            if isinstance(st, ast.If) and not st.orelse and st.body and isinstance(st.body[0], ast.Raise) \
                    and "ZeroDivisionError" in ast.unparse(st.body[0]) \
                    and inlined(f, st.test) in (f"np.nanstd({D}) == 0", f"0 == np.nanstd({D})"):
                guard = True
    em.define("hotspots_kernel_normalised", "", "Bool", "true" if norm else "false",
              "mean_array = convolve_2d(data, kernel / kernel.sum())" if norm else None)
    em.define("hotspots_zscore", "", "Bool", "true" if z else "false",
              "z_array = (mean_array - np.nanmean(data)) / np.nanstd(data); out = _calc_hotspots_numpy(z_array)" if z else None)
    em.define("hotspots_zero_std_raises", "", "Bool", "true" if guard else "false",
              "if global_std == 0: raise ZeroDivisionError" if guard else None)


# ------------------------------------------------------------------ convolution._convolve_2d_numpy, custom_kernel
def facts_conv(mod, em):
    int_names = ["conv_i_lo", "conv_i_hi", "conv_j_lo", "conv_j_hi", "conv_ii_lo", "conv_ii_hi", "conv_jj_lo", "conv_jj_hi"]
    f = find_func(mod, "_convolve_2d_numpy")
    try:
        if f is None:
            raise NoMatch("convolution._convolve_2d_numpy not found")
        params = [a.arg for a in f.args.args]
        if len(params) != 2:
            raise NoMatch("signature")
        data, kernel = params
        sh = shape_bindings(f)
        env, shape_env = {}, {}
        for nm, (arr, ax) in sh.items():
            if arr == data:
                env[nm] = "v.nx" if ax == 0 else "v.ny"
            elif arr == kernel:
                env[nm] = "v.nkx" if ax == 0 else "v.nky"
                shape_env[nm] = "nkx" if ax == 0 else "nky"
        top = simple_assigns(f.body)
        hw = [nm for nm in top if nm not in sh and isinstance(top[nm], (ast.BinOp, ast.Call))
              and any(isinstance(n, ast.Name) and n.id in shape_env for n in ast.walk(top[nm]))
              and not any(isinstance(n, ast.Attribute) for n in ast.walk(top[nm]))]
        if len(hw) != 2:
            raise NoMatch(f"half widths {hw}")
        ixn = IX(shape_env, nat=True)
        em.define("conv_wkx", "(nkx nky : Nat) ", "Nat", ixn.num(top[hw[0]]), f"{hw[0]} = {ast.unparse(top[hw[0]])}")
        em.define("conv_wky", "(nkx nky : Nat) ", "Nat", ixn.num(top[hw[1]]), f"{hw[1]} = {ast.unparse(top[hw[1]])}")
        env[hw[0]], env[hw[1]] = "v.wkx", "v.wky"
        # out = np.zeros(...); out[:] = np.nan
        fill = any(isinstance(st, ast.Assign) and isinstance(st.targets[0], ast.Subscript)
                   and isinstance(st.targets[0].slice, ast.Slice) and is_np_nan(st.value) for st in f.body)
        outer = [s for s in f.body if isinstance(s, ast.For)]
        if len(outer) != 1:
            raise NoMatch("outer loop")
        il = outer[0]
        iv = il.target.id
        env[iv] = "v.i"
        ix = IX(env)
        lo, hi = range_args(il.iter)
        em.define("conv_i_lo", "(v : ConvVars) ", "Int", ix.num(lo), f"for {iv} in {ast.unparse(il.iter)}")
        em.define("conv_i_hi", "(v : ConvVars) ", "Int", ix.num(hi), f"for {iv} in {ast.unparse(il.iter)}")
        for nm, val in simple_assigns(il.body).items():
            ix.env[nm] = ix.num(val)
        jl = [s for s in il.body if isinstance(s, ast.For)]
        if len(jl) != 1:
            raise NoMatch("j loop")
        jl = jl[0]
        jv = jl.target.id
        ix.env[jv] = "v.j"
        lo, hi = range_args(jl.iter)
        em.define("conv_j_lo", "(v : ConvVars) ", "Int", ix.num(lo), f"for {jv} in {ast.unparse(jl.iter)}")
        em.define("conv_j_hi", "(v : ConvVars) ", "Int", ix.num(hi), f"for {jv} in {ast.unparse(jl.iter)}")
        jb = simple_assigns(jl.body)
        acc = None
        for nm, val in jb.items():
            if isinstance(val, ast.Constant) and val.value == 0:
                acc = nm
            else:
                ix.env[nm] = ix.num(val)
        if acc is None:
            raise NoMatch("accumulator initialisation")
        iil = [s for s in jl.body if isinstance(s, ast.For)]
        if len(iil) != 1:
            raise NoMatch("ii loop")
        iil = iil[0]
        ix.env[iil.target.id] = "v.ii"
        lo, hi = range_args(iil.iter)
        em.define("conv_ii_lo", "(v : ConvVars) ", "Int", ix.num(lo), f"for {iil.target.id} in {ast.unparse(iil.iter)}")
        em.define("conv_ii_hi", "(v : ConvVars) ", "Int", ix.num(hi), f"for {iil.target.id} in {ast.unparse(iil.iter)}")
        for nm, val in simple_assigns(iil.body).items():
            ix.env[nm] = ix.num(val)
        jjl = [s for s in iil.body if isinstance(s, ast.For)]
        if len(jjl) != 1:
            raise NoMatch("jj loop")
        jjl = jjl[0]
        ix.env[jjl.target.id] = "v.jj"
        lo, hi = range_args(jjl.iter)
        em.define("conv_jj_lo", "(v : ConvVars) ", "Int", ix.num(lo), f"for {jjl.target.id} in {ast.unparse(jjl.iter)}")
        em.define("conv_jj_hi", "(v : ConvVars) ", "Int", ix.num(hi), f"for {jjl.target.id} in {ast.unparse(jjl.iter)}")
        for nm, val in simple_assigns(jjl.body).items():
            ix.env[nm] = ix.num(val)
        augs = [s for s in jjl.body if isinstance(s, ast.AugAssign)]
        if len(augs) != 1 or not (isinstance(augs[0].op, ast.Add) and isinstance(augs[0].target, ast.Name)
                                  and augs[0].target.id == acc and isinstance(augs[0].value, ast.BinOp)
                                  and isinstance(augs[0].value.op, ast.Mult)):
            raise NoMatch("accumulation is not `num += kernel[..] * data[..]`")
        l, r = augs[0].value.left, augs[0].value.right
        try:
            _, k1, k2 = idx2(l, kernel)
            _, d1, d2 = idx2(r, data)
        except NoMatch:
            _, k1, k2 = idx2(r, kernel)
            _, d1, d2 = idx2(l, data)
        em.define("conv_kernel_idx", "(v : ConvVars) ", "Int × Int", f"({ix.num(k1)}, {ix.num(k2)})", ast.unparse(augs[0]))
        em.define("conv_data_idx", "(v : ConvVars) ", "Int × Int", f"({ix.num(d1)}, {ix.num(d2)})", ast.unparse(augs[0]))
        # out[i, j] = num  after the ii loop, inside the j loop
        st = [s for s in jl.body if isinstance(s, ast.Assign) and isinstance(s.targets[0], ast.Subscript)]
        ok_store = False
        if len(st) == 1 and jl.body[-1] is st[0]:
            _, a, b = idx2(st[0].targets[0])
            ok_store = isinstance(a, ast.Name) and a.id == iv and isinstance(b, ast.Name) and b.id == jv \
                and isinstance(st[0].value, ast.Name) and st[0].value.id == acc
        if not ok_store:
            raise NoMatch("out[i, j] = num")
        em.define("conv_fill_nan", "", "Bool", "true" if fill else "false", "out[:] = np.nan" if fill else None)
        em.define("conv_ok", "", "Bool", "true", "all patterns of convolution._convolve_2d_numpy recognised")
    except NoMatch as ex:
        em.rep["conv_error"] = str(ex)
        for nm in ("conv_wkx", "conv_wky"):
            if nm not in em.rep:
                em.define(nm, "(nkx nky : Nat) ", "Nat", "0", None)
        for nm in int_names:
            if nm not in em.rep:
                em.define(nm, "(v : ConvVars) ", "Int", "0", None)
        for nm in ("conv_kernel_idx", "conv_data_idx"):
            if nm not in em.rep:
                em.define(nm, "(v : ConvVars) ", "Int × Int", "(0, 0)", None)
        if "conv_fill_nan" not in em.rep:
            em.define("conv_fill_nan", "", "Bool", "false", None)
        em.define("conv_ok", "", "Bool", "false", None)

    # custom_kernel
    f = find_func(mod, "custom_kernel")
    nd, rej, src = False, None, None
    if f is not None and len(f.args.args) == 1:
        k = f.args.args[0].arg
        sh = {}
        for n in ast.walk(f):
            if isinstance(n, ast.If) and n.body and isinstance(n.body[0], ast.Raise) and "ValueError" in ast.unparse(n.body[0]):
                t = n.test
                if ast.unparse(t) == f"not isinstance({k}, np.ndarray)":
                    nd = True
                    for st in n.orelse:
                        if isinstance(st, ast.Assign) and isinstance(st.targets[0], ast.Tuple) \
                                and ast.unparse(st.value) == f"{k}.shape" and len(st.targets[0].elts) == 2:
                            sh = {st.targets[0].elts[0].id: "rows", st.targets[0].elts[1].id: "cols"}
                else:
                    try:
                        rej = IX(sh, nat=True).boolean(t)
                        src = "if " + ast.unparse(t) + ": raise ValueError"
                    except NoMatch:
                        rej = None
        returns = [s for s in f.body if isinstance(s, ast.Return)]
        if not (returns and isinstance(returns[-1].value, ast.Name) and returns[-1].value.id == k):
            rej = None
    em.define("custom_kernel_requires_ndarray", "", "Bool", "true" if nd else "false",
              "if not isinstance(kernel, np.ndarray): raise ValueError" if nd else None)
    em.define("custom_kernel_rejects", "(rows cols : Nat) ", "Bool", rej if rej else "true", src if rej else None)
    em.define("custom_kernel_ok", "", "Bool", "true" if rej else "false", "rejection predicate recognised, kernel returned unchanged" if rej else None)


def generate(repo):
    em = Emit()
    em.lines += ["import XrsVerif.Core.KLang",
                 "/-! GENERATED by harness/facts_focal.py from the current /repo source -- do not edit.",
                 "    Index expressions, tables and guards of xrspatial/focal.py and xrspatial/convolution.py (C09). -/",
                 "set_option linter.unusedVariables false",
                 "namespace XrsVerif.Gen.Focal", "open XrsVerif", "",
                 "/-- names in scope in the innermost gather loop of `focal._apply_numpy` -/",
                 "structure ApplyVars where",
                 "  rows : Int", "  cols : Int", "  krows : Int", "  kcols : Int", "  hrows : Int", "  hcols : Int",
                 "  y : Int", "  x : Int", "  ky : Int", "  kx : Int", "",
                 "/-- names in scope in the per-cell body of `focal._mean_numpy` -/",
                 "structure MeanVars where", "  rows : Int", "  cols : Int", "  y : Int", "  x : Int", "",
                 "/-- names in scope in the innermost loop of `convolution._convolve_2d_numpy` -/",
                 "structure ConvVars where",
                 "  nx : Int", "  ny : Int", "  nkx : Int", "  nky : Int", "  wkx : Int", "  wky : Int",
                 "  i : Int", "  j : Int", "  ii : Int", "  jj : Int", ""]
    try:
        fmod = parse(repo, "xrspatial/focal.py")
    except (OSError, SyntaxError):
        fmod = ast.parse("")
    try:
        cmod = parse(repo, "xrspatial/convolution.py")
    except (OSError, SyntaxError):
        cmod = ast.parse("")
    facts_apply(fmod, em)
    facts_mean(fmod, em)
    facts_stats(fmod, em)
    facts_hotspots(fmod, em)
    facts_conv(cmod, em)
    em.lines.append("end XrsVerif.Gen.Focal")
    yield "Focal.lean", "\n".join(em.lines) + "\n", em.rep
