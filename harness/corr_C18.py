"""
C18 -- trim and crop return the minimal window, cells and coordinates intact.

Tie:  H  hand model `lean/XrsVerif/Model/Trim.lean` (the four directional scans, the early return for
         "nothing found", the Python slice) run by the Lean driver on the same rasters as the real
         `xrspatial.zonal.trim` / `crop`; window cells, both coordinate vectors, attrs and name compared
         exactly (an empty result is canonicalised to `empty`, whatever its 0-sized shape).
      T3 `Gen.IL.trim` / `Gen.IL.crop` (lean/XrsVerif/Gen/IL.lean): `_trim` / `_crop` translated statement by
         statement into ILang by harness/facts_il.py; `IL.trim_refines` / `IL.crop_refines` prove they compute the
         hand model's `bounds`; the streams `il:trim` / `il:crop` (harness/il_corr.py) run these programs in the
         driver against the numba kernels (float64 rasters 0x0..7x7, 16 lists each) and compare the four results.
Oracle (independent of the model, from the property statement): the bounding box of the kept /
selected cells computed with numpy set logic (NaN excluded when listed); the result must equal
the positional window `[t:b+1, l:r+1]` of the input cell for cell, with *every* coordinate variable of the
input restricted to those positions (and no other), the attrs of each coordinate variable, the raster's
attrs, dims and the requested name, and must be empty when nothing is kept / selected.

Coordinate-kind dimension (every stream through the public wrappers): `ck` / `zck` of a case describe what
the raster carries besides its cells -- dims y,x / other names / none given; per axis ascending, descending,
fractional, int, datetime, string, duplicated, unsorted labels or no coordinate variable at all; attrs on the
coordinate variables; scalar coordinates (spatial_ref, band, time); 2-D lon / lat on (y, x) or transposed;
extra 1-D coordinates along one dim; the input's `.name`; the raster attrs (`gen_ck`, `build`).  The model
(`Raster.coords`, `window`) receives every coordinate variable with its labels as codes.

Generators: shapes 1x1..6x6 incl. single row / column; dtypes f8/f4/i8/i4; values {0,1,2,3,NaN,+-inf};
a target box placed so that the kept cells touch every subset of the four raster borders; nothing kept;
everything kept; exclusion lists as list / tuple / the default `(nan,)`, ints or floats, with and
without NaN; zone-id lists for crop (values raster of the same and of a different shape); layouts C / F;
exhaustive: every raster over {nan,0,1} up to 2x3 (thorough: 3x3) x every exclusion set.
Edge stream (`gen_edge`, value families of harness/edge_values.py): every raster dtype (float32/64,
int8..uint64), listed values = cell values of the raster ("anchors": small ids, the dtype limits, ids >= 1e5,
2^24, 2^31, 2^53, fractions, tiny / huge floats) plus entries the dtype cannot hold (NaN, +-inf, negative for
unsigned, beyond the limits, fractional) plus *aliases* of unlisted cell values (entries a cast to the raster
dtype would map onto a cell value); the other cells are *decoys*: neighbours of the listed values that are
different numbers (nextafter in float32 / float64, relative 1e-5..1e-9, absolute 1e-8..1e-12, +-1 on integers,
-0.0 next to 0.0 is the SAME number) and the cast images of the foreign entries.  The oracle compares the
stored values with the listed values as exact numbers (Fractions; NaN matches a listed NaN for trim only).
"""
import itertools
import json
import math
from fractions import Fraction

import numpy as np
import xarray as xr

import edge_values as ev
import il_corr
from common import Driver, tok

PROP = "C18"
KEY_D5 = "D5:trim-nan-never-matches"
KEY_D18A = "D16:nothing-kept-1x1-not-empty"


# ---------------------------------------------------------------- rasters
def arr(rows, dtype, layout="C"):
    """the raster holding exactly the numbers named by the tokens (no detour through float64)"""
    a = ev.array(rows, dtype)
    return np.asfortranarray(a) if layout == "F" else a


# ---------------------------------------------------------------- coordinate kinds
# What a raster carries besides its cells.  A *coordinate kind* `ck` is a small JSON dict from which `build` makes the
# DataArray deterministically (so a recorded case replays):
#   dims    [d0, d1] names of the two dimensions, or None = `xr.DataArray(a)` (xarray's `dim_0`, `dim_1`, no coordinates)
#   y, x    the dimension coordinate of each axis: one of AXIS_KINDS ("none" = the dimension has no coordinate variable)
#   cattrs  attrs (units / axis / long_name) on the dimension coordinates and on the auxiliary ones
#   scalars names of scalar (0-d) coordinates: `spatial_ref`, `band`, `time` (what rioxarray / `.sel(band=1)` leave behind)
#   aux2d   two 2-D auxiliary coordinates `lon`, `lat` on (d0, d1)  ("yx"), or stored transposed on (d1, d0) ("xy")
#   aux1d   axes ("y" / "x") that carry an extra 1-D non-index coordinate (`row_label` strings / `col_km` floats)
#   rname   `.name` of the input raster;  attrs  "std" / "empty" / "rich": the raster's own attrs
AXIS_KINDS = ["asc", "desc", "frac", "asc100", "fracx", "int", "datetime", "str", "dup", "dupmix", "unsorted", "none"]
LEGACY_CK = {"desc": ("desc", "asc100"), "frac": ("frac", "fracx"), "plain": ("asc", "asc")}
UNSORTED = [5.0, 2.0, 9.0, 0.5, 7.0, -3.0, 4.0, 11.0]
COORD_ATTRS = {"y": {"units": "m", "axis": "Y", "long_name": "northing"}, "x": {"units": "m", "axis": "X", "long_name": "easting"}}
SCALARS = {"spatial_ref": (0, {"crs_wkt": "EPSG:32633", "grid_mapping_name": "transverse_mercator"}),
           "band": (1, {"long_name": "band index"}),
           "time": (np.datetime64("2021-06-01T12:00:00", "ns"), {"standard_name": "time"})}
RASTER_ATTRS = {"std": {"res": (1, 1), "crs": "EPSG:4326", "nodata": -1}, "empty": {},
                "rich": {"res": (0.5, 0.25), "crs": "EPSG:32633", "nodata": -9999, "units": "km", "Description": "a raster"}}
ATTRS = RASTER_ATTRS["std"]


def axis_labels(n, kind):
    """the labels of a dimension coordinate of length n (None: no coordinate variable)"""
    if kind == "none":
        return None
    if kind == "asc":
        return np.array([float(i) for i in range(n)])
    if kind == "desc":
        return np.array([float(10 * (n - i)) for i in range(n)])
    if kind == "frac":
        return np.array([0.25 * i - 1 for i in range(n)])
    if kind == "asc100":
        return np.array([100.0 + j for j in range(n)])
    if kind == "fracx":
        return np.array([-3.5 + 0.5 * j for j in range(n)])
    if kind == "int":
        return np.array([100 + 3 * i for i in range(n)], dtype=np.int64)
    if kind == "datetime":
        return np.datetime64("2020-01-30", "ns") + np.arange(n) * np.timedelta64(1, "D")
    if kind == "str":
        return np.array([f"r{i:02d}" for i in range(n)])
    if kind == "dup":                     # monotonic, not unique
        return np.array([float(i // 2) for i in range(n)])
    if kind == "dupmix":                  # neither monotonic nor unique
        return np.array([float(i % 2) for i in range(n)])
    if kind == "unsorted":                # unique, not monotonic
        return np.array(UNSORTED[:n])
    raise ValueError(kind)


def norm_ck(case, which="ck"):
    """the coordinate kind of a case; cases recorded before the dimension existed carry `coords` = desc / frac / plain"""
    ck = case.get(which)
    if ck is None:
        y, x = LEGACY_CK[case.get("coords", "plain")] if which == "ck" else ("asc", "asc")
        ck = dict(dims=["y", "x"], y=y, x=x, rname="orig", attrs="std" if which == "ck" else "empty")
    return ck


_TEMPLATES = {}


def build(a, ck):
    """the DataArray described by `ck` around the array `a` (constructing one costs ~1 ms, a deep copy of a template of
    the same shape and kind with the data swapped in 0.15 ms: coordinates and attrs are fresh objects every time)"""
    key = (a.shape, json.dumps(ck, sort_keys=True))
    if key not in _TEMPLATES:
        if len(_TEMPLATES) > 20000:
            _TEMPLATES.clear()
        _TEMPLATES[key] = build_new(np.zeros(a.shape), ck)
    return _TEMPLATES[key].copy(deep=True, data=a)


def build_new(a, ck):
    h, w = a.shape
    attrs = dict(RASTER_ATTRS[ck.get("attrs", "std")])
    if ck.get("dims") is None:
        return xr.DataArray(a, attrs=attrs, name=ck.get("rname"))
    d0, d1 = ck["dims"]
    cattrs = bool(ck.get("cattrs"))
    co = {}
    for d, n, kind, ax in ((d0, h, ck.get("y", "asc"), "y"), (d1, w, ck.get("x", "asc"), "x")):
        lab = axis_labels(n, kind)
        if lab is not None:
            co[d] = xr.Variable((d,), lab, attrs=dict(COORD_ATTRS[ax]) if cattrs else None)
    for nm in ck.get("scalars") or []:
        val, at = SCALARS[nm]
        co[nm] = xr.Variable((), val, attrs=dict(at) if cattrs else None)
    if ck.get("aux2d"):
        lon = np.array([[10.0 + 0.5 * j + 0.01 * i for j in range(w)] for i in range(h)])
        lat = np.array([[50.0 - 0.25 * i + 0.001 * j for j in range(w)] for i in range(h)])
        if ck["aux2d"] == "xy":           # stored with the dimensions the other way round
            co["lon"] = xr.Variable((d1, d0), np.ascontiguousarray(lon.T), attrs={"units": "degrees_east"} if cattrs else None)
            co["lat"] = xr.Variable((d1, d0), np.ascontiguousarray(lat.T), attrs={"units": "degrees_north"} if cattrs else None)
        else:
            co["lon"] = xr.Variable((d0, d1), lon, attrs={"units": "degrees_east"} if cattrs else None)
            co["lat"] = xr.Variable((d0, d1), lat, attrs={"units": "degrees_north"} if cattrs else None)
    for ax in ck.get("aux1d") or []:
        if ax == "y":
            co["row_label"] = xr.Variable((d0,), np.array([f"row-{(7 * i) % 5}" for i in range(h)]),
                                          attrs={"comment": "labels"} if cattrs else None)
        else:
            co["col_km"] = xr.Variable((d1,), np.array([1.5 * ((3 * j) % 4) for j in range(w)]),
                                       attrs={"units": "km"} if cattrs else None)
    return xr.DataArray(a, dims=[d0, d1], coords=co, attrs=attrs, name=ck.get("rname"))


def gen_ck(rng):
    """a coordinate kind: about half the rasters are the everyday ones (dimension coordinates only)"""
    u = rng.random()
    if u < 0.07:
        return dict(dims=None, rname=rng.choice([None, "orig"]), attrs=rng.choice(["std", "std", "empty"]))
    dims = rng.choice([["y", "x"], ["y", "x"], ["y", "x"], ["lat", "lon"], ["row", "col"], ["x", "y"], ["northing", "easting"]])
    common = ["asc", "desc", "frac", "asc100", "fracx"]
    rare = ["int", "datetime", "str", "dup", "dupmix", "unsorted", "none", "none"]
    ck = dict(dims=dims, y=rng.choice(common if rng.random() < 0.6 else rare),
              x=rng.choice(common if rng.random() < 0.6 else rare),
              rname=rng.choice([None, "orig", "orig"]), attrs=rng.choice(["std", "std", "std", "empty", "rich"]))
    if rng.random() < 0.1:
        ck["y"] = ck["x"] = "none"        # dims named, no coordinate at all
    if rng.random() < 0.5:
        return ck
    if rng.random() < 0.5:
        ck["cattrs"] = True
    if rng.random() < 0.5:
        names = [n for n in SCALARS if n not in dims]
        ck["scalars"] = sorted(rng.sample(names, rng.randrange(1, len(names) + 1)))
    if rng.random() < 0.4 and not {"lon", "lat"} & set(dims):
        ck["aux2d"] = rng.choice(["yx", "yx", "xy"])
    if rng.random() < 0.4:
        ck["aux1d"] = rng.choice([["y"], ["x"], ["y", "x"]])
    return ck


def gen_zck(rng, ck):
    """the zones raster of a crop case: on the values' grid with the same coordinates (the usual case), or with its own
    dims / coordinates / none at all (crop is positional: only the cells of `zones` count)"""
    u = rng.random()
    if u < 0.5:
        return dict(ck, attrs="empty")
    if u < 0.65:
        return dict(dims=ck.get("dims") or ["y", "x"], y="none", x="none", rname=None, attrs="empty")
    z = gen_ck(rng)
    z["attrs"] = "empty"
    return z


# a fixed rotation for the exhaustive stream (no random choice there): every axis kind and every extra once
CK_ROT = [
    dict(dims=["y", "x"], y="desc", x="asc100", rname="orig", attrs="std"),
    dict(dims=None, rname=None, attrs="std"),
    dict(dims=["y", "x"], y="none", x="none", rname="orig", attrs="empty"),
    dict(dims=["lat", "lon"], y="frac", x="fracx", cattrs=True, rname="orig", attrs="rich"),
    dict(dims=["y", "x"], y="asc", x="asc", scalars=["band", "spatial_ref", "time"], rname=None, attrs="std"),
    dict(dims=["y", "x"], y="desc", x="asc", aux2d="yx", cattrs=True, rname="orig", attrs="std"),
    dict(dims=["row", "col"], y="datetime", x="str", aux1d=["y", "x"], rname="orig", attrs="std"),
    dict(dims=["y", "x"], y="dup", x="dupmix", rname="orig", attrs="std"),
    dict(dims=["y", "x"], y="unsorted", x="int", aux2d="xy", scalars=["spatial_ref"], rname="orig", attrs="std"),
    dict(dims=["x", "y"], y="none", x="asc100", aux1d=["y"], cattrs=True, rname=None, attrs="empty"),
    dict(dims=["y", "x"], y="str", x="none", scalars=["band"], aux1d=["x"], aux2d="yx", cattrs=True, rname="orig", attrs="rich"),
]


def ck_tags(ck, pre="ck"):
    if ck.get("dims") is None:
        return [f"{pre}:no-dims-no-coords"]
    t = [f"{pre}:y={ck.get('y', 'asc')}", f"{pre}:x={ck.get('x', 'asc')}",
         f"{pre}:dims=" + ("y,x" if ck["dims"] == ["y", "x"] else "other")]
    extras = [k for k in ("cattrs", "scalars", "aux2d", "aux1d") if ck.get(k)]
    t += [f"{pre}:{k}" for k in extras] or [f"{pre}:plain"]
    return t


def rasters(case):
    """(zones or None, the raster that is sliced) as DataArrays"""
    if case["fn"] == "trim":
        return None, build(arr(case["data"], case["dtype"], case.get("layout", "C")), norm_ck(case))
    z = build(arr(case["data"], case["dtype"], case.get("layout", "C")), norm_ck(case, "zck"))
    return z, build(arr(case["values"], case["vdtype"]), norm_ck(case))


def ex_arg(case):
    """the `values` / `zones_ids` argument as the caller would pass it"""
    vals = [ev.vuntok(t) for t in case["ex"]]
    vals = [int(v) for v in vals] if case["ex_num"] == "int" else [float(v) for v in vals]
    return tuple(vals) if case["ex_form"] == "tuple" else list(vals)


def call(case, rs=None):
    from xrspatial.zonal import crop, trim
    try:
        z, src = rs or rasters(case)
        kw = {"name": case["name"]} if case.get("name") else {}
        if case["fn"] == "trim":
            if case["ex_form"] != "default":
                kw["values"] = ex_arg(case)
            out = trim(src, **kw)
        else:
            out = crop(z, src, ex_arg(case), **kw)
    except Exception as ex:  # numba typing errors etc.: reported, never silently skipped
        return type(ex).__name__, str(ex)[:160], None
    return "ok", out, src


def ntok(x):
    """exact token in the driver's output syntax (nan / inf / -inf / n / n/d)"""
    if isinstance(x, np.generic):
        x = x.item()
    if isinstance(x, int):
        return str(x)
    x = float(x)
    if x != x:
        return "nan"
    if math.isinf(x):
        return "inf" if x > 0 else "-inf"
    return tok(Fraction(x))


def attrs_tok(attrs=None):
    attrs = ATTRS if attrs is None else attrs
    return ";".join(f"{k}={attrs[k]}" for k in sorted(attrs)).replace(" ", "")


# Coordinate labels are opaque to the model (`Raster κ τ` is generic in the label type): on the wire a label is the
# position of its first occurrence in the *input's* coordinate variable, so equal labels get equal codes, and a label
# of the result that the input does not have is -1.
def flat_labels(values):
    return [repr(x) for x in np.asarray(values).ravel(order="C").tolist()]


def code_table(values):
    tab = {}
    for i, k in enumerate(flat_labels(values)):
        tab.setdefault(k, i)
    return tab


def var_entry(name, var, dims, table):
    """`name~flags~attrs~grid` of one coordinate variable of a raster with dimensions `dims`: the labels as codes, laid
    out on (dims[0], dims[1]) -- a variable stored the other way round is transposed and marked `@T`; flags say which of
    the two dimensions it has"""
    vd = tuple(var.dims)
    vals = np.asarray(var.values)
    if len(vd) == 2 and vd == (dims[1], dims[0]):
        vals, vd, name = vals.T, (dims[0], dims[1]), name + "@T"
    if any(d not in dims for d in vd) or len(vd) != len(set(vd)) or (len(vd) == 2 and vd != tuple(dims)):
        return f"{name}~?{','.join(map(str, vd))}~{attrs_tok(var.attrs)}~?"
    flags = ("y" if dims[0] in vd else "-") + ("x" if dims[1] in vd else "-")
    h = vals.shape[vd.index(dims[0])] if dims[0] in vd else 1
    w = vals.shape[vd.index(dims[1])] if dims[1] in vd else 1
    codes = [table.get(k, -1) for k in flat_labels(vals)]
    grid = "empty" if not codes else f"{h}x{w}:" + ",".join(str(c) for c in codes)
    return f"{name}~{flags}~{attrs_tok(var.attrs)}~{grid}"


def aux_tok(da, src):
    """every coordinate variable of `da` (dimension coordinates included: they carry attrs too), labels coded by `src`"""
    dims = tuple(da.dims)
    dv, sv = da.coords.variables, src.coords.variables
    return "/".join(var_entry(str(nm), dv[nm], dims, code_table(sv[nm].values) if nm in sv else {})
                    for nm in sorted(dv, key=str))


def dim_codes(da, src, k):
    d = da.dims[k] if len(da.dims) == 2 else None
    dv, sv = da.coords.variables, src.coords.variables
    if d is None or d not in dv:
        return "-"
    tab = code_table(sv[d].values) if d in sv else {}
    return ",".join(str(tab.get(x, -1)) for x in flat_labels(dv[d].values))


def canon_real(out, src):
    """canonical text of a result DataArray (labels coded by the input raster `src`)"""
    attrs = attrs_tok(out.attrs)
    aux = aux_tok(out, src) if len(out.dims) == 2 else "?dims"
    if out.size == 0:
        return f"empty|{attrs}|{out.name}|{aux}"
    v = np.asarray(out.values)
    h, w = v.shape
    g = f"{h}x{w}:" + ",".join(ntok(x) for x in v.ravel(order="C").tolist())
    return "|".join([g, dim_codes(out, src, 0), dim_codes(out, src, 1), attrs, str(out.name), aux])


def canon_model(rep, src):
    """the driver's reply without the (unobservable) bounds; the model always has a label function per axis: for a
    dimension without coordinate variable its field is blanked"""
    f = rep.split("|")
    if len(f) == 7:
        for k in (0, 1):
            if src.dims[k] not in src.coords.variables:
                f[2 + k] = "-"
        return "|".join(f[1:])
    return rep.split("|", 1)[1] if "|" in rep else rep


def request(case, rs=None):
    name = case.get("name") or case["fn"]
    z, src = rs or rasters(case)
    a = np.asarray(src.values)
    h, w = a.shape
    ys, xs = dim_codes(src, src, 0), dim_codes(src, src, 1)
    # a dimension without coordinate variable: the model is handed the positions, its reply is blanked (canon_model)
    tail = (" ys=" + (",".join(str(i) for i in range(h)) if ys == "-" else ys)
            + " xs=" + (",".join(str(j) for j in range(w)) if xs == "-" else xs)
            + f" attrs={attrs_tok(src.attrs)} name={name} aux={aux_tok(src, src)}")
    if case["fn"] == "trim":
        ex = ["nan"] if case["ex_form"] == "default" else [ev.model_tok(t) for t in case["ex"]]
        return f"trim data={h}x{w}:" + ",".join(tok(x) for x in a.ravel().tolist()) + " ex=" + ",".join(ex) + tail
    zv = np.asarray(z.values)
    return (f"crop zones={zv.shape[0]}x{zv.shape[1]}:" + ",".join(tok(x) for x in zv.ravel().tolist())
            + f" values={h}x{w}:" + ",".join(tok(x) for x in a.ravel().tolist())
            + " ids=" + ",".join(ev.model_tok(t) for t in case["ex"]) + tail)


# ---------------------------------------------------------------- oracle
def hits(case, drop_nan=False):
    """boolean mask of the kept (trim) / selected (crop) cells, straight from the property statement"""
    a = arr(case["data"], case["dtype"])
    listed = {"nan"} if case["ex_form"] == "default" else {ev.exact(ev.vuntok(t)) for t in case["ex"]}
    nan_listed = "nan" in listed and case["fn"] == "trim" and not drop_nan   # "NaN counts as excluded when listed"
    listed.discard("nan")
    m = np.zeros(a.shape, dtype=bool)
    for idx in np.ndindex(a.shape):
        c = ev.exact(a[idx])              # the stored number, exactly; equality of numbers, never a tolerance
        m[idx] = nan_listed if c == "nan" else c in listed
    return ~m if case["fn"] == "trim" else m


def expected(case, src, mask):
    """the minimal window (t, b, l, r) of the mask, None when it is empty"""
    if not mask.any():
        return None
    ys, xs = np.where(mask.any(axis=1))[0], np.where(mask.any(axis=0))[0]
    return int(ys[0]), int(ys[-1]), int(xs[0]), int(xs[-1])


def vals_equal(a, b):
    a, b = np.asarray(a), np.asarray(b)
    if a.shape != b.shape:
        return False
    return all((x != x and y != y) or x == y for x, y in zip(a.ravel().tolist(), b.ravel().tolist()))


def same(out, src, win, name):
    """None when `out` is the window `win` of `src`: its cells, *every* coordinate variable of the original restricted
    to the window (no other one), the attrs of each coordinate variable, the raster's attrs, the dims, the requested
    name.  Else (kind, text).  Written from the property text; positions are taken with plain numpy indexing."""
    t, b, l, r = win
    cells = np.asarray(src.values)[t:b + 1, l:r + 1]
    if tuple(out.shape) != cells.shape:
        return "window", f"window shape {tuple(out.shape)}, minimal window is {cells.shape}"
    if not vals_equal(out.values, cells):
        return "window", "window cells differ from the original at the same positions"
    if out.values.dtype != cells.dtype:
        return "window", f"dtype {out.values.dtype} != {cells.dtype}"
    if tuple(out.dims) != tuple(src.dims):
        return "window", f"dims {out.dims} expected {src.dims}"
    sl = {src.dims[0]: slice(t, b + 1), src.dims[1]: slice(l, r + 1)}
    svars, ovars = src.coords.variables, out.coords.variables
    for d in src.dims:                    # the dimension coordinates first (the long-standing part of the oracle)
        if d in svars and d in ovars:
            want = np.asarray(svars[d].values)[sl[d]]
            if not vals_equal(ovars[d].values, want):
                return "window", f"{d} coordinates {list(ovars[d].values)} expected {list(want)}"
    missing = sorted(str(n) for n in svars if n not in ovars)
    if missing:
        return "coords", (f"coordinate(s) {missing} of the original are missing from the result "
                          f"(the result has {sorted(str(n) for n in ovars)})")
    extra = sorted(str(n) for n in ovars if n not in svars)
    if extra:
        return "coords", f"the result has coordinate(s) {extra} that the original does not have"
    for n in svars:
        sv, ov = svars[n], ovars[n]
        if tuple(ov.dims) != tuple(sv.dims):
            return "coords", f"coordinate {n!r} has dims {ov.dims}, the original's has {sv.dims}"
        want = np.asarray(sv.values)[tuple(sl[d] for d in sv.dims)]
        if not vals_equal(ov.values, want):
            return "coords", (f"coordinate {n!r} is {np.asarray(ov.values).tolist()}, the original restricted to the "
                              f"window is {want.tolist()}")
        if dict(ov.attrs) != dict(sv.attrs):
            return "coords", f"attrs of coordinate {n!r}: {dict(ov.attrs)} expected {dict(sv.attrs)}"
    if dict(out.attrs) != dict(src.attrs):
        return "window", f"attrs {dict(out.attrs)} expected {dict(src.attrs)}"
    if out.name != name:
        return "window", f"name {out.name!r} expected {name!r}"
    return None


def oracle(case, status, out, src):
    """None or (key, text)"""
    fn = case["fn"]
    if status != "ok":
        return (f"{fn}:raise", f"{fn}: raised {status}: {out}")
    if fn == "crop" and case.get("vshape_differs"):
        return None                       # the property speaks of a values raster on the zones' grid
    name = case.get("name") or fn
    win = expected(case, src, hits(case))
    listed_nan = fn == "trim" and (case["ex_form"] == "default" or "nan" in case["ex"])
    alt = expected(case, src, hits(case, drop_nan=True)) if listed_nan else None
    if win is None:
        if out.size == 0:
            return None
        key = KEY_D18A if src.shape == (1, 1) and out.shape == (1, 1) else f"{fn}:nothing-kept"
        if alt is not None and same(out, src, alt, name) is None and src.shape != (1, 1):
            key = KEY_D5                  # exactly what ignoring the listed NaN gives
        return (key, f"{fn}: no cell is {'kept' if fn == 'trim' else 'selected'} but the result has shape {out.shape}, "
                     f"the minimal window is empty")
    bad = same(out, src, win, name)
    if bad is None:
        return None
    key = f"{fn}:{bad[0]}"
    if alt is not None and same(out, src, alt, name) is None:
        key = KEY_D5                      # exactly what ignoring the listed NaN gives
    return (key, f"{fn}: {bad[1]}; excluded/ids={case['ex'] if case['ex_form'] != 'default' else 'default (nan,)'}")


# ---------------------------------------------------------------- generators
def place_box(rng, h, w):
    """a target window; each raster border is touched or not with probability 1/2 (when the shape allows)"""
    def axis(n):
        lo_touch, hi_touch = rng.random() < 0.5, rng.random() < 0.5
        lo = 0 if (lo_touch or n == 1) else rng.randrange(1, n)
        if hi_touch or lo >= n - 1:
            hi = n - 1 if (hi_touch or lo == n - 1) else lo
        else:
            hi = rng.randrange(lo, n - 1)
        return lo, hi
    t, b = axis(h)
    l, r = axis(w)
    return t, b, l, r


def gen_grid(rng, h, w, hit_vals, miss_vals, mode):
    """grid of tokens; mode: box / none / all / random"""
    g = [[rng.choice(miss_vals) for _ in range(w)] for _ in range(h)]
    touched = ""
    if mode == "all":
        g = [[rng.choice(hit_vals) for _ in range(w)] for _ in range(h)]
        touched = "TBLR"
    elif mode == "random":
        g = [[rng.choice(hit_vals + miss_vals) for _ in range(w)] for _ in range(h)]
        touched = "?"
    elif mode == "box":
        t, b, l, r = place_box(rng, h, w)
        cells = {(t, rng.randrange(l, r + 1)), (b, rng.randrange(l, r + 1)),
                 (rng.randrange(t, b + 1), l), (rng.randrange(t, b + 1), r)}
        for y in range(t, b + 1):
            for x in range(l, r + 1):
                if rng.random() < 0.3:
                    cells.add((y, x))
        for (y, x) in cells:
            g[y][x] = rng.choice(hit_vals)
        touched = ("T" if t == 0 else "") + ("B" if b == h - 1 else "") + ("L" if l == 0 else "") + ("R" if r == w - 1 else "")
    return g, ("none" if mode == "none" else touched or "-")


SHAPES = [(1, 1), (1, 2), (2, 1), (1, 5), (4, 1), (2, 2), (2, 3), (3, 3), (3, 5), (4, 4), (5, 3), (6, 6), (4, 6), (5, 5), (3, 4)]


def few_sigs(case):
    """every (dtype, layout, list type, tuple length) is one numba compilation (0.5-1 s): the quick tier keeps tuples and
    Fortran order to the 64-bit dtypes, the thorough tier takes them everywhere"""
    if case["dtype"] not in ("float64", "int64"):
        case["layout"] = "C"
        if case["ex_form"] == "tuple":
            case["ex_form"] = "list"
    return case


def gen_trim(rng, quick_sigs=False):
    h, w = rng.choice(SHAPES)
    dtype = rng.choice(["float64", "float64", "float32", "int64", "int32"])
    isf = dtype.startswith("float")
    ex_form = rng.choice(["default", "list", "list", "tuple"])
    pool = ["0", "1", "2", "3"] + (["nan", "nan", "inf", "-inf"] if isf else [])
    if ex_form == "default":
        ex, ex_num = ["nan"], "float"
    else:
        ex_num = rng.choice(["float", "int"])
        cand = ["0", "1", "2", "3"] + (["nan", "nan", "inf"] if ex_num == "float" else [])
        ex = rng.sample(cand, rng.randrange(1, 4))
        if ex_num == "int":
            ex = [t for t in ex if t not in ("nan", "inf")] or ["0"]
    miss = [t for t in pool if t in ex]
    hit = [t for t in pool if t not in ex]
    mode = rng.choice(["box", "box", "box", "box", "none", "all", "random"])
    if not miss and mode in ("box", "none"):
        mode = "all"                      # nothing in this dtype can be excluded (e.g. NaN list on ints)
    if not hit:
        mode = "none"
    grid, touched = gen_grid(rng, h, w, hit or miss, miss or hit, mode)
    case = dict(fn="trim", dtype=dtype, layout=rng.choice(["C", "C", "F"]), data=grid, ex=ex, ex_form=ex_form,
                ex_num=ex_num, ck=gen_ck(rng), name=rng.choice([None, None, "t2"]))
    return (few_sigs(case) if quick_sigs else case), dict(mode=mode, touched=touched)


def gen_crop(rng, quick_sigs=False):
    h, w = rng.choice(SHAPES)
    dtype = rng.choice(["int64", "int32", "float64", "float32"])
    isf = dtype.startswith("float")
    ids_all = ["0", "1", "2", "3", "4", "7"]
    ex_num = "float" if (isf and rng.random() < 0.5) else "int"
    ex = rng.sample(ids_all, rng.randrange(1, 4))
    pool = ids_all + (["nan", "inf"] if isf else [])
    hit = [t for t in pool if t in ex]
    miss = [t for t in pool if t not in ex]
    mode = rng.choice(["box", "box", "box", "box", "none", "all", "random"])
    grid, touched = gen_grid(rng, h, w, hit, miss, mode)
    vshape = (h, w)
    differs = rng.random() < 0.12
    if differs:
        vshape = (max(1, h + rng.choice([-1, 1, 2])), max(1, w + rng.choice([-1, 1, 2])))
    vdtype = rng.choice(["float64", "float32", "int64"])
    vpool = ["0", "1", "5", "9", "-2"] + (["nan"] if vdtype.startswith("float") else [])
    values = [[rng.choice(vpool) for _ in range(vshape[1])] for _ in range(vshape[0])]
    case = dict(fn="crop", dtype=dtype, layout=rng.choice(["C", "C", "F"]), data=grid, ex=ex,
                ex_form=rng.choice(["list", "tuple"]), ex_num=ex_num, values=values, vdtype=vdtype,
                vshape_differs=differs and vshape != (h, w),
                ck=gen_ck(rng), name=rng.choice([None, None, "c2"]))
    case["zck"] = gen_zck(rng, case["ck"])
    return (few_sigs(case) if quick_sigs else case), dict(mode=mode, touched=touched)


# ---------------------------------------------------------------- edge values (harness/edge_values.py)
def _uniq(vals):
    out, seen = [], set()
    for v in vals:
        k = (ev.exact(v), isinstance(v, float) and v == 0 and math.copysign(1.0, v) < 0)
        if k not in seen:
            seen.add(k)
            out.append(v)
    return out


def gen_edge(rng, fn, quick_sigs=True):
    """one trim / crop case over the edge-value families: listed = anchors of the dtype + foreign entries +
    aliases of decoy cells; cells = listed anchors, decoys (near the listed values / cast images of the foreign
    entries, different numbers), other values.  Which cells count is decided by the oracle from the stored numbers."""
    dtype = rng.choice(ev.ALL_DTYPES)
    isf = ev.is_float(dtype)
    h, w = rng.choice(SHAPES)
    default = fn == "trim" and rng.random() < 0.25
    as_float = default or rng.random() < (0.65 if fn == "trim" else 0.5)
    pool = ev.anchors(dtype)
    if not as_float:
        pool = [v for v in pool if float(v) == int(v) and abs(v) <= ev.EXACT_LIMIT]
    else:
        pool = [v for v in pool if abs(v) <= ev.EXACT_LIMIT or isf]
    big = [v for v in pool if abs(v) >= 100000 or v != int(v) or 0 < abs(v) < 1]
    family = rng.choice(["small", "big", "big", "limits", "mixed"])
    if family == "small":
        src = pool[:6]
    elif family == "big" and big:
        src = big
    elif family == "limits":
        lo, hi = ev.limits(dtype)
        src = [v for v in pool if v in (lo, hi, hi - 1, lo + 1, 0)] or pool
    else:
        src = pool
    base = [] if default else rng.sample(src, min(len(src), rng.randrange(1, 3)))
    decoys = []
    for c in base:
        nb = ev.neighbours(c, dtype)
        decoys += rng.sample(nb, min(len(nb), 3))
    if isf and any(float(c) == 0 for c in base):
        base_zero_twin = [-0.0]                      # the same number as a listed 0
    else:
        base_zero_twin = []
    listed = list(base)
    extra = []
    if default:
        extra = [math.nan]
    else:
        fo = ev.foreign(dtype, as_float)
        if fo and rng.random() < 0.6:
            extra += rng.sample(fo, min(len(fo), rng.randrange(1, 3)))
        if isf and as_float and rng.random() < 0.3:
            extra.append(rng.choice([math.nan, math.inf, -math.inf]))
        others0 = [v for v in pool[:8] if not any(ev.same_number(v, b) for b in base)]
        if others0 and rng.random() < 0.6:           # an entry that a cast would map onto an unlisted cell value
            d = rng.choice(others0)
            al = ev.aliases(d, dtype, as_float)
            if al:
                extra.append(rng.choice(al))
                decoys.append(d)
    for e in extra:                                  # where a narrowing cast would send the foreign entries
        img = ev.cast_image(e, dtype)
        if img is not None and ev.store(img, dtype) is not None:
            decoys.append(img)
    listed += extra
    if not as_float:
        listed = [int(v) for v in listed]
    listed = _uniq(listed)
    rng.shuffle(listed)
    listed = listed[:4]
    lex = {ev.exact(v) for v in listed}
    nan_listed = "nan" in lex

    def is_listed(v):
        k = ev.exact(v)
        return (nan_listed and fn == "trim") if k == "nan" else k in lex
    others = rng.sample(pool, min(len(pool), 3)) + ([math.nan, math.inf, -math.inf, -0.0] if isf else [])
    cells_listed = [v for v in _uniq(base + base_zero_twin + ([math.nan] if isf and nan_listed else [])
                                     + ([math.inf] if isf and "inf" in lex else [])
                                     + ([-math.inf] if isf and "-inf" in lex else [])) if is_listed(v)]
    decoys = [v for v in _uniq(decoys) if not is_listed(v)]
    others = [v for v in _uniq(others) if not is_listed(v)]
    unlisted = decoys * 3 + others
    mode = rng.choice(["box", "box", "box", "frame", "frame", "none", "all", "random"])
    if fn == "trim":
        hit, miss = unlisted, cells_listed
        if mode == "frame" and decoys and others:
            grid, touched = gen_grid(rng, h, w, others, decoys, "box")      # decoys are kept cells too
            touched = "frame"
        else:
            mode = "box" if mode == "frame" else mode
            if not miss and mode in ("box", "none"):
                mode = "all"
            if not hit:
                mode = "none"
            grid, touched = gen_grid(rng, h, w, hit or miss, miss or hit, mode)
    else:
        hit, miss = cells_listed, unlisted
        mode = "box" if mode == "frame" else mode
        if not hit and mode in ("box", "all"):
            mode = "none"
        if not miss:
            mode = "all"
        grid, touched = gen_grid(rng, h, w, hit or miss, miss or hit, mode)
    grid = [[ev.vtok(ev.store(v, dtype)) for v in row] for row in grid]
    if default:
        ex_form, ex_num = "default", "float"
    else:
        ex_num = "float" if as_float else "int"
        # every (dtype, layout, list type, tuple length) is one numba compilation (~0.5 s): the quick tier keeps
        # tuples (short ones) and Fortran order to three dtypes, the thorough tier takes them everywhere
        few = dtype in ("float64", "int64", "uint8")
        ex_form = "tuple" if (rng.random() < 0.3 and (len(listed) <= 2 and few if quick_sigs else True)) else "list"
    layout = rng.choice(["C", "C", "C", "F"]) if (dtype in ("float64", "uint8") or not quick_sigs) else "C"
    case = dict(fn=fn, dtype=dtype, layout=layout, data=grid, ex=[ev.vtok(v) for v in listed], ex_form=ex_form,
                ex_num=ex_num, ck=gen_ck(rng), name=rng.choice([None, None, "e2"]))
    if fn == "crop":
        case["zck"] = gen_zck(rng, case["ck"])
        vdtype = rng.choice(["float64", "float32", "int64", "uint8", "int16"])
        vpool = ["0", "1", "5", "9", "100"] + (["nan", "-2"] if vdtype.startswith("float") else [])
        case.update(values=[[rng.choice(vpool) for _ in range(w)] for _ in range(h)], vdtype=vdtype, vshape_differs=False)
    return case, dict(mode=mode, touched=touched, family=("default" if default else family))


def exhaustive(max_cells_shape):
    """every raster over {nan,0,1} of the given shapes x every exclusion set over {nan,0}"""
    k = 0
    for (h, w) in max_cells_shape:
        for cells in itertools.product(["nan", "0", "1"], repeat=h * w):
            grid = [list(cells[i * w:(i + 1) * w]) for i in range(h)]
            for ex, form in ((["nan"], "default"), (["nan"], "list"), (["0"], "list"), (["nan", "0"], "list"),
                             (["0", "1"], "list"), (["nan", "0", "1"], "list")):
                yield dict(fn="trim", dtype="float64", layout="C", data=grid, ex=ex, ex_form=form, ex_num="float",
                           ck=CK_ROT[k % len(CK_ROT)], name=None)
                k += 1


# ---------------------------------------------------------------- the check
def check_one(r, case, reqs, pend, tags):
    rs = rasters(case)
    status, out, src = call(case, rs)
    bad = oracle(case, status, out, src)
    nt = any(t != case["data"][0][0] for row in case["data"] for t in row) or len(case["data"]) * len(case["data"][0]) == 1
    r.case(case, desc=case if len(r.samples) < 6 else None, nontrivial=nt,
           tags=tags + ck_tags(norm_ck(case)) + (ck_tags(norm_ck(case, "zck"), "zck") if case["fn"] == "crop" else [])
           + [f"fn:{case['fn']}", f"status:{status}", f"dtype:{case['dtype']}", f"ex:{case['ex_form']}/{case['ex_num']}",
                        f"shape:{'1xN' if len(case['data']) == 1 else ('Nx1' if len(case['data'][0]) == 1 else 'HxW')}"]
           + (["empty-result"] if status == "ok" and out.size == 0 else []))
    if bad:
        r.fail(bad[0], bad[1], case)
    reqs.append(request(case, rs))
    pend.append((case, status, canon_real(out, src) if status == "ok" else f"err:{status}", src))
    return bad


def flush(r, reqs, pend):
    replies = Driver().ask(reqs)
    for (case, status, real, src), rep in zip(pend, replies):
        model = canon_model(rep, src) if src is not None else rep
        if model != real:
            r.disagree("trim-crop-vs-model", case, real[:300], rep[:300])
    reqs.clear()
    pend.clear()


def declare(r):
    import common
    r.extra["repo_under_test"] = common.REPO
    r.assumptions[:] = [
        "model (Model/Trim.lean) tied to zonal._trim/_crop/trim/crop by the generated shapes of Gen/TrimFacts.lean (match "
        "predicates, scan directions / ranges, early return, wrapper casts and slice; harness/facts_trim.py) and by the "
        "correspondence run",
        "layer T3: Gen.IL.trim / Gen.IL.crop are the statement-by-statement translation of _trim / _crop (harness/facts_il.py), "
        "validated against the numba kernels by the il:trim / il:crop streams; ILang integers are unbounded (numba: int64) "
        "and its numbers are generic (theorems) / IEEE doubles (driver): int64 wrap-around and float32 rounding are outside ILang",
        "cell values and list entries stay within 2^53 (numba compares int64 with float64, and uint64 with int64, in float64)",
        "the model follows the code as repaired by fixes/D5-trim-nan-aware-exclusion.patch and "
        "fixes/D16-trim-crop-empty-window.patch",
        "exclusion / id lists are homogeneous (all ints or all floats) and non-empty: numba rejects the others",
        "NaN is not a zone id (crop compares with ==); an empty result is compared as 'empty' whatever its 0-sized shape",
        "crop with a values raster of another shape than zones: model = Python slice semantics, no oracle",
    ]
    r.trusted[:] = ["numba compilation of _trim/_crop",
                    "xarray positional slicing of a DataArray (what `raster[t:b+1, l:r+1]` does to cells, labels and every "
                    "coordinate variable is the model's `window`; observed on rasters of every coordinate kind, not proved)"]


def run(r, n_override=None):
    declare(r)
    n_rand = {"quick": 5000, "thorough": 40000}[r.tier] if n_override is None else n_override
    r.rule = ("trim and crop alternate; shapes 1x1..6x6 incl. single row/column; dtypes f8/f4/i8/i4; cells from "
              "{0,1,2,3,nan,+-inf}; kept/selected cells placed in a target box (touching every subset of the raster "
              "borders), or none, or all, or random; exclusion list/tuple/default, int or float, with and without NaN; "
              "crop values raster same shape (88%) or different; layouts C/F; plus every raster over {nan,0,1} up to "
              "2x3 (thorough 3x3) x 6 exclusion sets; plus the edge stream: every raster dtype f4/f8/i1..u8, listed = anchors "
              "of the dtype (ids >= 1e5, limits, 2^53, fractions) + foreign entries (nan, +-inf, negative, out of range, "
              "fractional) + aliases a cast would wrap onto a cell value, decoy cells next to the listed values "
              "(nextafter, rel 1e-5..1e-9, abs 1e-8..1e-12, +-1), modes box/frame/none/all/random; "
              "every raster of these streams has a coordinate kind: dims y,x / lat,lon / row,col / x,y / northing,easting / "
              "none given (7%); per axis labels ascending / descending / fractional / int / datetime / string / duplicated "
              "(monotonic or not) / unsorted / no coordinate variable; half carry more: attrs on the coordinate variables, "
              "scalar coordinates spatial_ref / band / time, 2-D lon / lat on (y,x) or transposed, extra 1-D coordinates along "
              "y / x; input name None / set; raster attrs std / empty / rich; crop zones with the values' coordinates (50%), "
              "none (15%) or their own (35%); the exhaustive stream rotates through 11 fixed kinds; "
              "plus il:trim / il:crop (layer T3): the ILang programs generated from _trim / _crop run by the Lean driver "
              "vs the numba kernels on float64 rasters 0x0..7x7 (empty, single row/column/cell, box / single hit / none / "
              "all / random) x 16 lists each (empty, NaN, duplicates, +-inf, -0.0, absent values), results compared exactly; "
              "non-trivial = distinct case whose raster is not constant")
    reqs, pend = [], []
    for body in r.corpus():
        case = body["case"]
        status, out, src = call(case)
        bad = oracle(case, status, out, src)
        r.case(case, nontrivial=True, tags=["corpus"])
        if bad:
            r.fail(bad[0], bad[1] + " [corpus]", case)
        reqs.append(request(case))
        pend.append((case, status, canon_real(out, src) if status == "ok" else f"err:{status}", src))
    shapes = [(1, 1), (1, 2), (2, 1), (1, 3), (3, 1), (2, 2), (2, 3), (3, 2)]
    if r.tier == "thorough":
        shapes.append((3, 3))
    if n_override is None:
        for case in exhaustive(shapes):
            check_one(r, case, reqs, pend, ["exhaustive"])
            if len(reqs) >= 5000:
                flush(r, reqs, pend)
        r.exhaustive = f"every raster over {{nan,0,1}} of shapes {shapes} x 6 exclusion sets (trim)"
    for k in range(n_rand):
        case, info = gen_trim(r.rng, r.tier == "quick") if k % 2 == 0 else gen_crop(r.rng, r.tier == "quick")
        check_one(r, case, reqs, pend, [f"mode:{info['mode']}", f"touch:{info['touched']}"])
        if len(reqs) >= 5000:
            flush(r, reqs, pend)
    n_edge = {"quick": 3000, "thorough": 40000}[r.tier] if n_override is None else n_override
    for k in range(n_edge):
        case, info = gen_edge(r.rng, "trim" if k % 2 == 0 else "crop", quick_sigs=(r.tier == "quick"))
        check_one(r, case, reqs, pend, ["edge", f"edge-mode:{info['mode']}", f"edge-family:{info['family']}",
                                        f"edge-touch:{info['touched']}"])
        if len(reqs) >= 5000:
            flush(r, reqs, pend)
    flush(r, reqs, pend)
    if n_override is None:
        il_streams(r, {"quick": 1000, "thorough": 10000}[r.tier])


# ---------------------------------------------------------------- layer T3: the generated programs vs numba
IL_PROGS = ["trim", "crop"]


def il_public_case(key):
    """the public-function case (format of `call` / `oracle`) that hands the raster and list of an `il:` case to
    `trim` / `crop`; None when the public function cannot take it (empty list: numba cannot type it; empty raster)"""
    prog, c = key["prog"], key["case"]
    lst = c["ex"] if prog == "trim" else c["values"]
    h, w = c.get("shape") or (len(c["data"]), len(c["data"][0]) if c["data"] else 0)
    if not lst or h == 0 or w == 0:
        return None
    data = [[ev.vtok(float(v)) for v in row] for row in c["data"]]
    case = dict(fn=prog, dtype="float64", layout="C", data=data, ex=[ev.vtok(float(v)) for v in lst], ex_form="list",
                ex_num="float", coords="plain", name=None)
    if prog == "crop":
        case.update(values=[[str((i * w + j) % 7) for j in range(w)] for i in range(h)], vdtype="float64",
                    vshape_differs=False)
    return case


def il_streams(r, n):
    """translator validation of `Gen.IL.trim` / `Gen.IL.crop` (the subjects of `IL.trim_refines` / `IL.crop_refines`)
    against the numba-compiled `_trim` / `_crop`; a case on which they differ is also put to the property oracle"""
    before = len(r.disagreements)
    il_corr.stream(r, IL_PROGS, n)
    for d in r.disagreements[before:]:
        case = il_public_case(d["case"])
        if case is None:
            continue
        status, out, src = call(case)
        bad = oracle(case, status, out, src)
        if bad:
            r.fail(bad[0], bad[1] + " [input of the il: stream]", case)


def search(r):
    run(r, n_override={"quick": 3000, "thorough": 20000}[r.tier])


def replay(r, body):
    case = body["case"]
    if "prog" in case:                    # a case of the il: streams (generated program vs numba kernel)
        bad = il_corr.replay_case(case)
        pub = il_public_case(case)
        if pub is not None:
            status, out, src = call(pub)
            o = oracle(pub, status, out, src)
            if o:
                print("still fails:", o[1])
                return 1
        print("generated program and numba kernel still differ" if bad else "does not fail on the current tree")
        return bad
    status, out, src = call(case)
    bad = oracle(case, status, out, src)
    if bad:
        print("still fails:", bad[1])
        return 1
    print("does not fail on the current tree")
    return 0
