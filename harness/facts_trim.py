"""
Layer T2 facts for C18 (xrspatial/zonal.py: `_trim`, `_crop`, `trim`, `crop`) -> lean/XrsVerif/Gen/TrimFacts.lean

Read from the `ast` of /repo's *current* source (nothing is imported or run):

* `trimKernel`, `cropKernel : KernelShape`   for each of the four directional scans, in the order of the
      returned tuple `(top, bottom, left, right)`: the axis of the outer loop, its direction and that it runs over
      the whole axis (`range(n)` / `range(0, n)` / `range(0, n, 1)` = up, `range(n - 1, -1, -1)` = down), that the
      inner loop visits every `data[y, x]` of the row / column, the *match predicate* between a listed value and
      the cell (`e == val` either way round = `.eq`; `e == val or (np.isnan(e) and np.isnan(val))` = `.eqOrBothNan`;
      anything else -- e.g. a call `np.isclose(e, val)` -- = `.other "<source>"`), and what a match means
      (crop: the scan stops at a matching cell; trim: at a cell no excluded value matches);
      `emptyEarly`: `if not scan_complete: return 0, -1, 0, -1` right after the first scan.
* `trimWrapper`, `cropWrapper : WrapperShape`   which parameter's `.data` and which list parameter reach the
      kernel, what is done to the list on the way (`.none` when the parameter itself is passed and never
      re-bound; otherwise `.other "<source of the re-binding / expression>"`), which parameter is sliced and
      that the slice is `[top: bottom + 1, left: right + 1]` of the kernel's results (directly or through named
      `slice(...)` temporaries), `.name = name` and the return.

Local names are never compared (loops, flags, temporaries may be renamed, `val` may be inlined, the dead
`else: continue` may go); parameters are identified by position.  A piece that is not recognised gives
`ok := false` / `.other`, which the theorems of Props/C18.lean reject.
"""
import ast
import os

REL = "xrspatial/zonal.py"
RESULT_NAMES = ["top", "bottom", "left", "right"]


class NoMatch(Exception):
    pass


def need(c, what):
    if not c:
        raise NoMatch(what)


def find_func(mod, name):
    for n in mod.body:
        if isinstance(n, ast.FunctionDef) and n.name == name:
            return n
    return None


def body_of(f):
    b = list(f.body)
    if b and isinstance(b[0], ast.Expr) and isinstance(b[0].value, ast.Constant) and isinstance(b[0].value.value, str):
        b = b[1:]
    return [s for s in b if not isinstance(s, ast.Pass)]


def const_int(n):
    if isinstance(n, ast.Constant) and isinstance(n.value, int) and not isinstance(n.value, bool):
        return n.value
    if isinstance(n, ast.UnaryOp) and isinstance(n.op, ast.USub):
        v = const_int(n.operand)
        return None if v is None else -v
    return None


def is_name(n, name=None):
    return isinstance(n, ast.Name) and (name is None or n.id == name)


def lean_str(s):
    s = " ".join(s.split())
    return '"' + s.replace("\\", "\\\\").replace('"', '\\"') + '"'


def subst(node, env):
    """replace Names bound in env (single-assignment temporaries) by their defining expressions"""
    class T(ast.NodeTransformer):
        def visit_Name(self, n):
            if isinstance(n.ctx, ast.Load) and n.id in env:
                return self.visit(env[n.id])
            return n
    import copy
    return T().visit(copy.deepcopy(node))


# ---------------------------------------------------------------- kernels
def axis_of(n, axes, data):
    """the expression for an axis length: the name unpacked from `data.shape`, or `data.shape[k]`"""
    if isinstance(n, ast.Name) and n.id in axes:
        return axes[n.id]
    if isinstance(n, ast.Subscript) and ast.unparse(n.value) == f"{data}.shape":
        k = const_int(n.slice)
        return {0: "rows", 1: "cols"}.get(k)
    return None


def parse_range(call, axes, data):
    """-> (dir, axis) with dir in up / down / ('other', src)"""
    src = ast.unparse(call)
    if not (isinstance(call, ast.Call) and is_name(call.func, "range") and not call.keywords):
        return ("other", src), None
    a = call.args
    if len(a) == 1:
        return "up", axis_of(a[0], axes, data)
    if len(a) in (2, 3) and const_int(a[0]) == 0 and (len(a) == 2 or const_int(a[2]) == 1):
        return "up", axis_of(a[1], axes, data)
    if len(a) == 3 and const_int(a[1]) == -1 and const_int(a[2]) == -1 and isinstance(a[0], ast.BinOp) \
            and isinstance(a[0].op, ast.Sub) and const_int(a[0].right) == 1:
        return "down", axis_of(a[0].left, axes, data)
    return ("other", src), None


def classify_match(test, evar, cell_ok):
    """test (temporaries substituted) between the listed value `evar` and the cell expression"""
    def operand(n):
        if is_name(n, evar):
            return "e"
        if cell_ok(n):
            return "cell"
        return None

    def is_eq(t):
        return isinstance(t, ast.Compare) and len(t.ops) == 1 and isinstance(t.ops[0], ast.Eq) \
            and {operand(t.left), operand(t.comparators[0])} == {"e", "cell"}

    def is_isnan(t):
        if isinstance(t, ast.Call) and ast.unparse(t.func) in ("np.isnan", "numpy.isnan", "math.isnan") \
                and len(t.args) == 1 and not t.keywords:
            return operand(t.args[0])
        return None

    def both_nan(t):
        return isinstance(t, ast.BoolOp) and isinstance(t.op, ast.And) and len(t.values) == 2 \
            and {is_isnan(t.values[0]), is_isnan(t.values[1])} == {"e", "cell"}
    if is_eq(test):
        return "eq"
    if isinstance(test, ast.BoolOp) and isinstance(test.op, ast.Or) and len(test.values) == 2:
        a, b = test.values
        if (is_eq(a) and both_nan(b)) or (is_eq(b) and both_nan(a)):
            return "eqOrBothNan"
    return ("other", ast.unparse(test))


def sets_true(stmts, name=None):
    """[flag = True, break] -> flag"""
    if len(stmts) == 2 and isinstance(stmts[0], ast.Assign) and len(stmts[0].targets) == 1 \
            and is_name(stmts[0].targets[0], name) and isinstance(stmts[0].value, ast.Constant) \
            and stmts[0].value.value is True and isinstance(stmts[1], ast.Break):
        return stmts[0].targets[0].id
    return None


def dead_else(orelse):
    return orelse == [] or (len(orelse) == 1 and isinstance(orelse[0], ast.Continue))


def parse_scan(loop, axes, data, listed):
    """one directional scan -> dict(bound, flag, axis, dir, innerFull, mtch, polarity)"""
    need(isinstance(loop.target, ast.Name) and not loop.orelse, "outer loop target")
    a = loop.target.id
    dr, axis = parse_range(loop.iter, axes, data)
    body = [s for s in loop.body if not isinstance(s, ast.Pass)]
    need(len(body) == 3, "outer loop body: `if done: break; cur = a; for …`")
    g, asg, inner = body
    need(isinstance(g, ast.If) and isinstance(g.test, ast.Name) and not g.orelse and len(g.body) == 1
         and isinstance(g.body[0], ast.Break), "`if scan_complete: break`")
    flag = g.test.id
    need(isinstance(asg, ast.Assign) and len(asg.targets) == 1 and is_name(asg.targets[0]) and is_name(asg.value, a),
         "`bound = a`")
    bound = asg.targets[0].id
    need(isinstance(inner, ast.For) and isinstance(inner.target, ast.Name) and not inner.orelse, "inner loop")
    b = inner.target.id
    idr, iaxis = parse_range(inner.iter, axes, data)
    other_axis = {"rows": "cols", "cols": "rows"}.get(axis)
    yx = (a, b) if axis == "rows" else (b, a)

    def cell_ok(n):
        return isinstance(n, ast.Subscript) and is_name(n.value, data) and isinstance(n.slice, ast.Tuple) \
            and len(n.slice.elts) == 2 and is_name(n.slice.elts[0], yx[0]) and is_name(n.slice.elts[1], yx[1])
    ib = [s for s in inner.body if not isinstance(s, ast.Pass)]
    env = {}
    while ib and isinstance(ib[0], ast.Assign) and len(ib[0].targets) == 1 and is_name(ib[0].targets[0]) \
            and not isinstance(ib[0].value, ast.Constant):
        env[ib[0].targets[0].id] = subst(ib[0].value, env)           # val = data[y, x]
        ib = ib[1:]
    nod = None
    if ib and isinstance(ib[0], ast.Assign) and len(ib[0].targets) == 1 and is_name(ib[0].targets[0]) \
            and isinstance(ib[0].value, ast.Constant) and ib[0].value.value is False:
        nod = ib[0].targets[0].id                                     # is_nodata = False
        ib = ib[1:]
    need(len(ib) == 2 and isinstance(ib[0], ast.For) and isinstance(ib[1], ast.If), "list loop followed by the stop test")
    lst, stop = ib
    need(is_name(lst.iter, listed) and isinstance(lst.target, ast.Name) and not lst.orelse, "loop over the list parameter")
    evar = lst.target.id
    lb = [s for s in lst.body if not isinstance(s, ast.Pass)]
    need(len(lb) == 1 and isinstance(lb[0], ast.If) and dead_else(lb[0].orelse), "`if <match>: …; break`")
    mtch = classify_match(subst(lb[0].test, env), evar, cell_ok)
    need(not stop.orelse, "stop test has no else")
    if nod is not None:
        # trim: is_nodata = True on a match; `if not is_nodata: scan_complete = True; break`
        need(sets_true(lb[0].body, nod) == nod, "match sets the no-data flag and leaves the list loop")
        need(isinstance(stop.test, ast.UnaryOp) and isinstance(stop.test.op, ast.Not) and is_name(stop.test.operand, nod)
             and sets_true(stop.body, flag) == flag, "`if not is_nodata: scan_complete = True; break`")
        polarity = "hitIfUnmatched"
    else:
        need(sets_true(lb[0].body, flag) == flag, "match completes the scan and leaves the list loop")
        need(is_name(stop.test, flag) and len(stop.body) == 1 and isinstance(stop.body[0], ast.Break),
             "`if scan_complete: break`")
        polarity = "hitIfMatched"
    inner_full = idr in ("up", "down") and iaxis == other_axis and iaxis is not None
    return dict(bound=bound, flag=flag, axis=axis or "other", dir=dr, innerFull=inner_full, mtch=mtch, polarity=polarity)


BAD_SCAN = dict(ok=False, axis="other", dir=("other", "?"), innerFull=False, mtch=("other", "?"), polarity="other")


def kernel_shape(mod, name):
    f = find_func(mod, name)
    rep = {}
    if f is None or len(f.args.args) != 2:
        return dict(ok=False, scans=[], emptyEarly=False), {"error": f"{name}: not found / not two parameters"}
    data, listed = (a.arg for a in f.args.args)
    body = body_of(f)
    axes = {}
    ok = True
    scans, early_after = [], None
    flags_false, inits = {}, {}
    ret = None
    for i, s in enumerate(body):
        if isinstance(s, ast.Assign) and len(s.targets) == 1 and isinstance(s.targets[0], ast.Tuple) \
                and ast.unparse(s.value) == f"{data}.shape" and len(s.targets[0].elts) == 2 \
                and all(isinstance(e, ast.Name) for e in s.targets[0].elts):
            axes = {s.targets[0].elts[0].id: "rows", s.targets[0].elts[1].id: "cols"}
        elif isinstance(s, ast.Assign) and len(s.targets) == 1 and is_name(s.targets[0]) \
                and (const_int(s.value) is not None or (isinstance(s.value, ast.Constant) and s.value.value is False)):
            if isinstance(s.value, ast.Constant) and s.value.value is False:
                flags_false[s.targets[0].id] = i
            else:
                inits[s.targets[0].id] = (i, const_int(s.value))
        elif isinstance(s, ast.For):
            try:
                sc = parse_scan(s, axes, data, listed)
                # the flag must have been reset to False since the previous scan
                prev = max([j for j, t in enumerate(body[:i]) if isinstance(t, ast.For)], default=-1)
                # since the previous scan: the flag was reset to False and the bound initialised to 0
                sc["ok"] = flags_false.get(sc["flag"], -1) > prev and inits.get(sc["bound"], (-1, None))[0] > prev \
                    and inits[sc["bound"]][1] == 0
                if not sc["ok"]:
                    rep.setdefault("notes", []).append(f"line {s.lineno}: flag / bound not initialised before the scan")
            except NoMatch as ex:
                sc = dict(BAD_SCAN, bound=None, flag=None)
                rep.setdefault("notes", []).append(f"line {s.lineno}: {ex}")
            scans.append(sc)
        elif isinstance(s, ast.If) and len(scans) == 1 and early_after is None and not s.orelse \
                and isinstance(s.test, ast.UnaryOp) and isinstance(s.test.op, ast.Not) and is_name(s.test.operand, scans[0]["flag"]) \
                and len(s.body) == 1 and isinstance(s.body[0], ast.Return) and isinstance(s.body[0].value, ast.Tuple) \
                and [const_int(e) for e in s.body[0].value.elts] == [0, -1, 0, -1]:
            early_after = True
        elif isinstance(s, ast.Return) and i == len(body) - 1 and isinstance(s.value, ast.Tuple) \
                and all(isinstance(e, ast.Name) for e in s.value.elts) and len(s.value.elts) == 4:
            ret = [e.id for e in s.value.elts]
        else:
            ok = False
            rep.setdefault("notes", []).append(f"line {s.lineno}: statement not understood: {ast.unparse(s).splitlines()[0]}")
    # order the scans by the position of their bound in the returned tuple
    ordered = []
    if ret is not None and len(scans) == 4 and sorted(str(sc["bound"]) for sc in scans) == sorted(ret):
        for nm in ret:
            ordered.append(next(sc for sc in scans if sc["bound"] == nm))
        # the early return must follow the scan of the first result
        if early_after and scans[0]["bound"] != ret[0]:
            early_after = False
    else:
        ok = False
        ordered = scans
        rep.setdefault("notes", []).append("the four scans do not assign the four returned names")
    ok = ok and all(sc["ok"] for sc in ordered) and bool(axes)
    shape = dict(ok=ok, scans=ordered, emptyEarly=bool(early_after))
    rep.update(ok=ok, emptyEarly=bool(early_after),
               scans=[dict(axis=sc["axis"], dir=sc["dir"], innerFull=sc["innerFull"], mtch=sc["mtch"], polarity=sc["polarity"],
                           ok=sc["ok"]) for sc in ordered])
    return shape, rep


# ---------------------------------------------------------------- wrappers
def wrapper_shape(mod, name, kernel):
    f = find_func(mod, name)
    bad = dict(ok=False, kernel="?", dataParam=99, listParam=99, listCast=("other", "?"), slicedParam=99, sliceOk=False,
               named=False)
    if f is None:
        return bad, {"error": f"{name} not found"}
    params = [a.arg for a in f.args.args]
    body = body_of(f)
    stores = {}
    for n in ast.walk(f):
        if isinstance(n, ast.Name) and isinstance(n.ctx, ast.Store):
            stores[n.id] = stores.get(n.id, 0) + 1
    env = {}
    for s in body:                        # single-assignment temporaries at the top level of the function
        if isinstance(s, ast.Assign) and len(s.targets) == 1 and is_name(s.targets[0]) and stores.get(s.targets[0].id) == 1 \
                and s.targets[0].id not in params:
            env[s.targets[0].id] = s.value
    sh = dict(bad)
    rep = {}
    try:
        calls = [s for s in body if isinstance(s, ast.Assign) and isinstance(s.value, ast.Call)
                 and isinstance(s.value.func, ast.Name) and s.value.func.id.startswith("_")
                 and len(s.targets) == 1 and isinstance(s.targets[0], ast.Tuple)]
        need(len(calls) == 1, "one `t, b, l, r = <kernel>(…)` statement")
        call = calls[0].value
        sh["kernel"] = call.func.id
        res = [e.id for e in calls[0].targets[0].elts if isinstance(e, ast.Name)]
        need(len(res) == 4 and len(calls[0].targets[0].elts) == 4 and len(call.args) == 2 and not call.keywords,
             "four results, two arguments")
        d, lst = call.args
        need(isinstance(d, ast.Attribute) and d.attr == "data" and isinstance(d.value, ast.Name) and d.value.id in params
             and stores.get(d.value.id, 0) == 0, "first argument `<parameter>.data`")
        sh["dataParam"] = params.index(d.value.id)
        # the list argument: a parameter handed over as it is, or something made from one
        if isinstance(lst, ast.Name) and lst.id in params and stores.get(lst.id, 0) == 0:
            sh["listParam"], sh["listCast"] = params.index(lst.id), "none"
        else:
            full = subst(lst, env)
            used = [n.id for n in ast.walk(full) if isinstance(n, ast.Name) and n.id in params[1:] and n.id != d.value.id]
            src = ast.unparse(full)
            if isinstance(lst, ast.Name) and lst.id in params:       # the parameter itself was re-bound
                rb = [ast.unparse(s.value) for s in ast.walk(f) if isinstance(s, ast.Assign)
                      and any(is_name(t, lst.id) for t in s.targets)]
                src = "; ".join(rb) or src
                used = [lst.id]
            sh["listParam"] = params.index(used[0]) if used else 99
            sh["listCast"] = ("other", src)
        # the slice
        slices = []
        for s in body:
            if isinstance(s, ast.Assign) and len(s.targets) == 1 and is_name(s.targets[0]) and isinstance(s.value, ast.Subscript) \
                    and isinstance(s.value.value, ast.Name) and s.value.value.id in params:
                slices.append(s)
        need(len(slices) == 1, "one `arr = <parameter>[…]` statement")
        sl = slices[0]
        arr = sl.targets[0].id
        sh["slicedParam"] = params.index(sl.value.value.id)

        def is_slice(n, lo, hi):
            n = subst(n, env)
            if isinstance(n, ast.Slice):
                lower, upper, step = n.lower, n.upper, n.step
            elif isinstance(n, ast.Call) and is_name(n.func, "slice") and len(n.args) in (2, 3) and not n.keywords:
                lower, upper = n.args[0], n.args[1]
                step = n.args[2] if len(n.args) == 3 else None
            else:
                return False
            if step is not None and not (isinstance(step, ast.Constant) and step.value in (None, 1)):
                return False
            up_ok = isinstance(upper, ast.BinOp) and isinstance(upper.op, ast.Add) and (
                (is_name(upper.left, hi) and const_int(upper.right) == 1) or (is_name(upper.right, hi) and const_int(upper.left) == 1))
            return is_name(lower, lo) and up_ok
        idx = sl.value.slice
        sh["sliceOk"] = bool(stores.get(sl.value.value.id, 0) == 0 and isinstance(idx, ast.Tuple) and len(idx.elts) == 2
                             and is_slice(idx.elts[0], res[0], res[1]) and is_slice(idx.elts[1], res[2], res[3])
                             and all(stores.get(r_) == 1 for r_ in res))
        # `.name = name`; `return arr`
        name_param = "name" if "name" in params else None
        named = any(isinstance(s, ast.Assign) and len(s.targets) == 1 and isinstance(s.targets[0], ast.Attribute)
                    and s.targets[0].attr == "name" and is_name(s.targets[0].value, arr) and name_param
                    and is_name(s.value, name_param) for s in body)
        returns = isinstance(body[-1], ast.Return) and is_name(body[-1].value, arr)
        sh["named"] = bool(named and returns and stores.get(arr) == 1)
        # nothing else happens in the wrapper
        understood = 0
        for s in body:
            if s is calls[0] or s is sl or s is body[-1]:
                understood += 1
            elif isinstance(s, ast.Assign) and len(s.targets) == 1 and (
                    (is_name(s.targets[0]) and s.targets[0].id in env) or
                    (isinstance(s.targets[0], ast.Attribute) and s.targets[0].attr == "name" and is_name(s.targets[0].value, arr))):
                understood += 1
        sh["ok"] = understood == len(body) and sh["kernel"] == kernel
        if understood != len(body):
            rep["note"] = "a statement of the wrapper is not understood"
            if sh["listCast"] == "none" and any(
                    isinstance(n, ast.Name) and n.id == params[sh["listParam"]] for s in body
                    if s is not calls[0] for n in ast.walk(s)):
                sh["listCast"] = ("other", "the list parameter is used by a statement that is not understood")
    except NoMatch as ex:
        rep["no_match"] = str(ex)
        sh["ok"] = False
    rep.update({k: (list(v) if isinstance(v, tuple) else v) for k, v in sh.items()})
    return sh, rep


# ---------------------------------------------------------------- emission
def lean_tag(v, with_src=True):
    if isinstance(v, tuple):
        return ".other " + lean_str(v[1]) if with_src else ".other"
    return "." + v


def lean_scan(sc):
    return ("{ ok := " + ("true" if sc["ok"] else "false") + f", axis := .{sc['axis']}, dir := {lean_tag(sc['dir'])}, "
            f"innerFull := {'true' if sc['innerFull'] else 'false'}, mtch := {lean_tag(sc['mtch'])}, "
            f"polarity := .{sc['polarity']} }}")


def lean_kernel(sh):
    scans = ",\n    ".join(lean_scan(sc) for sc in sh["scans"])
    return ("{\n  ok := " + ("true" if sh["ok"] else "false") + "\n  scans := [\n    " + scans + "]\n  emptyEarly := "
            + ("true" if sh["emptyEarly"] else "false") + " }")


def lean_wrapper(sh):
    b = lambda v: "true" if v else "false"
    return ("{ ok := " + b(sh["ok"]) + f", kernel := {lean_str(sh['kernel'])}, dataParam := {sh['dataParam']}, "
            f"listParam := {sh['listParam']}, listCast := {lean_tag(sh['listCast'])}, slicedParam := {sh['slicedParam']}, "
            f"sliceOk := {b(sh['sliceOk'])}, named := {b(sh['named'])} }}")


def generate(repo):
    mod = ast.parse(open(os.path.join(repo, REL)).read())
    tk, tk_rep = kernel_shape(mod, "_trim")
    ck, ck_rep = kernel_shape(mod, "_crop")
    tw, tw_rep = wrapper_shape(mod, "trim", "_trim")
    cw, cw_rep = wrapper_shape(mod, "crop", "_crop")
    text = "\n".join([
        "import XrsVerif.Model.Trim",
        "/-! GENERATED by harness/facts_trim.py from xrspatial/zonal.py (`_trim`, `_crop`, `trim`, `crop`) -- do not edit. -/",
        "namespace XrsVerif.Gen",
        "open XrsVerif.Trim",
        "",
        "/-- the four scans of `zonal._trim` as found in the source, in the order of the returned tuple -/",
        "def trimKernel : KernelShape := " + lean_kernel(tk),
        "",
        "/-- the four scans of `zonal._crop` -/",
        "def cropKernel : KernelShape := " + lean_kernel(ck),
        "",
        "/-- `zonal.trim`: what reaches `_trim`, what is sliced -/",
        "def trimWrapper : WrapperShape :=\n  " + lean_wrapper(tw),
        "/-- `zonal.crop`: what reaches `_crop`, what is sliced -/",
        "def cropWrapper : WrapperShape :=\n  " + lean_wrapper(cw),
        "",
        "end XrsVerif.Gen", ""])
    yield "TrimFacts.lean", text, dict(trimKernel=tk_rep, cropKernel=ck_rep, trimWrapper=tw_rep, cropWrapper=cw_rep)
