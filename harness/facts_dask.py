"""
T2 facts for C01 (and C07): how every Dask code path wraps its block function.

For each operation: which function is mapped over the blocks, with which `depth` / `boundary`,
which function the NumPy backend applies to the whole raster, where global reductions are taken,
whether anything is computed eagerly.  Depths and radii that depend on the kernel shape are emitted
as Lean functions of (rows, cols) of the kernel.  When an expected shape is not found the record gets
`ok := false` (which no theorem can discharge) -- never a plausible default.
"""
import ast
import os

from translate import call_name, find_func, lean_str


def parse(repo, rel, cache={}):
    key = (repo, rel)
    if key not in cache:
        cache[key] = ast.parse(open(os.path.join(repo, rel)).read())
    return cache[key]


class ShapeExpr:
    """integer expressions over the kernel shape -> Lean Nat expressions in `kr`, `kc`"""

    def __init__(self, func, kernel_param="kernel"):
        self.func = func
        self.kernel = kernel_param
        self.defs = {}
        for n in ast.walk(func):
            if isinstance(n, ast.Assign) and len(n.targets) == 1:
                t, v = n.targets[0], n.value
                if isinstance(t, ast.Name):
                    self.defs.setdefault(t.id, v)
                elif isinstance(t, ast.Tuple) and isinstance(v, ast.Tuple) and len(t.elts) == len(v.elts):
                    for a, b in zip(t.elts, v.elts):
                        if isinstance(a, ast.Name):
                            self.defs.setdefault(a.id, b)
                elif isinstance(t, ast.Tuple) and isinstance(v, ast.Attribute) and v.attr == "shape" \
                        and isinstance(v.value, ast.Name) and v.value.id == self.kernel and len(t.elts) == 2:
                    self.defs.setdefault(t.elts[0].id, "kr")
                    self.defs.setdefault(t.elts[1].id, "kc")

    def tr(self, n, depth=0):
        if depth > 20:
            raise ValueError("cyclic definition")
        if isinstance(n, str):
            return n
        if isinstance(n, ast.Constant) and isinstance(n.value, int) and n.value >= 0:
            return str(n.value)
        if isinstance(n, ast.Name):
            if n.id in self.defs:
                return self.tr(self.defs[n.id], depth + 1)
            raise ValueError(f"unknown name {n.id}")
        if isinstance(n, ast.Subscript) and isinstance(n.value, ast.Attribute) and n.value.attr == "shape" \
                and isinstance(n.value.value, ast.Name) and n.value.value.id == self.kernel \
                and isinstance(n.slice, ast.Constant) and n.slice.value in (0, 1):
            return "kr" if n.slice.value == 0 else "kc"
        if isinstance(n, ast.BinOp) and isinstance(n.op, ast.FloorDiv):
            return f"({self.tr(n.left, depth + 1)} / {self.tr(n.right, depth + 1)})"
        if isinstance(n, ast.BinOp) and isinstance(n.op, (ast.Add, ast.Sub, ast.Mult)):
            op = {ast.Add: "+", ast.Sub: "-", ast.Mult: "*"}[type(n.op)]
            return f"({self.tr(n.left, depth + 1)} {op} {self.tr(n.right, depth + 1)})"
        if isinstance(n, ast.Call) and call_name(n.func) == "int" and len(n.args) == 1 \
                and isinstance(n.args[0], ast.BinOp) and isinstance(n.args[0].op, ast.Div):
            # int(a / b) on non-negative integers = floor division
            return f"({self.tr(n.args[0].left, depth + 1)} / {self.tr(n.args[0].right, depth + 1)})"
        raise ValueError(f"shape expression {ast.unparse(n)}")


def local_bindings(func):
    """name -> list of values bound to it by plain assignments anywhere in `func` (nested functions included)"""
    out = {}
    for n in ast.walk(func):
        if isinstance(n, ast.Assign):
            for t in n.targets:
                if isinstance(t, ast.Name):
                    out.setdefault(t.id, []).append(n.value)
                elif isinstance(t, ast.Tuple) and isinstance(n.value, ast.Tuple) and len(t.elts) == len(n.value.elts):
                    for a, b in zip(t.elts, n.value.elts):
                        if isinstance(a, ast.Name):
                            out.setdefault(a.id, []).append(b)
                elif isinstance(t, (ast.Tuple, ast.List)):
                    for a in ast.walk(t):
                        if isinstance(a, ast.Name):
                            out.setdefault(a.id, []).append(None)
        elif isinstance(n, (ast.AugAssign, ast.AnnAssign)) and isinstance(n.target, ast.Name):
            out.setdefault(n.target.id, []).append(getattr(n, "value", None) if isinstance(n, ast.AnnAssign) else None)
        elif isinstance(n, (ast.For, ast.comprehension)):
            for a in ast.walk(n.target):
                if isinstance(a, ast.Name):
                    out.setdefault(a.id, []).append(None)
        elif isinstance(n, ast.NamedExpr) and isinstance(n.target, ast.Name):
            out.setdefault(n.target.id, []).append(None)
    return out


def resolve_callable(func, node, depth=0):
    """the function a callable expression inside `func` denotes, looking through
         `partial(F, ...)` / `functools.partial(F, ...)` (nested too) and through local names bound exactly once
         (`_func = partial(F, ...)`, `blk = F`).
       -> name of a function (module-level, imported or nested `def`), or None when the expression is anything else
          (lambda, call of a higher-order helper, name bound more than once, parameter ...)."""
    if depth > 6 or node is None:
        return None
    if isinstance(node, ast.Call) and call_name(node.func) == "partial" and node.args \
            and (isinstance(node.func, ast.Name) or ast.unparse(node.func) == "functools.partial"):
        return resolve_callable(func, node.args[0], depth + 1)
    if isinstance(node, ast.Name):
        vals = local_bindings(func).get(node.id)
        if vals is None:
            params = {a.arg for a in func.args.args + func.args.kwonlyargs + func.args.posonlyargs}
            if func.args.vararg:
                params.add(func.args.vararg.arg)
            if func.args.kwarg:
                params.add(func.args.kwarg.arg)
            return None if node.id in params else node.id      # a module-level / imported / nested function
        if len(vals) == 1 and vals[0] is not None:
            return resolve_callable(func, vals[0], depth + 1)
        return None
    return None


def resolve_partial(func, name):
    """kept for callers outside this module: `_func = partial(X, ...)` -> X"""
    return resolve_callable(func, ast.Name(id=name, ctx=ast.Load())) or name


def dask_array_aliases(mod):
    """names under which the module `dask.array` is visible (`import dask.array as da`)"""
    out = set()
    for st in mod.body:
        if isinstance(st, ast.Import):
            for a in st.names:
                if a.name == "dask.array" and a.asname:
                    out.add(a.asname)
        elif isinstance(st, ast.ImportFrom) and st.module == "dask":
            for a in st.names:
                if a.name == "array":
                    out.add(a.asname or "array")
    return out


def qualify(mod, rel, dask_fn, name):
    """`module.function` as the effect summaries (facts_effects.py) name it"""
    modname = os.path.splitext(os.path.basename(rel))[0]
    if find_func(mod, name) is not None:
        return f"{modname}.{name}"
    for n in ast.walk(dask_fn):
        if n is not dask_fn and isinstance(n, ast.FunctionDef) and n.name == name:
            return f"{modname}.{dask_fn.name}.{name}"
    for st in mod.body:
        if isinstance(st, ast.ImportFrom) and st.module:
            for a in st.names:
                if (a.asname or a.name) == name:
                    return f"{st.module.split('.')[-1]}.{a.name}"
    return "?"


def in_loop_or_nested(func, target):
    """is `target` (a node inside `func`) inside a loop, a comprehension, a lambda or a nested function?"""
    def go(n, inside):
        if n is target:
            return inside
        for ch in ast.iter_child_nodes(n):
            inner = inside or (n is not func and isinstance(n, (ast.FunctionDef, ast.Lambda))) \
                or isinstance(n, (ast.For, ast.While, ast.ListComp, ast.SetComp, ast.DictComp, ast.GeneratorExp))
            r = go(ch, inner)
            if r is not None:
                return r
        return None
    return bool(go(func, False))


def block_call(mod, df, kinds):
    """the one `map_overlap` / `map_blocks` call of a Dask code path, normalised:
         x.map_overlap(f, depth=..., boundary=...)        method form (positional depth / boundary accepted)
         da.map_overlap(f, x, depth=..., boundary=...)    function form (`da` = an alias of dask.array)
       -> dict(call, kind, func, depth, boundary, arrays) ; raises ValueError when there is not exactly one such call or its
          shape is not one of the two above."""
    calls = [n for n in ast.walk(df) if isinstance(n, ast.Call) and call_name(n.func) in kinds]
    if not calls:
        raise ValueError("no " + "/".join(kinds) + " call")
    if len(calls) > 1:
        raise ValueError(f"{len(calls)} {'/'.join(kinds)} calls")
    call = calls[0]
    if any(isinstance(a, ast.Starred) for a in call.args) or any(k.arg is None for k in call.keywords):
        raise ValueError("starred arguments")
    aliases = dask_array_aliases(mod)
    f = call.func
    if isinstance(f, ast.Attribute) and ((isinstance(f.value, ast.Name) and f.value.id in aliases)
                                         or ast.unparse(f.value) == "dask.array"):
        form = "function"
    elif isinstance(f, ast.Name) or (isinstance(f, ast.Attribute) and "overlap" in ast.unparse(f.value).split(".")):
        # `from ... import map_overlap` / `da.overlap.map_overlap`: the argument order differs between dask's entry points
        raise ValueError(f"unrecognised spelling {ast.unparse(f)}")
    elif isinstance(f, ast.Attribute):
        form = "method"
    else:
        raise ValueError("call shape")
    kind = call_name(f)
    fn = kwarg(call, "func") or (call.args[0] if call.args else None)
    pos = list(call.args[(0 if kwarg(call, "func") is not None else 1):])
    depth, boundary = kwarg(call, "depth"), kwarg(call, "boundary")
    arrays = []
    if form == "method":
        arrays = [f.value]
        if kind == "map_overlap":
            # Array.map_overlap(func, depth, boundary=None, trim=True, **kwargs)
            if pos and depth is None:
                depth = pos.pop(0)
            if pos and boundary is None:
                boundary = pos.pop(0)
            if pos:
                raise ValueError("extra positional arguments")
        # Array.map_blocks(func, *args): further positionals are arguments of the block function
    else:
        arrays = pos
    return dict(call=call, kind=kind, func=fn, depth=depth, boundary=boundary, arrays=arrays,
                looped=in_loop_or_nested(df, call))


def mapping_params(repo):
    """positional order of ArrayTypeFunctionMapping's constructor, read from utils.py"""
    try:
        mod = parse(repo, "xrspatial/utils.py")
    except (OSError, SyntaxError):
        return []
    for st in mod.body:
        if isinstance(st, ast.ClassDef) and st.name == "ArrayTypeFunctionMapping":
            for m in st.body:
                if isinstance(m, ast.FunctionDef) and m.name == "__init__":
                    return [a.arg for a in m.args.args[1:]]
    return []


def mapping_arg(repo, call, name):
    v = kwarg(call, name)
    if v is None:
        order = mapping_params(repo)
        if name in order and order.index(name) < len(call.args):
            v = call.args[order.index(name)]
    return v


def kwarg(call, name):
    for k in call.keywords:
        if k.arg == name:
            return k.value
    return None


def mapping_func_of(mod, public, which, repo):
    """the function the public wrapper's (single) ArrayTypeFunctionMapping registers for backend `which`"""
    f = find_func(mod, public)
    if f is None:
        return None
    calls = [n for n in ast.walk(f) if isinstance(n, ast.Call) and call_name(n.func) == "ArrayTypeFunctionMapping"]
    if len(calls) != 1:
        return None
    v = mapping_arg(repo, calls[0], which)
    if isinstance(v, ast.Name):
        return v.id
    return None


def numpy_func_of(mod, public, repo="/repo"):
    """the numpy_func the public wrapper dispatches to"""
    return mapping_func_of(mod, public, "numpy_func", repo)


TYPE_SPELLINGS = {"np.ndarray": ("np.ndarray", "numpy.ndarray"), "da.Array": ("da.Array", "dask.array.Array")}


def isinstance_branch(mod, public, typ):
    """`if isinstance(agg.data, <typ>): out = F(...)` -> F   (hillshade dispatches this way)"""
    f = find_func(mod, public)
    if f is None:
        return None
    for n in ast.walk(f):
        if isinstance(n, ast.If) and isinstance(n.test, ast.Call) and call_name(n.test.func) == "isinstance" \
                and len(n.test.args) == 2 and ast.unparse(n.test.args[1]) in TYPE_SPELLINGS.get(typ, (typ,)):
            for st in n.body:
                if isinstance(st, ast.Assign) and isinstance(st.value, ast.Call) and isinstance(st.value.func, ast.Name):
                    return st.value.func.id
    return None


def called_names(func):
    return sorted({n.func.id for n in ast.walk(func) if isinstance(n, ast.Call) and isinstance(n.func, ast.Name)})


def dask_func_of(mod, public, repo="/repo"):
    return mapping_func_of(mod, public, "dask_func", repo)


def eager_calls(func):
    """names of eager operations inside a dask code path"""
    out = []
    for n in ast.walk(func):
        if isinstance(n, ast.Call) and call_name(n.func) in ("compute", "persist", "asarray", "array", "tolist", "item"):
            if isinstance(n.func, ast.Attribute) and isinstance(n.func.value, ast.Name) and n.func.value.id == "np" \
                    and call_name(n.func) == "array" and not n.args:
                continue
            if call_name(n.func) == "array" and len(n.args) == 1 and isinstance(n.args[0], ast.Tuple) and not n.args[0].elts:
                continue   # meta=np.array(())
            out.append(ast.unparse(n)[:60])
    return out


# ------------------------------------------------------------------ who names the graph key of a new layer
# dask names a layer `funcname(func)-tokenize(func, *args, **kwargs)` unless the call says otherwise:
#   name=           map_blocks / map_overlap / blockwise / from_array / from_delayed / delayed: the COMPLETE key of the new
#                   layer ("must be unique"); two calls giving the same name although they compute different things
#                   collide as soon as their graphs are merged
#   dask_key_name=  the same for a delayed call
#   token=          only the readable prefix; the hash of the arguments is still appended (harmless)
#   **kwargs        anything could be inside
GRAPH_CALLS = ("map_blocks", "map_overlap", "blockwise", "from_array", "from_delayed", "delayed", "from_collections")


def names_in(func, node, depth=0):
    """the free names an expression is built from (`x.attr` as such), looking through local names bound exactly once"""
    out = set()
    if node is None or depth > 4:
        return out
    binds = local_bindings(func) if func is not None else {}
    inner = set()
    for n in ast.walk(node):
        if isinstance(n, ast.Attribute) and isinstance(n.value, ast.Name):
            out.add(ast.unparse(n))
            inner.add(id(n.value))
    for n in ast.walk(node):
        if isinstance(n, ast.Name) and id(n) not in inner:
            vals = binds.get(n.id)
            if vals is not None and len(vals) == 1 and vals[0] is not None and depth < 4:
                out |= names_in(func, vals[0], depth + 1)
            else:
                out.add(n.id)
    return out


def key_args(func, call):
    """what a graph-building call says about the key of the layer it creates"""
    def text(v):
        if v is None or (isinstance(v, ast.Constant) and v.value in (None, False)):
            return ""
        return ast.unparse(v)[:120]
    name = kwarg(call, "name")
    if call_name(call.func) == "from_collections" and name is None and call.args:
        name = call.args[0]              # HighLevelGraph.from_collections(name, layer, dependencies): a hand-made layer
    return dict(name=text(name), name_from=sorted(names_in(func, name)) if text(name) else [],
                token=text(kwarg(call, "token")), key_name=text(kwarg(call, "dask_key_name")),
                opaque=any(k.arg is None for k in call.keywords))


def key_fields(ka):
    return (f"  keyName := {lean_str(ka['name'])}\n  keyNameFrom := [{', '.join(lean_str(e) for e in ka['name_from'])}]\n"
            f"  keyToken := {lean_str(ka['token'])}\n  opaqueKwargs := {'true' if ka['opaque'] else 'false'}\n")


KEY_FIELD_DECLS = [
    "  /-- source text of an explicit `name=` of the call (dask: the complete graph key of the new layer); \"\" = left to dask -/",
    "  keyName : String",
    "  /-- the names that expression is built from (local names bound once looked through) -/",
    "  keyNameFrom : List String",
    "  /-- `token=` (only the readable prefix of the key; the hash of all arguments is still appended) -/",
    "  keyToken : String",
    "  /-- the call forwards `**kwargs`: a key could be passed unseen -/",
    "  opaqueKwargs : Bool",
]
NO_KEY = dict(name="?", name_from=[], token="", key_name="", opaque=True)     # shape not recognised: nothing is known


def merge_keys(kas):
    """several calls of one path (terrain maps its block function once per octave)"""
    if not kas:
        return dict(NO_KEY)
    return dict(name="; ".join(k["name"] for k in kas if k["name"]),
                name_from=sorted({n for k in kas for n in k["name_from"]}),
                token="; ".join(sorted({k["token"] for k in kas if k["token"]})),
                key_name="; ".join(k["key_name"] for k in kas if k["key_name"]),
                opaque=any(k["opaque"] for k in kas))


def enclosing_functions(mod):
    """(qualified name within the module, FunctionDef) for every function, nested ones as outer.inner"""
    out = []

    def go(node, prefix):
        for ch in ast.iter_child_nodes(node):
            if isinstance(ch, (ast.FunctionDef, ast.AsyncFunctionDef)):
                q = prefix + [ch.name]
                out.append((".".join(q), ch))
                go(ch, q)
            elif isinstance(ch, ast.ClassDef):
                go(ch, prefix + [ch.name])
            else:
                go(ch, prefix)
    go(mod, [])
    return out


def graph_key_facts(repo):
    """every call in xrspatial/*.py (tests, datasets and the GPU back-ends' own directories excluded) that creates a graph
    layer: one record per call, found by a sweep that knows nothing about the operations -- the per-operation facts
    (Overlap / Blocks / ProximityDask) describe the same calls through their own parsers"""
    recs, rep = [], {}
    pkg = os.path.join(repo, "xrspatial")
    for fn in sorted(os.listdir(pkg)) if os.path.isdir(pkg) else []:
        if not fn.endswith(".py") or fn.startswith("_"):
            continue
        rel = "xrspatial/" + fn
        modname = fn[:-3]
        try:
            mod = parse(repo, rel)
        except (OSError, SyntaxError) as ex:
            rep[modname] = "unreadable: " + str(ex)
            recs.append(dict(module=modname, site=modname + ".?", kind="?", line=0, **NO_KEY))
            continue
        funcs = enclosing_functions(mod)
        owner = {}
        for q, f in funcs:                      # innermost function wins (later entries are nested deeper or later)
            for n in ast.walk(f):
                if isinstance(n, ast.Call):
                    prev = owner.get(id(n))
                    if prev is None or len(q.split(".")) >= len(prev[0].split(".")):
                        owner[id(n)] = (q, f)
        for n in ast.walk(mod):
            if not isinstance(n, ast.Call):
                continue
            kind = None
            if isinstance(n.func, ast.Call) and call_name(n.func.func) == "delayed":
                kind = "delayed-call"            # delayed(f)(args, dask_key_name=...): the key is given at the second call
            elif not isinstance(n.func, ast.Call) and call_name(n.func) in GRAPH_CALLS:
                kind = call_name(n.func)
            if kind is not None:
                q, f = owner.get(id(n), ("<module>", None))
                ka = key_args(f, n)
                recs.append(dict(module=modname, site=f"{modname}.{q}", kind=kind, line=n.lineno, **ka))
    recs.sort(key=lambda d: (d["module"], d["line"]))
    out = ["/-! GENERATED by harness/facts_dask.py -- every call of xrspatial/*.py that creates a dask graph layer, and what it says",
           "    about the key of that layer (`name=` is the complete key, `token=` only its prefix). -/",
           "namespace XrsVerif.Gen", "",
           "structure GraphKeyFact where",
           "  module : String",
           "  /-- `module.function[.nested function]` holding the call -/",
           "  site : String",
           "  /-- map_blocks | map_overlap | blockwise | from_array | from_delayed | delayed | delayed-call | from_collections -/",
           "  kind : String",
           "  /-- source text of `name=`; \"\" when absent (or None / False): the key is dask's `funcname-tokenize(func, args, kwargs)` -/",
           "  nameArg : String",
           "  nameFrom : List String",
           "  tokenArg : String",
           "  /-- `dask_key_name=` of a delayed call -/",
           "  keyNameArg : String",
           "  opaqueKwargs : Bool", "",
           "/-- the call leaves the key of its layer to dask -/",
           "def GraphKeyFact.keyFree (s : GraphKeyFact) : Bool := s.nameArg == \"\" && s.keyNameArg == \"\" && !s.opaqueKwargs", "",
           "def allGraphKeyFacts : List GraphKeyFact := ["]
    rows = []
    for d in recs:
        rows.append(f"  {{ module := {lean_str(d['module'])}, site := {lean_str(d['site'])}, kind := {lean_str(d['kind'])}, "
                    f"nameArg := {lean_str(d['name'])}, nameFrom := [{', '.join(lean_str(e) for e in d['name_from'])}], "
                    f"tokenArg := {lean_str(d['token'])}, keyNameArg := {lean_str(d['key_name'])}, "
                    f"opaqueKwargs := {'true' if d['opaque'] else 'false'} }}")
    out.append(",\n".join(rows))
    out.append("]\n")
    out.append("end XrsVerif.Gen")
    rep["sites"] = [dict(site=d["site"], kind=d["kind"], line=d["line"], name=d["name"], token=d["token"], opaque=d["opaque"])
                    for d in recs]
    rep["named"] = [d["site"] for d in recs if d["name"] or d["key_name"] or d["opaque"]]
    return "GraphKeys.lean", "\n".join(out) + "\n", rep


# op, file, public function (dispatching through ArrayTypeFunctionMapping) or None, dask function, numpy function
OVERLAP_OPS = [
    ("slope", "xrspatial/slope.py", "slope", "_run_dask_numpy", None, None),
    ("aspect", "xrspatial/aspect.py", "aspect", "_run_dask_numpy", None, None),
    ("curvature", "xrspatial/curvature.py", "curvature", "_run_dask_numpy", None, None),
    ("hillshade", "xrspatial/hillshade.py", "hillshade", "_run_dask_numpy", None, None),
    ("mean", "xrspatial/focal.py", "_mean", "_mean_dask_numpy", None, None),
    ("apply", "xrspatial/focal.py", "apply", "_apply_dask_numpy", None, "_apply_numpy"),
    ("hotspots", "xrspatial/focal.py", None, "_hotspots_dask_numpy", "_hotspots_numpy", None),
    ("convolve", "xrspatial/convolution.py", "convolve_2d", "_convolve_2d_dask_numpy", None, "_convolve_2d_numpy"),
]

# numpy functions whose window half-widths are read from the kernel shape: (name, file, func, (row var, col var))
RADIUS_FUNCS = [
    ("apply", "xrspatial/focal.py", "_apply_numpy", ("hrows", "hcols")),
    ("convolve", "xrspatial/convolution.py", "_convolve_2d_numpy", ("wkx", "wky")),
]



def mean_passes_fact(repo):
    """`focal.mean(agg, passes)` on a Dask raster = `passes` x (one map_overlap of the one-pass kernel)?

       loopInPublic   mean(): out = agg.data...; for _ in range(passes): out = _mean(out, excludes); DataArray(out, ...)
                      (facts_focal.mean_loop_fact -- the same fact Gen/Focal.lean carries as `mean_iterates_passes`)
       dispatchOnce   _mean(data, excludes): one ArrayTypeFunctionMapping; the selected backend function is called exactly
                      once, outside any loop, with (the data, excludes), and its value is what `_mean` returns
       (that the Dask backend function holds exactly one map_overlap of the one-pass kernel is `mean_overlap.once` and
        `mean_overlap.blockFunc == mean_overlap.numpyFunc`)"""
    import facts_focal
    rep = {}
    loop = disp = False
    try:
        mod = parse(repo, "xrspatial/focal.py")
        loop, src, why = facts_focal.mean_loop_fact(mod)
        rep["loop"] = src if loop else "not recognised: " + why
        disp, dsrc, dwhy = facts_focal.mean_dispatch_fact(mod)
        rep["dispatch"] = dsrc if disp else "not recognised: " + dwhy
    except (ValueError, OSError, SyntaxError) as ex:
        rep["error"] = str(ex)
    text = ("/-- how `focal.mean` runs its passes (see facts_dask.mean_passes_fact) -/\n"
            "structure MeanPassesFact where\n"
            "  /-- `mean()`: the float raster, then `for _ in range(passes): out = _mean(out, excludes)`, then `DataArray(out, …)` -/\n"
            "  loopInPublic : Bool\n"
            "  /-- `_mean`: the backend function selected by the mapping is called exactly once, outside any loop, with\n"
            "      (data, excludes), and its value is returned -/\n"
            "  dispatchOnce : Bool\n\n"
            f"def mean_passes_fact : MeanPassesFact := {{ loopInPublic := {'true' if loop else 'false'}, "
            f"dispatchOnce := {'true' if disp else 'false'} }}\n")
    rep.update(loopInPublic=loop, dispatchOnce=disp)
    return text, rep


def overlap_facts(repo):
    out = ["/-! GENERATED by harness/facts_dask.py from the current /repo source -- do not edit. -/",
           "namespace XrsVerif.Gen", "",
           "structure OverlapFact where",
           "  op : String",
           "  ok : Bool                    -- the expected code shape was found",
           "  blockFunc : String           -- function mapped over the blocks (looked up through partial(...) / a local alias)",
           "  blockQual : String           -- the same, as `module.function` (key of the effect summaries in Gen/Effects.lean)",
           "  numpyFunc : String           -- function the NumPy backend applies to the whole raster",
           "  numpyCalls : List String     -- functions that one calls by name (thin wrappers around the kernel)",
           "  once : Bool                  -- the Dask path holds exactly one map_overlap call, outside any loop / nested function",
           "  depth : Nat → Nat → Nat × Nat -- halo depth as a function of the kernel shape (rows, cols)",
           "  boundaryNaN : Bool",
           "  eager : List String          -- eager calls (compute/persist/asarray…) on the dask path",
           "  daskQual : String            -- the function holding the map_overlap call, as `module.function`"] + KEY_FIELD_DECLS + [
           ""]
    rep = {}
    names = []
    for op, rel, public, dask_name, numpy_name, block_expected in OVERLAP_OPS:
        ok, block, npf, depth, bnan, eager, ncalls = True, "?", "?", "fun _ _ => (0, 0)", False, [], []
        bqual, once = "?", False
        ka, dqual = dict(NO_KEY), "?"
        why = ""
        try:
            mod = parse(repo, rel)
            if public is not None:
                npf = numpy_func_of(mod, public, repo) or isinstance_branch(mod, public, "np.ndarray") or "?"
                dn = dask_func_of(mod, public, repo) or isinstance_branch(mod, public, "da.Array")
                if dn is not None:
                    dask_name_eff = dn
                else:
                    dask_name_eff = dask_name
            else:
                npf = numpy_name
                dask_name_eff = dask_name
            df = find_func(mod, dask_name_eff)
            if df is None:
                raise ValueError(f"dask function {dask_name_eff} not found")
            dqual = os.path.splitext(os.path.basename(rel))[0] + "." + dask_name_eff
            bc = block_call(mod, df, ("map_overlap",))
            call = bc["call"]
            ka = key_args(df, call)
            once = not bc["looped"]
            block = resolve_callable(df, bc["func"])
            if block is None:
                block = "?"
                raise ValueError("block function is not a (partially applied) named function: " + ast.unparse(bc["func"])[:60])
            bqual = qualify(mod, rel, df, block)
            d = bc["depth"]
            se = ShapeExpr(df)
            # a local name bound once to the depth expression (`halo = (1, 1)`; `depth = {0: 1, 1: 1}`)
            for _ in range(4):
                if isinstance(d, ast.Name) and isinstance(se.defs.get(d.id), (ast.Tuple, ast.Dict, ast.Name)):
                    d = se.defs[d.id]
            if isinstance(d, ast.Dict) and len(d.keys) == 2 \
                    and sorted(getattr(k, "value", None) for k in d.keys) == [0, 1]:
                by_axis = {k.value: v for k, v in zip(d.keys, d.values)}
                d = ast.Tuple(elts=[by_axis[0], by_axis[1]], ctx=ast.Load())
            if isinstance(d, ast.Tuple) and len(d.elts) == 2:
                pair = (se.tr(d.elts[0]), se.tr(d.elts[1]))
            elif d is not None and not isinstance(d, (ast.Tuple, ast.Dict)):
                # a scalar depth means the same depth on every axis (dask's documented broadcasting)
                e = se.tr(d)
                pair = (e, e)
            else:
                raise ValueError("depth shape")
            if pair[0].isdigit() and pair[1].isdigit():
                depth = f"fun _ _ => ({pair[0]}, {pair[1]})"
            else:
                body = f" ({pair[0]}, {pair[1]})"
                depth = "fun " + ("kr" if "kr" in body else "_") + " " + ("kc" if "kc" in body else "_") + " =>" + body
            b = bc["boundary"]
            if isinstance(b, ast.Name) and b.id in se.defs:
                b = se.defs[b.id]
            bnan = (isinstance(b, ast.Attribute) and b.attr == "nan"
                    and isinstance(b.value, ast.Name) and b.value.id in ("np", "numpy", "math")) \
                or (isinstance(b, ast.Call) and call_name(b.func) == "float" and len(b.args) == 1
                    and isinstance(b.args[0], ast.Constant) and str(b.args[0].value).lower() == "nan")
            eager = eager_calls(df)
            nf = find_func(mod, npf) if npf else None
            ncalls = called_names(nf) if nf is not None else []
        except (ValueError, OSError, SyntaxError) as ex:
            ok, why = False, str(ex)
        lean = f"{op}_overlap"
        names.append(lean)
        out.append(f"def {lean} : OverlapFact := {{\n  op := {lean_str(op)}\n  ok := {'true' if ok else 'false'}\n"
                   f"  blockFunc := {lean_str(block)}\n  blockQual := {lean_str(bqual)}\n"
                   f"  numpyFunc := {lean_str(npf or '?')}\n"
                   f"  numpyCalls := [{', '.join(lean_str(e) for e in ncalls)}]\n"
                   f"  once := {'true' if once else 'false'}\n"
                   f"  depth := {depth}\n  boundaryNaN := {'true' if bnan else 'false'}\n"
                   f"  eager := [{', '.join(lean_str(e) for e in eager)}]\n  daskQual := {lean_str(dqual)}\n" + key_fields(ka) + "}\n")
        rep[op] = dict(ok=ok, why=why, block=block, block_qual=bqual, once=once, numpy=npf, depth=depth, boundary_nan=bnan,
                       eager=eager, dask_qual=dqual, key_name=ka["name"], key_token=ka["token"], opaque_kwargs=ka["opaque"])
    out.append("def allOverlapFacts : List OverlapFact := [" + ", ".join(names) + "]\n")
    mtext, mrep = mean_passes_fact(repo)
    out.append(mtext)
    rep["mean_passes"] = mrep
    # radii
    for name, rel, fn, (rv, cv) in RADIUS_FUNCS:
        try:
            f = find_func(parse(repo, rel), fn)
            se = ShapeExpr(f)
            e = f"({se.tr(ast.Name(rv))}, {se.tr(ast.Name(cv))})"
            out.append(f"/-- window half-widths of `{fn}` as a function of the kernel shape -/\n"
                       f"def {name}_radius (kr kc : Nat) : Nat × Nat := {e}\n")
            rep[name + "_radius"] = e
        except (ValueError, AttributeError, OSError) as ex:
            out.append(f"/-- NOT FOUND in `{fn}`: {ex} -/\n"
                       f"def {name}_radius (kr kc : Nat) : Nat × Nat := (kr + 1, kc + 1)\n")
            rep[name + "_radius"] = "not found: " + str(ex)
    out.append("end XrsVerif.Gen")
    return "Overlap.lean", "\n".join(out) + "\n", rep


# ------------------------------------------------------------------ global reductions on dask paths
# (op, file, dask function, reductions expected to be global)
REDUCTION_OPS = [
    ("hotspots", "xrspatial/focal.py", "_hotspots_dask_numpy"),
    ("normalize_data", "xrspatial/multispectral.py", "_normalize_data_dask"),
    ("equal_interval", "xrspatial/classify.py", "_run_equal_interval"),
    ("perlin", "xrspatial/perlin.py", "_perlin_dask_numpy"),
    ("terrain", "xrspatial/terrain.py", "_terrain_dask_numpy"),
]
REDUCERS = {"nanmean", "nanstd", "nanmin", "nanmax", "min", "max", "ptp", "mean", "std", "nanvar", "var"}


def reduction_facts(repo):
    out = ["/-! GENERATED by harness/facts_dask.py -- where the Dask paths take their global reductions. -/",
           "namespace XrsVerif.Gen", "",
           "structure ReductionFact where",
           "  op : String",
           "  ok : Bool",
           "  /-- reductions applied to a whole-array expression at function level (outside any block function) -/",
           "  globalReductions : List String",
           "  /-- reductions found inside nested functions / lambdas (per block!) -/",
           "  blockReductions : List String",
           ""]
    rep = {}
    names = []
    for op, rel, fn in REDUCTION_OPS:
        ok, glob, blk = True, [], []
        try:
            f = find_func(parse(repo, rel), fn)
            if f is None:
                raise ValueError("function not found")
            nested = set()
            for n in ast.walk(f):
                if n is not f and isinstance(n, (ast.FunctionDef, ast.Lambda)):
                    for m in ast.walk(n):
                        nested.add(id(m))
            for n in ast.walk(f):
                if isinstance(n, ast.Call) and call_name(n.func) in REDUCERS:
                    (blk if id(n) in nested else glob).append(ast.unparse(n)[:50])
        except (ValueError, OSError) as ex:
            ok = False
            rep[op] = str(ex)
        lean = f"{op}_reductions"
        names.append(lean)
        out.append(f"def {lean} : ReductionFact := {{\n  op := {lean_str(op)}\n  ok := {'true' if ok else 'false'}\n"
                   f"  globalReductions := [{', '.join(lean_str(e) for e in glob)}]\n"
                   f"  blockReductions := [{', '.join(lean_str(e) for e in blk)}]\n}}\n")
        rep.setdefault(op, dict(glob=glob, blk=blk))
    out.append("def allReductionFacts : List ReductionFact := [" + ", ".join(names) + "]\n")
    out.append("end XrsVerif.Gen")
    return "Reductions.lean", "\n".join(out) + "\n", rep


# ------------------------------------------------------------------ map_blocks paths
# (op, file, dask function, numpy function)
BLOCKS_OPS = [
    ("binary", "xrspatial/classify.py", "_run_dask_numpy_binary", "_run_numpy_binary"),
    ("bin", "xrspatial/classify.py", "_run_dask_numpy_bin", "_run_numpy_bin"),
    ("normalize_data", "xrspatial/multispectral.py", "_normalize_data_dask", "_normalize_data_numpy"),
    ("perlin", "xrspatial/perlin.py", "_perlin_dask_numpy", "_perlin_numpy"),
    ("terrain", "xrspatial/terrain.py", "_terrain_dask_numpy", "_terrain_numpy"),
]


def reach(mod, name, depth=3):
    seen, todo = set(), [name]
    for _ in range(depth):
        nxt = []
        for nm in todo:
            f = find_func(mod, nm)
            if f is None:
                continue
            for c in called_names(f):
                if c not in seen:
                    seen.add(c)
                    nxt.append(c)
        todo = nxt
    return sorted(seen)


def blocks_facts(repo):
    out = ["/-! GENERATED by harness/facts_dask.py -- the `map_blocks` code paths. -/",
           "namespace XrsVerif.Gen", "",
           "structure BlocksFact where",
           "  op : String",
           "  ok : Bool",
           "  blockFunc : String           -- function mapped over the blocks (looked up through partial(...) / a local alias)",
           "  blockQual : String           -- the same, as `module.function` (key of the effect summaries in Gen/Effects.lean)",
           "  numpyFunc : String           -- what the NumPy backend runs on the whole raster",
           "  numpyReaches : List String   -- functions reachable by name from numpyFunc (depth 3)",
           "  depthless : Bool             -- map_blocks, not map_overlap",
           "  eager : List String",
           "  daskQual : String            -- the function holding the map_blocks call(s), as `module.function`"] + KEY_FIELD_DECLS + [""]
    rep, names = {}, []
    for op, rel, dname, nname in BLOCKS_OPS:
        ok, block, reaches, eager, depthless, bqual = True, "?", [], [], False, "?"
        ka, dqual = dict(NO_KEY), os.path.splitext(os.path.basename(rel))[0] + "." + dname
        try:
            mod = parse(repo, rel)
            df = find_func(mod, dname)
            if df is None or find_func(mod, nname) is None:
                raise ValueError("function not found")
            bcs = [n for n in ast.walk(df) if isinstance(n, ast.Call) and call_name(n.func) in ("map_blocks", "map_overlap")]
            if not bcs:
                raise ValueError("no map_blocks call")
            # a path may map the same block function several times (terrain: one noise layer per octave, in a loop):
            # every call must name the same function
            blocks = set()
            depthless = True
            ka = merge_keys([key_args(df, bcall) for bcall in bcs])
            for bcall in bcs:
                if any(isinstance(a, ast.Starred) for a in bcall.args):
                    raise ValueError("starred arguments")
                f0 = bcall.func
                if not (isinstance(f0, ast.Attribute) and not ("overlap" in ast.unparse(f0.value).split("."))):
                    raise ValueError(f"unrecognised spelling {ast.unparse(f0)}")
                depthless = depthless and call_name(f0) == "map_blocks"
                farg = kwarg(bcall, "func") or (bcall.args[0] if bcall.args else None)
                b1 = resolve_callable(df, farg)
                if b1 is None:
                    raise ValueError("block function is not a (partially applied) named function: " + ast.unparse(farg)[:60])
                blocks.add(b1)
            if len(blocks) != 1:
                raise ValueError(f"several block functions: {sorted(blocks)}")
            block = blocks.pop()
            bqual = qualify(mod, rel, df, block)
            reaches = reach(mod, nname)
            eager = eager_calls(df)
        except (ValueError, OSError) as ex:
            ok = False
            rep[op] = str(ex)
        lean = f"{op}_blocks"
        names.append(lean)
        out.append(f"def {lean} : BlocksFact := {{\n  op := {lean_str(op)}\n  ok := {'true' if ok else 'false'}\n"
                   f"  blockFunc := {lean_str(block)}\n  blockQual := {lean_str(bqual)}\n  numpyFunc := {lean_str(nname)}\n"
                   f"  numpyReaches := [{', '.join(lean_str(e) for e in reaches)}]\n"
                   f"  depthless := {'true' if depthless else 'false'}\n"
                   f"  eager := [{', '.join(lean_str(e) for e in eager)}]\n  daskQual := {lean_str(dqual)}\n" + key_fields(ka) + "}\n")
        rep.setdefault(op, dict(block=block, block_qual=bqual, reaches=reaches, eager=eager, dask_qual=dqual,
                                key_name=ka["name"], key_token=ka["token"], opaque_kwargs=ka["opaque"]))
    out.append("def allBlocksFacts : List BlocksFact := [" + ", ".join(names) + "]\n")
    out.append("end XrsVerif.Gen")
    return "Blocks.lean", "\n".join(out) + "\n", rep


# ------------------------------------------------------------------ dask proximity (C07)
def find_nested(func, name):
    for n in ast.walk(func):
        if isinstance(n, ast.FunctionDef) and n.name == name:
            return n
    return None


def rat_expr(n, names):
    """float expression over a few named quantities -> Lean Rat expression (`int(e)` -> floor, e >= 0)"""
    from fractions import Fraction
    if isinstance(n, ast.Constant) and isinstance(n.value, (int, float)) and not isinstance(n.value, bool):
        fr = Fraction(repr(n.value)) if isinstance(n.value, float) else Fraction(n.value)
        return f"(({fr.numerator} : Rat) / {fr.denominator})"
    if isinstance(n, ast.Name) and n.id in names:
        return names[n.id]
    if isinstance(n, ast.BinOp) and type(n.op) in (ast.Add, ast.Sub, ast.Mult, ast.Div):
        op = {ast.Add: "+", ast.Sub: "-", ast.Mult: "*", ast.Div: "/"}[type(n.op)]
        return f"({rat_expr(n.left, names)} {op} {rat_expr(n.right, names)})"
    if isinstance(n, ast.Call) and call_name(n.func) == "int" and len(n.args) == 1:
        return f"(Rat.floor {rat_expr(n.args[0], names)})"
    raise ValueError(f"expression {ast.unparse(n)}")


def proximity_facts(repo):
    rel = "xrspatial/proximity.py"
    rep = {}
    ok = True
    pad = "fun _ _ _ => (-1, -1)"
    fallback, depth_order, bnan, arrays, coords_chunked, fb_single, res_order = "?", [], False, [], False, False, []
    disjuncts, gc_guard = [], dict(metric="", test="", default="")
    ka = dict(NO_KEY)
    try:
        mod = parse(repo, rel)
        proc = find_func(mod, "_process")
        pd = find_nested(proc, "_process_dask") if proc else None
        if pd is None:
            raise ValueError("_process_dask not found")
        top_if = next((st for st in pd.body if isinstance(st, ast.If)), None)
        if top_if is None:
            raise ValueError("no fallback test")
        fallback = ast.unparse(top_if.test)
        # the test as a list of disjuncts: falling back to one block is sound whatever the reason (single_block_is_whole), so the
        # theorems ask for the presence of the disjuncts they need, not for one spelling of the whole test
        disjuncts = [ast.unparse(v) for v in top_if.test.values] \
            if isinstance(top_if.test, ast.BoolOp) and isinstance(top_if.test.op, ast.Or) else [fallback]
        # the GREAT_CIRCLE guard in front of _process_dask (D28): `halo_covers_max_distance = True` and, under
        # `if distance_metric == GREAT_CIRCLE ...`, `halo_covers_max_distance = <test>`
        for st in proc.body:
            if isinstance(st, ast.Assign) and len(st.targets) == 1 and isinstance(st.targets[0], ast.Name) \
                    and st.targets[0].id == "halo_covers_max_distance":
                gc_guard["default"] = ast.unparse(st.value)
            if isinstance(st, ast.If) and not st.orelse:
                asg = [x for x in st.body if isinstance(x, ast.Assign) and len(x.targets) == 1
                       and isinstance(x.targets[0], ast.Name) and x.targets[0].id == "halo_covers_max_distance"]
                if asg:
                    gc_guard["metric"] = ast.unparse(st.test)
                    gc_guard["test"] = "; ".join(ast.unparse(x) for x in st.body)
        # fallback branch: rechunk everything to one block, pads 0
        txt = " ".join(ast.unparse(st) for st in top_if.body)
        fb_single = ("rechunk({0: height, 1: width})" in txt and txt.count("rechunk") >= 3
                     and "pad_y = pad_x = 0" in txt and "height, width = raster.shape" in txt)
        names = {"max_distance": "maxd", "cellsize_x": "csx", "cellsize_y": "csy"}
        pads = {}
        for st in top_if.orelse:
            if isinstance(st, ast.Assign) and isinstance(st.targets[0], ast.Name) and st.targets[0].id in ("pad_y", "pad_x"):
                pads[st.targets[0].id] = rat_expr(st.value, names)
            if isinstance(st, ast.Assign) and isinstance(st.targets[0], ast.Tuple) and isinstance(st.value, ast.Call) \
                    and call_name(st.value.func) == "get_dataarray_resolution":
                res_order = [e.id for e in st.targets[0].elts]
        call = next((n for n in ast.walk(pd) if isinstance(n, ast.Call) and call_name(n.func) == "map_overlap"), None)
        if call is None:
            raise ValueError("no map_overlap")
        ka = key_args(pd, call)
        arrays = [ast.unparse(a) for a in call.args[1:]]
        d = kwarg(call, "depth")
        depth_order = [e.id for e in d.elts] if isinstance(d, ast.Tuple) and all(isinstance(e, ast.Name) for e in d.elts) else []
        b = kwarg(call, "boundary")
        bnan = isinstance(b, ast.Attribute) and b.attr == "nan"
        if depth_order and all(x in pads for x in depth_order):
            pad = f"fun maxd csx csy => ({pads[depth_order[0]]}, {pads[depth_order[1]]})"
            for v in ("maxd", "csx", "csy"):
                if v not in pad.split("=>", 1)[1]:
                    pad = pad.replace(f" {v}", " _", 1)
        else:
            raise ValueError("pads not found")
        # coordinates are chunked like the raster
        ptxt = ast.unparse(proc)
        coords_chunked = ("xs = da.from_array(xs, chunks=raster.chunks)" in ptxt and "ys = da.from_array(ys, chunks=raster.chunks)" in ptxt)
    except (ValueError, OSError, AttributeError) as ex:
        ok = False
        rep["error"] = str(ex)
    out = ["/-! GENERATED by harness/facts_dask.py -- the Dask path of proximity / allocation / direction. -/",
           "namespace XrsVerif.Gen", "",
           "structure ProximityDaskFact where",
           "  ok : Bool",
           "  /-- the test that switches to single-block processing -/",
           "  fallbackTest : String",
           "  /-- in that case raster, xs, ys are rechunked to one block of the raster's own shape and the depth is 0 -/",
           "  fallbackSingleBlock : Bool",
           "  /-- the disjuncts of that test (a test that is not an `or` is its own single disjunct) -/",
           "  fallbackDisjuncts : List String",
           "  /-- GREAT_CIRCLE guard computed in front of `_process_dask`: value without the guard, the `if` that sets it, the test -/",
           "  gcGuardDefault : String",
           "  gcGuardWhen : String",
           "  gcGuardTest : String",
           "  /-- (rows, columns) halo in cells as a function of max_distance and the x / y cell sizes -/",
           "  pad : Rat → Rat → Rat → Int × Int",
           "  /-- names in `depth=(…)`, row axis first -/",
           "  depthOrder : List String",
           "  /-- order in which get_dataarray_resolution's result is bound -/",
           "  resOrder : List String",
           "  boundaryNaN : Bool",
           "  /-- arrays mapped together (the data and both coordinate grids) -/",
           "  arrays : List String",
           "  coordsChunkedLikeRaster : Bool"] + KEY_FIELD_DECLS + ["",
           f"def proximity_dask : ProximityDaskFact := {{\n  ok := {'true' if ok else 'false'}\n"
           f"  fallbackTest := {lean_str(fallback)}\n  fallbackSingleBlock := {'true' if fb_single else 'false'}\n"
           f"  fallbackDisjuncts := [{', '.join(lean_str(e) for e in disjuncts)}]\n"
           f"  gcGuardDefault := {lean_str(gc_guard['default'])}\n  gcGuardWhen := {lean_str(gc_guard['metric'])}\n"
           f"  gcGuardTest := {lean_str(gc_guard['test'])}\n"
           f"  pad := {pad}\n  depthOrder := [{', '.join(lean_str(e) for e in depth_order)}]\n"
           f"  resOrder := [{', '.join(lean_str(e) for e in res_order)}]\n"
           f"  boundaryNaN := {'true' if bnan else 'false'}\n  arrays := [{', '.join(lean_str(e) for e in arrays)}]\n"
           f"  coordsChunkedLikeRaster := {'true' if coords_chunked else 'false'}\n" + key_fields(ka) + "}\n",
           "end XrsVerif.Gen"]
    rep.update(ok=ok, pad=pad, fallback=fallback, fallback_disjuncts=disjuncts, gc_guard=gc_guard, depth_order=depth_order, arrays=arrays, key_name=ka["name"],
               key_token=ka["token"], opaque_kwargs=ka["opaque"])
    return "ProximityDask.lean", "\n".join(out) + "\n", rep


def generate(repo):
    yield proximity_facts(repo)
    yield blocks_facts(repo)
    yield overlap_facts(repo)
    yield reduction_facts(repo)
    yield graph_key_facts(repo)
