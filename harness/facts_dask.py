"""
T2 facts for C01 (and C07): how every Dask code path wraps its block function.

For each operation: which function is mapped over the blocks, with which `depth` / `boundary`,
which function the NumPy backend applies to the whole raster, where global reductions are taken,
whether anything is computed eagerly.  Depths and radii that depend on the kernel shape are emitted
as Lean functions of (rows, cols) of the kernel.  When an expected shape is not found the record gets
`ok := false` (which no theorem can discharge) -- never a plausible default.
"""
import ast
import os

from translate import call_name, find_func, lean_str


def parse(repo, rel, cache={}):
    key = (repo, rel)
    if key not in cache:
        cache[key] = ast.parse(open(os.path.join(repo, rel)).read())
    return cache[key]


class ShapeExpr:
    """integer expressions over the kernel shape -> Lean Nat expressions in `kr`, `kc`"""

    def __init__(self, func, kernel_param="kernel"):
        self.func = func
        self.kernel = kernel_param
        self.defs = {}
        for n in ast.walk(func):
            if isinstance(n, ast.Assign) and len(n.targets) == 1:
                t, v = n.targets[0], n.value
                if isinstance(t, ast.Name):
                    self.defs.setdefault(t.id, v)
                elif isinstance(t, ast.Tuple) and isinstance(v, ast.Tuple) and len(t.elts) == len(v.elts):
                    for a, b in zip(t.elts, v.elts):
                        if isinstance(a, ast.Name):
                            self.defs.setdefault(a.id, b)
                elif isinstance(t, ast.Tuple) and isinstance(v, ast.Attribute) and v.attr == "shape" \
                        and isinstance(v.value, ast.Name) and v.value.id == self.kernel and len(t.elts) == 2:
                    self.defs.setdefault(t.elts[0].id, "kr")
                    self.defs.setdefault(t.elts[1].id, "kc")

    def tr(self, n, depth=0):
        if depth > 20:
            raise ValueError("cyclic definition")
        if isinstance(n, str):
            return n
        if isinstance(n, ast.Constant) and isinstance(n.value, int) and n.value >= 0:
            return str(n.value)
        if isinstance(n, ast.Name):
            if n.id in self.defs:
                return self.tr(self.defs[n.id], depth + 1)
            raise ValueError(f"unknown name {n.id}")
        if isinstance(n, ast.Subscript) and isinstance(n.value, ast.Attribute) and n.value.attr == "shape" \
                and isinstance(n.value.value, ast.Name) and n.value.value.id == self.kernel \
                and isinstance(n.slice, ast.Constant) and n.slice.value in (0, 1):
            return "kr" if n.slice.value == 0 else "kc"
        if isinstance(n, ast.BinOp) and isinstance(n.op, ast.FloorDiv):
            return f"({self.tr(n.left, depth + 1)} / {self.tr(n.right, depth + 1)})"
        if isinstance(n, ast.BinOp) and isinstance(n.op, (ast.Add, ast.Sub, ast.Mult)):
            op = {ast.Add: "+", ast.Sub: "-", ast.Mult: "*"}[type(n.op)]
            return f"({self.tr(n.left, depth + 1)} {op} {self.tr(n.right, depth + 1)})"
        if isinstance(n, ast.Call) and call_name(n.func) == "int" and len(n.args) == 1 \
                and isinstance(n.args[0], ast.BinOp) and isinstance(n.args[0].op, ast.Div):
            # int(a / b) on non-negative integers = floor division
            return f"({self.tr(n.args[0].left, depth + 1)} / {self.tr(n.args[0].right, depth + 1)})"
        raise ValueError(f"shape expression {ast.unparse(n)}")


def resolve_partial(func, name):
    """`_func = partial(X, ...)` -> X"""
    for n in ast.walk(func):
        if isinstance(n, ast.Assign) and len(n.targets) == 1 and isinstance(n.targets[0], ast.Name) \
                and n.targets[0].id == name and isinstance(n.value, ast.Call) \
                and call_name(n.value.func) == "partial" and n.value.args and isinstance(n.value.args[0], ast.Name):
            return n.value.args[0].id
    return name


def kwarg(call, name):
    for k in call.keywords:
        if k.arg == name:
            return k.value
    return None


def numpy_func_of(mod, public):
    """the numpy_func the public wrapper dispatches to"""
    f = find_func(mod, public)
    if f is None:
        return None
    for n in ast.walk(f):
        if isinstance(n, ast.Call) and call_name(n.func) == "ArrayTypeFunctionMapping":
            v = kwarg(n, "numpy_func")
            if isinstance(v, ast.Name):
                return v.id
    return None


def isinstance_branch(mod, public, typ):
    """`if isinstance(agg.data, <typ>): out = F(...)` -> F   (hillshade dispatches this way)"""
    f = find_func(mod, public)
    if f is None:
        return None
    for n in ast.walk(f):
        if isinstance(n, ast.If) and isinstance(n.test, ast.Call) and call_name(n.test.func) == "isinstance" \
                and len(n.test.args) == 2 and ast.unparse(n.test.args[1]) == typ:
            for st in n.body:
                if isinstance(st, ast.Assign) and isinstance(st.value, ast.Call) and isinstance(st.value.func, ast.Name):
                    return st.value.func.id
    return None


def called_names(func):
    return sorted({n.func.id for n in ast.walk(func) if isinstance(n, ast.Call) and isinstance(n.func, ast.Name)})


def dask_func_of(mod, public):
    f = find_func(mod, public)
    if f is None:
        return None
    for n in ast.walk(f):
        if isinstance(n, ast.Call) and call_name(n.func) == "ArrayTypeFunctionMapping":
            v = kwarg(n, "dask_func")
            if isinstance(v, ast.Name):
                return v.id
    return None


def eager_calls(func):
    """names of eager operations inside a dask code path"""
    out = []
    for n in ast.walk(func):
        if isinstance(n, ast.Call) and call_name(n.func) in ("compute", "persist", "asarray", "array", "tolist", "item"):
            if isinstance(n.func, ast.Attribute) and isinstance(n.func.value, ast.Name) and n.func.value.id == "np" \
                    and call_name(n.func) == "array" and not n.args:
                continue
            if call_name(n.func) == "array" and len(n.args) == 1 and isinstance(n.args[0], ast.Tuple) and not n.args[0].elts:
                continue   # meta=np.array(())
            out.append(ast.unparse(n)[:60])
    return out


# op, file, public function (dispatching through ArrayTypeFunctionMapping) or None, dask function, numpy function
OVERLAP_OPS = [
    ("slope", "xrspatial/slope.py", "slope", "_run_dask_numpy", None, None),
    ("aspect", "xrspatial/aspect.py", "aspect", "_run_dask_numpy", None, None),
    ("curvature", "xrspatial/curvature.py", "curvature", "_run_dask_numpy", None, None),
    ("hillshade", "xrspatial/hillshade.py", "hillshade", "_run_dask_numpy", None, None),
    ("mean", "xrspatial/focal.py", "_mean", "_mean_dask_numpy", None, None),
    ("apply", "xrspatial/focal.py", "apply", "_apply_dask_numpy", None, "_apply_numpy"),
    ("hotspots", "xrspatial/focal.py", None, "_hotspots_dask_numpy", "_hotspots_numpy", None),
    ("convolve", "xrspatial/convolution.py", "convolve_2d", "_convolve_2d_dask_numpy", None, "_convolve_2d_numpy"),
]

# numpy functions whose window half-widths are read from the kernel shape: (name, file, func, (row var, col var))
RADIUS_FUNCS = [
    ("apply", "xrspatial/focal.py", "_apply_numpy", ("hrows", "hcols")),
    ("convolve", "xrspatial/convolution.py", "_convolve_2d_numpy", ("wkx", "wky")),
]


def overlap_facts(repo):
    out = ["/-! GENERATED by harness/facts_dask.py from the current /repo source -- do not edit. -/",
           "namespace XrsVerif.Gen", "",
           "structure OverlapFact where",
           "  op : String",
           "  ok : Bool                    -- the expected code shape was found",
           "  blockFunc : String           -- function mapped over the blocks",
           "  numpyFunc : String           -- function the NumPy backend applies to the whole raster",
           "  numpyCalls : List String     -- functions that one calls by name (thin wrappers around the kernel)",
           "  depth : Nat → Nat → Nat × Nat -- halo depth as a function of the kernel shape (rows, cols)",
           "  boundaryNaN : Bool",
           "  eager : List String          -- eager calls (compute/persist/asarray…) on the dask path",
           ""]
    rep = {}
    names = []
    for op, rel, public, dask_name, numpy_name, block_expected in OVERLAP_OPS:
        ok, block, npf, depth, bnan, eager, ncalls = True, "?", "?", "fun _ _ => (0, 0)", False, [], []
        why = ""
        try:
            mod = parse(repo, rel)
            if public is not None:
                npf = numpy_func_of(mod, public) or isinstance_branch(mod, public, "np.ndarray") or "?"
                dn = dask_func_of(mod, public) or isinstance_branch(mod, public, "da.Array")
                if dn is not None:
                    dask_name_eff = dn
                else:
                    dask_name_eff = dask_name
            else:
                npf = numpy_name
                dask_name_eff = dask_name
            df = find_func(mod, dask_name_eff)
            if df is None:
                raise ValueError(f"dask function {dask_name_eff} not found")
            call = None
            for n in ast.walk(df):
                if isinstance(n, ast.Call) and call_name(n.func) == "map_overlap":
                    call = n
            if call is None:
                raise ValueError("no map_overlap call")
            farg = call.args[0] if call.args else None
            if isinstance(n := farg, ast.Name):
                block = resolve_partial(df, n.id)
            else:
                raise ValueError("block function is not a name")
            d = kwarg(call, "depth")
            se = ShapeExpr(df)
            # a local name bound once to the depth expression (`halo = (1, 1)`; `depth = {0: 1, 1: 1}`)
            for _ in range(4):
                if isinstance(d, ast.Name) and isinstance(se.defs.get(d.id), (ast.Tuple, ast.Dict, ast.Name)):
                    d = se.defs[d.id]
            if isinstance(d, ast.Dict) and len(d.keys) == 2 \
                    and sorted(getattr(k, "value", None) for k in d.keys) == [0, 1]:
                by_axis = {k.value: v for k, v in zip(d.keys, d.values)}
                d = ast.Tuple(elts=[by_axis[0], by_axis[1]], ctx=ast.Load())
            if isinstance(d, ast.Tuple) and len(d.elts) == 2:
                pair = (se.tr(d.elts[0]), se.tr(d.elts[1]))
            elif d is not None and not isinstance(d, (ast.Tuple, ast.Dict)):
                # a scalar depth means the same depth on every axis (dask's documented broadcasting)
                e = se.tr(d)
                pair = (e, e)
            else:
                raise ValueError("depth shape")
            if pair[0].isdigit() and pair[1].isdigit():
                depth = f"fun _ _ => ({pair[0]}, {pair[1]})"
            else:
                body = f" ({pair[0]}, {pair[1]})"
                depth = "fun " + ("kr" if "kr" in body else "_") + " " + ("kc" if "kc" in body else "_") + " =>" + body
            b = kwarg(call, "boundary")
            if isinstance(b, ast.Name) and b.id in se.defs:
                b = se.defs[b.id]
            bnan = (isinstance(b, ast.Attribute) and b.attr == "nan"
                    and isinstance(b.value, ast.Name) and b.value.id in ("np", "numpy", "math")) \
                or (isinstance(b, ast.Call) and call_name(b.func) == "float" and len(b.args) == 1
                    and isinstance(b.args[0], ast.Constant) and str(b.args[0].value).lower() == "nan")
            eager = eager_calls(df)
            nf = find_func(mod, npf) if npf else None
            ncalls = called_names(nf) if nf is not None else []
        except (ValueError, OSError, SyntaxError) as ex:
            ok, why = False, str(ex)
        lean = f"{op}_overlap"
        names.append(lean)
        out.append(f"def {lean} : OverlapFact := {{\n  op := {lean_str(op)}\n  ok := {'true' if ok else 'false'}\n"
                   f"  blockFunc := {lean_str(block)}\n  numpyFunc := {lean_str(npf or '?')}\n"
                   f"  numpyCalls := [{', '.join(lean_str(e) for e in ncalls)}]\n"
                   f"  depth := {depth}\n  boundaryNaN := {'true' if bnan else 'false'}\n"
                   f"  eager := [{', '.join(lean_str(e) for e in eager)}]\n}}\n")
        rep[op] = dict(ok=ok, why=why, block=block, numpy=npf, depth=depth, boundary_nan=bnan, eager=eager)
    out.append("def allOverlapFacts : List OverlapFact := [" + ", ".join(names) + "]\n")
    # radii
    for name, rel, fn, (rv, cv) in RADIUS_FUNCS:
        try:
            f = find_func(parse(repo, rel), fn)
            se = ShapeExpr(f)
            e = f"({se.tr(ast.Name(rv))}, {se.tr(ast.Name(cv))})"
            out.append(f"/-- window half-widths of `{fn}` as a function of the kernel shape -/\n"
                       f"def {name}_radius (kr kc : Nat) : Nat × Nat := {e}\n")
            rep[name + "_radius"] = e
        except (ValueError, AttributeError, OSError) as ex:
            out.append(f"/-- NOT FOUND in `{fn}`: {ex} -/\n"
                       f"def {name}_radius (kr kc : Nat) : Nat × Nat := (kr + 1, kc + 1)\n")
            rep[name + "_radius"] = "not found: " + str(ex)
    out.append("end XrsVerif.Gen")
    return "Overlap.lean", "\n".join(out) + "\n", rep


# ------------------------------------------------------------------ global reductions on dask paths
# (op, file, dask function, reductions expected to be global)
REDUCTION_OPS = [
    ("hotspots", "xrspatial/focal.py", "_hotspots_dask_numpy"),
    ("normalize_data", "xrspatial/multispectral.py", "_normalize_data_dask"),
    ("equal_interval", "xrspatial/classify.py", "_run_equal_interval"),
    ("perlin", "xrspatial/perlin.py", "_perlin_dask_numpy"),
    ("terrain", "xrspatial/terrain.py", "_terrain_dask_numpy"),
]
REDUCERS = {"nanmean", "nanstd", "nanmin", "nanmax", "min", "max", "ptp", "mean", "std", "nanvar", "var"}


def reduction_facts(repo):
    out = ["/-! GENERATED by harness/facts_dask.py -- where the Dask paths take their global reductions. -/",
           "namespace XrsVerif.Gen", "",
           "structure ReductionFact where",
           "  op : String",
           "  ok : Bool",
           "  /-- reductions applied to a whole-array expression at function level (outside any block function) -/",
           "  globalReductions : List String",
           "  /-- reductions found inside nested functions / lambdas (per block!) -/",
           "  blockReductions : List String",
           ""]
    rep = {}
    names = []
    for op, rel, fn in REDUCTION_OPS:
        ok, glob, blk = True, [], []
        try:
            f = find_func(parse(repo, rel), fn)
            if f is None:
                raise ValueError("function not found")
            nested = set()
            for n in ast.walk(f):
                if n is not f and isinstance(n, (ast.FunctionDef, ast.Lambda)):
                    for m in ast.walk(n):
                        nested.add(id(m))
            for n in ast.walk(f):
                if isinstance(n, ast.Call) and call_name(n.func) in REDUCERS:
                    (blk if id(n) in nested else glob).append(ast.unparse(n)[:50])
        except (ValueError, OSError) as ex:
            ok = False
            rep[op] = str(ex)
        lean = f"{op}_reductions"
        names.append(lean)
        out.append(f"def {lean} : ReductionFact := {{\n  op := {lean_str(op)}\n  ok := {'true' if ok else 'false'}\n"
                   f"  globalReductions := [{', '.join(lean_str(e) for e in glob)}]\n"
                   f"  blockReductions := [{', '.join(lean_str(e) for e in blk)}]\n}}\n")
        rep.setdefault(op, dict(glob=glob, blk=blk))
    out.append("def allReductionFacts : List ReductionFact := [" + ", ".join(names) + "]\n")
    out.append("end XrsVerif.Gen")
    return "Reductions.lean", "\n".join(out) + "\n", rep


# ------------------------------------------------------------------ map_blocks paths
# (op, file, dask function, numpy function)
BLOCKS_OPS = [
    ("binary", "xrspatial/classify.py", "_run_dask_numpy_binary", "_run_numpy_binary"),
    ("bin", "xrspatial/classify.py", "_run_dask_numpy_bin", "_run_numpy_bin"),
    ("normalize_data", "xrspatial/multispectral.py", "_normalize_data_dask", "_normalize_data_numpy"),
    ("perlin", "xrspatial/perlin.py", "_perlin_dask_numpy", "_perlin_numpy"),
    ("terrain", "xrspatial/terrain.py", "_terrain_dask_numpy", "_terrain_numpy"),
]


def reach(mod, name, depth=3):
    seen, todo = set(), [name]
    for _ in range(depth):
        nxt = []
        for nm in todo:
            f = find_func(mod, nm)
            if f is None:
                continue
            for c in called_names(f):
                if c not in seen:
                    seen.add(c)
                    nxt.append(c)
        todo = nxt
    return sorted(seen)


def blocks_facts(repo):
    out = ["/-! GENERATED by harness/facts_dask.py -- the `map_blocks` code paths. -/",
           "namespace XrsVerif.Gen", "",
           "structure BlocksFact where",
           "  op : String",
           "  ok : Bool",
           "  blockFunc : String           -- function mapped over the blocks",
           "  numpyFunc : String           -- what the NumPy backend runs on the whole raster",
           "  numpyReaches : List String   -- functions reachable by name from numpyFunc (depth 3)",
           "  depthless : Bool             -- map_blocks, not map_overlap",
           "  eager : List String", ""]
    rep, names = {}, []
    for op, rel, dname, nname in BLOCKS_OPS:
        ok, block, reaches, eager, depthless = True, "?", [], [], False
        try:
            mod = parse(repo, rel)
            df = find_func(mod, dname)
            if df is None or find_func(mod, nname) is None:
                raise ValueError("function not found")
            call = None
            for n in ast.walk(df):
                if isinstance(n, ast.Call) and call_name(n.func) in ("map_blocks", "map_overlap"):
                    call = n
            if call is None:
                raise ValueError("no map_blocks call")
            depthless = call_name(call.func) == "map_blocks"
            farg = call.args[0] if call.args else None
            if not isinstance(farg, ast.Name):
                raise ValueError("block function is not a name")
            block = resolve_partial(df, farg.id)
            reaches = reach(mod, nname)
            eager = eager_calls(df)
        except (ValueError, OSError) as ex:
            ok = False
            rep[op] = str(ex)
        lean = f"{op}_blocks"
        names.append(lean)
        out.append(f"def {lean} : BlocksFact := {{\n  op := {lean_str(op)}\n  ok := {'true' if ok else 'false'}\n"
                   f"  blockFunc := {lean_str(block)}\n  numpyFunc := {lean_str(nname)}\n"
                   f"  numpyReaches := [{', '.join(lean_str(e) for e in reaches)}]\n"
                   f"  depthless := {'true' if depthless else 'false'}\n"
                   f"  eager := [{', '.join(lean_str(e) for e in eager)}]\n}}\n")
        rep.setdefault(op, dict(block=block, reaches=reaches, eager=eager))
    out.append("def allBlocksFacts : List BlocksFact := [" + ", ".join(names) + "]\n")
    out.append("end XrsVerif.Gen")
    return "Blocks.lean", "\n".join(out) + "\n", rep


# ------------------------------------------------------------------ dask proximity (C07)
def find_nested(func, name):
    for n in ast.walk(func):
        if isinstance(n, ast.FunctionDef) and n.name == name:
            return n
    return None


def rat_expr(n, names):
    """float expression over a few named quantities -> Lean Rat expression (`int(e)` -> floor, e >= 0)"""
    from fractions import Fraction
    if isinstance(n, ast.Constant) and isinstance(n.value, (int, float)) and not isinstance(n.value, bool):
        fr = Fraction(repr(n.value)) if isinstance(n.value, float) else Fraction(n.value)
        return f"(({fr.numerator} : Rat) / {fr.denominator})"
    if isinstance(n, ast.Name) and n.id in names:
        return names[n.id]
    if isinstance(n, ast.BinOp) and type(n.op) in (ast.Add, ast.Sub, ast.Mult, ast.Div):
        op = {ast.Add: "+", ast.Sub: "-", ast.Mult: "*", ast.Div: "/"}[type(n.op)]
        return f"({rat_expr(n.left, names)} {op} {rat_expr(n.right, names)})"
    if isinstance(n, ast.Call) and call_name(n.func) == "int" and len(n.args) == 1:
        return f"(Rat.floor {rat_expr(n.args[0], names)})"
    raise ValueError(f"expression {ast.unparse(n)}")


def proximity_facts(repo):
    rel = "xrspatial/proximity.py"
    rep = {}
    ok = True
    pad = "fun _ _ _ => (-1, -1)"
    fallback, depth_order, bnan, arrays, coords_chunked, fb_single, res_order = "?", [], False, [], False, False, []
    try:
        mod = parse(repo, rel)
        proc = find_func(mod, "_process")
        pd = find_nested(proc, "_process_dask") if proc else None
        if pd is None:
            raise ValueError("_process_dask not found")
        top_if = next((st for st in pd.body if isinstance(st, ast.If)), None)
        if top_if is None:
            raise ValueError("no fallback test")
        fallback = ast.unparse(top_if.test)
        # fallback branch: rechunk everything to one block, pads 0
        txt = " ".join(ast.unparse(st) for st in top_if.body)
        fb_single = ("rechunk({0: height, 1: width})" in txt and txt.count("rechunk") >= 3
                     and "pad_y = pad_x = 0" in txt and "height, width = raster.shape" in txt)
        names = {"max_distance": "maxd", "cellsize_x": "csx", "cellsize_y": "csy"}
        pads = {}
        for st in top_if.orelse:
            if isinstance(st, ast.Assign) and isinstance(st.targets[0], ast.Name) and st.targets[0].id in ("pad_y", "pad_x"):
                pads[st.targets[0].id] = rat_expr(st.value, names)
            if isinstance(st, ast.Assign) and isinstance(st.targets[0], ast.Tuple) and isinstance(st.value, ast.Call) \
                    and call_name(st.value.func) == "get_dataarray_resolution":
                res_order = [e.id for e in st.targets[0].elts]
        call = next((n for n in ast.walk(pd) if isinstance(n, ast.Call) and call_name(n.func) == "map_overlap"), None)
        if call is None:
            raise ValueError("no map_overlap")
        arrays = [ast.unparse(a) for a in call.args[1:]]
        d = kwarg(call, "depth")
        depth_order = [e.id for e in d.elts] if isinstance(d, ast.Tuple) and all(isinstance(e, ast.Name) for e in d.elts) else []
        b = kwarg(call, "boundary")
        bnan = isinstance(b, ast.Attribute) and b.attr == "nan"
        if depth_order and all(x in pads for x in depth_order):
            pad = f"fun maxd csx csy => ({pads[depth_order[0]]}, {pads[depth_order[1]]})"
            for v in ("maxd", "csx", "csy"):
                if v not in pad.split("=>", 1)[1]:
                    pad = pad.replace(f" {v}", " _", 1)
        else:
            raise ValueError("pads not found")
        # coordinates are chunked like the raster
        ptxt = ast.unparse(proc)
        coords_chunked = ("xs = da.from_array(xs, chunks=raster.chunks)" in ptxt and "ys = da.from_array(ys, chunks=raster.chunks)" in ptxt)
    except (ValueError, OSError, AttributeError) as ex:
        ok = False
        rep["error"] = str(ex)
    out = ["/-! GENERATED by harness/facts_dask.py -- the Dask path of proximity / allocation / direction. -/",
           "namespace XrsVerif.Gen", "",
           "structure ProximityDaskFact where",
           "  ok : Bool",
           "  /-- the test that switches to single-block processing -/",
           "  fallbackTest : String",
           "  /-- in that case raster, xs, ys are rechunked to one block of the raster's own shape and the depth is 0 -/",
           "  fallbackSingleBlock : Bool",
           "  /-- (rows, columns) halo in cells as a function of max_distance and the x / y cell sizes -/",
           "  pad : Rat → Rat → Rat → Int × Int",
           "  /-- names in `depth=(…)`, row axis first -/",
           "  depthOrder : List String",
           "  /-- order in which get_dataarray_resolution's result is bound -/",
           "  resOrder : List String",
           "  boundaryNaN : Bool",
           "  /-- arrays mapped together (the data and both coordinate grids) -/",
           "  arrays : List String",
           "  coordsChunkedLikeRaster : Bool", "",
           f"def proximity_dask : ProximityDaskFact := {{\n  ok := {'true' if ok else 'false'}\n"
           f"  fallbackTest := {lean_str(fallback)}\n  fallbackSingleBlock := {'true' if fb_single else 'false'}\n"
           f"  pad := {pad}\n  depthOrder := [{', '.join(lean_str(e) for e in depth_order)}]\n"
           f"  resOrder := [{', '.join(lean_str(e) for e in res_order)}]\n"
           f"  boundaryNaN := {'true' if bnan else 'false'}\n  arrays := [{', '.join(lean_str(e) for e in arrays)}]\n"
           f"  coordsChunkedLikeRaster := {'true' if coords_chunked else 'false'}\n}}\n",
           "end XrsVerif.Gen"]
    rep.update(ok=ok, pad=pad, fallback=fallback, depth_order=depth_order, arrays=arrays)
    return "ProximityDask.lean", "\n".join(out) + "\n", rep


def generate(repo):
    yield proximity_facts(repo)
    yield blocks_facts(repo)
    yield overlap_facts(repo)
    yield reduction_facts(repo)
