"""
T2 generator for the backend clause of C10 ("the output has the input's array backend"): every public raster function
of /repo/xrspatial that has a Dask path is compiled -- wrapper, dispatch and Dask branch function inlined -- into a
*kind program* of `Model/BackendKind.lean`, under the assumption that its raster parameters are Dask-backed.  Kinds:
`lazy` (a dask collection), `eager` (an array in memory: `.compute()`, `np.asarray`, a numba kernel applied to the
array, `np.zeros`), `scalar`.  Props/C10.lean proves the checker sound and evaluates it on these programs: every value
a wrapper may return on its Dask path is a dask collection, on every path.

Only `ast` is used.  What the translator does not understand becomes `Rhs.any` (every kind possible), never `lazy`.
The two tables it trusts (numpy functions that dispatch to dask through `__array_function__`, array methods that
stay within the backend) are probed on the real dask by harness/corr_C10.py on every run.

generate(repo) yields ("DaskKinds.lean", text, report).
"""
import ast

from facts_bufprog import MODULES, dotted, load_modules, terminates
from translate import lean_str

# results that are tables / scalars / python objects, not rasters (the backend clause speaks about rasters)
# has a Dask path but is not modelled: the result is `xr.concat` over a user-supplied list of statistics (an empty list
# gives no raster at all), i.e. "some operand is lazy" would need "the loop runs at least once".  Observed only.
NOT_MODELLED = {"focal.focal_stats"}
NOT_RASTER = {"zonal.stats", "zonal.crosstab", "zonal.apply", "utils.get_xy_range", "utils.calc_res",
              "utils.get_dataarray_resolution", "convolution.calc_cellsize", "polygonize.polygonize"}
# numpy functions that hand back a dask collection when an argument is one (NEP-18 dispatch / ufuncs): `lift`
NP_DISPATCH = set("""where isnan isfinite isinf nanmin nanmax min max amin amax ptp sum nansum mean nanmean std nanstd var
nanvar sqrt abs absolute power square exp log log2 log10 sin cos tan arcsin arccos arctan arctan2 hypot radians degrees
deg2rad rad2deg floor ceil round around rint trunc sign clip maximum minimum fmax fmin add subtract multiply divide
true_divide floor_divide negative mod logical_and logical_or logical_not logical_xor isclose stack concatenate
dstack hstack vstack zeros_like ones_like full_like empty_like percentile nanpercentile unique digitize
searchsorted bincount argmin argmax nanargmin nanargmax cumsum cumprod diff gradient transpose squeeze expand_dims
ravel reshape flip fliplr flipud rot90 pad tile repeat any all count_nonzero nan_to_num prod dot matmul""".split())
# numpy functions whose result is an in-memory array whatever they are given: `eager`
NP_EAGER = set("""asarray array asanyarray ascontiguousarray asfortranarray zeros ones empty full arange linspace eye
identity meshgrid fromiter frombuffer append copy random.permutation random.rand random.randn random.randint
random.random random.uniform random.normal random.choice indices""".split())
NP_SCALAR = set("""float32 float64 int8 int16 int32 int64 uint8 uint16 uint32 uint64 bool_ dtype iinfo finfo isscalar
issubdtype result_type random.seed ndim shape size errstate seterr""".split())
# dask.array / dask names that do *not* build a lazy collection
DA_EAGER = {"compute"}
# methods that stay within the receiver's backend (array in, array of the same backend out): `same`
METH_SAME = set("""astype reshape ravel flatten transpose squeeze copy view clip round sum mean min max std var prod any
all cumsum cumprod dot repeat swapaxes map_blocks map_overlap rechunk to_delayed blocks fillna where nanmean conj
argmin argmax nonzero chunk rename isel sel drop_vars assign_coords assign_attrs expand_dims""".split())
# methods / attributes that materialise the array: `eager`
METH_EAGER = {"compute", "persist", "to_numpy", "tolist", "item", "load", "to_pandas", "to_series", "get"}
ATTR_EAGER = {"values"}
ATTR_SAME = {"data", "T", "real", "imag", "variable", "_data", "flat"}
ATTR_SCALAR = {"shape", "ndim", "size", "dtype", "dims", "name", "chunks", "chunksize", "numblocks", "nbytes", "attrs",
               "coords", "sizes", "indexes", "itemsize", "npartitions", "encoding"}
BUILTIN_SCALAR = {"len", "int", "float", "str", "bool", "range", "isinstance", "issubclass", "type", "hasattr",
                  "callable", "print", "repr", "tuple", "list", "dict", "set", "sorted", "enumerate", "zip", "abs",
                  "round", "divmod", "ValueError", "TypeError", "RuntimeError", "NotImplementedError", "Exception",
                  "getattr", "id", "hash", "format", "slice", "iter", "next", "reversed", "map", "filter", "sum", "any",
                  "all", "min", "max", "partial", "warn", "sqrt", "ceil", "floor", "atan", "atan2", "isnan", "pow"}
NUMBA_DECOS = ("ngjit", "jit", "njit", "cuda.jit", "guvectorize", "vectorize", "stencil", "nb.jit", "nb.njit")
MAX_DEPTH = 7
LAZY, EAGER, SCALAR = "lazy", "eager", "scalar"


class GiveUp(Exception):
    pass


class Fn:
    def __init__(self, node, module, env=None):
        self.node, self.module, self.env = node, module, env


class Mapper:
    def __init__(self, dask_func, numpy_func, module, env):
        self.dask_func, self.numpy_func, self.module, self.env = dask_func, numpy_func, module, env


class Star:
    """the `*args` of a `dask_func=lambda *args: …`: first element known, the rest not"""

    def __init__(self, first):
        self.first = first


def is_numba(node):
    return any((dotted(d.func if isinstance(d, ast.Call) else d) or "").endswith(NUMBA_DECOS) or
               (dotted(d.func if isinstance(d, ast.Call) else d) or "") in NUMBA_DECOS for d in node.decorator_list)


def stores_in(st):
    return [x.id for x in ast.walk(st) if isinstance(x, ast.Name) and isinstance(x.ctx, ast.Store)]


def rebound_in(fn, name):
    """is `name` (a parameter of `fn`) re-bound or re-backed (`name = …`, `name.data = …`, `for name in …`) anywhere in
    `fn`, nested functions that shadow it with a parameter of their own excluded"""
    stack = list(fn.body) if isinstance(fn.body, list) else [fn.body]
    while stack:
        x = stack.pop()
        if isinstance(x, (ast.FunctionDef, ast.Lambda)):
            a = x.args
            if name in [p.arg for p in a.posonlyargs + a.args + a.kwonlyargs] or \
                    (a.vararg and a.vararg.arg == name) or (a.kwarg and a.kwarg.arg == name):
                continue
        if isinstance(x, ast.Name) and x.id == name and isinstance(x.ctx, (ast.Store, ast.Del)):
            return True
        if isinstance(x, ast.Attribute) and isinstance(x.ctx, ast.Store) and isinstance(x.value, ast.Name) \
                and x.value.id == name and x.attr in ("data", "values", "variable", "_variable"):
            return True
        stack.extend(ast.iter_child_nodes(x))
    return False


class KindTranslator:
    def __init__(self, mods):
        self.mods = mods
        self.nvars = 0
        self.names = []
        self.blocks = [[]]
        self.stack = []
        self.dask_dispatch = []       # dask branch functions reached (names)
        self.np_used, self.meth_used = set(), set()
        self.gave_up = []
        self.certain_lazy = set()

    # ---- emission
    def new(self, name):
        self.names.append(name)
        self.nvars += 1
        return self.nvars - 1

    def emit(self, *it):
        self.blocks[-1].append(tuple(it))

    def tmp(self, rhs, name="t"):
        if rhs[0] == "same":
            return rhs[1]
        v = self.new(name)
        self.emit("assign", v, rhs)
        return v

    # ---- names
    def ext(self, m, d):
        """dotted local name -> canonical external name ('np.where', 'da.map_blocks', 'len') or None"""
        if d is None:
            return None
        parts = d.split(".")
        if parts[0] in m.funcs or parts[0] in m.imported:
            return None
        if parts[0] in m.aliases:
            return ".".join([m.aliases[parts[0]]] + parts[1:])
        return d if len(parts) == 1 else None

    def lookup(self, env, m, name):
        e = env
        while e is not None:
            if name in e["vars"]:
                return e["vars"][name]
            e = e["parent"]
        if name in m.funcs:
            return Fn(m.funcs[name], m)
        if name in m.imported:
            mn, fn = m.imported[name]
            if mn == "*":
                mn = next((k for k, mm in self.mods.items() if fn in mm.funcs), "*")
            if mn in self.mods and fn in self.mods[mn].funcs:
                return Fn(self.mods[mn].funcs[fn], self.mods[mn])
            return ("const", SCALAR) if fn[:1].isupper() or fn.isupper() else ("any",)
        if name in m.aliases:
            return ("mod", m.aliases[name])
        if name in m.consts or name in ("True", "False", "None"):
            return ("const", SCALAR)
        if name in BUILTIN_SCALAR:
            return ("builtin", name)
        return ("any",)

    def bind(self, env, name, val):
        env["vars"][name] = val

    def assign_name(self, env, name, rhs):
        cur = env["vars"].get(name)
        if isinstance(cur, tuple) and cur[0] == "var":
            v = cur[1]
        else:
            v = self.new(name)
            env["vars"][name] = ("var", v)
        self.emit("assign", v, rhs)

    # ---- expressions: -> ('const', k) | ('same', v) | ('lift', [v…]) | ('any',)  or a python-level value (Fn, Mapper, …)
    def rhs_of(self, val):
        """a value as a right-hand side"""
        if isinstance(val, tuple):
            if val[0] == "var":
                return ("same", val[1])
            if val[0] in ("const", "same", "lift", "any"):
                return val
            if val[0] in ("mod", "builtin"):
                return ("const", SCALAR)
        if isinstance(val, (Fn, Mapper)):
            return ("const", SCALAR)
        if isinstance(val, Star):
            return self.rhs_of(val.first)
        return ("any",)

    def var_of(self, rhs):
        return self.tmp(rhs)

    def lift(self, rhss):
        vs = []
        for r in rhss:
            if r == ("const", SCALAR):
                continue
            vs.append(self.var_of(r))
        return ("lift", vs) if vs else ("const", SCALAR)

    def ev(self, env, m, e):
        """abstract value of an expression (may emit assignments to temporaries)"""
        if isinstance(e, (ast.Constant, ast.JoinedStr, ast.FormattedValue)):
            return ("const", SCALAR)
        if isinstance(e, ast.Lambda):
            return Fn(e, m, env)
        if isinstance(e, ast.Name):
            return self.lookup(env, m, e.id)
        if isinstance(e, ast.Starred):
            return self.ev(env, m, e.value)
        if isinstance(e, (ast.Tuple, ast.List, ast.Set)):
            return self.lift([self.rhs_of(self.ev(env, m, x)) for x in e.elts])
        if isinstance(e, ast.Dict):
            return self.lift([self.rhs_of(self.ev(env, m, x)) for x in e.values if x is not None])
        if isinstance(e, (ast.ListComp, ast.GeneratorExp, ast.SetComp, ast.DictComp)):
            return ("any",)
        if isinstance(e, ast.BinOp):
            return self.lift([self.rhs_of(self.ev(env, m, e.left)), self.rhs_of(self.ev(env, m, e.right))])
        if isinstance(e, ast.UnaryOp):
            if isinstance(e.op, ast.Not):
                self.ev(env, m, e.operand)
                return ("const", SCALAR)
            return self.lift([self.rhs_of(self.ev(env, m, e.operand))])
        if isinstance(e, ast.BoolOp):
            return self.lift([self.rhs_of(self.ev(env, m, x)) for x in e.values])
        if isinstance(e, ast.Compare):
            if all(isinstance(o, (ast.Is, ast.IsNot, ast.In, ast.NotIn)) for o in e.ops):
                return ("const", SCALAR)
            return self.lift([self.rhs_of(self.ev(env, m, x)) for x in [e.left] + list(e.comparators)])
        if isinstance(e, ast.IfExp):
            a = self.rhs_of(self.ev(env, m, e.body))
            b = self.rhs_of(self.ev(env, m, e.orelse))
            if a == b:
                return a
            t = self.new("ifexp")
            self.emit("ite", [("assign", t, a)], [("assign", t, b)])
            return ("same", t)
        if isinstance(e, ast.Subscript):
            base = self.ev(env, m, e.value)
            if isinstance(base, tuple) and base[0] == "mod":
                return ("const", SCALAR)
            return self.rhs_of(base)          # x[...] stays within x's backend; an element of a shape tuple is a scalar
        if isinstance(e, ast.Attribute):
            d = dotted(e)
            base = self.ev(env, m, e.value)
            if isinstance(base, tuple) and base[0] == "mod":
                return ("mod", base[1] + "." + e.attr) if e.attr in ("random", "ma", "linalg", "array", "lib") \
                    else ("const", SCALAR)
            if e.attr in ATTR_SCALAR:
                return ("const", SCALAR)
            if e.attr in ATTR_EAGER:
                return ("const", EAGER)
            if e.attr in ATTR_SAME:
                return self.rhs_of(base)
            del d
            return ("any",)
        if isinstance(e, ast.Call):
            return self.call(env, m, e)
        return ("any",)

    # ---- calls
    def call(self, env, m, e):
        f = e.func
        if (dotted(f) or "").endswith("ArrayTypeFunctionMapping"):
            return self.ext_call(env, m, "ArrayTypeFunctionMapping", e)
        # mapper(x)(args…): the dispatch
        if isinstance(f, ast.Call):
            inner = self.ev(env, m, f.func) if isinstance(f.func, (ast.Name, ast.Attribute)) else None
            if isinstance(inner, Mapper) and f.args:
                disp = self.rhs_of(self.ev(env, m, f.args[0]))
                return self.dispatch(env, m, inner, disp, e)
            if isinstance(f.func, ast.Name) and self.ext(m, f.func.id) in ("partial",):
                return ("const", EAGER)        # partial(kernel, …)(array): the kernel applied to the whole array
            return ("any",)
        if isinstance(f, ast.Attribute):
            base = self.ev(env, m, f.value)
            if isinstance(base, tuple) and base[0] == "mod":
                return self.ext_call(env, m, base[1] + "." + f.attr, e)
            args = [self.rhs_of(self.ev(env, m, a)) for a in e.args] + \
                   [self.rhs_of(self.ev(env, m, k.value)) for k in e.keywords]
            del args
            if f.attr in ("append", "extend", "insert", "add") and isinstance(f.value, ast.Name) \
                    and isinstance(base, tuple) and base[0] == "var":
                # a container holds what is put into it
                self.assign_name(env, f.value.id, self.lift([("same", base[1])] + [
                    self.rhs_of(self.ev(env, m, a)) for a in e.args]))
                return ("const", SCALAR)
            if f.attr in METH_EAGER:
                return ("const", EAGER)
            if f.attr in METH_SAME:
                self.meth_used.add(f.attr)
                return self.rhs_of(base)
            if f.attr in ("format", "join", "split", "startswith", "endswith", "lower", "upper", "keys", "items",
                          "append", "extend", "update", "pop", "remove", "index", "count", "setdefault"):
                return ("const", SCALAR)
            return ("any",)
        if isinstance(f, ast.Name):
            val = self.lookup(env, m, f.id)
            if isinstance(val, tuple) and val[0] == "mod":
                return self.ext_call(env, m, val[1], e)
            if isinstance(val, tuple) and val[0] == "builtin":
                for a in e.args:
                    self.ev(env, m, a)
                return ("const", SCALAR)
            if isinstance(val, Fn):
                return self.call_fn(env, m, val, e)
            if isinstance(val, Mapper):
                return val            # `mapper(x)` evaluated on its own: the caller applies it
            if isinstance(val, tuple) and val[0] == "partialfn":
                return ("const", EAGER)
            return ("any",)
        return ("any",)

    def ext_call(self, env, m, name, e):
        argr = [self.rhs_of(self.ev(env, m, a)) for a in e.args]
        kwr = [self.rhs_of(self.ev(env, m, k.value)) for k in e.keywords if k.arg not in ("meta", "dtype", "out")]
        if name.endswith("ArrayTypeFunctionMapping"):
            kw = {k.arg: k.value for k in e.keywords}
            names = ["numpy_func", "cupy_func", "dask_func", "dask_cupy_func"]
            for n, a in zip(names, e.args):
                kw.setdefault(n, a)
            return Mapper(kw.get("dask_func"), kw.get("numpy_func"), m, env)
        head, _, rest = name.partition(".")
        if head in ("da", "dd", "dask"):
            if rest in DA_EAGER or rest.endswith(".compute"):
                return ("const", EAGER)
            return ("const", LAZY)            # every dask.array / dask.dataframe constructor builds a collection
        if name in ("delayed",):
            return ("const", LAZY)
        if head == "np":
            if rest in NP_EAGER:
                return ("const", EAGER)
            if rest in NP_SCALAR:
                return ("const", SCALAR)
            if rest in NP_DISPATCH:
                self.np_used.add(rest)
                return self.lift(argr + kwr)
            return ("any",)
        if head == "xr":
            if rest in ("DataArray",):
                data = next((k.value for k in e.keywords if k.arg == "data"), e.args[0] if e.args else None)
                return self.rhs_of(self.ev(env, m, data)) if data is not None else ("const", EAGER)
            if rest in ("zeros_like", "ones_like", "full_like", "where", "concat", "merge", "Dataset"):
                return self.lift(argr)
            return ("any",)
        if name in ("partial", "functools.partial"):
            return ("partialfn",)
        if head in ("math", "warnings", "re", "copy") or name in BUILTIN_SCALAR:
            if name in ("copy.deepcopy", "copy.copy") and argr:
                return argr[0]
            return ("const", SCALAR)
        if name in ("has_cuda_and_cupy", "is_cupy_array", "is_cupy_backed", "is_dask_cupy"):
            return ("const", SCALAR)
        return ("any",)

    def static_test(self, env, m, t):
        """True / False when the test is decided by "the rasters are Dask-backed, no GPU", else None"""
        if isinstance(t, ast.UnaryOp) and isinstance(t.op, ast.Not):
            v = self.static_test(env, m, t.operand)
            return None if v is None else (not v)
        if isinstance(t, ast.BoolOp):
            vs = [self.static_test(env, m, v) for v in t.values]
            if isinstance(t.op, ast.And):
                return False if any(v is False for v in vs) else (True if all(v is True for v in vs) else None)
            return True if any(v is True for v in vs) else (False if all(v is False for v in vs) else None)
        if isinstance(t, ast.Call):
            d = dotted(t.func)
            if d in ("has_cuda_and_cupy", "has_rtx", "is_cupy_array", "is_cupy_backed", "is_dask_cupy"):
                return False
            if d == "isinstance" and len(t.args) == 2 and isinstance(t.args[0], ast.Attribute) \
                    and t.args[0].attr in ("data",):
                # decided only when the tested object certainly is a Dask-backed raster
                r = self.rhs_of(self.ev(env, m, t.args[0].value))
                certain = r[0] == "same" and r[1] in self.certain_lazy
                tys = t.args[1].elts if isinstance(t.args[1], ast.Tuple) else [t.args[1]]
                tn = [self.ext(m, dotted(x)) for x in tys]
                if certain and all(x == "np.ndarray" for x in tn):
                    return False
                if certain and tn == ["da.Array"]:
                    return True
                if all(x in ("cupy.ndarray",) for x in tn):
                    return False
        if isinstance(t, ast.Compare) and len(t.ops) == 1 and isinstance(t.ops[0], (ast.Eq, ast.NotEq, ast.Is, ast.IsNot)):
            a = self.ev(env, m, t.left) if isinstance(t.left, ast.Name) else None
            b = self.ev(env, m, t.comparators[0]) if isinstance(t.comparators[0], ast.Name) else None
            if isinstance(a, tuple) and isinstance(b, tuple) and a[0] == "mod" and b[0] == "mod":
                eq = a[1] == b[1]
                return eq if isinstance(t.ops[0], (ast.Eq, ast.Is)) else not eq
        return None

    def dispatch(self, env, m, mp, disp, e):
        """`mapper(x)(args…)`: the Dask branch function when `x` is Dask-backed, else the result has `x`'s backend (the
        NumPy function returns an in-memory array for an in-memory array)"""
        res = self.new("dispatch")
        self.push()
        if mp.dask_func is None:
            self.emit("assign", res, ("any",))
        else:
            fnv = self.ev(mp.env, mp.module, mp.dask_func)
            if isinstance(fnv, Fn):
                self.dask_dispatch.append(getattr(fnv.node, "name", "lambda"))
                r = self.call_fn(env, m, fnv, e)
            else:
                r = ("any",)
            self.emit("assign", res, self.rhs_of(r))
        p = self.pop()
        dv = self.var_of(disp)
        if dv in self.certain_lazy:
            self.blocks[-1].extend(p)
        else:
            self.emit("ite", p, [("assign", res, ("same", dv))])
        return ("same", res)

    def call_fn(self, env, m, fn, e):
        node = fn.node
        if isinstance(node, ast.FunctionDef) and is_numba(node):
            for a in e.args:
                self.ev(env, m, a)
            return ("const", EAGER)            # a NumPy kernel applied to (all of) its arguments
        if node in self.stack or len(self.stack) >= MAX_DEPTH:
            return ("any",)
        a = node.args
        params = [p.arg for p in a.posonlyargs + a.args]
        kwonly = [p.arg for p in a.kwonlyargs]
        sub = dict(vars={}, parent=fn.env)
        pos = []
        star = None
        for x in e.args:
            if isinstance(x, ast.Starred):
                sv = self.ev(env, m, x.value)
                star = sv if isinstance(sv, Star) else Star(("any",))
            else:
                pos.append(self.ev(env, m, x))
        vals = {}
        for i, v in enumerate(pos):
            if i < len(params):
                vals[params[i]] = v
        if star is not None:
            rest = [p for p in params[len(pos):]]
            for j, p in enumerate(rest):
                vals.setdefault(p, star.first if (j == 0 and not pos) else ("any",))
        for k in e.keywords:
            if k.arg is None:
                continue
            vals[k.arg] = self.ev(env, m, k.value)
        defaults = dict(zip(params[len(params) - len(a.defaults):], a.defaults))
        defaults.update({p.arg: d for p, d in zip(a.kwonlyargs, a.kw_defaults) if d is not None})
        for p in params + kwonly:
            if p not in vals:
                vals[p] = self.ev(dict(vars={}, parent=None), fn.module, defaults[p]) if p in defaults else ("any",)
        for p, v in vals.items():
            if isinstance(v, (Fn, Mapper, Star)) or (isinstance(v, tuple) and v[0] in ("mod", "builtin", "partialfn")):
                sub["vars"][p] = v
            else:
                pv = self.new(getattr(node, "name", "lambda") + "." + p)
                r = self.rhs_of(v)
                self.emit("assign", pv, r)
                sub["vars"][p] = ("var", pv)
                # a certainly-Dask-backed raster stays one when it is passed on and never re-bound in the callee
                if r[0] == "same" and r[1] in self.certain_lazy and not rebound_in(node, p):
                    self.certain_lazy.add(pv)
        if a.vararg is not None:
            extra = pos[len(params):]
            sub["vars"][a.vararg.arg] = Star(extra[0] if extra else (star.first if star is not None and not pos else ("any",)))
        if a.kwarg is not None:
            sub["vars"][a.kwarg.arg] = ("any",)
        self.stack.append(node)
        try:
            if isinstance(node, ast.Lambda):
                return self.ev(sub, fn.module, node.body)
            res = self.new(node.name + ".result")
            self.emit("assign", res, ("const", SCALAR))         # a function that falls off its end returns None
            try:
                self.block(sub, fn.module, node.body, ("res", res))
            except GiveUp as ex:
                self.gave_up.append(f"{node.name}: {ex}")
                self.emit("assign", res, ("any",))
            return ("same", res)
        finally:
            self.stack.pop()

    # ---- statements
    def push(self):
        self.blocks.append([])

    def pop(self):
        return self.blocks.pop()

    def block(self, env, m, body, ret, in_loop=False):
        """translate statements; `ret` = ('top',) -> `return e` is `Item.ret`; ('res', v) -> an inlined callee: `return e`
        assigns `v` and the rest of the callee is skipped (the caller puts what follows a terminating branch into the
        other branch, so this only needs returns in tail position; a return inside a loop of a callee gives up)"""
        for i, st in enumerate(body):
            rest = body[i + 1:]
            if isinstance(st, ast.If):
                tv = self.static_test(env, m, st.test)
                bt, et = terminates(st.body), terminates(st.orelse)
                if tv is True:
                    self.block(env, m, st.body + ([] if bt else rest), ret, in_loop)
                    return
                if tv is False:
                    self.block(env, m, st.orelse + ([] if et else rest), ret, in_loop)
                    return
                self.ev(env, m, st.test)
                snap = dict(env["vars"])
                self.push()
                self.block(env, m, st.body + ([] if bt else (rest if (bt or et) else [])), ret, in_loop)
                p = self.pop()
                va = env["vars"]
                env["vars"] = dict(snap)
                self.push()
                self.block(env, m, st.orelse + ([] if et else (rest if (bt or et) else [])), ret, in_loop)
                q = self.pop()
                vb = env["vars"]
                # python-level bindings (functions, mappers, modules) that differ between the branches are forgotten
                merged = {}
                for k in sorted(set(va) | set(vb)):
                    x, y = va.get(k), vb.get(k)
                    if x == y or (isinstance(x, tuple) and isinstance(y, tuple) and x[0] == "var" and y[0] == "var" and x == y):
                        merged[k] = x
                    elif isinstance(x, tuple) and x[0] == "var" and (y is None or y == snap.get(k)) and k in snap:
                        merged[k] = x
                    elif isinstance(y, tuple) and y[0] == "var" and (x is None or x == snap.get(k)) and k in snap:
                        merged[k] = y
                    else:
                        # bound on one side only / to different things: one variable that may be either
                        t = self.new(k)
                        for blk, val in ((p, x), (q, y)):
                            blk.append(("assign", t, self.rhs_of(val) if val is not None else ("any",)))
                        merged[k] = ("var", t)
                env["vars"] = merged
                self.emit("ite", p, q)
                if bt or et:
                    return
                continue
            if isinstance(st, ast.Return):
                r = self.rhs_of(self.ev(env, m, st.value)) if st.value is not None else ("const", SCALAR)
                if ret[0] == "top":
                    self.emit("ret", r)
                else:
                    if in_loop:
                        raise GiveUp("return inside a loop of an inlined function")
                    self.emit("assign", ret[1], r)
                return
            if isinstance(st, ast.Raise):
                if ret[0] == "top":
                    self.emit("halt")
                else:
                    self.emit("halt")
                return
            if isinstance(st, (ast.Break, ast.Continue)):
                return
            self.stmt(env, m, st, ret, in_loop)

    def assign_target(self, env, m, t, rhs, val=None):
        if isinstance(t, ast.Name):
            if val is not None and (isinstance(val, (Fn, Mapper, Star)) or (isinstance(val, tuple) and val[0] in ("mod", "builtin", "partialfn"))):
                env["vars"][t.id] = val
            else:
                self.assign_name(env, t.id, rhs)
        elif isinstance(t, (ast.Tuple, ast.List)):
            for x in t.elts:
                self.assign_target(env, m, x.value if isinstance(x, ast.Starred) else x, rhs)
        elif isinstance(t, ast.Attribute):
            # x.data = e: x is now backed by e; any other attribute store leaves the backend alone
            if t.attr in ("data", "values") and isinstance(t.value, ast.Name):
                self.assign_name(env, t.value.id, rhs)
        elif isinstance(t, ast.Subscript):
            pass                                   # x[...] = v writes cells, the backend of x stays

    def stmt(self, env, m, st, ret, in_loop):
        if isinstance(st, ast.Assign):
            val = self.ev(env, m, st.value)
            rhs = self.rhs_of(val)
            if rhs[0] == "lift":
                rhs = ("same", self.tmp(rhs))
            for t in st.targets:
                self.assign_target(env, m, t, rhs, val)
        elif isinstance(st, ast.AnnAssign):
            if st.value is not None:
                val = self.ev(env, m, st.value)
                self.assign_target(env, m, st.target, self.rhs_of(val), val)
        elif isinstance(st, ast.AugAssign):
            r = self.rhs_of(self.ev(env, m, st.value))
            if isinstance(st.target, ast.Name):
                cur = self.rhs_of(self.lookup(env, m, st.target.id))
                self.assign_name(env, st.target.id, self.lift([cur, r]))
            elif isinstance(st.target, ast.Attribute) and st.target.attr in ("data", "values") \
                    and isinstance(st.target.value, ast.Name):
                cur = self.rhs_of(self.lookup(env, m, st.target.value.id))
                self.assign_name(env, st.target.value.id, self.lift([cur, r]))
        elif isinstance(st, ast.Expr):
            self.ev(env, m, st.value)
        elif isinstance(st, (ast.For, ast.While)):
            # names bound in the body must be variables before the loop (so that the loop-carried value is seen)
            for n in dict.fromkeys(stores_in(st)):
                cur = env["vars"].get(n)
                if not (isinstance(cur, tuple) and cur[0] == "var"):
                    v = self.new(n)
                    self.emit("assign", v, self.rhs_of(cur) if cur is not None else ("any",))
                    env["vars"][n] = ("var", v)
            self.push()
            if isinstance(st, ast.For):
                self.ev(env, m, st.iter)
                self.assign_target(env, m, st.target, ("any",))
            else:
                self.ev(env, m, st.test)
            self.block(env, m, st.body, ret, True)
            body = self.pop()
            self.emit("loop", body)
            if st.orelse:
                self.block(env, m, st.orelse, ret, in_loop)
        elif isinstance(st, ast.With):
            for it in st.items:
                self.ev(env, m, it.context_expr)
                if it.optional_vars is not None:
                    self.assign_target(env, m, it.optional_vars, ("any",))
            self.block(env, m, st.body, ret, in_loop)
        elif isinstance(st, ast.Try):
            self.block(env, m, st.body, ret, in_loop)
            for h in st.handlers:
                self.push()
                if h.name:
                    self.assign_name(env, h.name, ("const", SCALAR))
                self.block(env, m, h.body, ret, in_loop)
                p = self.pop()
                self.emit("ite", p, [])
            self.block(env, m, st.orelse, ret, in_loop)
            self.block(env, m, st.finalbody, ret, in_loop)
        elif isinstance(st, ast.FunctionDef):
            env["vars"][st.name] = Fn(st, m, env)
        elif isinstance(st, (ast.Import, ast.ImportFrom)):
            for a in st.names:
                env["vars"][a.asname or a.name.split(".")[0]] = ("const", SCALAR)
        elif isinstance(st, (ast.Pass, ast.Assert, ast.Delete, ast.Global, ast.Nonlocal)):
            pass
        else:
            for n in stores_in(st):
                self.assign_name(env, n, ("any",))


def raster_params(node):
    """the parameters that hold the rasters: annotated DataArray / Dataset, or the first parameter"""
    a = node.args
    ps = a.posonlyargs + a.args
    out = [p.arg for p in ps if p.annotation is not None and ("DataArray" in ast.unparse(p.annotation)
                                                                or "Dataset" in ast.unparse(p.annotation))]
    if not out and ps:
        out = [ps[0].arg]
    return out


def translate_wrapper(mods, mn, node):
    tr = KindTranslator(mods)
    m = mods[mn]
    env = dict(vars={}, parent=None)
    lazy = []
    a = node.args
    rp = raster_params(node)
    defaults = dict(zip([p.arg for p in (a.posonlyargs + a.args)][len(a.posonlyargs + a.args) - len(a.defaults):], a.defaults))
    for p in a.posonlyargs + a.args + a.kwonlyargs:
        v = tr.new(p.arg)
        env["vars"][p.arg] = ("var", v)
        if p.arg in rp:
            lazy.append(v)
        elif isinstance(defaults.get(p.arg), ast.Name) and defaults[p.arg].id in m.funcs:
            env["vars"][p.arg] = Fn(m.funcs[defaults[p.arg].id], m)     # a callable with a library default
    tr.certain_lazy = {v for v in lazy if not rebound_in(node, tr.names[v])}
    status = "ok"
    try:
        tr.block(env, m, node.body, ("top",))
        if not terminates(node.body):
            tr.emit("ret", ("const", SCALAR))
    except (GiveUp, RecursionError) as ex:
        status = "gave up: " + str(ex)[:80]
        tr.blocks = [[("ret", ("any",))]]
    return dict(items=tr.blocks[0], nvars=tr.nvars, lazy=lazy, status=status, dispatch=sorted(set(tr.dask_dispatch)),
                np_used=sorted(tr.np_used), meth_used=sorted(tr.meth_used), gave_up=tr.gave_up, names=tr.names)


# ---- a mirror of `bcheck` (diagnostics for the report only)
def py_kinds(items, nvars, lazy):
    TOP = frozenset([LAZY, EAGER, SCALAR])

    def aeval(r, a):
        if r[0] == "const":
            return frozenset([r[1]])
        if r[0] == "same":
            return a.get(r[1], TOP)
        if r[0] == "lift":
            ss = [a.get(v, TOP) for v in r[1]]
            out = set()
            if any(LAZY in s for s in ss):
                out.add(LAZY)
            if all((EAGER in s or SCALAR in s) for s in ss) and any(EAGER in s for s in ss):
                out.add(EAGER)
            if all(SCALAR in s for s in ss):
                out.add(SCALAR)
            return frozenset(out)
        return TOP

    def join(a, b):
        if a is None or b is None:
            return b if a is None else a
        return {v: a.get(v, TOP) | b.get(v, TOP) for v in set(a) | set(b)}

    def run(its, a):
        rs = frozenset()
        for it in its:
            if a is None:
                break
            if it[0] == "assign":
                a = dict(a)
                a[it[1]] = aeval(it[2], a)
            elif it[0] == "ret":
                return None, rs | aeval(it[1], a)
            elif it[0] == "halt":
                return None, rs
            elif it[0] == "ite":
                a1, r1 = run(it[1], a)
                a2, r2 = run(it[2], a)
                a, rs = join(a1, a2), rs | r1 | r2
            elif it[0] == "loop":
                a = {v: a.get(v, TOP) for v in range(nvars)}
                r1 = frozenset()
                for _ in range(32):
                    a1, r1 = run(it[1], a)
                    j = join(a, a1)
                    if j == a:
                        break
                    a = j
                rs = rs | r1
        return a, rs
    a0 = {v: (frozenset([LAZY]) if v in lazy else TOP) for v in range(nvars)}
    return sorted(run(items, a0)[1])


def lean_rhs(r):
    if r[0] == "const":
        return f"(.const .{r[1]})"
    if r[0] == "same":
        return f"(.same {r[1]})"
    if r[0] == "lift":
        return "(.lift [" + ", ".join(map(str, r[1])) + "])"
    return ".any"


def lean_items(items, ind):
    pad = " " * ind
    out = []
    for it in items:
        if it[0] == "assign":
            out.append(f".assign {it[1]} {lean_rhs(it[2])}")
        elif it[0] == "ret":
            out.append(f".ret {lean_rhs(it[1])}")
        elif it[0] == "halt":
            out.append(".halt")
        elif it[0] == "ite":
            out.append(f".ite ({lean_prog(it[1], ind + 2)}) ({lean_prog(it[2], ind + 2)})")
        elif it[0] == "loop":
            out.append(f".loop ({lean_prog(it[1], ind + 2)})")
    lines, cur = [], ""
    for o in out:
        piece = o + ", "
        if "\n" in o or len(cur) + len(piece) > 100:
            if cur:
                lines.append(cur.rstrip())
            cur = piece
            if "\n" in o:
                lines.append(cur.rstrip())
                cur = ""
        else:
            cur += piece
    if cur:
        lines.append(cur.rstrip())
    return ("\n" + pad).join(lines).rstrip(",").rstrip()


def lean_prog(items, ind):
    if not items:
        return ".done"
    return "Prog.ofItems [\n" + " " * ind + lean_items(items, ind) + "]"


def has_dask_path(mods, mn, node, seen=None, depth=0):
    """does the function (or a helper it calls) dispatch to a Dask branch / test for a Dask-backed raster"""
    seen = seen if seen is not None else set()
    if (mn, node.name) in seen or depth > 4:
        return False
    seen.add((mn, node.name))
    m = mods[mn]
    for x in ast.walk(node):
        if isinstance(x, ast.keyword) and x.arg == "dask_func":
            v = x.value
            if isinstance(v, ast.Lambda) and "not_implemented_func" in ast.unparse(v):
                continue
            return True
        if isinstance(x, ast.Call) and dotted(x.func) == "isinstance" and len(x.args) == 2 \
                and (dotted(x.args[1]) or "").endswith("da.Array") and "cupy" not in ast.unparse(x):
            return True
        if isinstance(x, ast.Call) and isinstance(x.func, ast.Name):
            callee = x.func.id
            if callee in m.funcs and callee != node.name:
                if has_dask_path(mods, mn, m.funcs[callee], seen, depth + 1):
                    return True
            elif callee in m.imported:
                m2, f2 = m.imported[callee]
                if m2 in mods and f2 in mods[m2].funcs and has_dask_path(mods, m2, mods[m2].funcs[f2], seen, depth + 1):
                    return True
    return False


SELFTEST_SOURCE = r'''
import numpy as np
import dask.array as da
import xarray as xr
from functools import partial
from xrspatial.utils import ArrayTypeFunctionMapping, ngjit

@ngjit
def _kernel(data, k):
    return data

def _np(data, k):
    return _kernel(data, k)

def _dask_ok(data, k):
    data = data.astype(np.float32)
    return data.map_overlap(partial(_kernel, k=k), depth=(1, 1), boundary=np.nan, meta=np.array(()))

def _dask_thin_chunks_fallback(data, k):
    if min(data.chunks[0]) < k:
        return _kernel(data.compute(), k)
    return data.map_overlap(partial(_kernel, k=k), depth=(k, k), boundary=np.nan, meta=np.array(()))

def _dask_asarray(data, k):
    out = np.asarray(data)
    return out * 2

def _dask_loop(data, k):
    acc = da.zeros_like(data)
    for i in range(k):
        acc = acc + data * i
    acc[acc < 0] = 0
    return acc

def _dask_loop_computes(data, k):
    acc = data
    for i in range(k):
        acc = acc.compute()
    return acc

def k01_ok_dispatch(agg: xr.DataArray, k=1):
    mapper = ArrayTypeFunctionMapping(numpy_func=_np, cupy_func=None, dask_func=_dask_ok, dask_cupy_func=None)
    out = mapper(agg)(agg.data, k)
    return xr.DataArray(out, coords=agg.coords, dims=agg.dims, attrs=agg.attrs)

def k02_fallback_computes(agg: xr.DataArray, k=1):
    mapper = ArrayTypeFunctionMapping(numpy_func=_np, cupy_func=None, dask_func=_dask_thin_chunks_fallback,
                                      dask_cupy_func=None)
    out = mapper(agg)(agg.data, k)
    return xr.DataArray(out, coords=agg.coords, dims=agg.dims, attrs=agg.attrs)

def k03_asarray(agg: xr.DataArray, k=1):
    mapper = ArrayTypeFunctionMapping(numpy_func=_np, cupy_func=None, dask_func=_dask_asarray, dask_cupy_func=None)
    return xr.DataArray(mapper(agg)(agg.data, k), dims=agg.dims)

def k04_ok_isinstance_branch(agg: xr.DataArray, k=1):
    if isinstance(agg.data, np.ndarray):
        out = _np(agg.data, k)
    elif isinstance(agg.data, da.Array):
        out = _dask_ok(agg.data, k)
    else:
        raise TypeError('unsupported')
    return xr.DataArray(out, dims=agg.dims)

def k05_values(agg: xr.DataArray):
    return xr.DataArray(agg.values * 2, dims=agg.dims)

def k06_ok_loop(agg: xr.DataArray, k=3):
    return xr.DataArray(_dask_loop(agg.data, k), dims=agg.dims)

def k07_loop_computes(agg: xr.DataArray, k=3):
    return xr.DataArray(_dask_loop_computes(agg.data, k), dims=agg.dims)

def k08_numpy_func_on_dask_branch(agg: xr.DataArray, k=1):
    mapper = ArrayTypeFunctionMapping(numpy_func=_np, cupy_func=None, dask_func=_np, dask_cupy_func=None)
    return xr.DataArray(mapper(agg)(agg.data, k), dims=agg.dims)

def k09_ok_lambda_module(agg: xr.DataArray, k=1):
    mapper = ArrayTypeFunctionMapping(numpy_func=lambda *args: _mod(*args, module=np), cupy_func=None,
                                      dask_func=lambda *args: _mod(*args, module=da), dask_cupy_func=None)
    return xr.DataArray(mapper(agg)(agg.data, k), dims=agg.dims)

def _mod(data, k, module):
    return module.where(module.isnan(data), k, data)

def k10_early_return_eager(agg: xr.DataArray, k=1):
    if k > 3:
        return xr.DataArray(np.zeros(agg.shape), dims=agg.dims)
    return xr.DataArray(_dask_ok(agg.data, k), dims=agg.dims)

def k11_ok_scalar_stats(agg: xr.DataArray):
    data = agg.data.astype(np.float32)
    z = (data - da.nanmean(data)) / da.nanstd(data)
    return xr.DataArray(z, dims=agg.dims)

def k12_computed_stats_stay_lazy_ok(agg: xr.DataArray):
    data = agg.data
    lo, hi = da.compute(da.nanmin(data), da.nanmax(data))
    return xr.DataArray((data - lo) / (hi - lo), dims=agg.dims)
'''


def generate(repo):
    from facts_bufprog import Module, public_functions
    mods = load_modules(repo)
    out = ["import XrsVerif.Model.BackendKind",
           "/-! GENERATED by harness/facts_daskkind.py from /repo's current source -- the kind program of the Dask path of",
           "    every public raster function that has one (wrapper, dispatch and Dask branch function inlined). -/",
           "namespace XrsVerif.Gen", "open XrsVerif.BK", ""]
    rep = {"entries": {}, "tables": dict(np_dispatch=len(NP_DISPATCH), np_eager=len(NP_EAGER), meth_same=len(METH_SAME))}
    names = []
    for mn, fn, node in public_functions(mods):
        key = f"{mn}.{fn}"
        if key in NOT_RASTER or key in NOT_MODELLED or not has_dask_path(mods, mn, node):
            continue
        e = translate_wrapper(mods, mn, node)
        lname = f"{mn}_{fn}"
        names.append(lname)
        out.append(f"def kprog_{lname} : Prog := {lean_prog(e['items'], 2)}\n")
        out.append(f"def dask_{lname} : DaskEntry := {{ name := {lean_str(key)}, nvars := {e['nvars']}, "
                   f"lazyParams := [{', '.join(map(str, e['lazy']))}], prog := kprog_{lname} }}\n")
        rep["entries"][key] = dict(status=e["status"], nvars=e["nvars"], lazy=e["lazy"], dispatch=e["dispatch"],
                                   np_used=e["np_used"], meth_used=e["meth_used"], gave_up=e["gave_up"],
                                   may_return=py_kinds(e["items"], e["nvars"], e["lazy"]))
    out.append("def daskEntries : List DaskEntry := [" + ", ".join("dask_" + n for n in names) + "]\n")
    # self-test of this translator: patterns with a known verdict (`_ok` in the name = every path returns a dask collection)
    sm = Module("kselftest", ast.parse(SELFTEST_SOURCE))
    mods2 = dict(mods)
    mods2["kselftest"] = sm
    st = []
    for fn, node in sm.funcs.items():
        if not fn.startswith("k"):
            continue
        e = translate_wrapper(mods2, "kselftest", node)
        out.append(f"def kprog_selftest_{fn} : Prog := {lean_prog(e['items'], 2)}\n")
        st.append(f"({lean_str(fn)}, ({{ name := {lean_str(fn)}, nvars := {e['nvars']}, lazyParams := "
                  f"[{', '.join(map(str, e['lazy']))}], prog := kprog_selftest_{fn} }} : DaskEntry), "
                  f"{'true' if '_ok' in fn else 'false'})")
        rep.setdefault("selftest", {})[fn] = py_kinds(e["items"], e["nvars"], e["lazy"])
    out.append("/-- translator self-test: (pattern, entry, must every returned value be a dask collection) -/")
    out.append("def daskSelftest : List (String × DaskEntry × Bool) := [\n  " + ",\n  ".join(st) + "]\n")
    out.append("end XrsVerif.Gen")
    yield "DaskKinds.lean", "\n".join(out) + "\n", rep


if __name__ == "__main__":
    import json
    import sys
    for f, t, r in generate(sys.argv[1] if len(sys.argv) > 1 else "/repo"):
        print(json.dumps({k: (v["may_return"], v["status"], v["dispatch"], v["gave_up"]) for k, v in r["entries"].items()}, indent=1))
        print(json.dumps(r.get("selftest"), indent=1))
