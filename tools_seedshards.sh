#!/bin/sh
# tools_seedshards.sh N [names...] -- run tools_seeded.py run over N private copies of /verif in parallel
# (each copy = git worktree of HEAD + a copy of lean/.lake and .numba_cache under /tmp/vshard-i), merge RESULTS.json.
N=$1; shift
HERE=$(cd "$(dirname "$0")" && pwd)
NAMES="$@"
MODE=${SEEDMODE:-run}            # SEEDMODE=benign: the behaviour-preserving rewrites under benign/
BASE=seeded; [ "$MODE" = benign ] && BASE=benign
[ -z "$NAMES" ] && NAMES=$(cd $HERE/$BASE && ls -d [BC]* | grep -v RESULTS )
i=0
for n in $NAMES; do k=$((i % N)); eval "S$k=\"\$S$k $n\""; i=$((i+1)); done
k=0
while [ $k -lt $N ]; do
  d=/tmp/vshard-$k
  git -C $HERE worktree remove --force $d 2>/dev/null; rm -rf $d
  git -C $HERE worktree add --detach $d HEAD >/dev/null 2>&1
  cp -r $HERE/lean/.lake $d/lean/.lake; [ -d $HERE/.numba_cache ] && cp -r $HERE/.numba_cache $d/.numba_cache
  rm -f $d/$BASE/RESULTS.json
  eval "names=\$S$k"
  ( cd $d && python3 tools_seeded.py $MODE $names > /tmp/vshard-$k.log 2>&1 ) &
  k=$((k+1))
done
wait
python3 - "$HERE" "$N" "$BASE" <<'P'
import json,sys,os
here,n,base=sys.argv[1],int(sys.argv[2]),sys.argv[3]
p=os.path.join(here,base,'RESULTS.json'); r=json.load(open(p)) if os.path.exists(p) else {}
for k in range(n):
    q=f'/tmp/vshard-{k}/{base}/RESULTS.json'
    if os.path.exists(q): r.update(json.load(open(q)))
json.dump(r,open(p,'w'),indent=1,sort_keys=True)
miss=[k for k,v in sorted(r.items()) if not v.get('caught')]
nfi=[k for k,v in sorted(r.items()) if v.get('caught') and not v.get('with_failing_input')]
print('missed:',miss); print('caught without failing input:',nfi)
P
k=0; while [ $k -lt $N ]; do git -C $HERE worktree remove --force /tmp/vshard-$k; k=$((k+1)); done
