theorem any_take_succ {α} (l : List α) (f : α → Bool) (k : Nat) (h : k < l.length) :
    (l.take (k + 1)).any f = ((l.take k).any f || f l[k]) := by
  rw [List.take_succ_eq_append_getElem h]
  simp only [List.any_append, List.any_cons, List.any_nil, Bool.or_false]
