import XrsVerif.Proofs.ILangProx
namespace XrsVerif.IL
open XrsVerif
variable {F : Type} [Fl F]
set_option linter.unusedSectionVars false
set_option linter.unusedSimpArgs false

/-- the target test of `_process_proximity_line` on numbers -/
def targetTest (x : F) (vals : List F) : Bool :=
  if vals.length = 0 then (!(Fl.eq x (Fl.lit 0 1)) && Fl.isfinite x) else vals.any (fun v => Fl.eq x v)

/-- nothing but scalars changed -/
structure ScalOnly (s r : State F) : Prop where
  fa : r.fa = s.fa
  ia : r.ia = s.ia
  shp : r.shp = s.shp
  ext : r.ext = s.ext

theorem test_exec (N : Names) (hN : N.WF) (s : State F) (fuel : Nat) (hs : s.ctl = .run)
    (p W nv : Nat) (hp : p < W) (hpix : s.ienv (N.nm .pixel) = p) (hshp : s.shp N.src = [W])
    (hvshp : s.shp N.vals = [nv]) (hnv : s.ienv (N.nm .nValues) = nv) (hvlen : (s.fa N.vals).length = nv) :
    let r := exec fuel (.seq (bInit N) (bTest N)) s
    r.ctl = .run ∧ r.benv (N.nm .isTarget) = targetTest ((s.fa N.src).getD p Fl.nan) (s.fa N.vals) ∧
    ScalOnly s r ∧ r.fenv = s.fenv ∧ (∀ v, v ≠ N.nm .i → r.ienv v = s.ienv v) ∧
    (∀ v, v ≠ N.nm .isTarget → r.benv v = s.benv v) := by
  have hne := hN.nm_eq
  by_cases h0 : nv = 0
  · subst h0
    have hl : (s.fa N.vals) = [] := by simpa using hvlen
    cases hc : (!(Fl.eq ((s.fa N.src).getD p Fl.nan) (Fl.lit 0 1)) && Fl.isfinite ((s.fa N.src).getD p Fl.nan))
    all_goals
      simp only [List.getD_eq_getElem?_getD] at hc
      simp [exec, bInit, bTest, hs, BE.ok, BE.eval, IE.ok, IE.eval, FE.ok, FE.eval, cmpInt, hpix, hshp, hnv, hne,
        inRange_of_lt _ _ hp, off1_nat, targetTest, hl, CmpOp.eval]
      simp at hc
      simp [hc]
      refine ⟨⟨rfl, rfl, rfl, rfl⟩, ?_⟩
      intro v hv; simp [setS, hv]
  · have hnv0 : ¬ ((nv : Int) = 0) := by omega
    have hvl0 : ¬ ((s.fa N.vals).length = 0) := by omega
    simp only [exec, bInit, bTest, hs, BE.ok, BE.eval, IE.ok, IE.eval, cmpInt, setS, hnv, hnv0, decide_false,
      Bool.and_self, if_true, if_false, Bool.false_eq_true, Bool.true_and, ne_eq, Int.reduceEq, not_false_eq_true, decide_true]
    generalize hs1 : ({ s with benv := setS s.benv (N.nm .isTarget) false } : State F) = s1
    have hs1' : s1.ctl = .run ∧ ScalOnly s s1 ∧ s1.fenv = s.fenv ∧ s1.ienv = s.ienv ∧
        (∀ v, v ≠ N.nm .isTarget → s1.benv v = s.benv v) ∧ s1.benv (N.nm .isTarget) = false := by
      subst hs1; refine ⟨hs, ⟨rfl, rfl, rfl, rfl⟩, rfl, rfl, ?_, by simp [setS]⟩
      intro v hv; simp [setS, hv]
    obtain ⟨c1, so1, f1, i1, b1, t1⟩ := hs1'
    have := forRange_up (N.nm .i) (.var (N.nm .nValues))
      (.ite (.cmpF .eq (.ld1 N.src (.var (N.nm .pixel))) (.ld1 N.vals (.var (N.nm .i)))) (.setB (N.nm .isTarget) .tt) .skip)
      s1 fuel nv c1 rfl (by simp [IE.eval, i1, hnv])
      (fun k st => ScalOnly s st ∧ st.fenv = s.fenv ∧ (∀ v, v ≠ N.nm .i → st.ienv v = s.ienv v) ∧
        (∀ v, v ≠ N.nm .isTarget → st.benv v = s.benv v) ∧
        st.benv (N.nm .isTarget) = ((s.fa N.vals).take k).any (fun v => Fl.eq ((s.fa N.src).getD p Fl.nan) v))
      ⟨so1, f1, fun v _ => by rw [i1], b1, by simp [t1]⟩
      (by
        intro k hk st hst ⟨so, hf, hi, hb, ht⟩
        have hpx : st.ienv (N.nm .pixel) = p := by rw [hi _ (by simp [hne]), hpix]
        have hkl : k < (s.fa N.vals).length := by omega
        cases hc : Fl.eq ((s.fa N.src).getD p Fl.nan) ((s.fa N.vals)[k])
        all_goals
          simp only [List.getD_eq_getElem?_getD] at hc
          simp [exec, hst, BE.ok, BE.eval, IE.ok, IE.eval, FE.ok, FE.eval, setS, hne, hpx, so.shp, so.fa, hshp, hvshp,
            inRange_of_lt _ _ hp, inRange_of_lt _ _ hk, off1_nat, CmpOp.eval, hkl, hc, afterBody, any_take_succ _ _ _ hkl, ht]
          refine ⟨⟨so.fa, so.ia, so.shp, so.ext⟩, hf, ?_, ?_⟩
          · intro v hv; simp [hv, hi v hv]
          · first | exact hb | (intro v hv; simp [hv, hb v hv]))
    simp only [targetTest, hvl0, if_false]
    obtain ⟨hc, so, hf, hi, hb, ht⟩ := this
    refine ⟨hc, ?_, so, hf, hi, hb⟩
    rw [ht, ← hvlen, List.take_length]

end XrsVerif.IL
