import XrsVerif.Gen.IL
import XrsVerif.Proofs.ILang
open XrsVerif XrsVerif.IL
example : "ab$" ++ "cd" = "ab$cd" := rfl
example : "ab$" ++ "cd" = "ab$cd" := by decide
example : IE.var ("ab$" ++ "cd") = IE.var "ab$cd" := rfl
example : IE.var ("ab$" ++ "cd") = IE.var "ab$cd" := by decide
