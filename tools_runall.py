#!/usr/bin/env python3
"""run every claimed check (MANIFEST.json) for one or more seeds and print a table:
   tools_runall.py [--tier quick|thorough] [--seeds 0,1,2] [--jobs N] [Cxx ...]"""
import json, os, subprocess, sys, time
from concurrent.futures import ThreadPoolExecutor
HERE = os.path.dirname(os.path.abspath(__file__))

def main(argv):
    tier, seeds, jobs, ids = "quick", [0], 1, []
    i = 0
    while i < len(argv):
        if argv[i] == "--tier": tier = argv[i + 1]; i += 2
        elif argv[i] == "--seeds": seeds = [int(s) for s in argv[i + 1].split(",")]; i += 2
        elif argv[i] == "--jobs": jobs = int(argv[i + 1]); i += 2
        else: ids.append(argv[i]); i += 1
    man = json.load(open(os.path.join(HERE, "MANIFEST.json")))
    checks = [c for c in man["checks"] if not ids or c["property_id"] in ids]
    def one(args):
        c, seed = args
        cmd = c["quick_cmd"] if tier == "quick" else c.get("thorough_cmd", c["quick_cmd"])
        t0 = time.time()
        p = subprocess.run(cmd, shell=True, cwd=HERE, env=dict(os.environ, VERIF_SEED=str(seed), VERIF_TIER=tier),
                           stdout=subprocess.PIPE, stderr=subprocess.STDOUT, text=True)
        lines = p.stdout.strip().splitlines()
        viol = [l for l in lines if l.startswith("VIOLATION") or l.startswith("KNOWN-FINDING")]
        return c["property_id"], seed, p.returncode, round(time.time() - t0, 1), viol, (lines[-1] if lines else "")
    work = [(c, s) for s in seeds for c in checks]
    bad = 0
    with ThreadPoolExecutor(jobs) as ex:
        for pid, seed, rc, wall, viol, tail in ex.map(one, work):
            print(f"{pid} seed={seed} exit={rc} {wall}s {' | '.join(viol)} :: {tail[:160]}", flush=True)
            bad += rc != 0
    print("ALL OK" if bad == 0 else f"{bad} runs did not exit 0")
    return 1 if bad else 0

sys.exit(main(sys.argv[1:]))
