#!/usr/bin/env python3
"""tools_seedprompt.py Cxx N M  -- print the prompt for an independent seeding sub-agent (property text only,
nothing from the verification machinery) that is to produce seeded changes Cxx-N and Cxx-M; the scratch worktree
of /repo is /tmp/seedwt2-Cxx, the output directory /tmp/seedout/Cxx-N, /tmp/seedout/Cxx-M."""
import json, os, sys
HERE = os.path.dirname(os.path.abspath(__file__))
pid, ns = sys.argv[1], [a for a in sys.argv[2:] if not a.startswith("--")]
focus = "glue" if "--glue" in sys.argv else ""
prop = [json.loads(l) for l in open(os.path.join(HERE, "properties.jsonl")) if json.loads(l)["id"] == pid][0]
prev = []
for d in sorted(os.listdir(os.path.join(HERE, "seeded"))):
    if d.startswith(pid + "-"):
        m = json.load(open(os.path.join(HERE, "seeded", d, "meta.json")))
        prev.append("  - " + m["summary"][:260].replace("\n", " "))
wt = f"/tmp/seedwt2-{pid}"
outs = [f"/tmp/seedout/{pid}-{n}" for n in ns]
print(f"""You are testing how well a semantic property of the Python library makepath/xarray-spatial is protected. You have your own scratch git worktree of the library at {wt} (work ONLY there; never touch /repo or /verif; do not read /verif). Python with the library's dependencies is /venv/bin/python; run things with `cd {wt} && PYTHONPATH={wt} /venv/bin/python …` so that your worktree's `xrspatial` is imported (check with `python -c "import xrspatial; print(xrspatial.__file__)"`). There is no network.

The property (this is all you get — read the code it is anchored in):

{json.dumps({k: prop[k] for k in ('id', 'title', 'statement', 'quantifier', 'why_tests_cant', 'anchors')}, indent=1)}

Task: produce {len(ns)} *different* changes to the library source (each a small realistic edit a developer could plausibly make — a refactor, an "optimisation", a tidy-up, a misguided bug fix; different mechanisms / code sites from each other) such that with the change
  (1) the library still imports and the existing test suite still passes — at the very least every test file that touches the changed code (`cd {wt} && PYTHONPATH={wt} /venv/bin/python -m pytest -q -p no:cacheprovider --timeout=900 xrspatial/tests/test_<x>.py`; the full suite `xrspatial/tests` takes ~5 min; `test_viewshed.py::test_viewshed` and `test_classify.py::test_equal_interval_dask_numpy` may fail on the unchanged tree too and do not count), and
  (2) the property above is broken — but only in circumstances that need something *specific* to manifest: an unusual input (dtype, memory layout, size class, parameter range, NaN placement, non-square cells, descending coordinates …), a particular chunking or scheduler, a multi-step sequence of calls, a particular interleaving, or two cooperating code sites that each look fine alone. NOT a change that ordinary use or a casual glance at any output would expose at once.
{("This round, aim at the GLUE rather than the numeric kernels: public wrappers and their argument handling (defaults, None/0/empty handling, name/attrs/coords propagation, dims other than ('y','x'), xdim/ydim arguments, DataArray vs Dataset inputs), backend dispatch (ArrayTypeFunctionMapping, isinstance chains), utils helpers (cell size / resolution from attrs or coordinates, validate_arrays, rechunking, canvas helpers), conversion of parameters (units, lists vs tuples vs arrays, dtype of parameter arrays), the order and guards of validation, result assembly (DataFrame/DataArray/Dataset construction, stacking, naming)." if focus else "")}
Changes already used in an earlier round (do something different in mechanism and site):
{chr(10).join(prev) if prev else '  (none)'}

For each change write into its own directory ({', '.join(outs)}; create them):
  * `patch.diff` — `git diff` of your worktree against HEAD containing only that change (it must apply to a clean checkout with `git apply`); reset the worktree (`git -C {wt} checkout -- .`) between the two changes;
  * `demo.py` — a small self-contained program that exits 0 on the unchanged library and exits 1 (printing what is wrong) with the change applied, by checking the property as stated (not by comparing with a hard-coded output of the old code where avoidable). It is run as `cd <worktree> && PYTHONPATH=<worktree> /venv/bin/python demo.py`;
  * `meta.json` — {{"property": "{pid}", "summary": "<what the change does, which function/lines>", "needs_to_manifest": "<exactly what input / sequence / configuration is needed, and how often random inputs would hit it if you can estimate>", "tests_run": "<which test files / full suite you ran with the change and the result>", "files": ["<changed source files>"], "tests": ["<test files that touch the changed code>"]}}.
Verify yourself, for each change: demo exits 0 without it and 1 with it; the relevant test files pass with it. Leave the worktree clean (no change applied) at the end. Your final message: for each change two or three lines (what, what it needs, what you verified).""")
