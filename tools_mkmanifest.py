#!/usr/bin/env python3
"""regenerate MANIFEST.json from the table below (keeps it schema-valid by construction)"""
import json, os
HERE = os.path.dirname(os.path.abspath(__file__))
BASE = json.load(open("/root/.vp/BASELINE.json"))["cmd"].replace(" --junitxml=<file>", "")

# id -> (technique, level text, level note, design ref)
CHECKS = {}
NOT_APPLICABLE = {}

def load():
    checks, na = {}, {}
    d = os.path.join(HERE, "manifest")
    for f in sorted(os.listdir(d)):
        if f.endswith(".json"):
            e = json.load(open(os.path.join(d, f)))
            if "not_applicable" in e:
                na[f[:-5]] = e["not_applicable"]
            else:
                checks[f[:-5]] = e
    props = [json.loads(l)["id"] for l in open(os.path.join(HERE, "properties.jsonl"))]
    for p in props:
        if p not in checks and p not in na:
            na[p] = "check not built yet (work in progress; DESIGN.md section 9 gives the plan for this property)"
    return checks, na

def main():
    checks, na = load()
    props = [json.loads(l)["id"] for l in open(os.path.join(HERE, "properties.jsonl"))]
    out = {
        "version": 1,
        "setup_cmd": "cd lean && ./lk build",
        "hooks": {
            "guard": "MAKEPATH_XARRAY_SPATIAL_VERIF",
            "enable": "no source hooks are needed: the harness imports xrspatial internals directly; ./check sets MAKEPATH_XARRAY_SPATIAL_VERIF=1 for uniformity",
            "baseline_off_cmd": BASE,
            "source_commits": [],
            "add_only": True,
        },
        "engines": [
            {"name": "lean-proofs", "path": "lean/", "serves_properties": sorted(checks),
             "kind_free_text": "Lean 4 models (Model/, Gen/) and theorems (Props/); kernel-checked, axioms audited"},
            {"name": "translator", "path": "harness/translate.py", "serves_properties": sorted(checks),
             "kind_free_text": "Python ast -> Lean (Gen/*.lean), regenerated from /repo on every run: T1 per-cell kernels (KLang), T2 structural facts, T3 statement-by-statement translation of the numba loop nests into the imperative language Core/ILang.lean (harness/facts_il.py -> Gen/IL.lean, 44 programs), each validated against the numba-compiled function by harness/il_corr.py"},
            {"name": "correspondence", "path": "harness/", "serves_properties": sorted(checks),
             "kind_free_text": "differential run of the real code against the compiled Lean driver + property oracles for the failing-input search"},
        ],
        "checks": [],
        "notes": "Every check: regenerate Gen/*.lean from /repo (T1 kernels, T2 facts, T3 programs), lake build the property's theorems (incl. the refinement theorems 'generated program = hand model'), audit axioms, run the correspondence (model vs code, generated program vs numba) and the oracle search. See DESIGN.md sections 3 and 18.",
        "not_applicable": [{"property_id": k, "reason": v} for k, v in sorted(na.items())],
    }
    for pid in props:
        if pid not in checks:
            assert pid in na, pid
            continue
        c = checks[pid]
        out["checks"].append({
            "property_id": pid,
            "quick_cmd": f"./check {pid} --tier quick",
            "thorough_cmd": f"./check {pid} --tier thorough",
            "evidence_file": f"evidence/{pid}.json",
            "replay_cmd_template": f"./check {pid} --replay {{path}}",
            "engine": "lean-proofs",
            "level_claimed": {"category": "proof", "text": c["text"], "design_ref": c.get("design_ref", f"DESIGN.md section 6, {pid}")},
            "level_note": c["note"],
            "technique": c["technique"],
        })
    json.dump(out, open(os.path.join(HERE, "MANIFEST.json"), "w"), indent=1)
    print("checks:", [c["property_id"] for c in out["checks"]], "n/a:", sorted(na))

main()
