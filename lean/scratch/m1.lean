import XrsVerif.Proofs.KSimp
import XrsVerif.Gen.Kernels
import Mathlib.Analysis.SpecialFunctions.Trigonometric.Inverse
import Mathlib.Analysis.SpecialFunctions.Trigonometric.Arctan
import Mathlib.Analysis.SpecialFunctions.Complex.Arg
import Mathlib.Tactic.Positivity
set_option linter.unusedSectionVars false
namespace XrsVerif.Metrics
open XrsVerif

section generic
variable {K : Type} [Field K] [LinearOrder K] [IsStrictOrderedRing K] [Trig K]

def env4 (x1 x2 y1 y2 : NV K) : String → NV K := envOf [("x1", x1), ("x2", x2), ("y1", y1), ("y2", y2)]
def env5 (x1 x2 y1 y2 r : NV K) : String → NV K := envOf [("x1", x1), ("x2", x2), ("y1", y1), ("y2", y2), ("radius", r)]

def manhattan (p q : K × K) : NV K :=
  Gen.manhattan_distance.cell (env4 (some p.1) (some q.1) (some p.2) (some q.2)) (fun _ _ _ => none) (fun _ => [])
def euclidean (p q : K × K) : NV K :=
  Gen.euclidean_distance.cell (env4 (some p.1) (some q.1) (some p.2) (some q.2)) (fun _ _ _ => none) (fun _ => [])
def greatCircle (R : K) (p q : K × K) : NV K :=
  Gen.great_circle_distance.cell (env5 (some p.1) (some q.1) (some p.2) (some q.2) (some R)) (fun _ _ _ => none) (fun _ => [])
def greatCircleFailed (R : K) (p q : K × K) : Option String :=
  Gen.great_circle_distance.cellFailed (env5 (some p.1) (some q.1) (some p.2) (some q.2) (some R)) (fun _ _ _ => none) (fun _ => [])

theorem manhattan_eq (p q : K × K) : manhattan p q = some (|p.1 - q.1| + |p.2 - q.2|) := by
  unfold manhattan env4
  ksimp [Gen.manhattan_distance]

theorem euclidean_eq (p q : K × K) :
    euclidean p q = some (Trig.sqrt ((p.1 - q.1) * (p.1 - q.1) + (p.2 - q.2) * (p.2 - q.2))) := by
  unfold euclidean env4
  ksimp [Gen.euclidean_distance]

def inRange (p : K × K) : Prop := -180 ≤ p.1 ∧ p.1 ≤ 180 ∧ -90 ≤ p.2 ∧ p.2 ≤ 90

theorem gc_failed_iff (R : K) (p q : K × K) :
    (greatCircleFailed R p q).isSome ↔ ¬ (inRange p ∧ inRange q) := by
  unfold greatCircleFailed env5 inRange
  ksimp [Gen.great_circle_distance]
  trace_state
  sorry
end generic
end XrsVerif.Metrics
