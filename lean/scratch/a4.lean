import Mathlib.Algebra.Order.Floor.Ring
import Mathlib.Data.Rat.Floor
#check @Rat.le_floor
#check @Rat.floor_def'
example (q : ℚ) : ⌊q⌋ = q.floor := rfl
#check @Int.floor_eq_iff
#check @Int.floor_le
#check @Int.lt_floor_add_one
