import XrsVerif.Model.Jenks
import Mathlib.Tactic.Ring
import Mathlib.Tactic.Linarith
import Mathlib.Tactic.FieldSimp
import Mathlib.Tactic.Positivity
import Mathlib.Algebra.Order.Field.Basic
namespace XrsVerif.Jenks

theorem S_add (x : Nat → Rat) (i a b : Nat) : S x i (a + b) = S x i a + S x (i + a) b := by
  induction b with
  | zero => simp [S]
  | succ b ih => rw [← Nat.add_assoc]; simp only [S, ih, Nat.add_assoc]; ring

theorem Q_add (x : Nat → Rat) (i a b : Nat) : Q x i (a + b) = Q x i a + Q x (i + a) b := by
  induction b with
  | zero => simp [Q]
  | succ b ih => rw [← Nat.add_assoc]; simp only [Q, ih, Nat.add_assoc]; ring

theorem ssd_single (x : Nat → Rat) (i : Nat) : ssd x i (i + 1) = 0 := by
  unfold ssd
  have : i + 1 - i = 1 := by omega
  rw [this]; simp [S, Q]

/-- splitting a class never increases the sum of squared deviations -/
theorem ssd_split (x : Nat → Rat) (i m l : Nat) (h1 : i < m) (h2 : m < l) :
    ssd x i m + ssd x m l ≤ ssd x i l := by
  obtain ⟨a, rfl⟩ : ∃ a, m = i + a := ⟨m - i, by omega⟩
  obtain ⟨b, rfl⟩ : ∃ b, l = i + a + b := ⟨l - (i + a), by omega⟩
  have ha : 0 < a := by omega
  have hb : 0 < b := by omega
  unfold ssd
  rw [show i + a - i = a by omega, show i + a + b - (i + a) = b by omega, show i + a + b - i = a + b by omega]
  rw [S_add, Q_add]
  generalize S x i a = sA
  generalize S x (i + a) b = sB
  generalize Q x i a = qA
  generalize Q x (i + a) b = qB
  have haq : (0 : Rat) < (a : Rat) := by exact_mod_cast ha
  have hbq : (0 : Rat) < (b : Rat) := by exact_mod_cast hb
  push_cast
  have key : (sA + sB) * (sA + sB) / ((a : Rat) + b) ≤ sA * sA / a + sB * sB / b := by
    rw [div_add_div _ _ (ne_of_gt haq) (ne_of_gt hbq), div_le_div_iff₀ (by positivity) (by positivity)]
    nlinarith [sq_nonneg ((b : Rat) * sA - a * sB), mul_pos haq hbq, mul_pos (mul_pos haq hbq) (add_pos haq hbq),
      mul_nonneg (mul_nonneg haq.le hbq.le) (sq_nonneg ((b : Rat) * sA - a * sB))]
  linarith

theorem foldl_step_some (cs : List (Rat × Nat)) (c0 : Rat × Nat) :
    ∃ c, cs.foldl step (some c0) = some c ∧ (c = c0 ∨ c ∈ cs) ∧ c.1 ≤ c0.1 ∧ ∀ c' ∈ cs, c.1 ≤ c'.1 := by
  induction cs generalizing c0 with
  | nil => exact ⟨c0, rfl, Or.inl rfl, le_refl _, by simp⟩
  | cons a as ih =>
    simp only [List.foldl_cons]
    have hstep : step (some c0) a = some (if c0.1 ≥ a.1 then a else c0) := by
      obtain ⟨v, b⟩ := c0
      simp only [step]; split <;> rfl
    rw [hstep]
    obtain ⟨c, h1, h2, h3, h4⟩ := ih (if c0.1 ≥ a.1 then a else c0)
    refine ⟨c, h1, ?_, ?_, ?_⟩
    · rcases h2 with h2 | h2
      · split at h2
        · right; rw [h2]; simp
        · left; exact h2
      · right; simp [h2]
    · split at h3
      · rename_i hge; exact le_trans h3 hge
      · exact h3
    · intro c' hc'
      rcases List.mem_cons.mp hc' with rfl | hc'
      · split at h3
        · exact h3
        · rename_i hge; exact le_of_lt (lt_of_le_of_lt h3 (not_le.mp hge))
      · exact h4 c' hc'

/-- the fold over the candidates returns one of them, of minimal cost -/
theorem foldl_step_none (cs : List (Rat × Nat)) (hne : cs ≠ []) :
    ∃ c, cs.foldl step none = some c ∧ c ∈ cs ∧ ∀ c' ∈ cs, c.1 ≤ c'.1 := by
  cases cs with
  | nil => exact absurd rfl hne
  | cons a as =>
    simp only [List.foldl_cons, step]
    obtain ⟨c, h1, h2, h3, h4⟩ := foldl_step_some as a
    refine ⟨c, h1, ?_, ?_⟩
    · rcases h2 with h2 | h2 <;> simp [h2]
    · intro c' hc'
      rcases List.mem_cons.mp hc' with rfl | hc'
      · exact h3
      · exact h4 c' hc'
end XrsVerif.Jenks
