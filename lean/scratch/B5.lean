import XrsVerif.Model.Bin
import XrsVerif.Gen.ClassifyFacts
import Mathlib.Order.Basic
import Mathlib.Order.Defs.LinearOrder
namespace XrsVerif.Bin
variable {α : Type}

theorem canonical_fields :
    canonical.firstOp = .le ∧ canonical.firstIdx = 0 ∧ canonical.firstBin = 0 ∧ canonical.lastOp = .le ∧
    canonical.lastOff = -1 ∧ canonical.startInit = 0 ∧ canonical.endOff = -1 ∧ canonical.loopOp = .le ∧
    canonical.rightOp = .lt ∧ canonical.rightOff = 0 ∧ canonical.rightStep = 1 ∧ canonical.stopOp = .gt ∧
    canonical.stopOff = -1 ∧ canonical.leftStep = -1 ∧ canonical.initBin = -1 := by
  refine ⟨rfl, rfl, rfl, rfl, rfl, rfl, rfl, rfl, rfl, rfl, rfl, rfl, rfl, rfl, rfl⟩

theorem loopS_canonical (below : Int → Bool) (fuel : Nat) (s e : Int) :
    loopS canonical below below fuel s e = loop below fuel s e := by
  induction fuel generalizing s e with
  | zero => rfl
  | succ fuel ih =>
    rw [loopS.eq_def, loop.eq_def]
    obtain ⟨_, _, _, _, _, _, _, h8, h9, h10, h11, h12, h13, h14, _⟩ := canonical_fields
    simp only [h8, h9, h10, h11, h12, h13, h14, Op.evI, decide_eq_true_eq, Int.add_zero, ← Int.sub_eq_add_neg, ih]

theorem searchS_canonical (lt le : α → α → Bool) (d : α) (bins : List α) (v : α) :
    searchS canonical lt le d bins v = search lt le d bins v := by
  unfold searchS search searchP
  obtain ⟨h1, h2, h3, h4, h5, h6, h7, _, h9, _, _, h12, _, _, h15⟩ := canonical_fields
  simp only [h1, h2, h3, h4, h5, h6, h7, h9, h12, h15, Op.ev, ← Int.sub_eq_add_neg, loopS_canonical]

example : Gen.cpuBinShape = canonical := by decide
end XrsVerif.Bin
