import XrsVerif.Proofs.Jenks
namespace XrsVerif.Jenks

/-- one DP cell: for `l >= 2` the fold returns the minimum over the last break `i4 in [1, l-1]` and the
    recorded lower class limit realises it -/
theorem cellVL_spec (x : Nat → Rat) (vprev : Nat → Rat) (l : Nat) (hl : 2 ≤ l) :
    (∀ i, 1 ≤ i → i < l → (cellVL x vprev l).1 ≤ ssd x i l + vprev i) ∧
    (2 ≤ (cellVL x vprev l).2 ∧ (cellVL x vprev l).2 ≤ l ∧
      (cellVL x vprev l).1 = ssd x ((cellVL x vprev l).2 - 1) l + vprev ((cellVL x vprev l).2 - 1)) := by
  have hne : cands x vprev l ≠ [] := by
    unfold cands
    intro h
    have := congrArg List.length h
    simp at this; omega
  obtain ⟨c, h1, h2, h3⟩ := foldl_step_none (cands x vprev l) hne
  have hc : cellVL x vprev l = c := by unfold cellVL; rw [h1]; rfl
  rw [hc]
  constructor
  · intro i hi1 hil
    have hm : (ssd x i l + vprev i, i + 1) ∈ cands x vprev l := by
      unfold cands
      rw [List.mem_map]
      refine ⟨l - 1 - i, by simp; omega, ?_⟩
      have : l - 1 - (l - 1 - i) = i := by omega
      simp only [this]
    exact h3 _ hm
  · unfold cands at h2
    rw [List.mem_map] at h2
    obtain ⟨m, hm, rfl⟩ := h2
    simp only [List.mem_range] at hm
    refine ⟨by simp; omega, by simp; omega, ?_⟩
    simp

theorem col_length (x : Nat → Rat) (n j : Nat) : (col x n j).length = n + 1 := by
  cases j <;> simp [col, firstCol, nextCol]

theorem V_one (x : Nat → Rat) (n l : Nat) (h2 : 2 ≤ l) (hl : l ≤ n) : V x n 1 l = ssd x 0 l := by
  unfold V col firstCol
  have h0 : ¬ l = 0 := by omega
  have h1 : ¬ l = 1 := by omega
  simp [List.getD_eq_getElem?_getD, List.getElem?_map, List.getElem?_range (show l < n + 1 by omega), h0, h1]

theorem V_at_one (x : Nat → Rat) (n j : Nat) (hn : 1 ≤ n) : V x n (j + 1) 1 = 0 := by
  unfold V
  cases j <;> simp [col, firstCol, nextCol, List.getD_eq_getElem?_getD, List.getElem?_map,
    List.getElem?_range (show 1 < n + 1 by omega)]

theorem VL_succ (x : Nat → Rat) (n j l : Nat) (h2 : 2 ≤ l) (hl : l ≤ n) :
    V x n (j + 2) l = (cellVL x (V x n (j + 1)) l).1 ∧ L x n (j + 2) l = (cellVL x (V x n (j + 1)) l).2 := by
  have h0 : ¬ l = 0 := by omega
  have h1 : ¬ l = 1 := by omega
  have hV : (fun i => ((col x n j).getD i (0, 0)).1) = V x n (j + 1) := by
    funext i; unfold V; simp
  unfold V L
  simp only [show j + 2 - 1 = j + 1 by omega, col, nextCol]
  simp [List.getD_eq_getElem?_getD, List.getElem?_map, List.getElem?_range (show l < n + 1 by omega), h0, h1, hV]
end XrsVerif.Jenks
