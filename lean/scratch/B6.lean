import XrsVerif.Proofs.Bin
namespace XrsVerif.Bin
variable {α : Type}

/-- list form, for any pair of boolean comparisons that behaves like a total order *on the bins against
    this value*: the search returns the first bin with `le v bin` -/
theorem search_eq_findIdx (lt le : α → α → Bool) (d v : α) (bins : List α) (hne : bins ≠ [])
    (htot : ∀ b ∈ bins, lt b v = !le v b)
    (hmono : bins.Pairwise (fun a b => le v a = true → le v b = true)) :
    search lt le d bins v =
      match bins.findIdx? (fun b => le v b) with | some i => (i : Int) | none => -1 := by
  have hn : 1 ≤ bins.length := by
    cases bins with
    | nil => exact absurd rfl hne
    | cons => simp
  have hs' := List.pairwise_iff_getElem.mp hmono
  have htot' : ∀ i : Int, 0 ≤ i → i < bins.length →
      (fun i => lt (getW d bins i) v) i = !(fun i => le v (getW d bins i)) i := by
    intro i h0 h1
    simp only [getW_int d bins i h0 h1]
    exact htot _ (List.getElem_mem _)
  have hmono' : ∀ i : Int, 0 ≤ i → i + 1 < bins.length →
      (fun i => le v (getW d bins i)) i = true → (fun i => le v (getW d bins i)) (i + 1) = true := by
    intro i h0 h1 h
    simp only at h ⊢
    rw [getW_int d bins i h0 (by omega)] at h
    rw [getW_int d bins (i + 1) (by omega) h1]
    exact hs' _ _ _ _ (by omega) h
  unfold search
  rcases searchP_first _ _ bins.length hn htot' hmono' with ⟨h1, h2⟩ | ⟨h1, h2, h3, h4⟩
  · rw [h1]
    have : bins.findIdx? (fun b => le v b) = none := by
      rw [List.findIdx?_eq_none_iff]
      intro x hx
      obtain ⟨i, hi, rfl⟩ := List.getElem_of_mem hx
      have := h2 i (by omega) (by omega)
      simp only [getW_nat d bins i hi] at this
      exact this
    rw [this]
  · generalize searchP (fun i => lt (getW d bins i) v) (fun i => le v (getW d bins i)) bins.length = r at *
    have : bins.findIdx? (fun b => le v b) = some r.toNat := by
      rw [List.findIdx?_eq_some_iff_getElem]
      refine ⟨by omega, ?_, ?_⟩
      · simp only [getW_int d bins r h1 h2] at h3; exact h3
      · intro j hj
        have := h4 j (by omega) (by omega)
        simp only [getW_nat d bins j (by omega)] at this
        simpa using this
    rw [this]
    simp only
    omega

section lin
variable [LinearOrder α]

def ltB (a b : α) : Bool := decide (a < b)
def leB (a b : α) : Bool := decide (a ≤ b)

/-- specification: the first bin whose upper bound is ≥ v -/
def firstGE (bins : List α) (v : α) : Option Nat := bins.findIdx? (fun b => decide (v ≤ b))

theorem search_eq_firstGE (d v : α) (bins : List α) (hne : bins ≠ [])
    (hs : bins.Pairwise (· ≤ ·)) :
    search ltB leB d bins v = match firstGE bins v with | some i => (i : Int) | none => -1 := by
  refine search_eq_findIdx ltB leB d v bins hne ?_ ?_
  · intro b _
    simp only [ltB, leB]
    by_cases h : v ≤ b
    · simp [h, not_lt.mpr h]
    · simp [h, not_le.mp h]
  · refine hs.imp ?_
    intro a b hab h
    simp only [leB, decide_eq_true_eq] at h ⊢
    exact le_trans h hab

theorem firstGE_some_iff (bins : List α) (v : α) (i : Nat) :
    firstGE bins v = some i ↔ ∃ h : i < bins.length, v ≤ bins[i] ∧ ∀ j (hj : j < i), bins[j] < v := by
  unfold firstGE
  rw [List.findIdx?_eq_some_iff_getElem]
  constructor
  · rintro ⟨h, h1, h2⟩
    exact ⟨h, by simpa using h1, fun j hj => by have := h2 j hj; simpa using this⟩
  · rintro ⟨h, h1, h2⟩
    exact ⟨h, by simpa using h1, fun j hj => by have := h2 j hj; simpa using this⟩

theorem firstGE_none_iff (bins : List α) (v : α) : firstGE bins v = none ↔ ∀ b ∈ bins, b < v := by
  unfold firstGE
  rw [List.findIdx?_eq_none_iff]
  simp

/-- the class is a valid bin index -/
theorem firstGE_lt_length (bins : List α) (v : α) (i : Nat) (h : firstGE bins v = some i) :
    i < bins.length := ((firstGE_some_iff bins v i).mp h).1

/-- a larger value never gets a smaller class, and if it has a class so has every smaller value -/
theorem firstGE_mono (bins : List α) (v w : α) (hvw : v ≤ w) (j : Nat) (hw : firstGE bins w = some j) :
    ∃ i, firstGE bins v = some i ∧ i ≤ j := by
  obtain ⟨hj, h1, h2⟩ := (firstGE_some_iff bins w j).mp hw
  cases hv : firstGE bins v with
  | none =>
    have := (firstGE_none_iff bins v).mp hv _ (List.getElem_mem hj)
    exact absurd (le_trans hvw h1) (not_le.mpr this)
  | some i =>
    refine ⟨i, rfl, ?_⟩
    obtain ⟨hi, h3, h4⟩ := (firstGE_some_iff bins v i).mp hv
    by_cases hle : i ≤ j
    · exact hle
    · have := h4 j (by omega)
      exact absurd (le_trans hvw h1) (not_le.mpr this)

/-- every value not above some bin has a class -/
theorem firstGE_isSome (bins : List α) (v b : α) (hb : b ∈ bins) (hv : v ≤ b) :
    ∃ i, firstGE bins v = some i := by
  cases h : firstGE bins v with
  | none => exact absurd hv (not_le.mpr ((firstGE_none_iff bins v).mp h b hb))
  | some i => exact ⟨i, rfl⟩

/-- for ascending bins: no class exactly above the last bin -/
theorem firstGE_none_iff_last (bins : List α) (v : α) (hne : bins ≠ []) (hs : bins.Pairwise (· ≤ ·)) :
    firstGE bins v = none ↔ bins.getLast hne < v := by
  rw [firstGE_none_iff]
  constructor
  · intro h; exact h _ (List.getLast_mem hne)
  · intro h b hb
    have : b ≤ bins.getLast hne := by
      obtain ⟨i, hi, rfl⟩ := List.getElem_of_mem hb
      rw [List.getLast_eq_getElem]
      by_cases hlt : i < bins.length - 1
      · exact (List.pairwise_iff_getElem.mp hs) _ _ _ _ hlt
      · have : i = bins.length - 1 := by omega
        subst this; exact le_refl _
    exact lt_of_le_of_lt this h

/-- for ascending bins: class `i` is exactly `bins[i-1] < v ≤ bins[i]` (no lower bound for `i = 0`) -/
theorem firstGE_some_iff_sorted (bins : List α) (v : α) (i : Nat) (hs : bins.Pairwise (· ≤ ·)) :
    firstGE bins v = some i ↔
      ∃ h : i < bins.length, v ≤ bins[i] ∧ (i = 0 ∨ ∃ h' : i - 1 < bins.length, bins[i - 1] < v) := by
  rw [firstGE_some_iff]
  constructor
  · rintro ⟨h, h1, h2⟩
    refine ⟨h, h1, ?_⟩
    by_cases h0 : i = 0
    · exact Or.inl h0
    · exact Or.inr ⟨by omega, h2 (i - 1) (by omega)⟩
  · rintro ⟨h, h1, h2⟩
    refine ⟨h, h1, fun j hj => ?_⟩
    rcases h2 with h0 | ⟨h', h2⟩
    · omega
    · by_cases hji : j = i - 1
      · subst hji; exact h2
      · exact lt_of_le_of_lt ((List.pairwise_iff_getElem.mp hs) _ _ _ _ (by omega)) h2
end lin
end XrsVerif.Bin
