import XrsVerif.Proofs.Focal
import Mathlib.Tactic.NormNum
import Mathlib.Tactic.SplitIfs
set_option linter.unusedSectionVars false
set_option linter.unusedVariables false
namespace XrsVerif.Focal
open XrsVerif XrsVerif.Gen
variable {K : Type} [Field K] [LinearOrder K] [IsStrictOrderedRing K] [Trig K]

/-- the documented confidence ladder -/
def confidence (v : K) : K :=
  if 129 / 50 < |v| then 99 else if 49 / 25 < |v| then 95 else if 33 / 20 < |v| then 90 else 0

def hotspotSpec (v : K) : K := if 0 < v then confidence v else if v < 0 then -confidence v else 0

/-- the generated kernel in terms of the truth values of its eight comparisons -/
theorem hotspot_leaf (v : K) (p1 p2 p3 q1 q2 q3 s1 s2 : Prop)
    [Decidable p1] [Decidable p2] [Decidable p3] [Decidable q1] [Decidable q2] [Decidable q3] [Decidable s1] [Decidable s2]
    (h1 : (233 / 100 ≤ |v|) ↔ p1) (h2 : (33 / 20 ≤ |v|) ↔ p2) (h3 : (129 / 100 ≤ |v|) ↔ p3)
    (g1 : (129 / 50 < |v|) ↔ q1) (g2 : (49 / 25 < |v|) ↔ q2) (g3 : (33 / 20 < |v|) ↔ q3)
    (t1 : (0 < v) ↔ s1) (t2 : (v < 0) ↔ s2) : True := trivial

macro "hs_leaf" : tactic => `(tactic|
  (simp [hotspotClass, hotspots_cpu, hotspotSpec, confidence, Kernel.cell, S.exec, E.eval, C.eval, CmpOp.eval,
     BinOp.eval, UnOp.eval, setVar, Fill.val, *] <;> norm_num [*]))

theorem hotspotClass_some (v : K) : hotspotClass (some v : NV K) = some (hotspotSpec v) := by
  have n1 : ¬ ((1 : K) < 100⁻¹) := by norm_num
  have n2 : ¬ ((1 : K) < 20⁻¹) := by norm_num
  have n3 : ¬ ((1 : K) < 10⁻¹) := by norm_num
  have n4 : ((99 / 10000 : K) < 100⁻¹) := by norm_num
  have n5 : ((99 / 10000 : K) < 20⁻¹) := by norm_num
  have n6 : ((99 / 10000 : K) < 10⁻¹) := by norm_num
  have n7 : ¬ ((99 / 2000 : K) < 100⁻¹) := by norm_num
  have n8 : ((99 / 2000 : K) < 20⁻¹) := by norm_num
  have n9 : ((99 / 2000 : K) < 10⁻¹) := by norm_num
  have n10 : ¬ ((197 / 2000 : K) < 100⁻¹) := by norm_num
  have n11 : ¬ ((197 / 2000 : K) < 20⁻¹) := by norm_num
  have n12 : ((197 / 2000 : K) < 10⁻¹) := by norm_num
  rcases lt_trichotomy v 0 with hv | hv | hv
  · have s1 : ¬ (0 < v) := not_lt.mpr (le_of_lt hv)
    by_cases r0 : (129 / 50 : K) < |v|
    · have a1 : (233 / 100 : K) ≤ |v| := by first | linarith only [r0] | linarith only [r0', r1] | linarith only [r1', r2] | linarith only [r2', r3] | linarith only [r3', r4] | linarith only [r4', r5] | linarith only [r5']
      have a2 : (33 / 20 : K) ≤ |v| := by first | linarith only [r0] | linarith only [r0', r1] | linarith only [r1', r2] | linarith only [r2', r3] | linarith only [r3', r4] | linarith only [r4', r5] | linarith only [r5']
      have a3 : (129 / 100 : K) ≤ |v| := by first | linarith only [r0] | linarith only [r0', r1] | linarith only [r1', r2] | linarith only [r2', r3] | linarith only [r3', r4] | linarith only [r4', r5] | linarith only [r5']
      have a4 : (129 / 50 : K) < |v| := by first | linarith only [r0] | linarith only [r0', r1] | linarith only [r1', r2] | linarith only [r2', r3] | linarith only [r3', r4] | linarith only [r4', r5] | linarith only [r5']
      have a5 : (49 / 25 : K) < |v| := by first | linarith only [r0] | linarith only [r0', r1] | linarith only [r1', r2] | linarith only [r2', r3] | linarith only [r3', r4] | linarith only [r4', r5] | linarith only [r5']
      have a6 : (33 / 20 : K) < |v| := by first | linarith only [r0] | linarith only [r0', r1] | linarith only [r1', r2] | linarith only [r2', r3] | linarith only [r3', r4] | linarith only [r4', r5] | linarith only [r5']
      ksimp [hotspotClass, hotspots_cpu, hotspotSpec, confidence, hv, s1, a1, a2, a3, a4, a5, a6, n1, n2, n3, n4, n5, n6, n7, n8, n9, n10, n11, n12]
    · by_cases r1 : (233 / 100 : K) ≤ |v|
      · have r0' := not_lt.mp r0
        have a1 : (233 / 100 : K) ≤ |v| := by first | linarith only [r0] | linarith only [r0', r1] | linarith only [r1', r2] | linarith only [r2', r3] | linarith only [r3', r4] | linarith only [r4', r5] | linarith only [r5']
        have a2 : (33 / 20 : K) ≤ |v| := by first | linarith only [r0] | linarith only [r0', r1] | linarith only [r1', r2] | linarith only [r2', r3] | linarith only [r3', r4] | linarith only [r4', r5] | linarith only [r5']
        have a3 : (129 / 100 : K) ≤ |v| := by first | linarith only [r0] | linarith only [r0', r1] | linarith only [r1', r2] | linarith only [r2', r3] | linarith only [r3', r4] | linarith only [r4', r5] | linarith only [r5']
        have a4 : ¬ ((129 / 50 : K) < |v|) := not_lt.mpr (by first | linarith only [r0] | linarith only [r0', r1] | linarith only [r1', r2] | linarith only [r2', r3] | linarith only [r3', r4] | linarith only [r4', r5] | linarith only [r5'])
        have a5 : (49 / 25 : K) < |v| := by first | linarith only [r0] | linarith only [r0', r1] | linarith only [r1', r2] | linarith only [r2', r3] | linarith only [r3', r4] | linarith only [r4', r5] | linarith only [r5']
        have a6 : (33 / 20 : K) < |v| := by first | linarith only [r0] | linarith only [r0', r1] | linarith only [r1', r2] | linarith only [r2', r3] | linarith only [r3', r4] | linarith only [r4', r5] | linarith only [r5']
        ksimp [hotspotClass, hotspots_cpu, hotspotSpec, confidence, hv, s1, a1, a2, a3, a4, a5, a6, n1, n2, n3, n4, n5, n6, n7, n8, n9, n10, n11, n12]
      · by_cases r2 : (49 / 25 : K) < |v|
        · have r0' := not_lt.mp r0
          have r1' := not_le.mp r1
          have a1 : ¬ ((233 / 100 : K) ≤ |v|) := not_le.mpr (by first | linarith only [r0] | linarith only [r0', r1] | linarith only [r1', r2] | linarith only [r2', r3] | linarith only [r3', r4] | linarith only [r4', r5] | linarith only [r5'])
          have a2 : (33 / 20 : K) ≤ |v| := by first | linarith only [r0] | linarith only [r0', r1] | linarith only [r1', r2] | linarith only [r2', r3] | linarith only [r3', r4] | linarith only [r4', r5] | linarith only [r5']
          have a3 : (129 / 100 : K) ≤ |v| := by first | linarith only [r0] | linarith only [r0', r1] | linarith only [r1', r2] | linarith only [r2', r3] | linarith only [r3', r4] | linarith only [r4', r5] | linarith only [r5']
          have a4 : ¬ ((129 / 50 : K) < |v|) := not_lt.mpr (by first | linarith only [r0] | linarith only [r0', r1] | linarith only [r1', r2] | linarith only [r2', r3] | linarith only [r3', r4] | linarith only [r4', r5] | linarith only [r5'])
          have a5 : (49 / 25 : K) < |v| := by first | linarith only [r0] | linarith only [r0', r1] | linarith only [r1', r2] | linarith only [r2', r3] | linarith only [r3', r4] | linarith only [r4', r5] | linarith only [r5']
          have a6 : (33 / 20 : K) < |v| := by first | linarith only [r0] | linarith only [r0', r1] | linarith only [r1', r2] | linarith only [r2', r3] | linarith only [r3', r4] | linarith only [r4', r5] | linarith only [r5']
          ksimp [hotspotClass, hotspots_cpu, hotspotSpec, confidence, hv, s1, a1, a2, a3, a4, a5, a6, n1, n2, n3, n4, n5, n6, n7, n8, n9, n10, n11, n12]
        · by_cases r3 : (33 / 20 : K) < |v|
          · have r0' := not_lt.mp r0
            have r1' := not_le.mp r1
            have r2' := not_lt.mp r2
            have a1 : ¬ ((233 / 100 : K) ≤ |v|) := not_le.mpr (by first | linarith only [r0] | linarith only [r0', r1] | linarith only [r1', r2] | linarith only [r2', r3] | linarith only [r3', r4] | linarith only [r4', r5] | linarith only [r5'])
            have a2 : (33 / 20 : K) ≤ |v| := by first | linarith only [r0] | linarith only [r0', r1] | linarith only [r1', r2] | linarith only [r2', r3] | linarith only [r3', r4] | linarith only [r4', r5] | linarith only [r5']
            have a3 : (129 / 100 : K) ≤ |v| := by first | linarith only [r0] | linarith only [r0', r1] | linarith only [r1', r2] | linarith only [r2', r3] | linarith only [r3', r4] | linarith only [r4', r5] | linarith only [r5']
            have a4 : ¬ ((129 / 50 : K) < |v|) := not_lt.mpr (by first | linarith only [r0] | linarith only [r0', r1] | linarith only [r1', r2] | linarith only [r2', r3] | linarith only [r3', r4] | linarith only [r4', r5] | linarith only [r5'])
            have a5 : ¬ ((49 / 25 : K) < |v|) := not_lt.mpr (by first | linarith only [r0] | linarith only [r0', r1] | linarith only [r1', r2] | linarith only [r2', r3] | linarith only [r3', r4] | linarith only [r4', r5] | linarith only [r5'])
            have a6 : (33 / 20 : K) < |v| := by first | linarith only [r0] | linarith only [r0', r1] | linarith only [r1', r2] | linarith only [r2', r3] | linarith only [r3', r4] | linarith only [r4', r5] | linarith only [r5']
            ksimp [hotspotClass, hotspots_cpu, hotspotSpec, confidence, hv, s1, a1, a2, a3, a4, a5, a6, n1, n2, n3, n4, n5, n6, n7, n8, n9, n10, n11, n12]
          · by_cases r4 : (33 / 20 : K) ≤ |v|
            · have r0' := not_lt.mp r0
              have r1' := not_le.mp r1
              have r2' := not_lt.mp r2
              have r3' := not_lt.mp r3
              have a1 : ¬ ((233 / 100 : K) ≤ |v|) := not_le.mpr (by first | linarith only [r0] | linarith only [r0', r1] | linarith only [r1', r2] | linarith only [r2', r3] | linarith only [r3', r4] | linarith only [r4', r5] | linarith only [r5'])
              have a2 : (33 / 20 : K) ≤ |v| := by first | linarith only [r0] | linarith only [r0', r1] | linarith only [r1', r2] | linarith only [r2', r3] | linarith only [r3', r4] | linarith only [r4', r5] | linarith only [r5']
              have a3 : (129 / 100 : K) ≤ |v| := by first | linarith only [r0] | linarith only [r0', r1] | linarith only [r1', r2] | linarith only [r2', r3] | linarith only [r3', r4] | linarith only [r4', r5] | linarith only [r5']
              have a4 : ¬ ((129 / 50 : K) < |v|) := not_lt.mpr (by first | linarith only [r0] | linarith only [r0', r1] | linarith only [r1', r2] | linarith only [r2', r3] | linarith only [r3', r4] | linarith only [r4', r5] | linarith only [r5'])
              have a5 : ¬ ((49 / 25 : K) < |v|) := not_lt.mpr (by first | linarith only [r0] | linarith only [r0', r1] | linarith only [r1', r2] | linarith only [r2', r3] | linarith only [r3', r4] | linarith only [r4', r5] | linarith only [r5'])
              have a6 : ¬ ((33 / 20 : K) < |v|) := not_lt.mpr (by first | linarith only [r0] | linarith only [r0', r1] | linarith only [r1', r2] | linarith only [r2', r3] | linarith only [r3', r4] | linarith only [r4', r5] | linarith only [r5'])
              ksimp [hotspotClass, hotspots_cpu, hotspotSpec, confidence, hv, s1, a1, a2, a3, a4, a5, a6, n1, n2, n3, n4, n5, n6, n7, n8, n9, n10, n11, n12]
            · by_cases r5 : (129 / 100 : K) ≤ |v|
              · have r0' := not_lt.mp r0
                have r1' := not_le.mp r1
                have r2' := not_lt.mp r2
                have r3' := not_lt.mp r3
                have r4' := not_le.mp r4
                have a1 : ¬ ((233 / 100 : K) ≤ |v|) := not_le.mpr (by first | linarith only [r0] | linarith only [r0', r1] | linarith only [r1', r2] | linarith only [r2', r3] | linarith only [r3', r4] | linarith only [r4', r5] | linarith only [r5'])
                have a2 : ¬ ((33 / 20 : K) ≤ |v|) := not_le.mpr (by first | linarith only [r0] | linarith only [r0', r1] | linarith only [r1', r2] | linarith only [r2', r3] | linarith only [r3', r4] | linarith only [r4', r5] | linarith only [r5'])
                have a3 : (129 / 100 : K) ≤ |v| := by first | linarith only [r0] | linarith only [r0', r1] | linarith only [r1', r2] | linarith only [r2', r3] | linarith only [r3', r4] | linarith only [r4', r5] | linarith only [r5']
                have a4 : ¬ ((129 / 50 : K) < |v|) := not_lt.mpr (by first | linarith only [r0] | linarith only [r0', r1] | linarith only [r1', r2] | linarith only [r2', r3] | linarith only [r3', r4] | linarith only [r4', r5] | linarith only [r5'])
                have a5 : ¬ ((49 / 25 : K) < |v|) := not_lt.mpr (by first | linarith only [r0] | linarith only [r0', r1] | linarith only [r1', r2] | linarith only [r2', r3] | linarith only [r3', r4] | linarith only [r4', r5] | linarith only [r5'])
                have a6 : ¬ ((33 / 20 : K) < |v|) := not_lt.mpr (by first | linarith only [r0] | linarith only [r0', r1] | linarith only [r1', r2] | linarith only [r2', r3] | linarith only [r3', r4] | linarith only [r4', r5] | linarith only [r5'])
                ksimp [hotspotClass, hotspots_cpu, hotspotSpec, confidence, hv, s1, a1, a2, a3, a4, a5, a6, n1, n2, n3, n4, n5, n6, n7, n8, n9, n10, n11, n12]
              · have r0' := not_lt.mp r0
                have r1' := not_le.mp r1
                have r2' := not_lt.mp r2
                have r3' := not_lt.mp r3
                have r4' := not_le.mp r4
                have r5' := not_le.mp r5
                have a1 : ¬ ((233 / 100 : K) ≤ |v|) := not_le.mpr (by first | linarith only [r0] | linarith only [r0', r1] | linarith only [r1', r2] | linarith only [r2', r3] | linarith only [r3', r4] | linarith only [r4', r5] | linarith only [r5'])
                have a2 : ¬ ((33 / 20 : K) ≤ |v|) := not_le.mpr (by first | linarith only [r0] | linarith only [r0', r1] | linarith only [r1', r2] | linarith only [r2', r3] | linarith only [r3', r4] | linarith only [r4', r5] | linarith only [r5'])
                have a3 : ¬ ((129 / 100 : K) ≤ |v|) := not_le.mpr (by first | linarith only [r0] | linarith only [r0', r1] | linarith only [r1', r2] | linarith only [r2', r3] | linarith only [r3', r4] | linarith only [r4', r5] | linarith only [r5'])
                have a4 : ¬ ((129 / 50 : K) < |v|) := not_lt.mpr (by first | linarith only [r0] | linarith only [r0', r1] | linarith only [r1', r2] | linarith only [r2', r3] | linarith only [r3', r4] | linarith only [r4', r5] | linarith only [r5'])
                have a5 : ¬ ((49 / 25 : K) < |v|) := not_lt.mpr (by first | linarith only [r0] | linarith only [r0', r1] | linarith only [r1', r2] | linarith only [r2', r3] | linarith only [r3', r4] | linarith only [r4', r5] | linarith only [r5'])
                have a6 : ¬ ((33 / 20 : K) < |v|) := not_lt.mpr (by first | linarith only [r0] | linarith only [r0', r1] | linarith only [r1', r2] | linarith only [r2', r3] | linarith only [r3', r4] | linarith only [r4', r5] | linarith only [r5'])
                ksimp [hotspotClass, hotspots_cpu, hotspotSpec, confidence, hv, s1, a1, a2, a3, a4, a5, a6, n1, n2, n3, n4, n5, n6, n7, n8, n9, n10, n11, n12]
  · subst hv
    have za1 : ¬ ((233 / 100 : K) ≤ 0) := by norm_num
    have za2 : ¬ ((33 / 20 : K) ≤ 0) := by norm_num
    have za3 : ¬ ((129 / 100 : K) ≤ 0) := by norm_num
    have za4 : ¬ ((129 / 50 : K) < 0) := by norm_num
    have za5 : ¬ ((49 / 25 : K) < 0) := by norm_num
    have za6 : ¬ ((33 / 20 : K) < 0) := by norm_num
    ksimp [hotspotClass, hotspots_cpu, hotspotSpec, confidence, za1, za2, za3, za4, za5, za6, n1, n2, n3, n4, n5, n6, n7, n8, n9, n10, n11, n12]
  · have s1 : ¬ (v < 0) := not_lt.mpr (le_of_lt hv)
    by_cases r0 : (129 / 50 : K) < |v|
    · have a1 : (233 / 100 : K) ≤ |v| := by first | linarith only [r0] | linarith only [r0', r1] | linarith only [r1', r2] | linarith only [r2', r3] | linarith only [r3', r4] | linarith only [r4', r5] | linarith only [r5']
      have a2 : (33 / 20 : K) ≤ |v| := by first | linarith only [r0] | linarith only [r0', r1] | linarith only [r1', r2] | linarith only [r2', r3] | linarith only [r3', r4] | linarith only [r4', r5] | linarith only [r5']
      have a3 : (129 / 100 : K) ≤ |v| := by first | linarith only [r0] | linarith only [r0', r1] | linarith only [r1', r2] | linarith only [r2', r3] | linarith only [r3', r4] | linarith only [r4', r5] | linarith only [r5']
      have a4 : (129 / 50 : K) < |v| := by first | linarith only [r0] | linarith only [r0', r1] | linarith only [r1', r2] | linarith only [r2', r3] | linarith only [r3', r4] | linarith only [r4', r5] | linarith only [r5']
      have a5 : (49 / 25 : K) < |v| := by first | linarith only [r0] | linarith only [r0', r1] | linarith only [r1', r2] | linarith only [r2', r3] | linarith only [r3', r4] | linarith only [r4', r5] | linarith only [r5']
      have a6 : (33 / 20 : K) < |v| := by first | linarith only [r0] | linarith only [r0', r1] | linarith only [r1', r2] | linarith only [r2', r3] | linarith only [r3', r4] | linarith only [r4', r5] | linarith only [r5']
      ksimp [hotspotClass, hotspots_cpu, hotspotSpec, confidence, hv, s1, a1, a2, a3, a4, a5, a6, n1, n2, n3, n4, n5, n6, n7, n8, n9, n10, n11, n12]
    · by_cases r1 : (233 / 100 : K) ≤ |v|
      · have r0' := not_lt.mp r0
        have a1 : (233 / 100 : K) ≤ |v| := by first | linarith only [r0] | linarith only [r0', r1] | linarith only [r1', r2] | linarith only [r2', r3] | linarith only [r3', r4] | linarith only [r4', r5] | linarith only [r5']
        have a2 : (33 / 20 : K) ≤ |v| := by first | linarith only [r0] | linarith only [r0', r1] | linarith only [r1', r2] | linarith only [r2', r3] | linarith only [r3', r4] | linarith only [r4', r5] | linarith only [r5']
        have a3 : (129 / 100 : K) ≤ |v| := by first | linarith only [r0] | linarith only [r0', r1] | linarith only [r1', r2] | linarith only [r2', r3] | linarith only [r3', r4] | linarith only [r4', r5] | linarith only [r5']
        have a4 : ¬ ((129 / 50 : K) < |v|) := not_lt.mpr (by first | linarith only [r0] | linarith only [r0', r1] | linarith only [r1', r2] | linarith only [r2', r3] | linarith only [r3', r4] | linarith only [r4', r5] | linarith only [r5'])
        have a5 : (49 / 25 : K) < |v| := by first | linarith only [r0] | linarith only [r0', r1] | linarith only [r1', r2] | linarith only [r2', r3] | linarith only [r3', r4] | linarith only [r4', r5] | linarith only [r5']
        have a6 : (33 / 20 : K) < |v| := by first | linarith only [r0] | linarith only [r0', r1] | linarith only [r1', r2] | linarith only [r2', r3] | linarith only [r3', r4] | linarith only [r4', r5] | linarith only [r5']
        ksimp [hotspotClass, hotspots_cpu, hotspotSpec, confidence, hv, s1, a1, a2, a3, a4, a5, a6, n1, n2, n3, n4, n5, n6, n7, n8, n9, n10, n11, n12]
      · by_cases r2 : (49 / 25 : K) < |v|
        · have r0' := not_lt.mp r0
          have r1' := not_le.mp r1
          have a1 : ¬ ((233 / 100 : K) ≤ |v|) := not_le.mpr (by first | linarith only [r0] | linarith only [r0', r1] | linarith only [r1', r2] | linarith only [r2', r3] | linarith only [r3', r4] | linarith only [r4', r5] | linarith only [r5'])
          have a2 : (33 / 20 : K) ≤ |v| := by first | linarith only [r0] | linarith only [r0', r1] | linarith only [r1', r2] | linarith only [r2', r3] | linarith only [r3', r4] | linarith only [r4', r5] | linarith only [r5']
          have a3 : (129 / 100 : K) ≤ |v| := by first | linarith only [r0] | linarith only [r0', r1] | linarith only [r1', r2] | linarith only [r2', r3] | linarith only [r3', r4] | linarith only [r4', r5] | linarith only [r5']
          have a4 : ¬ ((129 / 50 : K) < |v|) := not_lt.mpr (by first | linarith only [r0] | linarith only [r0', r1] | linarith only [r1', r2] | linarith only [r2', r3] | linarith only [r3', r4] | linarith only [r4', r5] | linarith only [r5'])
          have a5 : (49 / 25 : K) < |v| := by first | linarith only [r0] | linarith only [r0', r1] | linarith only [r1', r2] | linarith only [r2', r3] | linarith only [r3', r4] | linarith only [r4', r5] | linarith only [r5']
          have a6 : (33 / 20 : K) < |v| := by first | linarith only [r0] | linarith only [r0', r1] | linarith only [r1', r2] | linarith only [r2', r3] | linarith only [r3', r4] | linarith only [r4', r5] | linarith only [r5']
          ksimp [hotspotClass, hotspots_cpu, hotspotSpec, confidence, hv, s1, a1, a2, a3, a4, a5, a6, n1, n2, n3, n4, n5, n6, n7, n8, n9, n10, n11, n12]
        · by_cases r3 : (33 / 20 : K) < |v|
          · have r0' := not_lt.mp r0
            have r1' := not_le.mp r1
            have r2' := not_lt.mp r2
            have a1 : ¬ ((233 / 100 : K) ≤ |v|) := not_le.mpr (by first | linarith only [r0] | linarith only [r0', r1] | linarith only [r1', r2] | linarith only [r2', r3] | linarith only [r3', r4] | linarith only [r4', r5] | linarith only [r5'])
            have a2 : (33 / 20 : K) ≤ |v| := by first | linarith only [r0] | linarith only [r0', r1] | linarith only [r1', r2] | linarith only [r2', r3] | linarith only [r3', r4] | linarith only [r4', r5] | linarith only [r5']
            have a3 : (129 / 100 : K) ≤ |v| := by first | linarith only [r0] | linarith only [r0', r1] | linarith only [r1', r2] | linarith only [r2', r3] | linarith only [r3', r4] | linarith only [r4', r5] | linarith only [r5']
            have a4 : ¬ ((129 / 50 : K) < |v|) := not_lt.mpr (by first | linarith only [r0] | linarith only [r0', r1] | linarith only [r1', r2] | linarith only [r2', r3] | linarith only [r3', r4] | linarith only [r4', r5] | linarith only [r5'])
            have a5 : ¬ ((49 / 25 : K) < |v|) := not_lt.mpr (by first | linarith only [r0] | linarith only [r0', r1] | linarith only [r1', r2] | linarith only [r2', r3] | linarith only [r3', r4] | linarith only [r4', r5] | linarith only [r5'])
            have a6 : (33 / 20 : K) < |v| := by first | linarith only [r0] | linarith only [r0', r1] | linarith only [r1', r2] | linarith only [r2', r3] | linarith only [r3', r4] | linarith only [r4', r5] | linarith only [r5']
            ksimp [hotspotClass, hotspots_cpu, hotspotSpec, confidence, hv, s1, a1, a2, a3, a4, a5, a6, n1, n2, n3, n4, n5, n6, n7, n8, n9, n10, n11, n12]
          · by_cases r4 : (33 / 20 : K) ≤ |v|
            · have r0' := not_lt.mp r0
              have r1' := not_le.mp r1
              have r2' := not_lt.mp r2
              have r3' := not_lt.mp r3
              have a1 : ¬ ((233 / 100 : K) ≤ |v|) := not_le.mpr (by first | linarith only [r0] | linarith only [r0', r1] | linarith only [r1', r2] | linarith only [r2', r3] | linarith only [r3', r4] | linarith only [r4', r5] | linarith only [r5'])
              have a2 : (33 / 20 : K) ≤ |v| := by first | linarith only [r0] | linarith only [r0', r1] | linarith only [r1', r2] | linarith only [r2', r3] | linarith only [r3', r4] | linarith only [r4', r5] | linarith only [r5']
              have a3 : (129 / 100 : K) ≤ |v| := by first | linarith only [r0] | linarith only [r0', r1] | linarith only [r1', r2] | linarith only [r2', r3] | linarith only [r3', r4] | linarith only [r4', r5] | linarith only [r5']
              have a4 : ¬ ((129 / 50 : K) < |v|) := not_lt.mpr (by first | linarith only [r0] | linarith only [r0', r1] | linarith only [r1', r2] | linarith only [r2', r3] | linarith only [r3', r4] | linarith only [r4', r5] | linarith only [r5'])
              have a5 : ¬ ((49 / 25 : K) < |v|) := not_lt.mpr (by first | linarith only [r0] | linarith only [r0', r1] | linarith only [r1', r2] | linarith only [r2', r3] | linarith only [r3', r4] | linarith only [r4', r5] | linarith only [r5'])
              have a6 : ¬ ((33 / 20 : K) < |v|) := not_lt.mpr (by first | linarith only [r0] | linarith only [r0', r1] | linarith only [r1', r2] | linarith only [r2', r3] | linarith only [r3', r4] | linarith only [r4', r5] | linarith only [r5'])
              ksimp [hotspotClass, hotspots_cpu, hotspotSpec, confidence, hv, s1, a1, a2, a3, a4, a5, a6, n1, n2, n3, n4, n5, n6, n7, n8, n9, n10, n11, n12]
            · by_cases r5 : (129 / 100 : K) ≤ |v|
              · have r0' := not_lt.mp r0
                have r1' := not_le.mp r1
                have r2' := not_lt.mp r2
                have r3' := not_lt.mp r3
                have r4' := not_le.mp r4
                have a1 : ¬ ((233 / 100 : K) ≤ |v|) := not_le.mpr (by first | linarith only [r0] | linarith only [r0', r1] | linarith only [r1', r2] | linarith only [r2', r3] | linarith only [r3', r4] | linarith only [r4', r5] | linarith only [r5'])
                have a2 : ¬ ((33 / 20 : K) ≤ |v|) := not_le.mpr (by first | linarith only [r0] | linarith only [r0', r1] | linarith only [r1', r2] | linarith only [r2', r3] | linarith only [r3', r4] | linarith only [r4', r5] | linarith only [r5'])
                have a3 : (129 / 100 : K) ≤ |v| := by first | linarith only [r0] | linarith only [r0', r1] | linarith only [r1', r2] | linarith only [r2', r3] | linarith only [r3', r4] | linarith only [r4', r5] | linarith only [r5']
                have a4 : ¬ ((129 / 50 : K) < |v|) := not_lt.mpr (by first | linarith only [r0] | linarith only [r0', r1] | linarith only [r1', r2] | linarith only [r2', r3] | linarith only [r3', r4] | linarith only [r4', r5] | linarith only [r5'])
                have a5 : ¬ ((49 / 25 : K) < |v|) := not_lt.mpr (by first | linarith only [r0] | linarith only [r0', r1] | linarith only [r1', r2] | linarith only [r2', r3] | linarith only [r3', r4] | linarith only [r4', r5] | linarith only [r5'])
                have a6 : ¬ ((33 / 20 : K) < |v|) := not_lt.mpr (by first | linarith only [r0] | linarith only [r0', r1] | linarith only [r1', r2] | linarith only [r2', r3] | linarith only [r3', r4] | linarith only [r4', r5] | linarith only [r5'])
                ksimp [hotspotClass, hotspots_cpu, hotspotSpec, confidence, hv, s1, a1, a2, a3, a4, a5, a6, n1, n2, n3, n4, n5, n6, n7, n8, n9, n10, n11, n12]
              · have r0' := not_lt.mp r0
                have r1' := not_le.mp r1
                have r2' := not_lt.mp r2
                have r3' := not_lt.mp r3
                have r4' := not_le.mp r4
                have r5' := not_le.mp r5
                have a1 : ¬ ((233 / 100 : K) ≤ |v|) := not_le.mpr (by first | linarith only [r0] | linarith only [r0', r1] | linarith only [r1', r2] | linarith only [r2', r3] | linarith only [r3', r4] | linarith only [r4', r5] | linarith only [r5'])
                have a2 : ¬ ((33 / 20 : K) ≤ |v|) := not_le.mpr (by first | linarith only [r0] | linarith only [r0', r1] | linarith only [r1', r2] | linarith only [r2', r3] | linarith only [r3', r4] | linarith only [r4', r5] | linarith only [r5'])
                have a3 : ¬ ((129 / 100 : K) ≤ |v|) := not_le.mpr (by first | linarith only [r0] | linarith only [r0', r1] | linarith only [r1', r2] | linarith only [r2', r3] | linarith only [r3', r4] | linarith only [r4', r5] | linarith only [r5'])
                have a4 : ¬ ((129 / 50 : K) < |v|) := not_lt.mpr (by first | linarith only [r0] | linarith only [r0', r1] | linarith only [r1', r2] | linarith only [r2', r3] | linarith only [r3', r4] | linarith only [r4', r5] | linarith only [r5'])
                have a5 : ¬ ((49 / 25 : K) < |v|) := not_lt.mpr (by first | linarith only [r0] | linarith only [r0', r1] | linarith only [r1', r2] | linarith only [r2', r3] | linarith only [r3', r4] | linarith only [r4', r5] | linarith only [r5'])
                have a6 : ¬ ((33 / 20 : K) < |v|) := not_lt.mpr (by first | linarith only [r0] | linarith only [r0', r1] | linarith only [r1', r2] | linarith only [r2', r3] | linarith only [r3', r4] | linarith only [r4', r5] | linarith only [r5'])
                ksimp [hotspotClass, hotspots_cpu, hotspotSpec, confidence, hv, s1, a1, a2, a3, a4, a5, a6, n1, n2, n3, n4, n5, n6, n7, n8, n9, n10, n11, n12]
end XrsVerif.Focal
