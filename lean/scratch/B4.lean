import XrsVerif.Model.Bin
import Mathlib.Order.Basic
import Mathlib.Order.Defs.LinearOrder
import Mathlib.Tactic.Ring
import Mathlib.Tactic.Linarith
import Mathlib.Tactic.FieldSimp
import Mathlib.Algebra.Order.Field.Basic
import Mathlib.Algebra.Order.Floor.Defs
import Mathlib.Data.Rat.Floor
namespace XrsVerif.Bin

#check @Rat.floor
#check @Rat.floor_intCast
example (k : Nat) : ceilQ (k : Rat) = k := by
  unfold ceilQ
  have : (-(k : Rat)) = ((-(k : Int) : Int) : Rat) := by push_cast; ring
  rw [this, Rat.floor_intCast]; omega

variable {α : Type} [LinearOrder α]
theorem insertU_mem (x a : α) (l : List α) : a ∈ insertU x l ↔ a = x ∨ a ∈ l := by
  induction l with
  | nil => simp [insertU]
  | cons y ys ih =>
    unfold insertU
    split
    · simp
    · split
      · simp [ih]; tauto
      · have : x = y := by rename_i h1 h2; exact le_antisymm (not_lt.mp h2) (not_lt.mp h1)
        subst this; simp
theorem insertU_sorted (x : α) (l : List α) (h : l.Pairwise (· < ·)) : (insertU x l).Pairwise (· < ·) := by
  induction l with
  | nil => simp [insertU]
  | cons y ys ih =>
    unfold insertU
    rw [List.pairwise_cons] at h
    split
    · rename_i hxy
      rw [List.pairwise_cons]
      refine ⟨?_, List.pairwise_cons.mpr h⟩
      intro a ha
      rcases List.mem_cons.mp ha with rfl | ha
      · exact hxy
      · exact lt_trans hxy (h.1 a ha)
    · split
      · rename_i h1 h2
        rw [List.pairwise_cons]
        refine ⟨?_, ih h.2⟩
        intro a ha
        rcases (insertU_mem x a ys).mp ha with rfl | ha
        · exact h2
        · exact h.1 a ha
      · exact List.pairwise_cons.mpr h
theorem uniq_sorted (l : List α) : (uniq l).Pairwise (· < ·) := by
  induction l with
  | nil => simp [uniq]
  | cons x xs ih => exact insertU_sorted x _ ih
theorem mem_uniq (a : α) (l : List α) : a ∈ uniq l ↔ a ∈ l := by
  induction l with
  | nil => simp [uniq]
  | cons x xs ih =>
    show a ∈ insertU x (uniq xs) ↔ _
    rw [insertU_mem, ih]; simp
theorem insertU_length (x : α) (l : List α) : (insertU x l).length ≤ l.length + 1 := by
  induction l with
  | nil => simp [insertU]
  | cons y ys ih => unfold insertU; split <;> [simp; (split <;> simp <;> omega)]
theorem uniq_length (l : List α) : (uniq l).length ≤ l.length := by
  induction l with
  | nil => simp [uniq]
  | cons x xs ih =>
    show (insertU x (uniq xs)).length ≤ _
    have := insertU_length x (uniq xs); simp; omega
end XrsVerif.Bin
