#check @List.mergeSort
#check @List.sorted_mergeSort
#check @List.pairwise_mergeSort
#check @List.mergeSort_perm
#check @List.Perm.countP_eq
#check @List.find?_eq_some_iff_append
#check @List.pairwise_lt_range
#check @List.pairwise_reverse
#check @List.idxOf_lt_length_iff
#check @List.not_of_lt_findIdx
#check @List.findIdx_getElem
#check @List.getElem_idxOf
#check @Rat.le_total
#check @Rat.lt_irrefl
#check @Rat.not_le
#check @Rat.not_lt
#check @Rat.le_antisymm
#check @Rat.lt_trichotomy
#check @List.eraseDups_cons
#check @List.zipIdx
#check @List.foldl_append
example (a b : Rat) : a < b ∨ a = b ∨ b < a := by grind
example (a b c : Rat) (h : a ≤ b) (h2 : b ≤ c) : a ≤ c := by grind
example (a b : Rat) (h : ¬ a < b) : b ≤ a := by grind
example (a b : Rat) : (a + b) / 2 * 2 = a + b := by grind
