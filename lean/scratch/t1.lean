example : "meter".toList = ['m','e','t','e','r'] := by decide
example : "meter".toList = ['m','e','t','e','r'] := rfl
example : ("meter".toList == ['m','e','t','e','r']) = true := by decide
example : ([("meter", 1), ("km", 1000)].find? (fun e => e.1.toList == ['k','m'])) = some ("km", 1000) := by decide
example : "meter" ≠ "km" := by decide
#eval (5 : Rat) / 3
#eval Int.tdiv (-7) 2
#eval Int.fdiv (-7) 2
#eval (7/2 : Rat).floor
example : ((381 : Rat) / 1250) * 3 = 1143 / 1250 := by decide +kernel
