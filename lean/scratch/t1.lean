import XrsVerif.Model.Proximity
namespace XrsVerif.Prox

theorem getD_set_eq {α} (l : List α) (p : Nat) (v d : α) (h : p < l.length) : (l.set p v).getD p d = v := by
  simp [List.getD, h]

theorem getD_set_ne {α} (l : List α) (p q : Nat) (v d : α) (h : p ≠ q) : (l.set p v).getD q d = l.getD q d := by
  simp [List.getD, List.getElem?_set_ne h]

theorem getD_replicate_none {α} (n p : Nat) : (List.replicate n (none : Option α)).getD p none = none := by
  simp [List.getD, List.getElem?_replicate]
  
theorem getD_default_irrel {α} (l : List α) (i : Nat) (d1 d2 : α) (h : i < l.length) : l.getD i d1 = l.getD i d2 := by
  simp [List.getD, h]

#check @List.getElem?_zipWith
end XrsVerif.Prox
