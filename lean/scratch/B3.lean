import XrsVerif.Model.Bin
import Mathlib.Order.Basic
import Mathlib.Order.Defs.LinearOrder
namespace XrsVerif.Bin

theorem searchP_first (below atMost : Int → Bool) (n : Nat) (hn : 1 ≤ n)
    (htot : ∀ i : Int, 0 ≤ i → i < n → below i = !atMost i)
    (hmono : ∀ i : Int, 0 ≤ i → i + 1 < n → atMost i = true → atMost (i + 1) = true) :
    (searchP below atMost n = -1 ∧ ∀ i : Int, 0 ≤ i → i < n → atMost i = false) ∨
    (0 ≤ searchP below atMost n ∧ searchP below atMost n < n ∧ atMost (searchP below atMost n) = true ∧
      ∀ i : Int, 0 ≤ i → i < searchP below atMost n → atMost i = false) := by sorry

variable {α : Type}

theorem getW_nat (d : α) (l : List α) (i : Nat) (h : i < l.length) : getW d l (i : Int) = l[i] := by
  unfold getW
  have h1 : ¬ ((i : Int) < 0) := by omega
  simp only [h1, if_false]
  have h2 : (0 : Int) ≤ (i : Int) := by omega
  simp only [h2, if_true, Int.toNat_natCast]
  simp [List.getD_eq_getElem?_getD, h]

theorem getW_int (d : α) (l : List α) (i : Int) (h0 : 0 ≤ i) (h : i < l.length) :
    getW d l i = l[i.toNat]'(by omega) := by
  have := getW_nat d l i.toNat (by omega)
  rw [show ((i.toNat : Nat) : Int) = i by omega] at this
  exact this

variable [LinearOrder α]

def ltB (a b : α) : Bool := decide (a < b)
def leB (a b : α) : Bool := decide (a ≤ b)

/-- the first bin whose upper bound is ≥ v -/
def firstGE (bins : List α) (v : α) : Option Nat := bins.findIdx? (fun b => decide (v ≤ b))

theorem search_eq_firstGE (d v : α) (bins : List α) (hne : bins ≠ [])
    (hs : bins.Pairwise (· ≤ ·)) :
    search ltB leB d bins v = match firstGE bins v with | some i => (i : Int) | none => -1 := by
  have hn : 1 ≤ bins.length := by
    cases bins with
    | nil => exact absurd rfl hne
    | cons => simp
  have hs' := List.pairwise_iff_getElem.mp hs
  have htot : ∀ i : Int, 0 ≤ i → i < bins.length →
      (fun i => ltB (getW d bins i) v) i = !(fun i => leB v (getW d bins i)) i := by
    intro i h0 h1
    simp only [ltB, leB]
    by_cases h : v ≤ getW d bins i
    · simp [h, not_lt.mpr h]
    · simp [h, not_le.mp h]
  have hmono : ∀ i : Int, 0 ≤ i → i + 1 < bins.length →
      (fun i => leB v (getW d bins i)) i = true → (fun i => leB v (getW d bins i)) (i + 1) = true := by
    intro i h0 h1 h
    simp only [leB, decide_eq_true_eq] at h ⊢
    rw [getW_int d bins i h0 (by omega)] at h
    rw [getW_int d bins (i + 1) (by omega) h1]
    exact le_trans h (hs' _ _ _ _ (by omega))
  unfold search
  rcases searchP_first _ _ bins.length hn htot hmono with ⟨h1, h2⟩ | ⟨h1, h2, h3, h4⟩
  · rw [h1]
    have : firstGE bins v = none := by
      unfold firstGE
      rw [List.findIdx?_eq_none_iff]
      intro x hx
      obtain ⟨i, hi, rfl⟩ := List.getElem_of_mem hx
      have := h2 i (by omega) (by omega)
      simp only [leB, getW_nat d bins i hi] at this
      exact this
    rw [this]
  · generalize searchP (fun i => ltB (getW d bins i) v) (fun i => leB v (getW d bins i)) bins.length = r at *
    have : firstGE bins v = some r.toNat := by
      unfold firstGE
      rw [List.findIdx?_eq_some_iff_getElem]
      refine ⟨by omega, ?_, ?_⟩
      · simp only [leB, getW_int d bins r h1 h2] at h3; exact h3
      · intro j hj
        have := h4 j (by omega) (by omega)
        simp only [leB, getW_nat d bins j (by omega)] at this
        simpa using this
    rw [this]
    simp only
    omega
end XrsVerif.Bin
