import XrsVerif.Proofs.Bin
namespace XrsVerif.Bin

theorem classOf_nonfinite (bs : List Rat) (v : Ext Rat) (hv : v.isFinite = false) : classOf bs v = .nan := by
  cases v <;> simp_all [classOf, Ext.isFinite]

theorem classOf_fin (bs : List Rat) (x : Rat) (i : Nat) :
    classOf bs (.fin x) = .fin (i : Rat) ↔ firstGE bs x = some i := by
  simp only [classOf]
  cases h : firstGE bs x with
  | none => simp
  | some j =>
    simp only [Ext.fin.injEq, Option.some.injEq]
    constructor
    · intro h'; exact_mod_cast h'
    · intro h'; rw [h']

theorem classOf_cases (bs : List Rat) (x : Rat) :
    classOf bs (.fin x) = .nan ∨ ∃ i : Nat, i < bs.length ∧ classOf bs (.fin x) = .fin (i : Rat) := by
  simp only [classOf]
  cases h : firstGE bs x with
  | none => left; rfl
  | some j => right; exact ⟨j, firstGE_lt_length bs x j h, rfl⟩

/-- every finite value not above some bin is classified, with a class in `[0, len-1]` -/
theorem classOf_classified (bs : List Rat) (x b : Rat) (hb : b ∈ bs) (hx : x ≤ b) :
    ∃ i : Nat, i < bs.length ∧ classOf bs (.fin x) = .fin (i : Rat) := by
  obtain ⟨i, hi⟩ := firstGE_isSome bs x b hb hx
  exact ⟨i, firstGE_lt_length bs x i hi, (classOf_fin bs x i).mpr hi⟩

/-- order preservation: a larger value never gets a smaller class -/
theorem classOf_mono (bs : List Rat) (x y : Rat) (hxy : x ≤ y) (j : Nat)
    (hy : classOf bs (.fin y) = .fin (j : Rat)) :
    ∃ i : Nat, i ≤ j ∧ classOf bs (.fin x) = .fin (i : Rat) := by
  obtain ⟨i, hi, hij⟩ := firstGE_mono bs x y hxy j ((classOf_fin bs y j).mp hy)
  exact ⟨i, hij, (classOf_fin bs x i).mpr hi⟩

/-- for ascending bins, class `i` is the band `bs[i-1] < x <= bs[i]` -/
theorem classOf_band (bs : List Rat) (hs : bs.Pairwise (· ≤ ·)) (x : Rat) (i : Nat) :
    classOf bs (.fin x) = .fin (i : Rat) ↔
      ∃ h : i < bs.length, x ≤ bs[i] ∧ (i = 0 ∨ ∃ h' : i - 1 < bs.length, bs[i - 1] < x) := by
  rw [classOf_fin, firstGE_some_iff_sorted bs x i hs]

/-- NaN for a finite value exactly when it lies above the last bin -/
theorem classOf_nan_iff (bs : List Rat) (hne : bs ≠ []) (hs : bs.Pairwise (· ≤ ·)) (x : Rat) :
    classOf bs (.fin x) = .nan ↔ bs.getLast hne < x := by
  rw [← firstGE_none_iff_last bs x hne hs]
  simp only [classOf]
  cases h : firstGE bs x <;> simp

theorem setLast_ne_nil {α : Type} (l : List α) (x : α) (h : l ≠ []) : setLast l x = l.dropLast ++ [x] := by
  unfold setLast
  split
  · exact absurd rfl h
  · rfl

theorem setLast_sorted (l : List Rat) (mx : Rat) (h : l ≠ []) (hs : l.Pairwise (· ≤ ·)) (hmx : ∀ a ∈ l, a ≤ mx) :
    (setLast l mx).Pairwise (· ≤ ·) ∧ (setLast l mx).length = l.length ∧
    (setLast l mx) ≠ [] ∧ mx ∈ setLast l mx ∧ ∀ hne, (setLast l mx).getLast hne = mx := by
  rw [setLast_ne_nil l mx h]
  refine ⟨?_, ?_, by simp, by simp, by simp⟩
  · rw [List.pairwise_append]
    refine ⟨List.Pairwise.sublist (List.dropLast_sublist l) hs, by simp, ?_⟩
    intro a ha b hb
    simp only [List.mem_singleton] at hb; subst hb
    exact hmx a ((List.dropLast_sublist l).subset ha)
  · simp
    have : 0 < l.length := List.length_pos_iff.mpr h
    omega
end XrsVerif.Bin
