import XrsVerif.Proofs.Jenks
namespace XrsVerif.Jenks
theorem cellVL_spec (x : Nat → Rat) (vprev : Nat → Rat) (l : Nat) (hl : 2 ≤ l) :
    (∀ i, 1 ≤ i → i < l → (cellVL x vprev l).1 ≤ ssd x i l + vprev i) ∧
    (2 ≤ (cellVL x vprev l).2 ∧ (cellVL x vprev l).2 ≤ l ∧
      (cellVL x vprev l).1 = ssd x ((cellVL x vprev l).2 - 1) l + vprev ((cellVL x vprev l).2 - 1)) := by sorry
theorem V_one (x : Nat → Rat) (n l : Nat) (h2 : 2 ≤ l) (hl : l ≤ n) : V x n 1 l = ssd x 0 l := by sorry
theorem V_at_one (x : Nat → Rat) (n j : Nat) (hn : 1 ≤ n) : V x n (j + 1) 1 = 0 := by sorry
theorem VL_succ (x : Nat → Rat) (n j l : Nat) (h2 : 2 ≤ l) (hl : l ≤ n) :
    V x n (j + 2) l = (cellVL x (V x n (j + 1)) l).1 ∧ L x n (j + 2) l = (cellVL x (V x n (j + 1)) l).2 := by sorry

/-- the recurrence of the dynamic programme -/
theorem recurrence (x : Nat → Rat) (n j l : Nat) (h2 : 2 ≤ l) (hl : l ≤ n) :
    (∀ i, 1 ≤ i → i < l → V x n (j + 2) l ≤ ssd x i l + V x n (j + 1) i) ∧
    2 ≤ L x n (j + 2) l ∧ L x n (j + 2) l ≤ l ∧
    V x n (j + 2) l = ssd x (L x n (j + 2) l - 1) l + V x n (j + 1) (L x n (j + 2) l - 1) := by
  obtain ⟨hV, hL⟩ := VL_succ x n j l h2 hl
  rw [hV, hL]
  obtain ⟨a, b, c, d⟩ := cellVL_spec x (V x n (j + 1)) l h2
  exact ⟨a, b, c, d⟩

/-- a partition of the first `l` elements into non-empty contiguous classes, given by the class sizes,
    last class first -/
def IsPartition (l : Nat) (sizes : List Nat) : Prop := (∀ s ∈ sizes, 1 ≤ s) ∧ sizes.sum = l

theorem V_single (x : Nat → Rat) (n j l : Nat) (h1 : 1 ≤ l) (hl : l ≤ n) :
    V x n 1 l = ssd x 0 l := by
  by_cases h : l = 1
  · subst h; rw [V_at_one x n 0 hl]; exact (ssd_single x 0).symm
  · exact V_one x n l (by omega) hl

/-- lower bound: no partition into at most `j` classes costs less than the table entry -/
theorem lower (x : Nat → Rat) (n : Nat) (j : Nat) :
    ∀ l, 1 ≤ l → l ≤ n → ∀ sizes, IsPartition l sizes → 1 ≤ sizes.length → sizes.length ≤ j + 1 →
      V x n (j + 1) l ≤ cost x l sizes := by
  induction j with
  | zero =>
    intro l h1 hl sizes hp hlen1 hlen
    match sizes, hp, hlen1, hlen with
    | [s], hp, _, _ =>
      have : s = l := by simpa [IsPartition] using hp.2
      subst this
      simp only [cost, Nat.sub_self, add_zero]
      exact le_of_eq (V_single x n 0 s h1 hl)
  | succ j ih =>
    intro l h1 hl sizes hp hlen1 hlen
    match sizes, hp, hlen1, hlen with
    | [s], hp, _, _ =>
      have : s = l := by simpa [IsPartition] using hp.2
      subst this
      simp only [cost, Nat.sub_self, add_zero]
      by_cases h : s = 1
      · subst h; rw [V_at_one x n (j + 1) hl]; exact le_of_eq (ssd_single x 0).symm
      · have hs2 : 2 ≤ s := by omega
        have hr := (recurrence x n j s hs2 hl).1 (s - 1) (by omega) (by omega)
        have h0 : ssd x (s - 1) s = 0 := by
          have := ssd_single x (s - 1); rwa [show s - 1 + 1 = s by omega] at this
        have hi := ih (s - 1) (by omega) (by omega) [s - 1] ⟨by simp; omega, by simp⟩ (by simp) (by simp)
        simp only [cost, Nat.sub_self, add_zero] at hi
        have hsp := ssd_split x 0 (s - 1) s (by omega) (by omega)
        linarith
    | s :: t :: rest, hp, _, hlen =>
      have hs1 : 1 ≤ s := hp.1 s (by simp)
      have ht1 : 1 ≤ t := hp.1 t (by simp)
      have hsum : s + (t + rest.sum) = l := by simpa [IsPartition] using hp.2
      have hr := (recurrence x n j l (by omega) hl).1 (l - s) (by omega) (by omega)
      have hi := ih (l - s) (by omega) (by omega) (t :: rest)
        ⟨fun s' hs' => hp.1 s' (by simp [hs']), by simp; omega⟩ (by simp) (by simp at hlen ⊢; omega)
      simp only [cost] at hi ⊢
      linarith

/-- the walk back through `lower_class_limits` yields a partition into at most `j+1` classes whose cost
    is the table entry -/
theorem attained (x : Nat → Rat) (n : Nat) (j : Nat) :
    ∀ l, 1 ≤ l → l ≤ n →
      IsPartition l (back x n j l) ∧ 1 ≤ (back x n j l).length ∧ (back x n j l).length ≤ j + 1 ∧
      cost x l (back x n j l) = V x n (j + 1) l := by
  induction j with
  | zero =>
    intro l h1 hl
    refine ⟨⟨by simp [back]; omega, by simp [back]⟩, by simp [back], by simp [back], ?_⟩
    simp only [back, cost, Nat.sub_self, add_zero]
    exact (V_single x n 0 l h1 hl).symm
  | succ j ih =>
    intro l h1 hl
    by_cases h : l ≤ 1
    · have : l = 1 := by omega
      subst this
      simp only [back, h, if_true]
      refine ⟨⟨by simp, by simp⟩, by simp, by simp, ?_⟩
      simp only [cost, Nat.sub_self, add_zero]
      rw [V_at_one x n (j + 1) hl]; exact ssd_single x 0
    · obtain ⟨_, hb2, hbl, hv⟩ := recurrence x n j l (by omega) hl
      simp only [back, h, if_false]
      generalize L x n (j + 2) l = b at *
      obtain ⟨⟨ip1, ip2⟩, il1, il2, ic⟩ := ih (b - 1) (by omega) (by omega)
      refine ⟨⟨?_, ?_⟩, by simp, by simp; omega, ?_⟩
      · intro s hs
        rcases List.mem_cons.mp hs with rfl | hs
        · omega
        · exact ip1 s hs
      · simp [ip2]; omega
      · simp only [cost]
        rw [show l - (l - (b - 1)) = b - 1 by omega, ic, hv]
end XrsVerif.Jenks
