import XrsVerif.Proofs.Terrain
set_option linter.unusedSectionVars false
namespace XrsVerif.C08
open XrsVerif XrsVerif.Gen
variable {K : Type} [Field K] [LinearOrder K] [IsStrictOrderedRing K] [Trig K]

def fin (z : Int → Int → K) : Int → Int → NV K := fun dy dx => some (z dy dx)
def hornDx (z : Int → Int → K) : K := (z (-1) 1 + 2 * z 0 1 + z 1 1) - (z (-1) (-1) + 2 * z 0 (-1) + z 1 (-1))
def hornDy (z : Int → Int → K) : K := (z (-1) (-1) + 2 * z (-1) 0 + z (-1) 1) - (z 1 (-1) + 2 * z 1 0 + z 1 1)

def piK : K := 4 * Trig.atan 1

/-- compass conversion -/
def compass (A : K) : K :=
  if A < 0 then 90 - A else if 90 < A then 360 - A + 90 else 90 - A

def aspectDoc (z : Int → Int → K) : K :=
  if hornDx z = 0 ∧ hornDy z = 0 then -1
  else compass (Trig.atan2 (-(hornDy z) / 8) (-(hornDx z / 8)) * (180 / piK))

theorem aspect_eq (z : Int → Int → K) (hpi : (piK : K) ≠ 0) :
    aspect_wiring.cell (none) (none) (fun _ => none) (fin z) = some (aspectDoc z) := by
  have e1 : (z 1 (-1) + 2 * z 1 0 + z 1 1) - (z (-1) (-1) + 2 * z (-1) 0 + z (-1) 1) = -(hornDy z) := by
    unfold hornDy; ring
  have e2 : z (-1) 1 + 2 * z 0 1 + z 1 1 - (z (-1) (-1) + 2 * z 0 (-1) + z 1 (-1)) = hornDx z := rfl
  have hpi' : ¬ Trig.atan (1:K) = 0 := by
    intro h; apply hpi; simp [piK, h]
  have e3 : (4:K) * Trig.atan 1 = piK := rfl
  ksimp [TerrainWiring.cell, TerrainWiring.env, aspect_wiring, aspect_cpu, fin, hpi', apply_ite KSt.out]
  rw [e1, e2, e3]
  unfold aspectDoc compass
  split_ifs <;> simp_all
