import XrsVerif.Proofs.Metrics
set_option linter.unusedSectionVars false
set_option linter.unusedVariables false
namespace XrsVerif.C19
open XrsVerif XrsVerif.Metrics

section plane
variable {K : Type} [Field K] [LinearOrder K] [IsStrictOrderedRing K] [Trig K]

theorem manhattan_eq (p q : K × K) : manhattan p q = some (|p.1 - q.1| + |p.2 - q.2|) :=
  manhattan_val p q

theorem manhattan_symm (p q : K × K) : manhattan p q = manhattan q p := by
  rw [manhattan_val, manhattan_val, abs_sub_comm p.1, abs_sub_comm p.2]

theorem manhattan_zero_iff (p q : K × K) : manhattan p q = some 0 ↔ p = q := by
  rw [manhattan_val, Option.some.injEq]
  constructor
  · intro h
    have h1 := abs_nonneg (p.1 - q.1)
    have h2 := abs_nonneg (p.2 - q.2)
    have e1 : |p.1 - q.1| = 0 := by linarith
    have e2 : |p.2 - q.2| = 0 := by linarith
    exact Prod.ext (sub_eq_zero.mp (abs_eq_zero.mp e1)) (sub_eq_zero.mp (abs_eq_zero.mp e2))
  · rintro rfl; simp

theorem manhattan_triangle (p q r : K × K) :
    ∃ a b c, manhattan p r = some a ∧ manhattan p q = some b ∧ manhattan q r = some c ∧ a ≤ b + c := by
  refine ⟨_, _, _, manhattan_val p r, manhattan_val p q, manhattan_val q r, ?_⟩
  have h1 := abs_sub_le p.1 q.1 r.1
  have h2 := abs_sub_le p.2 q.2 r.2
  linarith

theorem euclidean_eq (p q : K × K) :
    euclidean p q = some (Trig.sqrt ((p.1 - q.1) * (p.1 - q.1) + (p.2 - q.2) * (p.2 - q.2))) :=
  euclidean_val p q

theorem euclidean_symm (p q : K × K) : euclidean p q = euclidean q p := by
  rw [euclidean_val, euclidean_val]
  congr 2; ring
end plane

section real
attribute [local instance] realTrig
open Real

theorem euclidean_real (p q : ℝ × ℝ) :
    euclidean p q = some (Real.sqrt ((p.1 - q.1) ^ 2 + (p.2 - q.2) ^ 2)) := by
  rw [euclidean_val]; simp [sq]

theorem euclidean_zero_iff (p q : ℝ × ℝ) : euclidean p q = some 0 ↔ p = q := by
  rw [euclidean_val, Option.some.injEq, trig_sqrt, sqrt_sumsq_eq_zero]
  constructor
  · rintro ⟨h1, h2⟩; exact Prod.ext (sub_eq_zero.mp h1) (sub_eq_zero.mp h2)
  · rintro rfl; simp

theorem euclidean_triangle (p q r : ℝ × ℝ) :
    ∃ a b c, euclidean p r = some a ∧ euclidean p q = some b ∧ euclidean q r = some c ∧ a ≤ b + c := by
  refine ⟨_, _, _, euclidean_val p r, euclidean_val p q, euclidean_val q r, ?_⟩
  have h := sqrt_triangle (p.1 - q.1) (p.2 - q.2) (q.1 - r.1) (q.2 - r.2)
  simpa using h

theorem great_circle_eq_haversine (R : ℝ) (p q : ℝ × ℝ) (hp : inRange p) (hq : inRange q) :
    greatCircle R p q = some (R * 2 * Real.arcsin (Real.sqrt (hav p q))) := gc_val R p q hp hq

theorem great_circle_symm (R : ℝ) (p q : ℝ × ℝ) (hp : inRange p) (hq : inRange q) :
    greatCircle R p q = greatCircle R q p := by
  rw [gc_val R p q hp hq, gc_val R q p hq hp, hav_symm]

theorem great_circle_self (R : ℝ) (p : ℝ × ℝ) (hp : inRange p) : greatCircle R p p = some 0 := by
  rw [gc_val R p p hp hp, hav_self]; simp

theorem great_circle_bounds (R : ℝ) (hR : 0 ≤ R) (p q : ℝ × ℝ) (hp : inRange p) (hq : inRange q) :
    ∃ d, greatCircle R p q = some d ∧ 0 ≤ d ∧ d ≤ π * R := by
  refine ⟨_, gc_val R p q hp hq, ?_, ?_⟩
  · have : 0 ≤ Real.arcsin (Real.sqrt (hav p q)) := Real.arcsin_nonneg.mpr (Real.sqrt_nonneg _)
    simp only [trig_asin, trig_sqrt]; positivity
  · have := Real.arcsin_le_pi_div_two (Real.sqrt (hav p q))
    simp only [trig_asin, trig_sqrt]
    nlinarith
end real
end XrsVerif.C19
