import XrsVerif.Model.Bin
import Mathlib.Order.Basic
import Mathlib.Order.Defs.LinearOrder
namespace XrsVerif.Bin

theorem loop_spec (below : Int → Bool) (fuel : Nat) (start stp : Int)
    (hle : start ≤ stp)
    (hlo : (1 ≤ start ∧ below (start - 1) = true) ∨ (start = 0 ∧ below 0 = true))
    (hhi : below stp = false)
    (hf : (stp - start + 1).toNat ≤ fuel) :
    start ≤ loop below fuel start stp ∧ loop below fuel start stp ≤ stp ∧ 1 ≤ loop below fuel start stp ∧
      below (loop below fuel start stp - 1) = true ∧ below (loop below fuel start stp) = false := by
  sorry

/-- `searchP` under totality (`bins[i] < v` iff not `v <= bins[i]`: no NaN bin), any order of the bins:
    the result is `-1` only if `v` is above the first and the last bin, otherwise it is an index `r` whose bin
    holds `v` (`bins[r-1] < v <= bins[r]`). -/
theorem searchP_spec (below atMost : Int → Bool) (n : Nat) (hn : 1 ≤ n)
    (htot : ∀ i : Int, 0 ≤ i → i < n → below i = !atMost i) :
    (searchP below atMost n = -1 ∧ atMost 0 = false ∧ atMost ((n : Int) - 1) = false) ∨
    (0 ≤ searchP below atMost n ∧ searchP below atMost n < n ∧ atMost (searchP below atMost n) = true ∧
      (searchP below atMost n = 0 ∨ atMost (searchP below atMost n - 1) = false)) := by
  unfold searchP
  cases h0 : atMost 0 with
  | true => right; simp only [if_true]; exact ⟨by omega, by omega, h0, Or.inl trivial⟩
  | false =>
    cases hl : atMost ((n : Int) - 1) with
    | false => left; simp
    | true =>
      right
      simp only [Bool.false_eq_true, if_false, if_true]
      have hn2 : 2 ≤ n := by
        rcases Nat.lt_or_ge n 2 with h | h
        · have : n = 1 := by omega
          subst this; simp at hl; rw [h0] at hl; cases hl
        · exact h
      have hb0 : below 0 = true := by rw [htot 0 (by omega) (by omega), h0]; rfl
      have hbl : below ((n : Int) - 1) = false := by rw [htot _ (by omega) (by omega), hl]; rfl
      have := loop_spec below n 0 ((n : Int) - 1) (by omega) (Or.inr ⟨rfl, hb0⟩) hbl (by omega)
      obtain ⟨h1, h2, h3, h4, h5⟩ := this
      generalize loop below n 0 ((n : Int) - 1) = r at *
      refine ⟨by omega, by omega, ?_, Or.inr ?_⟩
      · have := htot r (by omega) (by omega); rw [h5] at this
        cases h : atMost r with
        | true => rfl
        | false => rw [h] at this; cases this
      · have := htot (r - 1) (by omega) (by omega); rw [h4] at this
        cases h : atMost (r - 1) with
        | false => rfl
        | true => rw [h] at this; cases this

/-- ... and for ascending bins it is the *first* such index -/
theorem searchP_first (below atMost : Int → Bool) (n : Nat) (hn : 1 ≤ n)
    (htot : ∀ i : Int, 0 ≤ i → i < n → below i = !atMost i)
    (hmono : ∀ i : Int, 0 ≤ i → i + 1 < n → atMost i = true → atMost (i + 1) = true) :
    (searchP below atMost n = -1 ∧ ∀ i : Int, 0 ≤ i → i < n → atMost i = false) ∨
    (0 ≤ searchP below atMost n ∧ searchP below atMost n < n ∧ atMost (searchP below atMost n) = true ∧
      ∀ i : Int, 0 ≤ i → i < searchP below atMost n → atMost i = false) := by
  -- monotonicity, iterated
  have up : ∀ (k : Nat) (i : Int), 0 ≤ i → i + k < n → atMost i = true → atMost (i + k) = true := by
    intro k
    induction k with
    | zero => intro i _ _ h; simpa using h
    | succ k ih =>
      intro i hi hik h
      have := hmono (i + k) (by omega) (by omega) (ih i hi (by omega) h)
      rw [show i + ((k + 1 : Nat) : Int) = i + k + 1 by omega]; exact this
  have down : ∀ i j : Int, 0 ≤ i → i ≤ j → j < n → atMost j = false → atMost i = false := by
    intro i j hi hij hj hf
    cases h : atMost i with
    | false => rfl
    | true =>
      have := up (j - i).toNat i hi (by omega) h
      rw [show i + ((j - i).toNat : Int) = j by omega, hf] at this; cases this
  rcases searchP_spec below atMost n hn htot with ⟨h1, _, h3⟩ | ⟨h1, h2, h3, h4⟩
  · left; exact ⟨h1, fun i hi hin => down i ((n : Int) - 1) hi (by omega) (by omega) h3⟩
  · right
    refine ⟨h1, h2, h3, fun i hi hir => ?_⟩
    rcases h4 with h4 | h4
    · omega
    · exact down i _ hi (by omega) (by omega) h4

end XrsVerif.Bin
