import XrsVerif.Model.Proximity
open XrsVerif.Prox
theorem t33a : checkAll { H := 3, W := 3, sx := 1, sy := 1, metric := .euclid, max2x2 := none } = true := by decide +kernel
theorem t33b : checkAll { H := 3, W := 3, sx := 1, sy := 2, metric := .euclid, max2x2 := none } = true := by decide +kernel
theorem t33c : checkAll { H := 3, W := 3, sx := 1, sy := 1, metric := .manh, max2x2 := none } = true := by decide +kernel
theorem t33d : checkAll { H := 3, W := 3, sx := 1, sy := 1, metric := .euclid, max2x2 := some 4 } = true := by decide +kernel
