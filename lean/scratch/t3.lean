import XrsVerif.Proofs.Local
namespace XrsVerif.Local
#check @List.length_eq_countP_add_countP

theorem median_counts (xs : List Rat) (hne : xs ≠ []) :
    xs.length ≤ 2 * xs.countP (fun x => decide (x ≤ medianOf xs))
    ∧ xs.length ≤ 2 * xs.countP (fun x => decide (medianOf xs ≤ x)) := by
  have hp := sorted_perm xs
  have hs := sorted_pairwise xs
  have hl := sorted_length xs
  have hn : 0 < xs.length := List.length_pos_iff.mpr hne
  rw [← hp.countP_eq, ← hp.countP_eq, ← hl]
  generalize hS : sorted xs = s at *
  have hmed : medianOf xs = if s.length % 2 = 1 then s.getD (s.length / 2) 0
      else (s.getD (s.length / 2 - 1) 0 + s.getD (s.length / 2) 0) / 2 := by
    simp [medianOf, hS]
  have hcompl : ∀ m : Rat, s.length = s.countP (fun x => decide (m ≤ x)) + s.countP (fun x => decide (x < m)) := by
    intro m
    rw [List.length_eq_countP_add_countP (fun x => decide (m ≤ x)) (l := s)]
    congr 2
    funext x
    simp [Rat.not_le]
  by_cases hodd : s.length % 2 = 1
  · have hk : s.length / 2 < s.length := by omega
    have hm : medianOf xs = s[s.length / 2] := by
      rw [hmed, if_pos hodd]; simp [List.getD_eq_getElem?_getD, hk]
    have c := pairwise_nth_counts hs hk
    rw [hm]
    have := hcompl s[s.length / 2]
    omega
  · have hk1 : s.length / 2 - 1 < s.length := by omega
    have hk2 : s.length / 2 < s.length := by omega
    have hm : medianOf xs = (s[s.length / 2 - 1] + s[s.length / 2]) / 2 := by
      rw [hmed, if_neg hodd]; simp [List.getD_eq_getElem?_getD, hk1, hk2]
    have hab : s[s.length / 2 - 1] ≤ s[s.length / 2] := by
      have := List.pairwise_iff_getElem.mp hs (s.length / 2 - 1) (s.length / 2) hk1 hk2 (by omega)
      exact this
    have c1 := pairwise_nth_counts hs hk1
    have c2 := pairwise_nth_counts hs hk2
    have hlo : s[s.length / 2 - 1] ≤ medianOf xs := by rw [hm]; grind
    have hhi : medianOf xs ≤ s[s.length / 2] := by rw [hm]; grind
    have m1 : s.countP (fun x => decide (x ≤ s[s.length / 2 - 1])) ≤ s.countP (fun x => decide (x ≤ medianOf xs)) := by
      apply List.countP_mono_left; intro x _ hx; simp only [decide_eq_true_eq] at hx ⊢; grind
    have m2 : s.countP (fun x => decide (x < medianOf xs)) ≤ s.countP (fun x => decide (x < s[s.length / 2])) := by
      apply List.countP_mono_left; intro x _ hx; simp only [decide_eq_true_eq] at hx ⊢; grind
    have := hcompl (medianOf xs)
    omega
end XrsVerif.Local
