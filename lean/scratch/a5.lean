import Mathlib.Analysis.SpecialFunctions.Sqrt
#check @Real.sqrt_nonneg
#check @Real.mul_self_sqrt
