import XrsVerif.Proofs.Focal
open XrsVerif XrsVerif.Focal XrsVerif.Gen.Focal
example (nx ny nkx nky : Nat) (i j : Int)     (hi0 : ((nkx / 2 : Nat) : Int) ≤ i) (hi1 : i < (nx : Int) - ((nkx / 2 : Nat) : Int))
    (hj0 : ((nky / 2 : Nat) : Int) ≤ j) (hj1 : j < (ny : Int) - ((nky / 2 : Nat) : Int)) : convInLoop nx ny nkx nky i j = true := by
    simp only [convInLoop, convVars, conv_wkx, conv_wky, conv_i_lo, conv_i_hi, conv_j_lo, conv_j_hi,
      Bool.and_eq_true, decide_eq_true_iff]
    trace_state
    omega
