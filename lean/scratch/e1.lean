import XrsVerif.Props.C09
import Mathlib.Tactic.NormNum
open XrsVerif XrsVerif.Focal XrsVerif.Gen.Focal XrsVerif.C09
instance : Trig ℚ := ⟨id, id, fun a _ => a, id, id, id, id⟩

def ofRows (g : List (List (NV ℚ))) : Arr (NV ℚ) := fun i j => Rows.get g i j

def d1 : Arr (NV ℚ) := ofRows [[some 1, some 2, none], [some 4, some 5, some 6]]
def k1 : Arr (NV ℚ) := ofRows [[some 1, some 0, some 0]]

set_option maxRecDepth 100000 in
example : applyFlat d1 k1 2 3 1 3 (fun w => nansum w.flatten) = [some 0, some 1, some 2, some 0, some 4, some 5] := by
  decide +kernel

example : under d1 k1 2 3 1 3 0 1 = [1] := by decide +kernel
example : meanCell d1 2 3 [none] 0 0 = some 3 := by decide +kernel
example : meanCell d1 2 3 [none] 0 2 = none := by decide +kernel
example : hotspotClass (some (2 : ℚ)) = some 95 := by decide +kernel
