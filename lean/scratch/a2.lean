import Mathlib.Data.List.Perm.Subperm
open List
#check @List.Nodup.subperm
#check @List.Subperm.length_le
example (l1 l2 : List Nat) (h : l1.Nodup) (hs : l1 ⊆ l2) : l1.length ≤ l2.length := (h.subperm hs).length_le
