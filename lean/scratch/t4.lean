import XrsVerif.Proofs.Proximity
import XrsVerif.Proofs.KSimp
open XrsVerif XrsVerif.Prox
set_option linter.unusedSectionVars false
variable {K : Type} [Field K] [LinearOrder K] [IsStrictOrderedRing K] [Trig K]

/-- the constant of `_calc_direction` (57.29578, slightly more than 180/π) -/
def kdeg : K := 2864789 / 50000

theorem bearing_self (x y : K) : bearing (some x : NV K) (some x) (some y) (some y) = some 0 := by
  ksimp [bearing, Gen.calc_direction, dirEnv]

/-- the bearing as a function of θ = atan2(-(y2-y1), x2-x1)·57.29578 -/
theorem bearing_formula (x1 x2 y1 y2 : K) (h : ¬ (x1 = x2 ∧ y1 = y2)) :
    bearing (some x1 : NV K) (some x2) (some y1) (some y2) =
      some (let θ := Trig.atan2 (-(y2 - y1)) (x2 - x1) * kdeg
            if θ < 0 then 90 - θ else if 90 < θ then 360 - θ + 90 else 90 - θ) := by
  ksimp [bearing, Gen.calc_direction, dirEnv, h, kdeg, apply_ite KSt.halted, apply_ite KSt.out, apply_ite KSt.env]
  split_ifs <;> simp [setVar]
