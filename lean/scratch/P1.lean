import XrsVerif.Proofs.Bin
import XrsVerif.Proofs.KSimp
import XrsVerif.Gen.ClassifyFacts
import XrsVerif.Gen.Kernels
namespace XrsVerif.C12
open XrsVerif XrsVerif.Bin XrsVerif.Gen

theorem shape_is_canonical : Gen.cpuBinShape = Bin.canonical := by decide

theorem cellS_gen {K : Type} [LinearOrder K] (bins newv : List (Ext K)) (v : Ext K) :
    cellS Gen.cpuBinShape bins newv v = cell bins newv v := by
  rw [shape_is_canonical]; unfold cellS cell; simp only [searchS_canonical]

theorem equal_interval_spec (cells : List (Ext Rat)) (k : Nat) (hk : 1 ≤ k) (mn mx : Rat)
    (hmn : minQ (finiteVals cells) = some mn) (hmx : maxQ (finiteVals cells) = some mx) (hlt : mn < mx) :
    equalInterval Gen.cpuBinShape cells k =
      let bins := (List.range k).map (fun i : Nat => mn + ((i : Rat) + 1) * ((mx - mn) / (k : Rat)))
      .ok (cells.map (classOf bins)) bins := by
  unfold equalInterval
  have hk0 : k ≠ 0 := by omega
  have hne : mn ≠ mx := ne_of_lt hlt
  simp only [hmn, hmx, hk0, hne, if_false, equalIntervalCuts_eq mn mx k hk hlt]
  have hw : 0 < (mx - mn) / (k : Rat) := div_pos (by linarith) (by exact_mod_cast hk)
  congr 1
  apply List.map_congr_left
  intro v _
  rw [cellS_gen, cell_classIds _ _ (equalInterval_sorted mn _ k hw) k (by simp)]
  intro h
  have := congrArg List.length h
  simp at this; omega

variable {K : Type} [Field K] [LinearOrder K] [IsStrictOrderedRing K] [Trig K]
theorem binary_spec (vs : List (NV K)) (x : K) :
    binary_cpu.cell (envOf []) (rd0 [("data", some x)]) (fun _ => vs) =
      if (some x) ∈ vs then some 1 else some 0 := by
  ksimp [binary_cpu]
  sorry
end XrsVerif.C12
