import XrsVerif.Model.DistanceStr
import Mathlib.Tactic.Positivity
import Mathlib.Tactic.NormNum
import Mathlib.Tactic.Linarith
import Mathlib.Algebra.Order.Field.Rat
set_option linter.unusedSectionVars false
set_option linter.unusedVariables false
namespace XrsVerif.DistStr

/-! ### the scanner -/

theorem takeWhile_append_dropWhile' (s : List Char) : s.takeWhile isDig ++ s.dropWhile isDig = s :=
  List.takeWhile_append_dropWhile

theorem mem_takeWhile_isDig {c : Char} {l : List Char} (h : c ∈ l.takeWhile isDig) : isDig c = true := by
  induction l with
  | nil => simp at h
  | cons a l ih =>
    by_cases ha : isDig a = true
    · simp only [List.takeWhile_cons, ha, if_true, List.mem_cons] at h
      rcases h with rfl | h
      · exact ha
      · exact ih h
    · simp [ha] at h

/-- `fracDigits s ≠ []` means `s = '.' :: d ++ rest` with `d` the digit run -/
theorem fracDigits_ne_nil {s : List Char} (h : fracDigits s ≠ []) :
    s = '.' :: fracDigits s ++ s.tail.dropWhile isDig := by
  cases s with
  | nil => simp [fracDigits] at h
  | cons c t =>
    by_cases hc : c = '.'
    · subst hc
      simp [fracDigits, List.takeWhile_append_dropWhile]
    · simp [fracDigits, hc] at h

theorem matchBody_spec {s m rest : List Char} (h : matchBody s = some (m, rest)) :
    m ++ rest = s ∧ m ≠ [] ∧ ∃ c ∈ m, isDig c = true := by
  unfold matchBody at h
  simp only at h
  split at h
  · rename_i hd2
    simp only [Option.some.injEq, Prod.mk.injEq] at h
    obtain ⟨rfl, rfl⟩ := h
    refine ⟨?_, by simp, ?_⟩
    · have := fracDigits_ne_nil hd2
      calc (s.takeWhile isDig ++ '.' :: fracDigits (s.dropWhile isDig)) ++ (s.dropWhile isDig).tail.dropWhile isDig
          = s.takeWhile isDig ++ ('.' :: fracDigits (s.dropWhile isDig) ++ (s.dropWhile isDig).tail.dropWhile isDig) := by simp
        _ = s.takeWhile isDig ++ s.dropWhile isDig := by rw [← this]
        _ = s := List.takeWhile_append_dropWhile
    · obtain ⟨c, t, hct⟩ := List.exists_cons_of_ne_nil hd2
      refine ⟨c, by simp [hct], ?_⟩
      have hmem : c ∈ fracDigits (s.dropWhile isDig) := by simp [hct]
      cases hs2 : s.dropWhile isDig with
      | nil => rw [hs2] at hd2; simp [fracDigits] at hd2
      | cons c' t' =>
        rw [hs2] at hmem
        by_cases hc : c' = '.'
        · simp only [fracDigits, hc, if_true] at hmem
          exact (mem_takeWhile_isDig hmem)
        · simp [fracDigits, hc] at hmem
  · split at h
    · rename_i hd1
      simp only [Option.some.injEq, Prod.mk.injEq] at h
      obtain ⟨rfl, rfl⟩ := h
      refine ⟨List.takeWhile_append_dropWhile, hd1, ?_⟩
      obtain ⟨c, t, hct⟩ := List.exists_cons_of_ne_nil hd1
      exact ⟨c, by simp [hct], mem_takeWhile_isDig (l := s) (by rw [hct]; simp)⟩
    · simp at h

theorem matchNum_spec {s m rest : List Char} (h : matchNum s = some (m, rest)) :
    m ++ rest = s ∧ m ≠ [] ∧ ∃ c ∈ m, isDig c = true := by
  cases s with
  | nil => simp [matchNum] at h
  | cons c t =>
    simp only [matchNum] at h
    by_cases hc : c = '-'
    · rw [if_pos hc] at h
      cases hb : matchBody t with
      | none => simp [hb] at h
      | some mr =>
        obtain ⟨m', r'⟩ := mr
        simp only [hb, Option.map_some, Option.some.injEq, Prod.mk.injEq] at h
        obtain ⟨rfl, rfl⟩ := h
        obtain ⟨e, _, c', hc', hd⟩ := matchBody_spec hb
        exact ⟨by simp [hc, e], by simp, c', by simp [hc'], hd⟩
    · rw [if_neg hc] at h
      exact matchBody_spec h

theorem matchNum_rest_length {s m rest : List Char} (h : matchNum s = some (m, rest)) :
    rest.length < s.length := by
  obtain ⟨e, hne, _⟩ := matchNum_spec h
  rw [← e, List.length_append]
  have : 0 < m.length := List.length_pos_of_ne_nil hne
  omega

/-- the pieces of the split, concatenated, are the string -/
theorem scan_flatten (n : ℕ) (s acc : List Char) (hn : s.length < n) :
    ((scan n s acc).map Tok.chars).flatten = acc.reverse ++ s := by
  induction n generalizing s acc with
  | zero => omega
  | succ n ih =>
    cases s with
    | nil => simp [scan, Tok.chars]
    | cons c t =>
      simp only [scan]
      cases hm : matchNum (c :: t) with
      | none =>
        simp only
        rw [ih t (c :: acc) (by simp at hn; omega)]
        simp
      | some mr =>
        obtain ⟨m, rest⟩ := mr
        simp only [List.map_cons, List.flatten_cons, Tok.chars]
        have hl := matchNum_rest_length hm
        rw [ih rest [] (by simp at hn hl ⊢; omega)]
        obtain ⟨e, _, _⟩ := matchNum_spec hm
        simp [e]

theorem reSplit_flatten (s : List Char) : ((reSplit s).map Tok.chars).flatten = s := by
  unfold reSplit
  rw [scan_flatten _ _ _ (by omega)]; simp

theorem splits_flatten (s : List Char) : ((splits s).map Tok.chars).flatten = s := by
  have h := reSplit_flatten s
  unfold splits
  generalize reSplit s = l at h ⊢
  subst h
  induction l with
  | nil => simp
  | cons a l ih =>
    simp only [List.filter_cons]
    cases hc : a.chars with
    | nil => simp [hc, ih]
    | cons x xs => simp [hc, ih]

end XrsVerif.DistStr
