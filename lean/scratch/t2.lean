theorem bit_eq (m i : Nat) : ((m >>> i) % 2 == 1) = m.testBit i := by
  rw [Nat.testBit_eq_decide_div_mod_eq, Nat.shiftRight_eq_div_pow]
  rw [Bool.eq_iff_iff]
  simp

theorem bits_surj : ∀ (n : Nat) (f : Nat → Bool), ∃ m, m < 2 ^ n ∧ ∀ i, i < n → m.testBit i = f i := by
  intro n
  induction n with
  | zero => intro f; exact ⟨0, by simp, fun i hi => by omega⟩
  | succ n ih =>
    intro f
    obtain ⟨m, hm, hbits⟩ := ih f
    by_cases hf : f n = true
    · refine ⟨2 ^ n + m, by rw [Nat.pow_succ]; omega, fun i hi => ?_⟩
      by_cases hin : i < n
      · rw [Nat.testBit_two_pow_add_gt hin]; exact hbits i hin
      · have : i = n := by omega
        subst this
        rw [Nat.testBit_two_pow_add_eq, Nat.testBit_lt_two_pow hm, hf]; rfl
    · refine ⟨m, by rw [Nat.pow_succ]; omega, fun i hi => ?_⟩
      by_cases hin : i < n
      · exact hbits i hin
      · have : i = n := by omega
        subst this
        rw [Nat.testBit_lt_two_pow hm]
        simp at hf; exact hf.symm
