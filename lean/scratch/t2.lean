#check @List.any_congr
#check @List.getLast?_reverse
#check @List.head?_range
#check @List.getLast?_range
example (n : Nat) : (List.range (n+1)).reverse.getLast?.getD 0 = 0 := by simp [List.getLast?_reverse, List.head?_range]
example (n : Nat) : (List.range (n+1)).getLast?.getD 0 = n := by simp [List.getLast?_range]
