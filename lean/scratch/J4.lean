import XrsVerif.Proofs.Jenks
namespace XrsVerif.Jenks

/-- the break extraction of `_run_jenks` walks the same path as `back`: when the walk uses all `j+1`
    classes, the stored values are the largest element of each class -/
theorem kgo_eq (x : Nat → Rat) (n : Nat) (j : Nat) :
    ∀ l, 1 ≤ l → l ≤ n → (back x n j l).length = j + 1 → ∀ acc,
      kgo x n j l (x (l - 1) :: acc) = some (uppers x l (back x n j l) ++ acc) := by
  induction j with
  | zero =>
    intro l h1 hl _ acc
    simp [kgo, back, uppers]
  | succ j ih =>
    intro l h1 hl hfull acc
    by_cases h : l ≤ 1
    · simp [back, h] at hfull
    · obtain ⟨_, hb2, hbl, _⟩ := recurrence x n j l (by omega) hl
      simp only [back, h, if_false, List.length_cons] at hfull
      simp only [kgo, back, h, if_false, uppers]
      generalize L x n (j + 2) l = b at *
      have hb : ¬ b < 2 := by omega
      simp only [hb, if_false]
      have := ih (b - 1) (by omega) (by omega) (by omega) (x (l - 1) :: acc)
      rw [show b - 1 - 1 = b - 2 by omega] at this
      rw [this, show l - (l - (b - 1)) = b - 1 by omega]
      simp

theorem kclass_eq (xs : List Rat) (k : Nat) (hn : 1 ≤ xs.length) (hk : 1 ≤ k)
    (hfull : (back (fun i => xs.getD i 0) xs.length (k - 1) xs.length).length = k) :
    kclass xs k = some ((fun i => xs.getD i 0) 0 ::
      uppers (fun i => xs.getD i 0) xs.length (back (fun i => xs.getD i 0) xs.length (k - 1) xs.length)) := by
  unfold kclass
  have h0 : ¬ (xs.length = 0 ∨ k = 0) := by omega
  simp only [h0, if_false]
  have := kgo_eq (fun i => xs.getD i 0) xs.length (k - 1) xs.length hn (le_refl _) (by omega) []
  simp only [List.append_nil] at this
  rw [this]; rfl

/-- for ascending data the class maxima ascend and none exceeds the last element -/
theorem uppers_sorted (x : Nat → Rat) (hx : ∀ i j, i ≤ j → x i ≤ x j) (sizes : List Nat) :
    ∀ l, IsPartition l sizes → (uppers x l sizes).Pairwise (· ≤ ·) ∧ ∀ u ∈ uppers x l sizes, u ≤ x (l - 1) := by
  induction sizes with
  | nil => intro l _; simp [uppers]
  | cons s rest ih =>
    intro l hp
    have hs1 : 1 ≤ s := hp.1 s (by simp)
    have hsum : s + rest.sum = l := by simpa [IsPartition] using hp.2
    obtain ⟨ih1, ih2⟩ := ih (l - s) ⟨fun s' hs' => hp.1 s' (by simp [hs']), by omega⟩
    simp only [uppers]
    constructor
    · rw [List.pairwise_append]
      refine ⟨ih1, by simp, ?_⟩
      intro a ha b hb
      simp only [List.mem_singleton] at hb
      subst hb
      exact le_trans (ih2 a ha) (hx _ _ (by omega))
    · intro u hu
      rcases List.mem_append.mp hu with hu | hu
      · exact le_trans (ih2 u hu) (hx _ _ (by omega))
      · simp only [List.mem_singleton] at hu; subst hu; exact le_refl _

theorem uppers_length (x : Nat → Rat) (sizes : List Nat) : ∀ l, (uppers x l sizes).length = sizes.length := by
  induction sizes with
  | nil => intro l; simp [uppers]
  | cons s rest ih => intro l; simp [uppers, ih]

theorem insertS_sorted (a : Rat) (l : List Rat) (h : l.Pairwise (· ≤ ·)) : (insertS a l).Pairwise (· ≤ ·) ∧
    ∀ y, y ∈ insertS a l ↔ y = a ∨ y ∈ l := by
  induction l with
  | nil => simp [insertS]
  | cons b bs ih =>
    rw [List.pairwise_cons] at h
    obtain ⟨ih1, ih2⟩ := ih h.2
    unfold insertS
    split
    · rename_i hab
      refine ⟨?_, by simp⟩
      rw [List.pairwise_cons]
      refine ⟨?_, List.pairwise_cons.mpr h⟩
      intro y hy
      rcases List.mem_cons.mp hy with rfl | hy
      · exact hab
      · exact le_trans hab (h.1 y hy)
    · rename_i hab
      refine ⟨?_, ?_⟩
      · rw [List.pairwise_cons]
        refine ⟨?_, ih1⟩
        intro y hy
        rcases (ih2 y).mp hy with rfl | hy
        · exact le_of_lt (not_le.mp hab)
        · exact h.1 y hy
      · intro y; simp [ih2 y]; tauto

theorem sortQ_sorted (l : List Rat) : (sortQ l).Pairwise (· ≤ ·) ∧ ∀ y, y ∈ sortQ l ↔ y ∈ l := by
  induction l with
  | nil => simp [sortQ]
  | cons a as ih =>
    have := insertS_sorted a (sortQ as) ih.1
    refine ⟨this.1, ?_⟩
    intro y
    show y ∈ insertS a (sortQ as) ↔ _
    rw [this.2 y, ih.2 y]; simp
end XrsVerif.Jenks
