import XrsVerif.Proofs.Bin
namespace XrsVerif.Bin
section ext
variable {K : Type} [LinearOrder K]

/-- an ascending bin list in the sense of the property: no NaN, each bin `<=` the next (IEEE); ±inf allowed -/
def ExtAscending (bins : List (Ext K)) : Prop :=
  (∀ b ∈ bins, b ≠ .nan) ∧ bins.Pairwise (fun a b => Ext.le a b = true)

/-- specification on extended bins: the first bin whose upper bound is `>=` the finite value `x` -/
def firstGEx (bins : List (Ext K)) (x : K) : Option Nat := bins.findIdx? (fun b => Ext.le (.fin x) b)

theorem Ext.lt_eq_not_le (b : Ext K) (x : K) (hb : b ≠ .nan) : Ext.lt b (.fin x) = !Ext.le (.fin x) b := by
  cases b with
  | nan => exact absurd rfl hb
  | ninf => rfl
  | pinf => rfl
  | fin y =>
    simp only [Ext.lt, Ext.le]
    by_cases h : x ≤ y
    · simp [h, not_lt.mpr h]
    · simp [h, not_le.mp h]

theorem Ext.le_trans_fin (x : K) (a b : Ext K) (h1 : Ext.le (.fin x) a = true) (h2 : Ext.le a b = true) :
    Ext.le (.fin x) b = true := by
  cases a <;> cases b <;> simp_all [Ext.le]
  exact le_trans h1 h2

theorem cell_nonfinite (bins newv : List (Ext K)) (v : Ext K) (hv : v.isFinite = false) :
    cell bins newv v = .nan := by
  unfold cell; simp [hv]

theorem cell_spec (bins newv : List (Ext K)) (hne : bins ≠ []) (hasc : ExtAscending bins) (x : K) :
    cell bins newv (.fin x) =
      match firstGEx bins x with | some i => getW .nan newv (i : Int) | none => .nan := by
  have hs : search Ext.lt Ext.le .nan bins (.fin x) =
      match bins.findIdx? (fun b => Ext.le (.fin x) b) with | some i => (i : Int) | none => -1 := by
    refine search_eq_findIdx Ext.lt Ext.le .nan (.fin x) bins hne ?_ ?_
    · intro b hb; exact Ext.lt_eq_not_le b x (hasc.1 b hb)
    · exact hasc.2.imp (fun hab h => Ext.le_trans_fin x _ _ h hab)
  unfold cell firstGEx
  simp only [Ext.isFinite, if_true, hs]
  cases bins.findIdx? (fun b => Ext.le (.fin x) b) with
  | none => simp
  | some i =>
    have : ((i : Int) > -1) := by omega
    simp [this]

theorem firstGEx_none_iff (bins : List (Ext K)) (x : K) (hne : bins ≠ []) (hasc : ExtAscending bins) :
    firstGEx bins x = none ↔ Ext.lt (bins.getLast hne) (.fin x) = true := by
  unfold firstGEx
  rw [List.findIdx?_eq_none_iff]
  constructor
  · intro h
    have h1 := h _ (List.getLast_mem hne)
    rw [Ext.lt_eq_not_le _ _ (hasc.1 _ (List.getLast_mem hne))]
    simpa using h1
  · intro h b hb
    cases hle : Ext.le (.fin x) b with
    | false => rfl
    | true =>
      have hbl : Ext.le b (bins.getLast hne) = true := by
        obtain ⟨i, hi, rfl⟩ := List.getElem_of_mem hb
        rw [List.getLast_eq_getElem]
        by_cases hlt : i < bins.length - 1
        · exact (List.pairwise_iff_getElem.mp hasc.2) _ _ _ _ hlt
        · have : i = bins.length - 1 := by omega
          subst this
          have hn := hasc.1 _ (List.getElem_mem hi)
          revert hn
          cases bins[bins.length - 1] <;> simp [Ext.le]
      have := Ext.le_trans_fin x _ _ hle hbl
      rw [Ext.lt_eq_not_le _ _ (hasc.1 _ (List.getLast_mem hne)), this] at h
      cases h

theorem firstGEx_fin (bs : List K) (x : K) : firstGEx (bs.map .fin) x = firstGE bs x := by
  unfold firstGEx firstGE
  induction bs with
  | nil => rfl
  | cons b bs ih =>
    have h0 : Ext.le (Ext.fin x) (Ext.fin b) = decide (x ≤ b) := rfl
    simp only [List.map_cons, List.findIdx?_cons, h0, ih]

theorem extAscending_fin (bs : List K) (hs : bs.Pairwise (· ≤ ·)) : ExtAscending (bs.map (.fin : K → Ext K)) := by
  refine ⟨?_, ?_⟩
  · intro b hb; simp only [List.mem_map] at hb; obtain ⟨a, _, rfl⟩ := hb; simp
  · rw [List.pairwise_map]; exact hs.imp (fun h => by simpa [Ext.le] using h)
end ext
end XrsVerif.Bin
