import XrsVerif.Proofs.Metrics
set_option linter.unusedSectionVars false
set_option linter.unusedVariables false
namespace XrsVerif.Metrics
attribute [local instance] realTrig
open Real

/-- two coordinate pairs name the same point of the sphere: equal latitude, and equal longitude
    unless the point is a pole or the longitudes are the two names -180 / 180 of the antimeridian -/
def samePoint (p q : ℝ × ℝ) : Prop :=
  p.2 = q.2 ∧ (p.1 = q.1 ∨ |p.2| = 90 ∨ |p.1 - q.1| = 360)

theorem cos_rad_eq_zero_iff (y : ℝ) (h1 : -90 ≤ y) (h2 : y ≤ 90) : Real.cos (rad y) = 0 ↔ |y| = 90 := by
  rw [rad_eq]
  have hpi := Real.pi_pos
  constructor
  · intro h
    by_contra hne
    have hlt : |y| < 90 := lt_of_le_of_ne (abs_le.mpr ⟨h1, h2⟩) hne
    have ⟨l, u⟩ := abs_lt.mp hlt
    have : 0 < Real.cos (y * (π / 180)) := by
      apply Real.cos_pos_of_mem_Ioo
      constructor <;> nlinarith
    linarith
  · intro h
    rcases abs_eq (by norm_num : (0:ℝ) ≤ 90) |>.mp h with h | h
    · rw [h, show (90:ℝ) * (π / 180) = π / 2 by ring, Real.cos_pi_div_two]
    · rw [h, show (-90:ℝ) * (π / 180) = -(π / 2) by ring, Real.cos_neg, Real.cos_pi_div_two]

theorem sin_half_dlat_eq_zero_iff (a b : ℝ) (ha : -90 ≤ a ∧ a ≤ 90) (hb : -90 ≤ b ∧ b ≤ 90) :
    Real.sin ((rad b - rad a) / 2) = 0 ↔ a = b := by
  rw [rad_eq, rad_eq]
  have hpi := Real.pi_pos
  rw [Real.sin_eq_zero_iff_of_lt_of_lt (by nlinarith [ha.1, ha.2, hb.1, hb.2]) (by nlinarith [ha.1, ha.2, hb.1, hb.2])]
  constructor
  · intro h
    have : (b - a) * π = 0 := by linarith
    rcases mul_eq_zero.mp this with h | h
    · linarith
    · linarith
  · rintro rfl; ring

theorem sin_half_dlon_eq_zero_iff (a b : ℝ) (ha : -180 ≤ a ∧ a ≤ 180) (hb : -180 ≤ b ∧ b ≤ 180) :
    Real.sin ((rad b - rad a) / 2) = 0 ↔ (a = b ∨ |a - b| = 360) := by
  rw [rad_eq, rad_eq]
  have hpi := Real.pi_pos
  have e : (b * (π / 180) - a * (π / 180)) / 2 = (b - a) / 360 * π := by ring
  rw [e]
  constructor
  · intro h
    by_cases hlt : |a - b| < 360
    · left
      have ⟨l, u⟩ := abs_lt.mp hlt
      have := (Real.sin_eq_zero_iff_of_lt_of_lt (x := (b - a) / 360 * π) (by nlinarith) (by nlinarith)).mp h
      rcases mul_eq_zero.mp this with h | h
      · linarith
      · linarith
    · right
      have : |a - b| ≤ 360 := abs_le.mpr ⟨by linarith [ha.1, hb.2], by linarith [ha.2, hb.1]⟩
      linarith [not_lt.mp hlt]
  · rintro (rfl | h)
    · simp
    · rcases abs_eq (by norm_num : (0:ℝ) ≤ 360) |>.mp h with h | h
      · have : (b - a) / 360 * π = -π := by rw [show b - a = -360 by linarith]; ring
        rw [this, Real.sin_neg, Real.sin_pi, neg_zero]
      · have : (b - a) / 360 * π = π := by rw [show b - a = 360 by linarith]; ring
        rw [this, Real.sin_pi]

theorem hav_eq_zero_iff (p q : ℝ × ℝ) (hp : inRange p) (hq : inRange q) :
    hav p q = 0 ↔ samePoint p q := by
  have c1 := cos_rad_nonneg p.2 hp.2.2.1 hp.2.2.2
  have c2 := cos_rad_nonneg q.2 hq.2.2.1 hq.2.2.2
  unfold hav samePoint
  simp only [trig_sin, trig_cos]
  set s1 := Real.sin ((rad q.2 - rad p.2) / 2) with hs1
  set s2 := Real.sin ((rad q.1 - rad p.1) / 2) with hs2
  have n1 : 0 ≤ s1 * s1 := mul_self_nonneg _
  have n2 : 0 ≤ Real.cos (rad p.2) * Real.cos (rad q.2) * (s2 * s2) :=
    mul_nonneg (mul_nonneg c1 c2) (mul_self_nonneg _)
  have lat := sin_half_dlat_eq_zero_iff p.2 q.2 ⟨hp.2.2.1, hp.2.2.2⟩ ⟨hq.2.2.1, hq.2.2.2⟩
  have lon := sin_half_dlon_eq_zero_iff p.1 q.1 ⟨hp.1, hp.2.1⟩ ⟨hq.1, hq.2.1⟩
  have z1 := cos_rad_eq_zero_iff p.2 hp.2.2.1 hp.2.2.2
  have z2 := cos_rad_eq_zero_iff q.2 hq.2.2.1 hq.2.2.2
  constructor
  · intro h
    have e1 : s1 * s1 = 0 := by linarith
    have e2 : Real.cos (rad p.2) * Real.cos (rad q.2) * (s2 * s2) = 0 := by linarith
    have hlat : p.2 = q.2 := lat.mp (mul_self_eq_zero.mp e1)
    refine ⟨hlat, ?_⟩
    rcases mul_eq_zero.mp e2 with h | h
    · rcases mul_eq_zero.mp h with h | h
      · exact Or.inr (Or.inl (z1.mp h))
      · exact Or.inr (Or.inl (by rw [hlat]; exact z2.mp h))
    · rcases lon.mp (mul_self_eq_zero.mp h) with h | h
      · exact Or.inl h
      · exact Or.inr (Or.inr h)
  · rintro ⟨hlat, h⟩
    have e1 : s1 = 0 := lat.mpr hlat
    rw [e1]
    rcases h with h | h | h
    · have e2 : s2 = 0 := lon.mpr (Or.inl h)
      rw [e2]; ring
    · rw [z1.mpr h]; ring
    · have e2 : s2 = 0 := lon.mpr (Or.inr h)
      rw [e2]; ring

end XrsVerif.Metrics
