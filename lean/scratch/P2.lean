import XrsVerif.Proofs.KSimp
import XrsVerif.Gen.Kernels
namespace XrsVerif.C12
open XrsVerif XrsVerif.Gen
variable {K : Type} [Field K] [LinearOrder K] [IsStrictOrderedRing K] [Trig K]

theorem any_eq_iff (vs : List (NV K)) (x : K) :
    (vs.any fun y => Fl.eq y (some x : NV K)) = decide ((some x : NV K) ∈ vs) := by
  induction vs with
  | nil => simp
  | cons v vs ih =>
    simp only [List.any_cons, ih, List.mem_cons]
    cases v with
    | none => simp
    | some y =>
      simp only [fl_eq]
      by_cases h : y = x
      · simp [h]
      · have : ¬ (some x : NV K) = some y := by intro h'; exact h (Option.some.inj h').symm
        simp [h, this]

theorem binary_spec (vs : List (NV K)) (x : K) :
    binary_cpu.cell (envOf []) (rd0 [("data", some x)]) (fun _ => vs) =
      if (some x : NV K) ∈ vs then some 1 else some 0 := by
  ksimp [binary_cpu, any_eq_iff]
  split <;> rfl

theorem binary_nan (vs : List (NV K)) :
    binary_cpu.cell (envOf []) (rd0 [("data", (none : NV K))]) (fun _ => vs) = none := by
  ksimp [binary_cpu]
end XrsVerif.C12
