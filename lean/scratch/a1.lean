import XrsVerif.Model.AStar
namespace XrsVerif.AStar
variable {C : Type}

@[simp] theorem upd_same {α} (f : Cell → α) (c : Cell) (v : α) : upd f c v c = v := by simp [upd]
theorem upd_other {α} (f : Cell → α) {c c' : Cell} (v : α) (h : c' ≠ c) : upd f c v c' = f c' := by simp [upd, h]

theorem inside_iff {h w : Nat} {c : Cell} :
    inside h w c = true ↔ 0 ≤ c.1 ∧ c.1 < (h : Int) ∧ 0 ≤ c.2 ∧ c.2 < (w : Int) := by
  simp [inside, and_assoc]

theorem mem_cells {h w : Nat} {c : Cell} : c ∈ cells h w ↔ inside h w c = true := by
  rw [inside_iff]
  simp only [cells, List.mem_flatMap, List.mem_range, List.mem_map]
  constructor
  · rintro ⟨i, hi, j, hj, rfl⟩
    simp; omega
  · rintro ⟨h1, h2, h3, h4⟩
    refine ⟨c.1.toNat, by omega, c.2.toNat, by omega, ?_⟩
    ext <;> simp <;> omega

theorem length_cells (h w : Nat) : (cells h w).length = h * w := by
  simp [cells, List.length_flatMap]
end XrsVerif.AStar
