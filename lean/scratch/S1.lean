import XrsVerif.Proofs.Terrain
set_option linter.unusedSectionVars false
namespace XrsVerif.C08
open XrsVerif XrsVerif.Gen
variable {K : Type} [Field K] [LinearOrder K] [IsStrictOrderedRing K] [Trig K]

/-- a finite window -/
def fin (z : Int → Int → K) : Int → Int → NV K := fun dy dx => some (z dy dx)

def hornDx (z : Int → Int → K) : K := (z (-1) 1 + 2 * z 0 1 + z 1 1) - (z (-1) (-1) + 2 * z 0 (-1) + z 1 (-1))
def hornDy (z : Int → Int → K) : K := (z (-1) (-1) + 2 * z (-1) 0 + z (-1) 1) - (z 1 (-1) + 2 * z 1 0 + z 1 1)

theorem slope_eq_documented (z : Int → Int → K) (cx cy : K) (hx : cx ≠ 0) (hy : cy ≠ 0) :
    slope_wiring.cell (some cx) (some cy) (fun _ => none) (fin z) =
      some (Trig.atan (Trig.sqrt ((hornDx z / (8 * cx)) * (hornDx z / (8 * cx)) + (hornDy z / (8 * cy)) * (hornDy z / (8 * cy)))) * (2864789 / 50000)) := by
  ksimp [TerrainWiring.cell, TerrainWiring.env, slope_wiring, slope_cpu, fin, hornDx, hornDy, hx, hy]
