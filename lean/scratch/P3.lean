import XrsVerif.Props.C12
namespace XrsVerif.C12
open XrsVerif XrsVerif.Bin XrsVerif.Gen XrsVerif.Jenks

/-! #### natural_breaks -/

/-- **the recurrence**: every cell of the Jenks tables (`l >= 2` elements, `j + 2 >= 2` classes) is the
    minimum over the position of the last break, and `lower_class_limits` records an argmin -/
theorem jenks_recurrence (x : Nat → Rat) (n j l : Nat) (h2 : 2 ≤ l) (hl : l ≤ n) :
    (∀ i, 1 ≤ i → i < l → V x n (j + 2) l ≤ ssd x i l + V x n (j + 1) i) ∧
    2 ≤ L x n (j + 2) l ∧ L x n (j + 2) l ≤ l ∧
    V x n (j + 2) l = ssd x (L x n (j + 2) l - 1) l + V x n (j + 1) (L x n (j + 2) l - 1) :=
  recurrence x n j l h2 hl

/-- **optimality**: the partition obtained by walking `lower_class_limits` back from `(n, k)` is a
    partition of the `n` sorted sample values into at most `k` non-empty contiguous classes, its within-class
    sum of squared deviations is `var_combinations[n][k]`, and no partition into at most `k` (in particular:
    exactly `k`) non-empty contiguous classes has a smaller one -/
theorem jenks_optimal (x : Nat → Rat) (n k : Nat) (hn : 1 ≤ n) (hk : 1 ≤ k) :
    IsPartition n (back x n (k - 1) n) ∧ 1 ≤ (back x n (k - 1) n).length ∧ (back x n (k - 1) n).length ≤ k ∧
    cost x n (back x n (k - 1) n) = V x n k n ∧
    ∀ sizes, IsPartition n sizes → 1 ≤ sizes.length → sizes.length ≤ k →
      cost x n (back x n (k - 1) n) ≤ cost x n sizes := by
  obtain ⟨h1, h2, h3, h4⟩ := attained x n (k - 1) n hn (le_refl _)
  rw [show k - 1 + 1 = k by omega] at h3 h4
  refine ⟨h1, h2, h3, h4, ?_⟩
  intro sizes hp hl1 hl2
  rw [h4]
  have := lower x n (k - 1) n hn (le_refl _) sizes hp hl1 (by omega)
  rwa [show k - 1 + 1 = k by omega] at this

/-- the breaks `_run_jenks` extracts are the first value followed by the largest value of every class of
    that optimal partition (when it uses all `k` classes; otherwise the real code indexes out of range, which
    `natural_breaks` excludes by falling back when there are fewer than `k` distinct values) -/
theorem jenks_breaks_are_class_maxima (xs : List Rat) (k : Nat) (hn : 1 ≤ xs.length) (hk : 1 ≤ k)
    (hfull : (back (fun i => xs.getD i 0) xs.length (k - 1) xs.length).length = k) :
    kclass xs k = some ((fun i => xs.getD i 0) 0 ::
      uppers (fun i => xs.getD i 0) xs.length (back (fun i => xs.getD i 0) xs.length (k - 1) xs.length)) :=
  kclass_eq xs k hn hk hfull

theorem getD_sorted (xs : List Rat) (hs : xs.Pairwise (· ≤ ·)) (i j : Nat) (hij : i ≤ j) (hj : j < xs.length) :
    xs.getD i 0 ≤ xs.getD j 0 := by
  have hi : i < xs.length := by omega
  simp only [List.getD_eq_getElem?_getD, List.getElem?_eq_getElem hi, List.getElem?_eq_getElem hj, Option.getD_some]
  rcases Nat.lt_or_eq_of_le hij with h | h
  · exact (List.pairwise_iff_getElem.mp hs) _ _ _ _ h
  · subst h; exact le_refl _

/-- **natural_breaks, Jenks branch** (at least `k` distinct sample values; breaks stored exactly,
    `breaks_stored_exactly`): the bins are the class maxima of the optimal partition of the sorted sample with
    the last one replaced by the raster maximum `mx`; they ascend, there are `k` of them, `mx` is one of them,
    and every cell is classified by `classOf` -/
theorem natural_breaks_spec (cells : List (Ext Rat)) (sample : List Rat) (k : Nat) (mx : Rat)
    (hmx : maxQ (finiteVals cells) = some mx) (hsub : ∀ s ∈ sample, s ≤ mx) (hne : sample ≠ [])
    (hk : 1 ≤ k) (hku : ¬ (uniq sample).length < k)
    (hfull : (back (fun i => (sortQ sample).getD i 0) (sortQ sample).length (k - 1) (sortQ sample).length).length = k) :
    ∃ bins, naturalBreaks Gen.cpuBinShape id cells sample k = .ok (cells.map (classOf bins)) bins ∧
      bins.Pairwise (· ≤ ·) ∧ bins.length = k ∧ mx ∈ bins := by
  obtain ⟨hss, hsm⟩ := sortQ_sorted sample
  have hlen : 1 ≤ (sortQ sample).length := by
    obtain ⟨a, ha⟩ := List.exists_mem_of_ne_nil sample hne
    exact List.length_pos_iff.mpr (List.ne_nil_of_mem ((hsm a).mpr ha))
  generalize hxs : sortQ sample = xs at *
  have hkc := kclass_eq xs k hlen hk hfull
  obtain ⟨hp, _, _, _⟩ := attained (fun i => xs.getD i 0) xs.length (k - 1) xs.length hlen (le_refl _)
  obtain ⟨hus, hub⟩ := uppers_sorted (fun i => xs.getD i 0) _ xs.length hp
    (fun i j hij hj => getD_sorted xs hss i j hij hj)
  have hul := uppers_length (fun i => xs.getD i 0) (back (fun i => xs.getD i 0) xs.length (k - 1) xs.length) xs.length
  generalize uppers (fun i => xs.getD i 0) xs.length (back (fun i => xs.getD i 0) xs.length (k - 1) xs.length) = U at *
  have hUk : U.length = k := hul.trans hfull
  have hUne : U ≠ [] := by intro h; rw [h] at hUk; simp at hUk; omega
  have hlast : xs.getD (xs.length - 1) 0 ≤ mx := by
    apply hsub; rw [← hsm]
    have hi : xs.length - 1 < xs.length := by omega
    simp only [List.getD_eq_getElem?_getD, List.getElem?_eq_getElem hi, Option.getD_some]
    exact List.getElem_mem _
  obtain ⟨b1, b2, b3, b4, _⟩ := setLast_sorted U mx hUne hus (fun a ha => le_trans (hub a ha) hlast)
  refine ⟨setLast U mx, ?_, b1, by omega, b4⟩
  unfold naturalBreaks
  simp only [hmx, hku, if_false, hxs, hkc, List.drop_one, List.tail_cons, List.map_id_fun, id_eq, List.map_id]
  congr 1
  apply List.map_congr_left
  intro v _
  rw [cellS_gen, cell_classIds _ b3 b1 _ (by omega)]

/-- **natural_breaks, fallback branch** (fewer than `k` distinct sample values; the last bin is forced to the
    raster maximum there too, `natural_breaks_last_forced`): the bins are the distinct sample values with the
    last one replaced by `mx` -/
theorem natural_breaks_fallback_spec (cells : List (Ext Rat)) (sample : List Rat) (k : Nat) (mx : Rat)
    (hmx : maxQ (finiteVals cells) = some mx) (hsub : ∀ s ∈ sample, s ≤ mx) (hne : sample ≠ [])
    (hku : (uniq sample).length < k) :
    ∃ bins, naturalBreaks Gen.cpuBinShape id cells sample k = .ok (cells.map (classOf bins)) bins ∧
      bins.Pairwise (· ≤ ·) ∧ bins.length < k ∧ mx ∈ bins := by
  have hune : uniq sample ≠ [] := by
    obtain ⟨a, ha⟩ := List.exists_mem_of_ne_nil sample hne
    exact List.ne_nil_of_mem ((mem_uniq a sample).mpr ha)
  obtain ⟨b1, b2, b3, b4, _⟩ := setLast_sorted (uniq sample) mx hune ((uniq_sorted sample).imp le_of_lt)
    (fun a ha => hsub a ((mem_uniq a sample).mp ha))
  refine ⟨setLast (uniq sample) mx, ?_, b1, by omega, b4⟩
  unfold naturalBreaks
  simp only [hmx, hku, if_true]
  congr 1
  apply List.map_congr_left
  intro v _
  rw [cellS_gen, cell_classIds _ b3 b1 _ (by omega)]

/-- in both branches every finite cell of the raster gets a class in `[0, k-1]` -/
theorem natural_breaks_every_finite_classified (cells : List (Ext Rat)) (bins : List Rat) (k : Nat) (mx x : Rat)
    (hmx : maxQ (finiteVals cells) = some mx) (hmem : mx ∈ bins) (hlen : bins.length ≤ k) (hx : Ext.fin x ∈ cells) :
    ∃ i : Nat, i < k ∧ classOf bins (.fin x) = .fin (i : Rat) := by
  have hxm : x ≤ mx := (maxQ_spec _ _ hmx).2 x ((mem_finiteVals cells x).mpr hx)
  obtain ⟨i, hi, h⟩ := classOf_classified bins x mx hmem hxm
  exact ⟨i, by omega, h⟩

/-- why the storage must be exact (D8): if the stored last break is below the maximum, the maximum cell is
    above the last bin and gets NaN -/
theorem natural_breaks_needs_exact_storage (bins : List Rat) (hne : bins ≠ []) (hs : bins.Pairwise (· ≤ ·))
    (mx : Rat) (hr : bins.getLast hne < mx) : classOf bins (.fin mx) = .nan :=
  (classOf_nan_iff bins hne hs mx).mpr hr

-- a rounding that moves 5 to 4 leaves the maximum cell unclassified; exact storage classifies it
example : naturalBreaks Gen.cpuBinShape (fun q => if q = 5 then 4 else q) [.fin 1, .fin 2, .fin 4, .fin 5] [1, 2, 4, 5] 2 =
    .ok [.fin 0, .fin 0, .fin 1, .nan] [2, 4] := by decide +kernel
example : naturalBreaks Gen.cpuBinShape id [.fin 1, .fin 2, .fin 4, .fin 5, .pinf] [1, 2, 4, 5] 2 =
    .ok [.fin 0, .fin 0, .fin 1, .fin 1, .nan] [2, 5] := by decide +kernel
example : (back (fun i => [1, 2, 4, (5 : Rat)].getD i 0) 4 1 4).length = 2 := by decide +kernel
-- the sample [0] of the raster [5, 0]: the fallback branch still classifies the maximum
example : naturalBreaks Gen.cpuBinShape id [.fin 5, .fin 0] [0] 3 = .ok [.fin 0, .fin 0] [5] := by decide +kernel
end XrsVerif.C12
