import XrsVerif.Model.DistanceStr
import Mathlib.Tactic.Positivity
import Mathlib.Tactic.NormNum
import Mathlib.Tactic.Linarith
import Mathlib.Algebra.Order.Field.Rat
set_option linter.unusedSectionVars false
set_option linter.unusedVariables false
namespace XrsVerif.DistStr

theorem ratOf_pos {n : Int} {d : Nat} (hn : 0 < n) (hd : 0 < d) : 0 < ratOf n d := by
  unfold ratOf
  exact div_pos (by exact_mod_cast hn) (by exact_mod_cast hd)

theorem units_pos : ∀ e ∈ Gen.units, 0 < ratOf e.2.1 e.2.2 := by
  have h : ∀ e ∈ Gen.units, 0 < e.2.1 ∧ 0 < e.2.2 := by decide
  intro e he
  exact ratOf_pos (h e he).1 (h e he).2

theorem lookupUnit_pos {u : List Char} {f : Rat} (h : lookupUnit u = some f) : 0 < f := by
  unfold lookupUnit at h
  cases hf : Gen.units.find? (fun e => e.1.toList == u) with
  | none => simp [hf] at h
  | some e =>
    simp only [hf, Option.map_some, Option.some.injEq] at h
    subst h
    exact units_pos e (List.mem_of_find?_eq_some hf)

theorem reject_is_le_zero : Gen.distance_reject = (.le, 0, 1) := by decide

theorem rejected_fin (q : Rat) : rejected (.fin q) = decide (q ≤ 0) := by
  simp [rejected, reject_is_le_zero, cmpPF, ratOf]

theorem mulFactor_fin {v : PyFloat} {f m : Rat} (hf : 0 < f) (h : mulFactor v f = .fin m) :
    ∃ q, v = .fin q ∧ m = q * f := by
  cases v with
  | nan => simp [mulFactor] at h
  | pinf => simp [mulFactor, hf] at h
  | ninf => simp [mulFactor, hf] at h
  | fin q => simp only [mulFactor, PyFloat.fin.injEq] at h; exact ⟨q, rfl, h.symm⟩

/-- every accepted finite distance is positive -/
theorem getDistance_fin_pos {s : List Char} {m : Rat} (h : getDistance s = .val (.fin m)) : 0 < m := by
  unfold getDistance at h
  simp only at h
  split at h
  · simp at h
  · split at h
    · simp at h
    · rename_i v hv
      split at h
      · simp at h
      · rename_i hrej
        split at h
        · simp at h
        · rename_i f hf
          simp only [Dist.val.injEq] at h
          obtain ⟨q, rfl, rfl⟩ := mulFactor_fin (lookupUnit_pos hf) h
          rw [rejected_fin] at hrej
          have : 0 < q := by simpa using hrej
          exact mul_pos this (lookupUnit_pos hf)
end XrsVerif.DistStr
