import XrsVerif.Proofs.Bin
namespace XrsVerif.Bin

/-- specification of a data-driven classifier with ascending finite bins `bs`:
    non-finite cells get NaN, a finite cell gets the index of the first bin `>=` it (NaN above the last bin) -/
def classOf (bs : List Rat) : Ext Rat → Ext Rat
  | .fin x => match firstGE bs x with | some i => .fin (i : Rat) | none => .nan
  | _ => .nan

theorem getW_classIds (l i : Nat) (h : i < l) : getW (Ext.nan : Ext Rat) (classIds l) (i : Int) = .fin (i : Rat) := by
  rw [getW_nat _ _ _ (by simp [classIds]; exact h)]
  simp [classIds]

theorem cell_classIds (bs : List Rat) (hne : bs ≠ []) (hs : bs.Pairwise (· ≤ ·)) (l : Nat)
    (hl : bs.length ≤ l) (v : Ext Rat) : cell (bs.map .fin) (classIds l) v = classOf bs v := by
  cases v with
  | fin x =>
    rw [cell_spec _ _ (by simpa using hne) (extAscending_fin bs hs), firstGEx_fin]
    cases h : firstGE bs x with
    | none => simp only [classOf, h]
    | some i =>
      have := firstGE_lt_length bs x i h
      simp only [classOf, h]
      rw [getW_classIds l i (by omega)]
  | nan => exact cell_nonfinite _ _ _ rfl
  | pinf => exact cell_nonfinite _ _ _ rfl
  | ninf => exact cell_nonfinite _ _ _ rfl

theorem maxQ_go (l : List Rat) (m0 : Rat) :
    ∃ m, l.foldl maxStep (some m0) = some m
      ∧ (m = m0 ∨ m ∈ l) ∧ m0 ≤ m ∧ ∀ x ∈ l, x ≤ m := by
  induction l generalizing m0 with
  | nil => exact ⟨m0, rfl, Or.inl rfl, le_refl _, by simp⟩
  | cons a as ih =>
    simp only [List.foldl_cons, maxStep]
    obtain ⟨m, h1, h2, h3, h4⟩ := ih (if m0 < a then a else m0)
    refine ⟨m, h1, ?_, ?_, ?_⟩
    · rcases h2 with h2 | h2
      · split at h2
        · right; rw [h2]; simp
        · left; exact h2
      · right; simp [h2]
    · split at h3 <;> linarith
    · intro x hx
      rcases List.mem_cons.mp hx with rfl | hx
      · split at h3 <;> linarith
      · exact h4 x hx

theorem maxQ_spec (l : List Rat) (m : Rat) (h : maxQ l = some m) : m ∈ l ∧ ∀ x ∈ l, x ≤ m := by
  cases l with
  | nil => simp [maxQ] at h
  | cons a as =>
    unfold maxQ at h
    simp only [List.foldl_cons, maxStep] at h
    obtain ⟨m', h1, h2, h3, h4⟩ := maxQ_go as a
    rw [h1] at h
    cases h
    refine ⟨?_, ?_⟩
    · rcases h2 with h2 | h2 <;> simp [h2]
    · intro x hx
      rcases List.mem_cons.mp hx with rfl | hx
      · exact h3
      · exact h4 x hx

theorem minQ_go (l : List Rat) (m0 : Rat) :
    ∃ m, l.foldl minStep (some m0) = some m
      ∧ (m = m0 ∨ m ∈ l) ∧ m ≤ m0 ∧ ∀ x ∈ l, m ≤ x := by
  induction l generalizing m0 with
  | nil => exact ⟨m0, rfl, Or.inl rfl, le_refl _, by simp⟩
  | cons a as ih =>
    simp only [List.foldl_cons, minStep]
    obtain ⟨m, h1, h2, h3, h4⟩ := ih (if a < m0 then a else m0)
    refine ⟨m, h1, ?_, ?_, ?_⟩
    · rcases h2 with h2 | h2
      · split at h2
        · right; rw [h2]; simp
        · left; exact h2
      · right; simp [h2]
    · split at h3 <;> linarith
    · intro x hx
      rcases List.mem_cons.mp hx with rfl | hx
      · split at h3 <;> linarith
      · exact h4 x hx

theorem minQ_spec (l : List Rat) (m : Rat) (h : minQ l = some m) : m ∈ l ∧ ∀ x ∈ l, m ≤ x := by
  cases l with
  | nil => simp [minQ] at h
  | cons a as =>
    unfold minQ at h
    simp only [List.foldl_cons, minStep] at h
    obtain ⟨m', h1, h2, h3, h4⟩ := minQ_go as a
    rw [h1] at h
    cases h
    refine ⟨?_, ?_⟩
    · rcases h2 with h2 | h2 <;> simp [h2]
    · intro x hx
      rcases List.mem_cons.mp hx with rfl | hx
      · exact h3
      · exact h4 x hx

theorem mem_finiteVals (cells : List (Ext Rat)) (x : Rat) : x ∈ finiteVals cells ↔ Ext.fin x ∈ cells := by
  unfold finiteVals
  rw [List.mem_filterMap]
  constructor
  · rintro ⟨c, hc, h⟩
    cases c <;> simp at h
    subst h; exact hc
  · intro h; exact ⟨_, h, rfl⟩
end XrsVerif.Bin
