import XrsVerif.Proofs.KSimp
import XrsVerif.Gen.Kernels
import Mathlib.Analysis.SpecialFunctions.Trigonometric.Inverse
import Mathlib.Analysis.SpecialFunctions.Trigonometric.Arctan
import Mathlib.Analysis.SpecialFunctions.Complex.Arg
import Mathlib.Tactic.Positivity
set_option linter.unusedSectionVars false
namespace XrsVerif.Metrics
open XrsVerif

section generic
variable {K : Type} [Field K] [LinearOrder K] [IsStrictOrderedRing K] [Trig K]

def env5 (x1 x2 y1 y2 r : NV K) : String → NV K := envOf [("x1", x1), ("x2", x2), ("y1", y1), ("y2", y2), ("radius", r)]

def greatCircle (R : K) (p q : K × K) : NV K :=
  Gen.great_circle_distance.cell (env5 (some p.1) (some q.1) (some p.2) (some q.2) (some R)) (fun _ _ _ => none) (fun _ => [])
def greatCircleFailed (R : K) (p q : K × K) : Option String :=
  Gen.great_circle_distance.cellFailed (env5 (some p.1) (some q.1) (some p.2) (some q.2) (some R)) (fun _ _ _ => none) (fun _ => [])

/-- a validation statement `if c: raise m` followed by `rest` -/
theorem exec_seq_guard {F : Type} [Fl F] (c : C) (m : String) (rest : S) (rd : String → Int → Int → F)
    (vec : String → List F) (st : KSt F) (h : st.halted = false) :
    (S.seq (S.ite c (S.fail m) S.skip) rest).exec rd vec st =
      if c.eval ⟨st.env, rd, vec⟩ then { st with halted := true, failed := some m }
      else rest.exec rd vec st := by
  simp only [S.exec]
  split <;> simp [h]

def inRange (p : K × K) : Prop := -180 ≤ p.1 ∧ p.1 ≤ 180 ∧ -90 ≤ p.2 ∧ p.2 ≤ 90

theorem gc_failed_iff (R : K) (p q : K × K) :
    (greatCircleFailed R p q).isSome ↔ ¬ (inRange p ∧ inRange q) := by
  unfold greatCircleFailed Kernel.cellFailed
  simp only [Gen.great_circle_distance]
  rw [exec_seq_guard _ _ _ _ _ _ rfl]
  split
  · rename_i h
    simp [C.eval, E.eval, CmpOp.eval, env5, envOf] at h
    simp only [inRange, Option.isSome_some, true_iff]
    rintro ⟨⟨a, b, -, -⟩, -⟩
    rcases h with h | h <;> linarith
  rw [exec_seq_guard _ _ _ _ _ _ rfl]
  split
  · rename_i h
    simp [C.eval, E.eval, CmpOp.eval, env5, envOf] at h
    simp only [inRange, Option.isSome_some, true_iff]
    rintro ⟨-, ⟨a, b, -, -⟩⟩
    rcases h with h | h <;> linarith
  rw [exec_seq_guard _ _ _ _ _ _ rfl]
  split
  · rename_i h
    simp [C.eval, E.eval, CmpOp.eval, env5, envOf] at h
    simp only [inRange, Option.isSome_some, true_iff]
    rintro ⟨⟨-, -, a, b⟩, -⟩
    rcases h with h | h <;> linarith
  rw [exec_seq_guard _ _ _ _ _ _ rfl]
  split
  · rename_i h
    simp [C.eval, E.eval, CmpOp.eval, env5, envOf] at h
    simp only [inRange, Option.isSome_some, true_iff]
    rintro ⟨-, ⟨-, -, a, b⟩⟩
    rcases h with h | h <;> linarith
  rename_i h1 h2 h3 h4
  simp [C.eval, E.eval, CmpOp.eval, env5, envOf] at h1 h2 h3 h4
  have : inRange p ∧ inRange q := ⟨⟨h1.2, h1.1, h3.2, h3.1⟩, ⟨h2.2, h2.1, h4.2, h4.1⟩⟩
  simp [S.exec, this]

def piK : K := 4 * Trig.atan 1
def rad (d : K) : K := d * (piK / 180)
def hav (p q : K × K) : K :=
  Trig.sin ((rad q.2 - rad p.2) / 2) * Trig.sin ((rad q.2 - rad p.2) / 2)
    + Trig.cos (rad p.2) * Trig.cos (rad q.2)
      * (Trig.sin ((rad q.1 - rad p.1) / 2) * Trig.sin ((rad q.1 - rad p.1) / 2))

theorem gc_value (R : K) (p q : K × K) (hp : inRange p) (hq : inRange q) :
    greatCircle R p q = some (R * 2 * Trig.asin (Trig.sqrt (hav p q))) := by
  obtain ⟨a1, a2, a3, a4⟩ := hp
  obtain ⟨b1, b2, b3, b4⟩ := hq
  have c1 := not_lt.mpr a1
  have c2 := not_lt.mpr a2
  have c3 := not_lt.mpr a3
  have c4 := not_lt.mpr a4
  have d1 := not_lt.mpr b1
  have d2 := not_lt.mpr b2
  have d3 := not_lt.mpr b3
  have d4 := not_lt.mpr b4
  unfold greatCircle env5
  ksimp [Gen.great_circle_distance, c1, c2, c3, c4, d1, d2, d3, d4, hav, rad, piK]
end generic
end XrsVerif.Metrics
