import XrsVerif.Model.Bin
namespace XrsVerif.Bin

/-- what the loop returns: an index `r` with `bins[r-1] < val` and not `bins[r] < val` -/
theorem loop_spec (below : Int → Bool) (fuel : Nat) (start stp : Int)
    (hle : start ≤ stp)
    (hlo : (1 ≤ start ∧ below (start - 1) = true) ∨ (start = 0 ∧ below 0 = true))
    (hhi : below stp = false)
    (hf : (stp - start + 1).toNat ≤ fuel) :
    start ≤ loop below fuel start stp ∧ loop below fuel start stp ≤ stp ∧ 1 ≤ loop below fuel start stp ∧
      below (loop below fuel start stp - 1) = true ∧ below (loop below fuel start stp) = false := by
  induction fuel generalizing start stp with
  | zero => omega
  | succ fuel ih =>
    have hm1 : start ≤ (stp + start) / 2 := by omega
    have hm2 : (stp + start) / 2 ≤ stp := by omega
    rw [loop.eq_def]
    simp only [hle, if_true]
    generalize (stp + start) / 2 = mid at *
    cases hc1 : below mid with
    | true =>
      have hne : mid ≠ stp := by intro h; subst h; simp [hhi] at hc1
      have := ih (mid + 1) stp (by omega) (Or.inl ⟨by omega, by simpa using hc1⟩) hhi (by omega)
      simp only [if_true]
      exact ⟨by omega, this.2.1, this.2.2.1, this.2.2.2.1, this.2.2.2.2⟩
    | false =>
      cases hc2 : below (mid - 1) with
      | true =>
        simp only [if_true, Bool.false_eq_true, if_false]
        refine ⟨hm1, hm2, ?_, hc2, hc1⟩
        rcases hlo with h | h
        · omega
        · by_cases hge : 1 ≤ mid
          · exact hge
          · have : mid = 0 := by omega
            subst this; rw [h.2] at hc1; cases hc1
      | false =>
        have hne : mid ≠ start := by
          intro h; subst h
          rcases hlo with h | h
          · rw [h.2] at hc2; cases hc2
          · rw [h.1] at hc1; rw [h.2] at hc1; cases hc1
        have := ih start (mid - 1) (by omega) hlo hc2 (by omega)
        simp only [Bool.false_eq_true, if_false]
        exact ⟨this.1, by omega, this.2.2.1, this.2.2.2.1, this.2.2.2.2⟩
end XrsVerif.Bin
