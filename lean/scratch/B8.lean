import XrsVerif.Proofs.Bin
namespace XrsVerif.Bin

theorem ceilQ_natCast (k : Nat) : ceilQ (k : Rat) = k := by
  unfold ceilQ
  have : (-(k : Rat)) = ((-(k : Int) : Int) : Rat) := by push_cast; ring
  rw [this, Rat.floor_intCast]; omega

theorem setLast_map_range {α : Type} (f : Nat → α) (k : Nat) (x : α) (h : f k = x) :
    setLast ((List.range (k + 1)).map f) x = (List.range (k + 1)).map f := by
  unfold setLast
  rw [List.range_succ, List.map_append]
  simp only [List.map_cons, List.map_nil]
  split
  · rename_i heq; simp at heq
  · rw [List.dropLast_concat, h]

/-- in exact arithmetic `arange` yields exactly `k` cuts, nothing is trimmed, and forcing the last cut to
    `max` changes nothing: the bins are `min + (i+1) * width`, `i = 0..k-1` -/
theorem equalIntervalCuts_eq (mn mx : Rat) (k : Nat) (hk : 1 ≤ k) (h : mn < mx) :
    equalIntervalCuts mn mx k =
      ((List.range k).map (fun i : Nat => mn + ((i : Rat) + 1) * ((mx - mn) / (k : Rat))), k) := by
  have hk0 : (0 : Rat) < (k : Rat) := by exact_mod_cast hk
  have hw : 0 < (mx - mn) / (k : Rat) := div_pos (by linarith) hk0
  unfold equalIntervalCuts
  simp only
  generalize hwd : (mx - mn) / (k : Rat) = w at *
  have hlen : ceilQ ((mx + w - (mn + w)) / w) = k := by
    have : (mx + w - (mn + w)) / w = (k : Rat) := by
      have hne : mx - mn ≠ 0 := by linarith
      have hk0' : (k : Rat) ≠ 0 := ne_of_gt hk0
      have : mx + w - (mn + w) = mx - mn := by ring
      rw [this, ← hwd]; field_simp
    rw [this, ceilQ_natCast]
  have har : arange (mn + w) (mx + w) w = (List.range k).map (fun i : Nat => mn + ((i : Rat) + 1) * w) := by
    unfold arange
    rw [hlen, Int.toNat_natCast]
    apply List.map_congr_left
    intro i _; ring
  rw [har]
  simp only [List.length_map, List.length_range, Nat.lt_irrefl, if_false]
  obtain ⟨k', rfl⟩ : ∃ k', k = k' + 1 := ⟨k - 1, by omega⟩
  rw [setLast_map_range]
  rw [← hwd]; push_cast; field_simp; ring

/-- the cuts ascend strictly -/
theorem equalInterval_sorted (mn w : Rat) (k : Nat) (hw : 0 < w) :
    ((List.range k).map (fun i : Nat => mn + ((i : Rat) + 1) * w)).Pairwise (· ≤ ·) := by
  rw [List.pairwise_iff_getElem]
  intro i j hi hj hij
  simp only [List.getElem_map, List.getElem_range]
  have : (i : Rat) < (j : Rat) := by exact_mod_cast hij
  nlinarith
end XrsVerif.Bin
