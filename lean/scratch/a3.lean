import XrsVerif.Proofs.AStarOpt
#print axioms XrsVerif.AStar.search_exact
#check @XrsVerif.AStar.search_exact
