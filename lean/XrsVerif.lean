import XrsVerif.Core.Fl
import XrsVerif.Core.KLang
import XrsVerif.Core.Wire
