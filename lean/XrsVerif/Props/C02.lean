import XrsVerif.Proofs.ZonalReduce
import XrsVerif.Proofs.ZonalLoop
import XrsVerif.Gen.Zonal
import XrsVerif.Proofs.ILZonal
import XrsVerif.Proofs.NV
/-
  C02 -- Zonal statistics summarise exactly the valid cells of each zone.

  Every statement is about the position-faithful model of `_sort_and_stride` / `_calc_stats` /
  `_stats_numpy` (Model/Zonal.lean) run with `Gen.Zonal.stripIndices`, the structural fact that
  harness/facts_zonal.py reads from /repo's *current* `_sort_and_stride` ("the indices of the
  non-finite zones are dropped before the values are gathered").  On a tree where only
  `sorted_zones` is stripped (defect D1) the constant is `false`, `strip_fact` below does not
  check and this file does not build -- see `unrepaired_shifts_slices` for the reason.

  Quantifiers: every raster (`zones`, `values` are arbitrary functions of the flat cell index over
  an arbitrary cell list `cells`, any linearly ordered id type `κ`, any value type `ν`), every
  `valid` predicate (finite and != nodata), every request `zoneIds`, every list of reducers, and
  **every** permutation `perm` that sorts the cells by zone in numpy's order (argsort is not stable).
  `np.unique` / `np.sort` are the verified `sortDedup` / `isort`.  Floating point: the built-in
  reducers are stated over an arbitrary linearly ordered field (exact arithmetic).
-/
set_option linter.unusedSectionVars false
set_option linter.unusedVariables false
namespace XrsVerif.C02
open XrsVerif XrsVerif.Zonal

variable {κ ν ρ : Type} [LinearOrder κ]

/-- the source fact the theorems below rest on (fails to check on a tree with defect D1) -/
theorem strip_fact : Gen.Zonal.stripIndices = true := rfl

/-! ### `_strides`: the generated loop program is the model

  `Gen.Zonal.stridesProg` is `_strides` translated statement by statement from the current source into the
  loop language of Model/ZonalLoop.lean (assignments, `for .. in range`, `while`, array reads, one output
  array).  `strides_prog_fact`: it is the program the proofs are about (`stridesSrc`, the normal form of the
  loop in /repo).  `gen_strides_eq_model`: run on any two arrays it returns exactly the breaks of the hand
  model `strides` every theorem below is stated with -- so an edit of the loop (start value, bound test,
  comparison, increment, where the break is stored) changes this obligation. -/

theorem strides_prog_fact : Gen.Zonal.stridesProg = stridesSrc := rfl

theorem gen_strides_eq_model {α : Type} [DecidableEq α] (fz uz : List α) (fuel : Nat) (hf : fz.length < fuel) :
    Gen.Zonal.stridesProg.run (stridesArrs fz uz) fuel = strides fz 0 uz := by
  rw [strides_prog_fact]
  exact stridesSrc_run fz uz fuel hf

/-- a concrete instance: `_strides([1,1,2,2,2,5], [1,2,3,5]) = [2,5,5,6]` (fuel 7 > 6 elements) -/
example : Gen.Zonal.stridesProg.run (stridesArrs [1, 1, 2, 2, 2, 5] [1, 2, 3, 5]) 7 = [2, 5, 5, 6] := by
  rw [gen_strides_eq_model _ _ _ (by decide)]; decide

/-! ### `_strides` at layer T3: the ILang program generated from the source refines the model

  `Gen.IL.strides` is `_strides` translated statement by statement by the general translator of layer T3
  (harness/facts_il.py; ILang has numba's index normalisation and bounds checks that stop the program, `while` with
  fuel, IEEE `==` on the elements).  `il_strides_refines`: for **all** arrays the program ends with `return`, never
  reads out of range, leaves its inputs unchanged and its integer array `strides` is `stridesBy Fl.eq`, the hand
  model with the number type's `==` as the comparison.  `il_strides_eq_model`: on ids that `==` compares like
  equality (finite numbers; `some : K → NV K`) that is exactly `strides fz 0 uz`, the zone breaks every theorem
  below is stated with; `il_zone_breaks`: run on the sorted, stripped zone ids of `_sort_and_stride` it returns the
  model's `breaks`.  The statements are about `Gen.IL.strides` itself: an edit of the loop changes the obligation.
  (The older tie `gen_strides_eq_model` above stays in place.) -/
section il
open XrsVerif.IL
variable {F : Type} [Fl F]

/-- **il_strides_refines.** the generated `_strides`, any two numeric arrays (also unsorted, with NaN / inf,
    empty), fuel > number of elements -/
theorem il_strides_refines (fz uz : List F) (s : State F) (fuel : Nat) (hin : StridesInput fz uz s)
    (hf : fz.length < fuel) :
    let r := Gen.IL.strides.run s fuel
    r.ctl = .ret ∧ r.shp "strides" = [uz.length] ∧ r.fa = s.fa ∧
    r.ia "strides" = (stridesBy Fl.eq fz 0 uz).map (fun (k : Nat) => (k : Int)) :=
  strides_refines fz uz s fuel hin hf

/-- **il_strides_eq_model.** ids embedded into the number type so that `==` on images is equality of ids: the
    generated program computes the model's `strides` -/
theorem il_strides_eq_model {α : Type} [DecidableEq α] (emb : α → F)
    (hemb : ∀ x y, Fl.eq (emb x) (emb y) = decide (x = y)) (fz uz : List α) (s : State F) (fuel : Nat)
    (hin : StridesInput (fz.map emb) (uz.map emb) s) (hf : fz.length < fuel) :
    let r := Gen.IL.strides.run s fuel
    r.ctl = .ret ∧ r.shp "strides" = [uz.length] ∧ r.fa = s.fa ∧
    r.ia "strides" = (strides fz 0 uz).map (fun (k : Nat) => (k : Int)) :=
  strides_refines_model emb hemb fz uz s fuel hin hf

/-- **il_zone_breaks.** the `zone_breaks` of `_sort_and_stride`: the generated `_strides`, called with the sorted
    zone ids (non-finite ones stripped) and the unique ids, returns the model's `breaks` -- the slices
    `stats_value` and the theorems below are about are cut at the positions the *generated program* computes -/
theorem il_zone_breaks (strip : Bool) (zones : Nat → X κ) (values : Nat → ν) (uniq : List κ) (perm : List Nat)
    (emb : κ → F) (hemb : ∀ x y, Fl.eq (emb x) (emb y) = decide (x = y)) (s : State F) (fuel : Nat)
    (hin : StridesInput
      ((((sortAndStride strip zones values uniq perm).idx.map zones).filterMap X.toFin?).map emb) (uniq.map emb) s)
    (hf : perm.length < fuel) :
    let r := Gen.IL.strides.run s fuel
    r.ctl = .ret ∧
    r.ia "strides" = (sortAndStride strip zones values uniq perm).breaks.map (fun (k : Nat) => (k : Int)) := by
  have hlen : (((sortAndStride strip zones values uniq perm).idx.map zones).filterMap X.toFin?).length < fuel := by
    refine Nat.lt_of_le_of_lt (Nat.le_trans (List.length_filterMap_le _ _) ?_) hf
    simp only [List.length_map, sortAndStride]
    split
    · exact List.length_filter_le _ _
    · exact Nat.le_refl _
  have h := strides_refines_model emb hemb _ uniq s fuel hin hlen
  exact ⟨h.1, h.2.2.2⟩

end il

section ilExample
open XrsVerif.IL
local instance : Trig ℚ := ⟨id, id, fun a _ => a, id, id, id, id⟩

/-- non-vacuity: the generated program on `_strides([1,1,2,2,2,5], [1,2,3,5])` over `NV ℚ` returns `[2,5,5,6]` -/
example : ((Gen.IL.strides.run (stridesState (([1, 1, 2, 2, 2, 5] : List ℚ).map some) (([1, 2, 3, 5] : List ℚ).map some)) 7).ctl,
      (Gen.IL.strides.run (stridesState (([1, 1, 2, 2, 2, 5] : List ℚ).map some) (([1, 2, 3, 5] : List ℚ).map some)) 7).ia "strides")
    = (Ctl.ret, [2, 5, 5, 6]) := by
  have h := il_strides_eq_model (F := NV ℚ) some (fun x y => rfl) [1, 1, 2, 2, 2, 5] [1, 2, 3, 5] _ 7
    (stridesState_input _ _) (by decide)
  rw [Prod.mk.injEq]
  exact ⟨h.1, by rw [h.2.2.2]; decide⟩

/-- non-vacuity with a NaN and an unsorted array (`==` never holds for NaN): the general form -/
example : (Gen.IL.strides.run (stridesState ([some 1, none, some 1] : List (NV ℚ)) [some 1, none]) 4).ia "strides" = [1, 1] := by
  have h := il_strides_refines (F := NV ℚ) [some 1, none, some 1] [some 1, none] _ 4 (stridesState_input _ _) (by decide)
  rw [h.2.2.2]; decide

end ilExample

/-- **rows**: one row per distinct finite zone id present among the cells, ascending, restricted
    to the requested ids that exist -/
theorem stats_rows (zones : Nat → X κ) (cells : List Nat) (zoneIds : Option (List κ)) :
    (wantedZones zones cells zoneIds).Pairwise (· < ·) ∧
    ∀ u, u ∈ wantedZones zones cells zoneIds ↔ (∃ i ∈ cells, zones i = .fin u) ∧ wanted zoneIds u = true := by
  refine ⟨filter_sorted _ _ (sorted_sortDedup _), ?_⟩
  intro u
  simp only [wantedZones, List.mem_filter, mem_uniqueZones]

/-- **values**: for every sorting permutation and every order-independent reducer the DataFrame is
    exactly: the wanted zones, and per reducer `f` of the multiset of the zone's valid values
    (cells whose zone *equals* the id, value finite and != nodata), NaN when there is none -/
theorem stats_value (zones : Nat → X κ) (values : Nat → ν) (cells perm : List Nat)
    (valid : ν → Bool) (nanρ : ρ) (funcs : List (List ν → ρ)) (zoneIds : Option (List κ))
    (hp : SortsCells zones cells perm) (hf : ∀ f ∈ funcs, PermInv f) :
    statsNumpy Gen.Zonal.stripIndices zones values cells valid nanρ funcs zoneIds perm
      = { zone := wantedZones zones cells zoneIds
          cols := funcs.map (fun f => (wantedZones zones cells zoneIds).map
                    (zoneStat zones values valid nanρ f cells)) } := by
  rw [strip_fact, statsNumpy_fixed zones values cells perm valid nanρ funcs zoneIds hp]
  congr 1
  apply List.map_congr_left
  intro f hfm
  apply List.map_congr_left
  intro u _
  exact zoneStat_perm zones values valid nanρ f (hf f hfm) perm cells hp.isPerm u

/-- a user reducer that *does* depend on the order still sees exactly the zone's valid values:
    the argument it is called with is a permutation of them -/
theorem stats_value_any_reducer (zones : Nat → X κ) (values : Nat → ν) (cells perm : List Nat)
    (valid : ν → Bool) (nanρ : ρ) (funcs : List (List ν → ρ)) (zoneIds : Option (List κ))
    (hp : SortsCells zones cells perm) :
    statsNumpy Gen.Zonal.stripIndices zones values cells valid nanρ funcs zoneIds perm
      = { zone := wantedZones zones cells zoneIds
          cols := funcs.map (fun f => (wantedZones zones cells zoneIds).map
                    (zoneStat zones values valid nanρ f perm)) } ∧
    ∀ u, (zoneCells zones values valid perm u).Perm (zoneCells zones values valid cells u) := by
  rw [strip_fact]
  exact ⟨statsNumpy_fixed zones values cells perm valid nanρ funcs zoneIds hp,
    fun u => zoneCells_perm zones values valid perm cells hp.isPerm u⟩

/-- which sorting permutation `np.argsort` happens to return does not matter -/
theorem stats_perm_independent (zones : Nat → X κ) (values : Nat → ν) (cells p₁ p₂ : List Nat)
    (valid : ν → Bool) (nanρ : ρ) (funcs : List (List ν → ρ)) (zoneIds : Option (List κ))
    (h₁ : SortsCells zones cells p₁) (h₂ : SortsCells zones cells p₂) (hf : ∀ f ∈ funcs, PermInv f) :
    statsNumpy Gen.Zonal.stripIndices zones values cells valid nanρ funcs zoneIds p₁
      = statsNumpy Gen.Zonal.stripIndices zones values cells valid nanρ funcs zoneIds p₂ := by
  rw [stats_value zones values cells p₁ valid nanρ funcs zoneIds h₁ hf,
    stats_value zones values cells p₂ valid nanρ funcs zoneIds h₂ hf]

/-- a zone with no valid cell gets NaN, whatever the reducer -/
theorem empty_zone_nan (zones : Nat → X κ) (values : Nat → ν) (valid : ν → Bool) (nanρ : ρ)
    (f : List ν → ρ) (cells : List Nat) (u : κ)
    (h : ∀ i ∈ cells, zones i = .fin u → valid (values i) = false) :
    zoneStat zones values valid nanρ f cells u = nanρ := by
  have : zoneCells zones values valid cells u = [] := by
    unfold zoneCells
    rw [List.filter_eq_nil_iff]
    intro x hx
    rw [List.mem_map] at hx
    obtain ⟨i, hi, rfl⟩ := hx
    rw [List.mem_filter] at hi
    simp [h i hi.1 (by simpa using hi.2)]
  simp [zoneStat, this]

/-- cells whose zone is NaN or infinite belong to no zone: their values cannot influence the table -/
theorem nonfinite_zone_cells_ignored (zones : Nat → X κ) (values values' : Nat → ν) (cells perm : List Nat)
    (valid : ν → Bool) (nanρ : ρ) (funcs : List (List ν → ρ)) (zoneIds : Option (List κ))
    (hp : SortsCells zones cells perm) (hf : ∀ f ∈ funcs, PermInv f)
    (hsame : ∀ i, (zones i).isFin = true → values i = values' i) :
    statsNumpy Gen.Zonal.stripIndices zones values cells valid nanρ funcs zoneIds perm
      = statsNumpy Gen.Zonal.stripIndices zones values' cells valid nanρ funcs zoneIds perm := by
  rw [stats_value zones values cells perm valid nanρ funcs zoneIds hp hf,
    stats_value zones values' cells perm valid nanρ funcs zoneIds hp hf]
  congr 1
  apply List.map_congr_left
  intro f _
  apply List.map_congr_left
  intro u _
  have : zoneCells zones values valid cells u = zoneCells zones values' valid cells u := by
    unfold zoneCells
    congr 1
    apply List.map_congr_left
    intro i hi
    have hz : zones i = .fin u := by simpa using (List.mem_filter.mp hi).2
    exact hsame i (by simp [hz, X.isFin])
  simp [zoneStat, this]

/-- **raster form** (`return_type='xarray.DataArray'`): every cell of a wanted zone carries its
    zone's statistic, every other cell (other zone, NaN / infinite zone) is NaN -/
theorem raster_form (zones : Nat → X κ) (values : Nat → ν) (cells perm : List Nat)
    (valid : ν → Bool) (nanρ : ρ) (funcs : List (List ν → ρ)) (zoneIds : Option (List κ))
    (hp : SortsCells zones cells perm) (hf : ∀ f ∈ funcs, PermInv f) :
    statsRaster Gen.Zonal.stripIndices zones values cells valid nanρ funcs zoneIds perm
      = funcs.map (fun f => fun j =>
          match zones j with
          | .fin k => if k ∈ wantedZones zones cells zoneIds ∧ j ∈ cells
                        then zoneStat zones values valid nanρ f cells k else nanρ
          | _ => nanρ) := by
  rw [strip_fact, statsRaster_fixed zones values cells perm valid nanρ funcs zoneIds hp]
  apply List.map_congr_left
  intro f hfm
  funext j
  cases hz : zones j with
  | fin k =>
    simp only [List.contains_eq_mem, decide_eq_true_eq, hp.isPerm.mem_iff]
    rw [zoneStat_perm zones values valid nanρ f (hf f hfm) perm cells hp.isPerm k]
  | _ => rfl

/-! ### the built-in statistics (over any linearly ordered field, `sqrt` uninterpreted) -/

section builtin
variable {F : Type} [Field F] [LinearOrder F] [IsStrictOrderedRing F]

/-- mean / max / min / sum / std / var / count as called by `stats`: order independent, hence
    `stats_value` and `raster_form` apply to every subset of them in any order -/
theorem builtin_order_independent (sqrt : F → F) (stats : List Stat) :
    ∀ f ∈ stats.map (fun s => (Stat.func sqrt s : List (X F) → Option F)), PermInv f := by
  intro f hf
  rw [List.mem_map] at hf
  obtain ⟨s, _, rfl⟩ := hf
  exact Stat.func_permInv sqrt s

/-- the table of the built-in statistics -/
theorem builtin_table (sqrt : F → F) (zones : Nat → X κ) (values : Nat → X F) (cells perm : List Nat)
    (nodata : Option (X F)) (stats : List Stat) (zoneIds : Option (List κ))
    (hp : SortsCells zones cells perm) :
    statsNumpy Gen.Zonal.stripIndices zones values cells (validX nodata) (none : Option F)
        (stats.map (Stat.func sqrt)) zoneIds perm
      = { zone := wantedZones zones cells zoneIds
          cols := (stats.map (Stat.func sqrt)).map (fun f => (wantedZones zones cells zoneIds).map
                    (zoneStat zones values (validX nodata) none f cells)) } :=
  stats_value zones values cells perm (validX nodata) none _ zoneIds hp (builtin_order_independent sqrt stats)

/-- `max` is the greatest, `min` the least of the zone's values; `sum`, `count`, `mean = sum / count`,
    `var = mean of the squared deviations`, `std = sqrt var` are their defining formulas -/
theorem builtin_meaning (sqrt : F → F) (l : List F) (hl : l ≠ []) :
    (Stat.max.eval sqrt l ∈ l ∧ ∀ x ∈ l, x ≤ Stat.max.eval sqrt l) ∧
    (Stat.min.eval sqrt l ∈ l ∧ ∀ x ∈ l, Stat.min.eval sqrt l ≤ x) ∧
    Stat.sum.eval sqrt l = l.sum ∧ Stat.count.eval sqrt l = (l.length : F) ∧
    Stat.mean.eval sqrt l = l.sum / (l.length : F) ∧
    Stat.var.eval sqrt l = (l.map (fun x => (x - l.sum / (l.length : F)) * (x - l.sum / (l.length : F)))).sum / (l.length : F) ∧
    Stat.std.eval sqrt l = sqrt (Stat.var.eval sqrt l) :=
  ⟨rmax_spec l hl, rmin_spec l hl, rfl, rfl, rfl, rfl, rfl⟩

/-- what a valid value is: finite and different from `nodata_values` -/
theorem valid_iff (nodata : Option (X F)) (v : X F) :
    validX nodata v = true ↔ ∃ q, v = .fin q ∧ nodata ≠ some (.fin q) := by
  cases v <;> simp [validX]

/-- **the filter of `_calc_stats` is that predicate**: the boolean mask the source selects the zone's values
    with (`Gen.Zonal.maskCalcStats`, translated by harness/facts_zonal.py from the current `_calc_stats`),
    read with NumPy's elementwise / IEEE semantics, keeps exactly the values that are finite and not equal to
    `nodata_values` -- for every value (NaN, +-inf, finite) and every nodata (`None`, NaN, +-inf, finite).
    A tolerant comparison (`np.isclose`), a dropped conjunct or a `>` in place of `!=` is not this predicate:
    the generated mask changes (or is `unknown`) and this theorem does not check. -/
theorem calc_stats_mask_fact (nodata : Option (X F)) (v : X F) :
    Gen.Zonal.maskCalcStats.eval nodata v = validX nodata v := by
  rcases nodata with _ | (_ | _ | _ | _) <;> cases v <;>
    (try simp [Gen.Zonal.maskCalcStats, MExpr.eval, validX, ieeeEq, X.isFin]) <;> (try exact eq_comm)

end builtin

/-! ### why the fact matters: the unrepaired gather (D1) -/

/-- zones `[[-inf, 1, 1], [2, 2, 2]]`, values `[[100, 1, 2], [3, 4, 5]]`: when only `sorted_zones`
    is stripped, the -inf cell stays at the front of `values_by_zones`, zone 1 gets `100 + 1`
    and zone 2 gets `2 + 3 + 4` (the real code returns exactly that on the unrepaired tree) -/
theorem unrepaired_shifts_slices :
    let zones : Nat → X Int := fun i => [X.ninf, .fin 1, .fin 1, .fin 2, .fin 2, .fin 2].getD i .nan
    let values : Nat → Int := fun i => [100, 1, 2, 3, 4, 5].getD i 0
    statsNumpy false zones values (List.range 6) (fun _ => true) (-1) [List.sum] none [0, 1, 2, 3, 4, 5]
      = { zone := [1, 2], cols := [[101, 9]] } ∧
    statsNumpy true zones values (List.range 6) (fun _ => true) (-1) [List.sum] none [0, 1, 2, 3, 4, 5]
      = { zone := [1, 2], cols := [[3, 12]] } := by
  decide

/-- **the hypothesis the unrepaired code forces**: the variant that strips only `sorted_zones`
    (`strip = false`, what `facts_zonal.py` reads from a tree with D1) still produces the right table
    for every raster in which *no zone cell is -inf* -- NaN and +inf sort to the end and are harmless -/
theorem unrepaired_ok_without_neg_inf (zones : Nat → X κ) (values : Nat → ν) (cells perm : List Nat)
    (valid : ν → Bool) (nanρ : ρ) (funcs : List (List ν → ρ)) (zoneIds : Option (List κ))
    (hp : SortsCells zones cells perm) (hf : ∀ f ∈ funcs, PermInv f)
    (hno : ∀ i ∈ cells, zones i ≠ .ninf) :
    statsNumpy false zones values cells valid nanρ funcs zoneIds perm
      = { zone := wantedZones zones cells zoneIds
          cols := funcs.map (fun f => (wantedZones zones cells zoneIds).map
                    (zoneStat zones values valid nanρ f cells)) } := by
  rw [statsNumpy_unrepaired_eq zones values cells perm valid nanρ funcs zoneIds hp.isSorted
    (fun i hi => hno i (hp.isPerm.subset hi))]
  have := stats_value zones values cells perm valid nanρ funcs zoneIds hp hf
  rw [strip_fact] at this
  exact this

/-! ### non-vacuity -/

/-- a sorting permutation exists for a concrete raster with NaN, -inf and +inf zone cells -/
example : SortsCells (fun i => ([X.fin 2, .nan, .ninf, .fin 1, .pinf, .fin 2] : List (X Int)).getD i .nan)
    (List.range 6) [2, 3, 0, 5, 4, 1] :=
  ⟨by decide, by decide⟩

example : wantedZones (fun i => ([X.fin 2, .nan, .ninf, .fin 1, .pinf, .fin 2] : List (X Int)).getD i .nan)
    (List.range 6) (some [7, 2]) = [2] := by decide

end XrsVerif.C02
