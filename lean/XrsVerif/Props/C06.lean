import XrsVerif.Proofs.Proximity
import XrsVerif.Proofs.ProximitySmall
import XrsVerif.Proofs.KSimp
import XrsVerif.Gen.ProximityFacts
import XrsVerif.Proofs.ILProxNumpy
import XrsVerif.Proofs.ILProxDir
import XrsVerif.Proofs.ILProxWitness
/-
  C06 -- Proximity, allocation, direction name one real target, never underestimated.

  Every statement is about `Prox.run c tg` (Model/Proximity.lean): the four-sweep propagation of
  `xrspatial/proximity.py` over a grid `c.H × c.W` with coordinate steps `c.sx`, `c.sy`, a target predicate
  `tg` (any predicate: the default "non-zero and finite" rule and explicit `target_values` are instances,
  `target_rule_*` below), squared distances `dist2 c` and the threshold `c.max2x2 = ⌈2·max²⌉` (`none` = ∞).
  `proxAt img r p` is the *squared* proximity (`none` = NaN), `allocAt img r p` the target cell that
  `output_img` refers to, `allocationOut` / `directionOut` the ALLOCATION / DIRECTION outputs, where the
  bearing is the `_calc_direction` kernel *generated from the source* (Gen/Kernels.lean).
  There is no bound on the grid size, the layout, the threshold or (where not stated) the metric:
  `Metric.other f` is an arbitrary distance table, which is how GREAT_CIRCLE is covered.
  The model is tied to /repo by harness/corr_C06.py (same rasters through the model and through the real
  `proximity()`, `allocation()`, `direction()`); float rounding of sqrt and of the squares is covered by
  that run only (DESIGN.md section 4).
-/
set_option linter.unusedSectionVars false
set_option linter.unusedVariables false
namespace XrsVerif.C06
open XrsVerif XrsVerif.Prox

/-! ### proximity is 0 exactly on target cells -/

/-- `dist(a, b) = 0` only for `a = b` -/
def Sep (c : Cfg) : Prop := ∀ r1 c1 r2 c2, dist2 c r1 c1 r2 c2 = 0 → r1 = r2 ∧ c1 = c2

theorem zero_iff_target (c : Cfg) (tg : Nat → Nat → Bool) (hrefl : c.Refl) (hsep : Sep c)
    (r p : Nat) (hr : r < c.H) (hp : p < c.W) :
    proxAt (run c tg) r p = some 0 ↔ tg r p = true := by
  constructor
  · intro h
    obtain ⟨t, _, hT, hd, _⟩ := (run_cell_sound c tg hrefl r p hr hp).1 0 h
    obtain ⟨h1, h2⟩ := hsep _ _ _ _ hd.symm
    rw [← h1, ← h2]; exact hT.1
  · exact run_zero c tg r p hr hp

/-- the planar metrics with positive coordinate steps satisfy both side conditions -/
theorem planar_side_conditions (c : Cfg) (h : c.Planar) (hsx : 0 < c.sx) (hsy : 0 < c.sy) : c.Refl ∧ Sep c :=
  ⟨planar_refl c h, planar_sep c h hsx hsy⟩

/-- the default target rule: non-zero and finite -/
theorem target_rule_default (v : Val) : isTargetVal [] v = true ↔ ∃ q : Rat, v = .fin q ∧ q ≠ 0 := by
  cases v <;> simp [isTargetVal]

/-- explicit `target_values`: IEEE equality with one of them (NaN never matches) -/
theorem target_rule_explicit (t : Val) (ts : List Val) (v : Val) :
    isTargetVal (t :: ts) v = true ↔ ∃ u, u ∈ t :: ts ∧ Val.ieq v u = true := by
  simp [isTargetVal]

theorem target_rule_nan (vals : List Val) : isTargetVal vals .nan = false := by
  unfold isTargetVal
  split
  · rfl
  · simp [Val.ieq]

/-! ### every recorded target is a real target; every defined proximity is the distance to it -/

/-- whatever `output_img` refers to is a target cell of the grid (all lines, both passes) -/
theorem recorded_is_target (c : Cfg) (tg : Nat → Nat → Bool) (hrefl : c.Refl)
    (r p : Nat) (hr : r < c.H) (hp : p < c.W) (t : Nat × Nat) (h : allocAt (run c tg) r p = some t) :
    tg t.1 t.2 = true ∧ t.1 < c.H ∧ t.2 < c.W := by
  have hs := run_cell_sound c tg hrefl r p hr hp
  cases hl : proxAt (run c tg) r p with
  | none =>
    rw [hs.2 hl] at h; cases h
  | some d =>
    obtain ⟨t', ht', hT, _, _⟩ := hs.1 d hl
    rw [ht'] at h; cases h
    exact hT

/-- **soundness**: a defined (non-NaN) proximity at (r, p) is the distance from (r, p) to the target cell `t`
    that ALLOCATION / DIRECTION report, `t` is a real target, and the distance is within `max_distance` -/
theorem sound (c : Cfg) (tg : Nat → Nat → Bool) (hrefl : c.Refl)
    (r p : Nat) (hr : r < c.H) (hp : p < c.W) (d : Nat) (h : proxAt (run c tg) r p = some d) :
    ∃ t, allocAt (run c tg) r p = some t ∧ (tg t.1 t.2 = true ∧ t.1 < c.H ∧ t.2 < c.W) ∧
      d = dist2 c t.1 t.2 r p ∧ withinMax c d = true :=
  (run_cell_sound c tg hrefl r p hr hp).1 d h

/-- **never underestimated**: the exact nearest-target distance is defined and not larger -/
theorem never_under (c : Cfg) (tg : Nat → Nat → Bool) (hrefl : c.Refl)
    (r p : Nat) (hr : r < c.H) (hp : p < c.W) (d : Nat) (h : proxAt (run c tg) r p = some d) :
    ∃ e, exact c tg r p = some e ∧ e ≤ d := by
  obtain ⟨t, _, hT, hd, _⟩ := sound c tg hrefl r p hr hp d h
  obtain ⟨e, he, hle⟩ := exact_le c tg r p t hT
  exact ⟨e, he, by rw [hd]; exact hle⟩

/-- **never above max_distance**: `d ≤ max²`, i.e. `2·d ≤ ⌈2·max²⌉` -/
theorem le_max (c : Cfg) (tg : Nat → Nat → Bool) (hrefl : c.Refl)
    (r p : Nat) (hr : r < c.H) (hp : p < c.W) (d m : Nat) (h : proxAt (run c tg) r p = some d)
    (hm : c.max2x2 = some m) : 2 * d ≤ m := by
  obtain ⟨_, _, _, _, hw⟩ := sound c tg hrefl r p hr hp d h
  unfold withinMax at hw
  rw [hm] at hw
  simpa using hw

/-! ### the three outputs talk about the same target; NaN in one iff NaN in all -/

theorem nan_together (c : Cfg) (tg : Nat → Nat → Bool) (hrefl : c.Refl)
    (r p : Nat) (hr : r < c.H) (hp : p < c.W) :
    proxAt (run c tg) r p = none ↔ allocAt (run c tg) r p = none := by
  have hs := run_cell_sound c tg hrefl r p hr hp
  constructor
  · exact hs.2
  · intro h
    cases hl : proxAt (run c tg) r p with
    | none => rfl
    | some d =>
      obtain ⟨t, ht, _⟩ := hs.1 d hl
      rw [ht] at h; cases h

variable {K : Type} [Field K] [LinearOrder K] [IsStrictOrderedRing K] [Trig K]

/-- the constant of `_calc_direction` (57.29578, slightly more than 180/π) -/
def kdeg : K := 2864789 / 50000

theorem bearing_self (x y : K) : bearing (some x : NV K) (some x) (some y) (some y) = some 0 := by
  ksimp [bearing, Gen.calc_direction, dirEnv]

/-- the generated `_calc_direction` as a function of θ = atan2(-(y2-y1), x2-x1)·57.29578 -/
theorem bearing_formula (x1 x2 y1 y2 : K) (h : ¬ (x1 = x2 ∧ y1 = y2)) :
    bearing (some x1 : NV K) (some x2) (some y1) (some y2) =
      some (let θ := Trig.atan2 (-(y2 - y1)) (x2 - x1) * kdeg
            if θ < 0 then 90 - θ else if 90 < θ then 360 - θ + 90 else 90 - θ) := by
  ksimp [bearing, Gen.calc_direction, dirEnv, h, kdeg, apply_ite KSt.halted, apply_ite KSt.out, apply_ite KSt.env]
  split_ifs <;> simp [setVar]

/-- on finite coordinates the bearing is never NaN -/
theorem bearing_defined (x1 x2 y1 y2 : K) : ∃ v : K, bearing (some x1 : NV K) (some x2) (some y1) (some y2) = some v := by
  by_cases h : x1 = x2 ∧ y1 = y2
  · obtain ⟨h1, h2⟩ := h
    subst h1; subst h2
    exact ⟨0, bearing_self x1 y1⟩
  · exact ⟨_, bearing_formula x1 x2 y1 y2 h⟩

/-- **the three outputs agree.**  For finite coordinates `xs`, `ys` and any raster:
    * NaN in PROXIMITY iff NaN in ALLOCATION iff NaN in DIRECTION;
    * a defined proximity `d` comes with one real target cell `t` such that `d` is the distance to `t`,
      ALLOCATION is the raster value at `t`, and DIRECTION is the bearing from the cell to `t`. -/
theorem three_outputs_agree (c : Cfg) (tg : Nat → Nat → Bool) (hrefl : c.Refl) {α : Type} (raster : Nat → Nat → α)
    (xs ys : Nat → K) (r p : Nat) (hr : r < c.H) (hp : p < c.W) :
    (proxAt (run c tg) r p = none ↔ allocationOut raster (run c tg) r p = none) ∧
    (proxAt (run c tg) r p = none ↔
      directionOut (fun i => (some (xs i) : NV K)) (fun i => some (ys i)) (run c tg) r p = none) ∧
    (∀ d, proxAt (run c tg) r p = some d →
      ∃ t : Nat × Nat, (tg t.1 t.2 = true ∧ t.1 < c.H ∧ t.2 < c.W) ∧ d = dist2 c t.1 t.2 r p ∧
        allocationOut raster (run c tg) r p = some (raster t.1 t.2) ∧
        directionOut (fun i => (some (xs i) : NV K)) (fun i => some (ys i)) (run c tg) r p =
          bearing (some (xs p)) (some (xs t.2)) (some (ys r)) (some (ys t.1))) := by
  have hn := nan_together c tg hrefl r p hr hp
  refine ⟨?_, ?_, ?_⟩
  · rw [hn]; unfold allocationOut; simp
  · rw [hn]; unfold directionOut
    cases ha : allocAt (run c tg) r p with
    | none => simp
    | some t =>
      obtain ⟨v, hv⟩ := bearing_defined (xs p) (xs t.2) (ys r) (ys t.1)
      simp [hv]
  · intro d hd
    obtain ⟨t, ht, hT, hdist, _⟩ := sound c tg hrefl r p hr hp d hd
    exact ⟨t, hT, hdist, by simp [allocationOut, ht], by simp [directionOut, ht]⟩

/-! ### unbounded search: no NaN as soon as there is one target -/

theorem no_nan_unbounded (c : Cfg) (tg : Nat → Nat → Bool) (hmax : c.max2x2 = none)
    (t0 : Nat × Nat) (ht0 : tg t0.1 t0.2 = true ∧ t0.1 < c.H ∧ t0.2 < c.W)
    (r p : Nat) (hr : r < c.H) (hp : p < c.W) : ∃ d, proxAt (run c tg) r p = some d := by
  apply run_reach c tg t0.1 t0.2 r p ht0 hr hp
  · intro q _ _ t _; rw [hmax]; rfl
  · intro row _ t _; rw [hmax]; rfl
  · intro t _; unfold withinMax; rw [hmax]

/-! ### a single target: exact wherever it is within max_distance, NaN elsewhere -/

/-- unbounded search, **any** metric (great-circle included): one target ⇒ every cell gets exactly its distance -/
theorem single_target_exact_unbounded (c : Cfg) (tg : Nat → Nat → Bool) (hrefl : c.Refl) (hmax : c.max2x2 = none)
    (t0 : Nat × Nat) (ht0 : tg t0.1 t0.2 = true ∧ t0.1 < c.H ∧ t0.2 < c.W)
    (huniq : ∀ t : Nat × Nat, (tg t.1 t.2 = true ∧ t.1 < c.H ∧ t.2 < c.W) → t = t0)
    (r p : Nat) (hr : r < c.H) (hp : p < c.W) :
    proxAt (run c tg) r p = some (dist2 c t0.1 t0.2 r p) := by
  obtain ⟨d, hd⟩ := no_nan_unbounded c tg hmax t0 ht0 r p hr hp
  obtain ⟨t, _, hT, hdist, _⟩ := sound c tg hrefl r p hr hp d hd
  rw [huniq t hT] at hdist
  rw [hd, hdist]

/-- bounded search, stated for any metric under the hypothesis the proof needs: the distance to the target
    does not grow when a cell moves towards the target's line or column (`hmono`, "path-monotone").
    **Partial** with respect to the property text, which also names GREAT_CIRCLE: `hmono` holds for the planar
    metrics (`single_target_exact`) but fails for great-circle distances on rasters spanning more than half the
    globe in longitude, and there the real code does return NaN for cells within max_distance
    (design_notes/C06.md, "Great-circle wrap-around"). -/
theorem single_target_exact_partial (c : Cfg) (tg : Nat → Nat → Bool) (hrefl : c.Refl)
    (t0 : Nat × Nat) (ht0 : tg t0.1 t0.2 = true ∧ t0.1 < c.H ∧ t0.2 < c.W)
    (huniq : ∀ t : Nat × Nat, (tg t.1 t.2 = true ∧ t.1 < c.H ∧ t.2 < c.W) → t = t0)
    (r p : Nat) (hr : r < c.H) (hp : p < c.W)
    (hzero : dist2 c t0.1 t0.2 r p = 0 → t0.1 = r ∧ t0.2 = p)
    (hmono : ∀ row q, adiff t0.1 row ≤ adiff t0.1 r → adiff t0.2 q ≤ adiff t0.2 p →
      dist2 c t0.1 t0.2 row q ≤ dist2 c t0.1 t0.2 r p) :
    proxAt (run c tg) r p =
      (if withinMax c (dist2 c t0.1 t0.2 r p) then some (dist2 c t0.1 t0.2 r p) else none) ∧
    proxAt (run c tg) r p = exactCut c tg r p := by
  -- the exact nearest distance is the distance to the only target
  have hex : exact c tg r p = some (dist2 c t0.1 t0.2 r p) := by
    obtain ⟨e, he, _⟩ := exact_le c tg r p t0 ht0
    obtain ⟨t, hT, het⟩ := exact_attained c tg r p e he
    rw [huniq t hT] at het
    rw [he, het]; rfl
  have hcut : exactCut c tg r p =
      (if withinMax c (dist2 c t0.1 t0.2 r p) then some (dist2 c t0.1 t0.2 r p) else none) := by
    unfold exactCut; rw [hex]
  suffices hmain : proxAt (run c tg) r p =
      (if withinMax c (dist2 c t0.1 t0.2 r p) then some (dist2 c t0.1 t0.2 r p) else none) from
    ⟨hmain, hmain.trans hcut.symm⟩
  cases hl : proxAt (run c tg) r p with
  | some d =>
    obtain ⟨t, _, hT, hd, hw⟩ := sound c tg hrefl r p hr hp d hl
    rw [huniq t hT] at hd
    rw [hd] at hw ⊢
    simp [hw]
  | none =>
    by_cases hw : withinMax c (dist2 c t0.1 t0.2 r p) = true
    · exfalso
      -- the cell is within max_distance of the target: the sweeps reach it
      have hne : ∃ d, proxAt (run c tg) r p = some d := by
        by_cases hself : dist2 c t0.1 t0.2 r p = 0
        · obtain ⟨h1, h2⟩ := hzero hself
          exact ⟨0, run_zero c tg r p hr hp (by rw [← h1, ← h2]; exact ht0.1)⟩
        · -- every cell of the L-shaped path from the target is strictly below the 2·max² bound
          have hbound : ∀ row q, adiff t0.1 row ≤ adiff t0.1 r → adiff t0.2 q ≤ adiff t0.2 p →
              Good c tg row q := by
            intro row q h1 h2 t hT
            rw [huniq t hT]
            have hm' : dist2 c t0.1 t0.2 row q ≤ dist2 c t0.1 t0.2 r p := hmono row q h1 h2
            unfold withinMax at hw
            unfold ltOpt dT
            cases hm : c.max2x2 with
            | none => rfl
            | some m =>
              rw [hm] at hw
              simp only [decide_eq_true_eq] at hw ⊢
              omega
          apply run_reach c tg t0.1 t0.2 r p ht0 hr hp
          · intro q _ hq
            exact hbound t0.1 q (by rw [adiff_self]; exact Nat.zero_le _) (by unfold adiff; omega)
          · intro row hrow
            exact hbound row p (by unfold adiff; omega) (Nat.le_refl _)
          · intro t hT
            rw [huniq t hT]; exact hw
      obtain ⟨d, hd⟩ := hne
      rw [hl] at hd; cases hd
    · simp [hw]

/-- the two planar metrics with positive coordinate steps: exact wherever within max_distance, NaN elsewhere -/
theorem single_target_exact (c : Cfg) (tg : Nat → Nat → Bool) (hpl : c.Planar) (hsx : 0 < c.sx) (hsy : 0 < c.sy)
    (t0 : Nat × Nat) (ht0 : tg t0.1 t0.2 = true ∧ t0.1 < c.H ∧ t0.2 < c.W)
    (huniq : ∀ t : Nat × Nat, (tg t.1 t.2 = true ∧ t.1 < c.H ∧ t.2 < c.W) → t = t0)
    (r p : Nat) (hr : r < c.H) (hp : p < c.W) :
    proxAt (run c tg) r p =
      (if withinMax c (dist2 c t0.1 t0.2 r p) then some (dist2 c t0.1 t0.2 r p) else none) ∧
    proxAt (run c tg) r p = exactCut c tg r p :=
  single_target_exact_partial c tg (planar_refl c hpl) t0 ht0 huniq r p hr hp
    (planar_sep c hpl hsx hsy _ _ _ _)
    (fun row q h1 h2 => planar_mono c hpl _ _ _ _ _ _ h1 h2)

/-! ### small grids: the model is exact on every target layout -/

/-- on every configuration of the table (`Prox.smallTable`: every grid with H, W ≤ 3, cell sizes (1,1), (1,2),
    (2,1), (1,3), (3,1), both planar metrics, unbounded; and the 3×3 unit-cell grid with every finite
    threshold class) the model equals the exact nearest distance cut at max_distance, for **every** target
    predicate.  The table is checked by kernel evaluation of all 2^(H·W) layouts (`decide +kernel`,
    Proofs/ProximitySmall*.lean); `checkAll_spec` turns a predicate into its layout mask.
    The algorithm is *not* exact from 3×4 (cells 1×2) and 4×4 (unit cells) on, see `not_exact_4x4`. -/
theorem small_table_exact (c : Cfg) (hc : c ∈ smallTable) (tg : Nat → Nat → Bool)
    (r p : Nat) (hr : r < c.H) (hp : p < c.W) : proxAt (run c tg) r p = exactCut c tg r p :=
  checkAll_spec c (smallTable_checked c hc) tg r p hr hp

/-- the unbounded part of the table, stated by its quantifiers -/
theorem small_grids_exact (H W sx sy : Nat) (metric : Metric)
    (hH : 1 ≤ H ∧ H ≤ 3) (hW : 1 ≤ W ∧ W ≤ 3)
    (hs : (sx = 1 ∧ sy = 1) ∨ (sx = 1 ∧ sy = 2) ∨ (sx = 2 ∧ sy = 1) ∨ (sx = 1 ∧ sy = 3) ∨ (sx = 3 ∧ sy = 1))
    (hm : metric = .euclid ∨ metric = .manh) (tg : Nat → Nat → Bool) (r p : Nat) (hr : r < H) (hp : p < W) :
    proxAt (run { H := H, W := W, sx := sx, sy := sy, metric := metric, max2x2 := none } tg) r p =
      exactCut { H := H, W := W, sx := sx, sy := sy, metric := metric, max2x2 := none } tg r p := by
  apply small_table_exact _ _ tg r p hr hp
  have h1 : H = 1 ∨ H = 2 ∨ H = 3 := by omega
  have h2 : W = 1 ∨ W = 2 ∨ W = 3 := by omega
  rcases h1 with rfl | rfl | rfl <;> rcases h2 with rfl | rfl | rfl <;>
    rcases hs with ⟨rfl, rfl⟩ | ⟨rfl, rfl⟩ | ⟨rfl, rfl⟩ | ⟨rfl, rfl⟩ | ⟨rfl, rfl⟩ <;>
    rcases hm with rfl | rfl <;>
    (unfold smallTable; repeat (first | exact List.mem_cons_self | apply List.mem_cons_of_mem))

/-- the bound is sharp: on the 4×4 unit-cell grid with targets at (0,2), (1,1), (3,0) the model reports 9 = 3²
    at (3,3) where the nearest target is at squared distance 8 -- as the real `proximity()` does (3.0 for 2.83) -/
theorem not_exact_4x4 :
    let c : Cfg := { H := 4, W := 4, sx := 1, sy := 1, metric := .euclid, max2x2 := none }
    let tg : Nat → Nat → Bool := fun r p => (r == 0 && p == 2) || (r == 1 && p == 1) || (r == 3 && p == 0)
    proxAt (run c tg) 3 3 = some 9 ∧ exact c tg 3 3 = some 8 := by decide +kernel

/-! ### the bearing convention of `_calc_direction` (generated from the source) -/

/-- due east (x grows, same y): 90 -/
theorem bearing_east (x1 x2 y : K) (h : x1 < x2) (hE : ∀ x : K, 0 < x → Trig.atan2 0 x = 0) :
    bearing (some x1 : NV K) (some x2) (some y) (some y) = some 90 := by
  rw [bearing_formula x1 x2 y y (fun h' => absurd h'.1 (ne_of_lt h))]
  simp [hE _ (sub_pos.2 h)]

/-- due west: 270 − δ when atan2(±0, negative) = π (δ = π·57.29578 − 180 ≈ 1.5e-6), and 270 + δ when it is −π
    (numpy's value for `-0.0`, which is what `-y` produces): 270 either way after rounding to float32 -/
theorem bearing_west (x1 x2 y pi δ : K) (h : x2 < x1) (hδ : pi * kdeg = 180 + δ) (hδ0 : 0 ≤ δ)
    (hW : ∀ x : K, x < 0 → Trig.atan2 0 x = pi ∨ Trig.atan2 0 x = -pi) :
    bearing (some x1 : NV K) (some x2) (some y) (some y) = some (270 - δ) ∨
    bearing (some x1 : NV K) (some x2) (some y) (some y) = some (270 + δ) := by
  rw [bearing_formula x1 x2 y y (fun h' => absurd h'.1 (ne_of_gt h))]
  rcases hW _ (sub_neg.2 h) with hw | hw
  · left
    have h1 : ¬ (pi * kdeg < 0) := by rw [hδ]; linarith
    have h2 : 90 < pi * kdeg := by rw [hδ]; linarith
    simp only [sub_self, neg_zero, hw, h1, h2, if_false, if_true]
    rw [hδ]; congr 1; ring
  · right
    have h1 : -pi * kdeg < 0 := by rw [neg_mul, hδ]; linarith
    simp only [sub_self, neg_zero, hw, h1, if_true]
    rw [neg_mul, hδ]; congr 1; ring

/-- +y (the next row when `y` grows downwards): 180 + δ/2 -- the compass treats +y as SOUTH -/
theorem bearing_plus_y_is_south (x y1 y2 pi δ : K) (h : y1 < y2) (hδ : pi * kdeg = 180 + δ) (hδ0 : 0 ≤ δ)
    (hS : ∀ a : K, a < 0 → Trig.atan2 a 0 = -(pi / 2)) :
    bearing (some x : NV K) (some x) (some y1) (some y2) = some (180 + δ / 2) := by
  rw [bearing_formula x x y1 y2 (fun h' => absurd h'.2 (ne_of_lt h))]
  have hneg : -(y2 - y1) < 0 := by linarith
  have h1 : -(pi / 2) * kdeg < 0 := by
    have : -(pi / 2) * kdeg = -((180 + δ) / 2) := by rw [← hδ]; ring
    rw [this]; linarith
  simp only [sub_self, hS _ hneg, h1, if_true]
  congr 1
  have : -(pi / 2) * kdeg = -((180 + δ) / 2) := by rw [← hδ]; ring
  rw [this]; ring

/-- −y: 360 − δ/2; it is 360 and not 0 only because 57.29578 > 180/π (δ > 0) -/
theorem bearing_minus_y_is_north (x y1 y2 pi δ : K) (h : y2 < y1) (hδ : pi * kdeg = 180 + δ) (hδ0 : 0 < δ)
    (hN : ∀ a : K, 0 < a → Trig.atan2 a 0 = pi / 2) :
    bearing (some x : NV K) (some x) (some y1) (some y2) = some (360 - δ / 2) := by
  rw [bearing_formula x x y1 y2 (fun h' => absurd h'.2 (ne_of_gt h))]
  have hpos : 0 < -(y2 - y1) := by linarith
  have hval : pi / 2 * kdeg = (180 + δ) / 2 := by rw [← hδ]; ring
  have h1 : ¬ (pi / 2 * kdeg < 0) := by rw [hval]; linarith
  have h2 : 90 < pi / 2 * kdeg := by rw [hval]; linarith
  simp only [sub_self, hN _ hpos, h1, h2, if_false, if_true]
  rw [hval]; congr 1; ring

/-- with an exact constant (δ = 0) a target due north would get bearing 0, the value reserved for the cell itself -/
theorem bearing_north_needs_the_inexact_constant (x y1 y2 pi : K) (h : y2 < y1) (hδ : pi * kdeg = 180)
    (hN : ∀ a : K, 0 < a → Trig.atan2 a 0 = pi / 2) :
    bearing (some x : NV K) (some x) (some y1) (some y2) = some 0 := by
  rw [bearing_formula x x y1 y2 (fun h' => absurd h'.2 (ne_of_gt h))]
  have hpos : 0 < -(y2 - y1) := by linarith
  have hval : pi / 2 * kdeg = 90 := by
    have : pi / 2 * kdeg = (pi * kdeg) / 2 := by ring
    rw [this, hδ]; norm_num
  have h1 : ¬ ((90 : K) < 0) := by norm_num
  have h2 : ¬ ((90 : K) < 90) := lt_irrefl _
  simp only [sub_self, hN _ hpos, hval, h1, h2, if_false]

/-- **bearing convention**: 0 = the cell itself, 90 east, 270 west, 180 for +y, 360 for −y, up to the
    deviation δ of the constant 57.29578 from 180/π -/
theorem bearing_convention (pi δ : K) (hδ : pi * kdeg = 180 + δ) (hδ0 : 0 < δ)
    (hE : ∀ x : K, 0 < x → Trig.atan2 0 x = 0)
    (hW : ∀ x : K, x < 0 → Trig.atan2 0 x = pi ∨ Trig.atan2 0 x = -pi)
    (hS : ∀ a : K, a < 0 → Trig.atan2 a 0 = -(pi / 2))
    (hN : ∀ a : K, 0 < a → Trig.atan2 a 0 = pi / 2) (x y s : K) (hs : 0 < s) :
    bearing (some x : NV K) (some x) (some y) (some y) = some 0 ∧
    bearing (some x : NV K) (some (x + s)) (some y) (some y) = some 90 ∧
    (bearing (some x : NV K) (some (x - s)) (some y) (some y) = some (270 - δ) ∨
      bearing (some x : NV K) (some (x - s)) (some y) (some y) = some (270 + δ)) ∧
    bearing (some x : NV K) (some x) (some y) (some (y + s)) = some (180 + δ / 2) ∧
    bearing (some x : NV K) (some x) (some y) (some (y - s)) = some (360 - δ / 2) :=
  ⟨bearing_self x y, bearing_east x (x + s) y (by linarith) hE,
   bearing_west x (x - s) y pi δ (by linarith) hδ (le_of_lt hδ0) hW,
   bearing_plus_y_is_south x y (y + s) pi δ (by linarith) hδ (le_of_lt hδ0) hS,
   bearing_minus_y_is_north x y (y - s) pi δ (by linarith) hδ hδ0 hN⟩

/-! ### metric dispatch (T2 facts) and the metric kernels (T1) -/

open XrsVerif.Gen.ProximityFacts in
/-- the three documented names select their own distance function -/
theorem metric_dispatch_known :
    (resolveMetric "EUCLIDEAN").map distanceFor = some "euclidean_distance" ∧
    (resolveMetric "MANHATTAN").map distanceFor = some "manhattan_distance" ∧
    (resolveMetric "GREAT_CIRCLE").map distanceFor = some "great_circle_distance" := by decide

open XrsVerif.Gen.ProximityFacts in
/-- every other string (wrong case, typo, empty) silently falls back to EUCLIDEAN -/
theorem metric_dispatch_fallback (s : String) (h1 : s ≠ "EUCLIDEAN") (h2 : s ≠ "GREAT_CIRCLE") (h3 : s ≠ "MANHATTAN") :
    (resolveMetric s).map distanceFor = some "euclidean_distance" := by
  have e1 : (s == "EUCLIDEAN") = false := by simpa using h1
  have e2 : (s == "GREAT_CIRCLE") = false := by simpa using h2
  have e3 : (s == "MANHATTAN") = false := by simpa using h3
  simp [resolveMetric, metricTable, metricFallback, distanceFor, distanceDispatch, List.lookup, e1, e2, e3]

open XrsVerif.Gen.ProximityFacts in
/-- each public function asks `_process` for its own output; `max_distance=None` and the default mean unbounded -/
theorem process_modes :
    processMode = [("proximity", 0), ("allocation", 1), ("direction", 2)] ∧
    modeConstants = [("PROXIMITY", 0), ("ALLOCATION", 1), ("DIRECTION", 2)] ∧
    noneMeansInf = true ∧ defaultMax = ["np.inf", "np.inf", "np.inf"] := by decide

open XrsVerif.Gen.ProximityFacts in
/-- the row buffer the target test reads (`scan_line`) is allocated with the raster's own dtype: the stored cell values
    reach `source_line[pixel] == values[i]` / `!= 0` unchanged (no narrowing to float32 as for the output buffers), which is
    what lets the model test targets on the exact stored values (`isTargetVal` on rationals) -/
theorem scan_line_keeps_raster_dtype : scanLineDtype = .imgDtype := by decide

/-- the generated `euclidean_distance` kernel -/
theorem euclid_kernel (x1 x2 y1 y2 : K) :
    Gen.euclidean_distance.cell (dirEnv (some x1 : NV K) (some x2) (some y1) (some y2)) (fun _ _ _ => none) (fun _ => []) =
      some (Trig.sqrt ((x1 - x2) * (x1 - x2) + (y1 - y2) * (y1 - y2))) := by
  ksimp [Gen.euclidean_distance, dirEnv]

/-- the generated `manhattan_distance` kernel -/
theorem manhattan_kernel (x1 x2 y1 y2 : K) :
    Gen.manhattan_distance.cell (dirEnv (some x1 : NV K) (some x2) (some y1) (some y2)) (fun _ _ _ => none) (fun _ => []) =
      some (|x1 - x2| + |y1 - y2|) := by
  ksimp [Gen.manhattan_distance, dirEnv]

theorem adiff_cast (a b : Nat) : ((adiff a b : Nat) : K) = |(a : K) - (b : K)| := by
  unfold adiff
  rcases le_total a b with h | h
  · have h0 : a - b = 0 := by omega
    rw [h0, Nat.zero_add, Nat.cast_sub h, abs_of_nonpos (by simpa using h)]
    ring
  · have h0 : b - a = 0 := by omega
    rw [h0, Nat.add_zero, Nat.cast_sub h, abs_of_nonneg (by simpa using h)]

/-- the model's squared distances are the squares of what the generated kernels compute on a regular grid
    (`x = column · sx`, `y = row · sy`; for the Euclidean one `sqrt` is only assumed to invert squaring) -/
theorem model_metric_is_kernel (c : Cfg) (r1 c1 r2 c2 : Nat) :
    (c.metric = .euclid →
      ((dist2 c r1 c1 r2 c2 : Nat) : K) =
        ((c1 : K) * c.sx - c2 * c.sx) * ((c1 : K) * c.sx - c2 * c.sx) +
        ((r1 : K) * c.sy - r2 * c.sy) * ((r1 : K) * c.sy - r2 * c.sy)) ∧
    (c.metric = .manh →
      ((dist2 c r1 c1 r2 c2 : Nat) : K) =
        (|(c1 : K) * c.sx - c2 * c.sx| + |(r1 : K) * c.sy - r2 * c.sy|) *
        (|(c1 : K) * c.sx - c2 * c.sx| + |(r1 : K) * c.sy - r2 * c.sy|)) := by
  have hx : ((adiff c1 c2 * c.sx : Nat) : K) = |(c1 : K) * c.sx - c2 * c.sx| := by
    rw [Nat.cast_mul, adiff_cast, ← sub_mul, abs_mul, abs_of_nonneg (Nat.cast_nonneg (α := K) c.sx)]
  have hy : ((adiff r1 r2 * c.sy : Nat) : K) = |(r1 : K) * c.sy - r2 * c.sy| := by
    rw [Nat.cast_mul, adiff_cast, ← sub_mul, abs_mul, abs_of_nonneg (Nat.cast_nonneg (α := K) c.sy)]
  constructor
  · intro h
    unfold dist2
    rw [h]
    simp only [Nat.cast_add, Nat.cast_mul (adiff c1 c2 * c.sx), Nat.cast_mul (adiff r1 r2 * c.sy), hx, hy, abs_mul_abs_self]
  · intro h
    unfold dist2
    rw [h]
    simp only [Nat.cast_mul (adiff c1 c2 * c.sx + adiff r1 r2 * c.sy), Nat.cast_add, hx, hy]

/-! ### non-vacuity -/

/-- the side conditions hold for the planar metrics ... -/
example : Cfg.Refl { H := 5, W := 7, sx := 2, sy := 3, metric := .manh, max2x2 := some 9 } ∧
    Sep { H := 5, W := 7, sx := 2, sy := 3, metric := .manh, max2x2 := some 9 } :=
  planar_side_conditions _ (Or.inr rfl) (by decide) (by decide)

/-- ... and a concrete run exercises every clause: targets at (0,2), (1,1), (3,0) on 4×4 -/
example :
    let c : Cfg := { H := 4, W := 4, sx := 1, sy := 1, metric := .euclid, max2x2 := some 8 }
    let tg : Nat → Nat → Bool := fun r p => (r == 0 && p == 2) || (r == 1 && p == 1) || (r == 3 && p == 0)
    proxAt (run c tg) 0 2 = some 0 ∧ proxAt (run c tg) 2 2 = some 2 ∧ allocAt (run c tg) 2 2 = some (1, 1) ∧
      proxAt (run c tg) 3 3 = none ∧ allocAt (run c tg) 3 3 = none ∧ exact c tg 3 3 = some 8 := by decide +kernel

/-- a single target with a finite threshold: hypotheses of `single_target_exact` are satisfiable -/
example : ∃ t0 : Nat × Nat, ((fun r p => r == 1 && p == 2) t0.1 t0.2 = true ∧ t0.1 < 3 ∧ t0.2 < 4) ∧
    ∀ t : Nat × Nat, ((fun r p => r == 1 && p == 2) t.1 t.2 = true ∧ t.1 < 3 ∧ t.2 < 4) → t = t0 :=
  ⟨(1, 2), by decide, fun t h => by
    obtain ⟨a, b⟩ := t
    simp at h
    simp [h.1.1, h.1.2]⟩

example : ({ H := 3, W := 2, sx := 1, sy := 3, metric := .manh, max2x2 := none } : Cfg) ∈ smallTable := by
  unfold smallTable; repeat (first | exact List.mem_cons_self | apply List.mem_cons_of_mem)

/-- the atan2 hypotheses of `bearing_convention` are satisfiable with δ > 0: over ℚ with π ≈ 355/113 -/
example : ∃ (T : Trig Rat) (pi δ : Rat), pi * (kdeg : Rat) = 180 + δ ∧ 0 < δ ∧
    (∀ x : Rat, 0 < x → T.atan2 0 x = 0) ∧ (∀ x : Rat, x < 0 → T.atan2 0 x = pi ∨ T.atan2 0 x = -pi) ∧
    (∀ a : Rat, a < 0 → T.atan2 a 0 = -(pi / 2)) ∧ (∀ a : Rat, 0 < a → T.atan2 a 0 = pi / 2) := by
  refine ⟨{ sqrt := id, atan := id, exp := id, sin := id, cos := id, asin := id,
            atan2 := fun a b => if a = 0 then (if 0 < b then 0 else 355 / 113) else if 0 < a then 355 / 113 / 2 else -(355 / 113 / 2) },
          355 / 113, 355 / 113 * kdeg - 180, by ring, by norm_num [kdeg], ?_, ?_, ?_, ?_⟩
  · intro x hx; simp [hx]
  · intro x hx; left; simp [not_lt.2 (le_of_lt hx)]
  · intro a ha; simp [ne_of_lt ha, not_lt.2 (le_of_lt ha)]
  · intro a ha; simp [ne_of_gt ha, ha]

/-! ### the generated programs (layer T3)

  `Gen.IL.proximityLine`, `Gen.IL.processNumpy`, `Gen.IL.calcDirection` are translated statement by statement from
  `_process_proximity_line`, the jitted closure `_process._process_numpy` and `_calc_direction` of /repo's current
  source (harness/facts_il.py, validated against numba by harness/il_corr.py).  The theorems below are about these
  generated terms: the refinement "generated program = hand model" (Proofs/ILProx*.lean) composed with the model
  theorems above.  The model is an abstraction (squared integer distances, threshold `⌈2·max²⌉`), so the
  refinement is relative to explicit hypotheses on the number type `F` (`IL.Arith`: an embedding `emb` of squared
  distances under which the program's `<`, `>=`, `** 2`, `* 2.0`, `sqrt` are exact) and on the external
  `_distance` (`IL.Px.PNInput.d2`: its square on the coordinate grids is `emb (dist2 c …)`); numba's float32 rounding
  and int64 wrap-around are outside ILang. -/
section generated
open XrsVerif.IL XrsVerif.IL.Px
variable {F : Type} [Fl F]

/-- step 1: the target-test block of the generated line function computes `targetTest`, which is the model's
    `isTargetVal` under any reading of the numbers that respects `==`, `!= 0`, `isfinite` -/
theorem gen_target_rule (toVal : F → Val) (h : ValReading toVal) (x : F) (vals : List F) :
    targetTest x vals = isTargetVal (vals.map toVal) (toVal x) :=
  targetTest_model toVal h x vals

/-- steps 2-3: **the generated `_process_proximity_line` is the model's sweep** `sweepN … c.W` (all pixels, forward or
    backward), under the abstraction relation `LineRel` between its five work arrays and the model's `LineSt` -/
theorem gen_line_sweep (c : Cfg) (emb : Nat → F) (tg : Nat → Nat → Bool) (row : Nat) (fwd : Bool)
    (fuel : Nat) (s : IL.State F) (m0 : LineSt) (hs : s.ctl = .run)
    (env : LineEnv N0 c emb tg row fwd s) (rel : LineRel c emb s m0) :
    let r := Gen.IL.proximityLine.run s fuel
    r.ctl = .ret ∧ LineRel c emb r (sweepN c tg row fwd m0 c.W) ∧ FrameS LV.lineScratch N0 s r :=
  proximityLine_refines fuel s m0 hs env rel

/-- step 4: **the generated `_process_numpy` is the model's `run`**: `img_distance` / `output_img` hold `proxAt` /
    `allocAt` of `Prox.run c tg` cell by cell (`lpFin`: NaN for `none`, else non-negative with square `emb d`;
    `outVal`: NaN, the raster value at the target (ALLOCATION), `dirF` towards it (DIRECTION)) -/
theorem gen_process_numpy (c : Cfg) (emb : Nat → F) (tg : Nat → Nat → Bool) (s0 : IL.State F) (fuel : Nat)
    (inp : PNInput c emb tg s0) :
    let r := Gen.IL.processNumpy.run s0 fuel
    r.ctl = .ret ∧ r.shp "img_distance" = [c.H, c.W] ∧ r.shp "output_img" = [c.H, c.W] ∧
    (r.fa "img_distance").length = c.H * c.W ∧ (r.fa "output_img").length = c.H * c.W ∧
    ∀ row, row < c.H → ∀ p, p < c.W →
      lpFin emb ((r.fa "img_distance").getD (row * c.W + p) Fl.nan) (proxAt (run c tg) row p) ∧
      (r.fa "output_img").getD (row * c.W + p) Fl.nan =
        outVal (s0.ienv "process_mode") (s0.fa "img") (s0.fa "x_coords") (s0.fa "y_coords") c.W row p
          (allocAt (run c tg) row p) :=
  processNumpy_refines s0 fuel inp

/-- **soundness, never-under and within-max for the generated program**: every cell of the outputs of the generated
    `_process_numpy` is either NaN in both arrays, or `img_distance` is the (embedded) distance `d` from the cell to a
    real target cell `t` of the grid, `d` is within `max_distance`, the exact nearest-target distance is not larger,
    and `output_img` holds the ALLOCATION / DIRECTION value for that same `t` -/
theorem gen_sound (c : Cfg) (emb : Nat → F) (tg : Nat → Nat → Bool) (s0 : IL.State F) (fuel : Nat)
    (inp : PNInput c emb tg s0) (hrefl : c.Refl) (r p : Nat) (hr : r < c.H) (hp : p < c.W) :
    let out := Gen.IL.processNumpy.run s0 fuel
    ((out.fa "img_distance").getD (r * c.W + p) Fl.nan = Fl.nan ∧
      (out.fa "output_img").getD (r * c.W + p) Fl.nan = Fl.nan) ∨
    ∃ (t : Nat × Nat) (d : Nat),
      (tg t.1 t.2 = true ∧ t.1 < c.H ∧ t.2 < c.W) ∧ d = dist2 c t.1 t.2 r p ∧ withinMax c d = true ∧
      (∃ e, exact c tg r p = some e ∧ e ≤ d) ∧ (∀ m, c.max2x2 = some m → 2 * d ≤ m) ∧
      lpRel emb ((out.fa "img_distance").getD (r * c.W + p) Fl.nan) (some d) ∧
      (out.fa "output_img").getD (r * c.W + p) Fl.nan =
        outVal (s0.ienv "process_mode") (s0.fa "img") (s0.fa "x_coords") (s0.fa "y_coords") c.W r p (some t) := by
  intro out
  obtain ⟨_, _, _, _, _, hcell⟩ := processNumpy_refines s0 fuel inp
  obtain ⟨h1, h2⟩ := hcell r hr p hp
  cases hd : proxAt (run c tg) r p with
  | none =>
    left
    rw [hd] at h1
    rw [(nan_together c tg hrefl r p hr hp).1 hd] at h2
    exact ⟨h1, h2⟩
  | some d =>
    right
    obtain ⟨t, ht, hT, hdist, hw⟩ := sound c tg hrefl r p hr hp d hd
    rw [hd] at h1
    rw [ht] at h2
    exact ⟨t, d, hT, hdist, hw, never_under c tg hrefl r p hr hp d hd,
      fun m hm => le_max c tg hrefl r p hr hp d m hd hm, h1, h2⟩

/-- **zero exactly on targets, for the generated program**: the stored distance at a target cell is `0.0`-like
    (`x * x = emb 0`), and at a cell whose stored distance squares to `emb 0` the model's proximity is 0 -- hence (with
    `zero_iff_target`) the cell is a target when `dist` separates cells -/
theorem gen_zero_on_targets (c : Cfg) (emb : Nat → F) (tg : Nat → Nat → Bool) (s0 : IL.State F) (fuel : Nat)
    (inp : PNInput c emb tg s0) (r p : Nat) (hr : r < c.H) (hp : p < c.W) (ht : tg r p = true) :
    lpRel emb (((Gen.IL.processNumpy.run s0 fuel).fa "img_distance").getD (r * c.W + p) Fl.nan) (some 0) := by
  obtain ⟨_, _, _, _, _, hcell⟩ := processNumpy_refines s0 fuel inp
  have h1 := (hcell r hr p hp).1
  rw [run_zero c tg r p hr hp ht] at h1
  exact h1

/-- **the generated `_calc_direction` is the bearing the bearing theorems are about** (the KLang kernel
    `Gen.calc_direction` and the ILang program `Gen.IL.calcDirection` are two translations of the same source) -/
theorem gen_calc_direction (s : IL.State F) (fuel : Nat) (hs : s.ctl = .run) :
    let r := Gen.IL.calcDirection.run s fuel
    r.ctl = .ret ∧ r.fenv "ret0" = bearing (s.fenv "x1") (s.fenv "x2") (s.fenv "y1") (s.fenv "y2") := by
  obtain ⟨h1, h2⟩ := calcDirection_refines s fuel hs
  exact ⟨h1, by rw [h2, dirF_eq_bearing]⟩

/-- DIRECTION mode of the generated `_process_numpy`: the value written for a recorded target `t` is the model's
    `bearing` from the cell to `t` -/
theorem gen_direction_value (img xc yc : List F) (W r p : Nat) (t : Nat × Nat) :
    outVal 2 img xc yc W r p (some t) =
      bearing (xc.getD (r * W + p) Fl.nan) (xc.getD (t.1 * W + t.2) Fl.nan)
        (yc.getD (r * W + p) Fl.nan) (yc.getD (t.1 * W + t.2) Fl.nan) := by
  simp [outVal, dirF_eq_bearing]

/-- ALLOCATION mode: the raster value at the recorded target -/
theorem gen_allocation_value (img xc yc : List F) (W r p : Nat) (t : Nat × Nat) :
    outVal 1 img xc yc W r p (some t) = img.getD (t.1 * W + t.2) Fl.nan := by
  simp [outVal]

end generated

/-! non-vacuity of the hypotheses of the generated-program theorems: a reading of `NV ℚ` as raster values, and a
    1 × 2 raster over `NV ℝ` (`sqrt` = `Real.sqrt`, `_distance` = Euclidean, `max_distance = 2`) satisfying `PNInput` -/
example : ∃ (T : Trig Rat), letI := T; ∃ toVal : NV Rat → Val, IL.Px.ValReading toVal :=
  ⟨IL.Px.Witness.trigQ, _, IL.Px.Witness.ratReading⟩

example : ∃ (c : Cfg) (emb : Nat → NV ℝ) (tg : Nat → Nat → Bool) (s0 : IL.State (NV ℝ)),
    c.H = 1 ∧ c.W = 2 ∧ c.Refl ∧ tg 0 0 = true ∧ IL.Px.PNInput c emb tg s0 :=
  ⟨_, _, _, _, rfl, rfl, IL.Px.Witness.wc_refl, rfl, IL.Px.Witness.wInput⟩

end XrsVerif.C06
