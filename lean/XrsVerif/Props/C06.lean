import XrsVerif.Model.Proximity
namespace XrsVerif.C06
theorem stub : True := trivial
end XrsVerif.C06
