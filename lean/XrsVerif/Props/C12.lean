import XrsVerif.Proofs.Bin
import XrsVerif.Proofs.ILBinSem
import XrsVerif.Proofs.Jenks
import XrsVerif.Proofs.KSimp
import XrsVerif.Gen.ClassifyFacts
import XrsVerif.Gen.Kernels
import XrsVerif.Model.PyNum
/-
  C12 -- Classifiers label every finite cell, in order, within [0, k-1].

  Objects the statements are about
  * `Bin.searchS Gen.cpuBinShape` / `Bin.cellS Gen.cpuBinShape`: the model of `classify._cpu_bin`
    (Model/Bin.lean) *interpreting the search skeleton regenerated from /repo's source*
    (Gen/ClassifyFacts.lean: comparison operators, index offsets, initial values, step sizes);
  * `Gen.binary_cpu`: the translation of `classify._cpu_binary` (layer T1);
  * `Bin.equalInterval`, `Bin.quantile`, `Jenks.naturalBreaks`, `Jenks.V / L / back / kclass`: hand models
    of the bin construction of the data-driven classifiers, tied to the code by `harness/corr_C12.py`.
  Values are exact (`Rat`, or any linear order for the search itself); NaN/±inf are the `Ext` constructors.
  Float rounding is outside the theorems (DESIGN.md section 4) except where it *is* the property: the array
  the Jenks breaks are stored in (`breaks_stored_exactly`, `natural_breaks_needs_exact_storage`).
  External calls are parameters with their contract as hypotheses, observed by the correspondence run:
  `np.percentile` (the list `qs`), the random sub-sample of `natural_breaks` (the list `sample`).
-/
set_option linter.unusedSectionVars false
set_option linter.unusedVariables false
namespace XrsVerif.C12
open XrsVerif XrsVerif.Bin XrsVerif.Gen XrsVerif.Jenks

/-! ### the tie to the source (regenerated on every run) -/

/-- the search skeleton found in `_cpu_bin` is the one every theorem below is proved for -/
theorem shape_is_canonical : Gen.cpuBinShape = Bin.canonical := by decide

/-- `_run_jenks` keeps the breaks in double precision (the hypothesis `rnd = id` of
    `natural_breaks_spec`; with a float32 array the raster maximum can round below itself, see
    `natural_breaks_needs_exact_storage`) -/
theorem breaks_stored_exactly : Gen.jenksBreakDtype = "float64" := by decide

/-- `_run_natural_break` forces the last bin to the raster maximum in both branches (what
    `naturalBreaks` models) -/
theorem natural_breaks_last_forced : Gen.nbLastForcedJenks = true ∧ Gen.nbLastForcedFallback = true := by decide

/-- `_run_quantile` asks for exactly `k` percentile points, the last one being 100 (the hypothesis
    `qs.length = k` and `mx ∈ qs` of `quantile_spec` / `quantile_every_finite_classified`) -/
theorem quantile_grid_indexed : Gen.quantileGridIndexed = true := by decide

/-- `_run_equal_interval` forces the last cut to the maximum on every path and bins with the cuts -/
theorem equal_interval_last_forced : Gen.eqIntLastForced = true := by decide

/-! ### the hand-written binary search, over any linear order, any bin count -/

section search
variable {α : Type} [LinearOrder α]

theorem searchS_gen (lt le : α → α → Bool) (d : α) (bins : List α) (v : α) :
    searchS Gen.cpuBinShape lt le d bins v = search lt le d bins v := by
  rw [shape_is_canonical, searchS_canonical]

/-- termination: the `while` loop stops by itself within `end - start + 1` iterations whatever the
    comparisons answer (unsorted bins, NaN), so the fuel `nbins` of the model is never what ends it -/
theorem bin_search_terminates (below : Int → Bool) (fuel extra : Nat) (start stp : Int)
    (h : (stp - start + 1).toNat ≤ fuel) :
    Bin.loop below (fuel + extra) start stp = Bin.loop below fuel start stp :=
  loop_fuel_ge below fuel extra start stp h

/-- any bins (not necessarily sorted), any length >= 1: the result is `-1` only when the value is above
    both the first and the last bin, otherwise an index `r` with `bins[r-1] < v <= bins[r]` -/
theorem bin_search_spec (d v : α) (bins : List α) (hne : bins ≠ []) :
    (searchS Gen.cpuBinShape ltB leB d bins v = -1 ∧ bins.head hne < v ∧ bins.getLast hne < v) ∨
    ∃ r : Nat, searchS Gen.cpuBinShape ltB leB d bins v = r ∧ ∃ h : r < bins.length, v ≤ bins[r] ∧
      (r = 0 ∨ ∃ h' : r - 1 < bins.length, bins[r - 1] < v) := by
  rw [searchS_gen]
  have hn : 1 ≤ bins.length := List.length_pos_iff.mpr hne
  have htot : ∀ i : Int, 0 ≤ i → i < bins.length →
      (fun i => ltB (getW d bins i) v) i = !(fun i => leB v (getW d bins i)) i := by
    intro i _ _
    simp only [ltB, leB]
    by_cases h : v ≤ getW d bins i
    · simp [h, not_lt.mpr h]
    · simp [h, not_le.mp h]
  unfold search
  rcases searchP_spec _ _ bins.length hn htot with ⟨h1, h2, h3⟩ | ⟨h1, h2, h3, h4⟩
  · left
    refine ⟨h1, ?_, ?_⟩
    · have := getW_nat d bins 0 (by omega)
      simp only [leB, Int.natCast_zero] at h2 this
      rw [List.head_eq_getElem]
      rw [show getW d bins 0 = bins[0] from this] at h2
      exact not_le.mp (by simpa using h2)
    · have := getW_int d bins ((bins.length : Int) - 1) (by omega) (by omega)
      simp only [leB, this] at h3
      rw [List.getLast_eq_getElem]
      have h3' := not_le.mp (by simpa using h3)
      convert h3' using 2
  · right
    generalize searchP (fun i => ltB (getW d bins i) v) (fun i => leB v (getW d bins i)) bins.length = r at *
    refine ⟨r.toNat, by omega, by omega, ?_, ?_⟩
    · simp only [leB, getW_int d bins r h1 h2, decide_eq_true_eq] at h3; exact h3
    · rcases h4 with h4 | h4
      · left; omega
      · right
        obtain ⟨hr1, h4⟩ := h4
        refine ⟨by omega, ?_⟩
        have := getW_int d bins (r - 1) (by omega) (by omega)
        simp only [leB, this] at h4
        have h4' := not_le.mp (by simpa using h4)
        convert h4' using 2

/-- **reclassify's search**: for every ascending bin list of any length >= 1 the hand-written binary search
    returns the *first* bin whose upper bound is `>=` the value (`-1` when there is none) -/
theorem bin_search_first (d v : α) (bins : List α) (hne : bins ≠ []) (hs : bins.Pairwise (· ≤ ·)) :
    searchS Gen.cpuBinShape ltB leB d bins v =
      match firstGE bins v with | some i => (i : Int) | none => -1 := by
  rw [searchS_gen]; exact search_eq_firstGE d v bins hne hs

/-- classes lie in `[0, n-1]` (or `-1`: no bin) and are monotone: a larger value never gets a smaller
    bin, and when it has a bin so has every smaller value -/
theorem classes_range_monotone (d v w : α) (bins : List α) (hne : bins ≠ []) (hs : bins.Pairwise (· ≤ ·))
    (hvw : v ≤ w) :
    -1 ≤ searchS Gen.cpuBinShape ltB leB d bins v ∧ searchS Gen.cpuBinShape ltB leB d bins v < bins.length ∧
    (searchS Gen.cpuBinShape ltB leB d bins w ≠ -1 →
      0 ≤ searchS Gen.cpuBinShape ltB leB d bins v ∧
      searchS Gen.cpuBinShape ltB leB d bins v ≤ searchS Gen.cpuBinShape ltB leB d bins w) := by
  rw [bin_search_first d v bins hne hs, bin_search_first d w bins hne hs]
  refine ⟨?_, ?_, ?_⟩
  · cases firstGE bins v <;> simp
  · cases h : firstGE bins v with
    | none => simp; omega
    | some i => have := firstGE_lt_length bins v i h; simp; omega
  · cases hw : firstGE bins w with
    | none => simp
    | some j =>
      obtain ⟨i, hi, hij⟩ := firstGE_mono bins v w hvw j hw
      simp [hi]; omega

/-- every value not above the last bin gets a bin -/
theorem every_finite_classified (d v : α) (bins : List α) (hne : bins ≠ []) (hs : bins.Pairwise (· ≤ ·))
    (hv : v ≤ bins.getLast hne) : 0 ≤ searchS Gen.cpuBinShape ltB leB d bins v := by
  rw [bin_search_first d v bins hne hs]
  obtain ⟨i, hi⟩ := firstGE_isSome bins v _ (List.getLast_mem hne) hv
  simp [hi]

example : searchS Gen.cpuBinShape ltB leB (0 : Int) [10, 15, 15, 40] 15 = 1 := by decide
example : searchS Gen.cpuBinShape ltB leB (0 : Int) [10, 15, 15, 40] 41 = -1 := by decide
example : [10, 15, 15, (40 : Int)].Pairwise (· ≤ ·) := by decide

end search

/-! ### reclassify: one cell of `_cpu_bin`, bins may contain ±inf -/

section reclass
variable {K : Type} [LinearOrder K]

theorem cellS_gen (bins newv : List (Ext K)) (v : Ext K) :
    cellS Gen.cpuBinShape bins newv v = cell bins newv v := by
  rw [shape_is_canonical]; unfold cellS cell; simp only [searchS_canonical]

/-- NaN and ±inf cells give NaN, whatever the bins -/
theorem reclassify_nonfinite (bins newv : List (Ext K)) (v : Ext K) (hv : v.isFinite = false) :
    cellS Gen.cpuBinShape bins newv v = .nan := by
  rw [cellS_gen]; exact cell_nonfinite bins newv v hv

/-- a finite cell gets the new value of the first bin whose upper bound is `>=` it, for any ascending bin
    list (no NaN; ±inf allowed) of any length >= 1, and NaN when there is no such bin -/
theorem reclassify_spec (bins newv : List (Ext K)) (hne : bins ≠ []) (hasc : ExtAscending bins) (x : K) :
    cellS Gen.cpuBinShape bins newv (.fin x) =
      match firstGEx bins x with | some i => getW .nan newv (i : Int) | none => .nan := by
  rw [cellS_gen]; exact cell_spec bins newv hne hasc x

/-- ... and there is no such bin exactly when the value is above the last bin -/
theorem reclassify_nan_only_above_last (bins : List (Ext K)) (hne : bins ≠ []) (hasc : ExtAscending bins) (x : K) :
    firstGEx bins x = none ↔ Ext.lt (bins.getLast hne) (.fin x) = true :=
  firstGEx_none_iff bins x hne hasc

/-! #### the wrapper `_run_numpy_bin`: the comparison is between the numbers themselves only as long as no
    operand is rounded on the way to `_cpu_bin` -/

/-- **no operand is rounded ⇒ first bin**: whatever casts `_run_numpy_bin` contains (`c`), if they leave the
    bins, the cell and the new values of *this call* unchanged (`np.asarray(x)`; a cast to a dtype that holds the
    operand exactly), a finite cell gets the new value of the first bin whose upper bound is `>=` the cell -/
theorem run_numpy_bin_first_bin (c : BinCasts) (rnd : String → Ext K → Ext K) (ddt : String)
    (bins newv : List (Ext K)) (x : K) (hne : bins ≠ []) (hasc : ExtAscending bins)
    (hb : ∀ b ∈ bins, c.bins.apply rnd ddt b = b) (hn : ∀ w ∈ newv, c.newValues.apply rnd ddt w = w)
    (hv : c.data.apply rnd ddt (.fin x) = .fin x) :
    runNumpyBin Gen.cpuBinShape c rnd ddt bins newv (.fin x) =
      match firstGEx bins x with | some i => getW .nan newv (i : Int) | none => .nan := by
  unfold runNumpyBin
  rw [hv, List.map_congr_left hb, List.map_congr_left hn, List.map_id', List.map_id']
  exact reclassify_spec bins newv hne hasc x

/-- what was read from the source: `_run_numpy_bin` re-binds `bins` and `new_values` with `np.asarray(x)` (no
    dtype: nothing is rounded), leaves `data` alone and returns `_cpu_bin(data, bins, new_values)`; `reclassify`,
    `_bin` and the dask wrapper pass the three operands on untouched.  (A `dtype=` argument, an `astype`, or any
    statement the extractor does not understand makes this `decide` fail.) -/
theorem bin_operands_not_cast :
    Gen.runBinCasts = { data := .none, bins := .none, newValues := .none, callOk := true } ∧
    Gen.binChainPassThrough = true := by decide

/-- **reclassify through the wrapper as it is in the source**: for every conversion function, every raster
    dtype, every ascending NaN-free bin list: first bin `>=` the value, NaN above the last bin / for NaN, ±inf -/
theorem reclassify_first_bin (rnd : String → Ext K → Ext K) (ddt : String) (bins newv : List (Ext K)) :
    (∀ v, v.isFinite = false → runNumpyBin Gen.cpuBinShape Gen.runBinCasts rnd ddt bins newv v = .nan) ∧
    (bins ≠ [] → ExtAscending bins → ∀ x : K,
      runNumpyBin Gen.cpuBinShape Gen.runBinCasts rnd ddt bins newv (.fin x) =
        match firstGEx bins x with | some i => getW .nan newv (i : Int) | none => .nan) := by
  have hc := (bin_operands_not_cast).1
  refine ⟨?_, ?_⟩
  · intro v hv
    unfold runNumpyBin
    rw [hc]
    simp only [Cast.apply]
    exact reclassify_nonfinite _ _ v hv
  · intro hne hasc x
    apply run_numpy_bin_first_bin _ rnd ddt bins newv x hne hasc <;> intros <;> rw [hc] <;> rfl

example : ExtAscending [Ext.fin (10 : Int), .fin 15, .pinf] := by
  refine ⟨by decide, by decide⟩
example : cellS Gen.cpuBinShape [Ext.fin (10 : Int), .fin 15, .pinf] [.fin 1, .fin 2, .fin 3] (.fin 16) = .fin 3 := by
  decide
example : cellS Gen.cpuBinShape [Ext.fin (10 : Int), .fin 15] [.fin 1, .fin 2] (.fin 16) = .nan := by decide

end reclass

/-- **why a narrowing cast breaks the property** (the hypotheses `hb` of `run_numpy_bin_first_bin` are needed):
    a wrapper that converts the bins to the raster's dtype, on a float32 raster.  The bound 0.1 is not a float32;
    its conversion is 13421773 / 2^27 > 0.1.  The cell holding exactly that float32 is above the bound 0.1, so its
    first bin is the second one -- the converted bins put it into the first. -/
theorem narrowing_cast_breaks_first_bin :
    runNumpyBin Gen.cpuBinShape { data := .none, bins := .dataDtype, newValues := .none, callOk := true }
        (fun t v => match v with | .fin q => if t = "float32" then .fin (roundF32 q) else v | _ => v) "float32"
        [.fin (1 / 10), .fin (1 / 5)] [.fin 10, .fin 20] (.fin (13421773 / 134217728 : Rat)) = .fin 10 ∧
    firstGEx [Ext.fin (1 / 10 : Rat), .fin (1 / 5)] (13421773 / 134217728) = some 1 ∧
    roundF32 (1 / 10) = 13421773 / 134217728 := by decide +kernel

/-! ### binary (generated kernel): 1 exactly on the listed values, NaN for NaN, else 0
    (`NV` has no ±inf; `np.isfinite` is modelled by `Fl.isfinite`, the correspondence run covers ±inf) -/

section binary
variable {K : Type} [Field K] [LinearOrder K] [IsStrictOrderedRing K] [Trig K]

theorem any_eq_iff (vs : List (NV K)) (x : K) :
    (vs.any fun y => Fl.eq y (some x : NV K)) = decide ((some x : NV K) ∈ vs) := by
  induction vs with
  | nil => simp
  | cons v vs ih =>
    simp only [List.any_cons, ih, List.mem_cons]
    cases v with
    | none => simp
    | some y =>
      simp only [fl_eq]
      by_cases h : y = x
      · simp [h]
      · have : ¬ (some x : NV K) = some y := by intro h'; exact h (Option.some.inj h').symm
        simp [h, this]

theorem binary_spec (vs : List (NV K)) (x : K) :
    binary_cpu.cell (envOf []) (rd0 [("data", some x)]) (fun _ => vs) =
      if (some x : NV K) ∈ vs then some 1 else some 0 := by
  ksimp [binary_cpu, any_eq_iff]
  split <;> rfl

theorem binary_nan (vs : List (NV K)) :
    binary_cpu.cell (envOf []) (rd0 [("data", (none : NV K))]) (fun _ => vs) = none := by
  ksimp [binary_cpu]

/-- the kernel reads nothing but the cell itself -/
theorem binary_local : readsWithin binary_cpu.body.reads 0 0 = true := by decide

end binary

/-! ### the data-driven classifiers: `classOf bins` with ascending bins whose last one is the maximum.
    `classOf bs v` (Proofs/Bin.lean) is the specification: NaN for a non-finite cell, otherwise the index of
    the first bin `>= v`.  For any ascending `bs` it has the properties the statement lists: -/

/-- NaN/inf cells give NaN -/
theorem class_nonfinite (bs : List Rat) (v : Ext Rat) (hv : v.isFinite = false) : classOf bs v = .nan :=
  classOf_nonfinite bs v hv

/-- a finite cell not above the last bin gets an integer class in `[0, len-1]` -/
theorem class_in_range (bs : List Rat) (hne : bs ≠ []) (x : Rat) (hx : x ≤ bs.getLast hne) :
    ∃ i : Nat, i < bs.length ∧ classOf bs (.fin x) = .fin (i : Rat) :=
  classOf_classified bs x _ (List.getLast_mem hne) hx

/-- order-preserving: a larger value never gets a smaller class -/
theorem class_monotone (bs : List Rat) (x y : Rat) (hxy : x ≤ y) (j : Nat)
    (hy : classOf bs (.fin y) = .fin (j : Rat)) :
    ∃ i : Nat, i ≤ j ∧ classOf bs (.fin x) = .fin (i : Rat) :=
  classOf_mono bs x y hxy j hy

/-- class `i` is the band `bs[i-1] < x <= bs[i]` -/
theorem class_band (bs : List Rat) (hs : bs.Pairwise (· ≤ ·)) (x : Rat) (i : Nat) :
    classOf bs (.fin x) = .fin (i : Rat) ↔
      ∃ h : i < bs.length, x ≤ bs[i] ∧ (i = 0 ∨ ∃ h' : i - 1 < bs.length, bs[i - 1] < x) :=
  classOf_band bs hs x i

/-! #### equal_interval -/

/-- on a raster with finite minimum `mn` < maximum `mx`, `k >= 1`: the bins are `mn + (i+1) * width`,
    `i = 0..k-1` (so the last one is `mx`), and every cell is classified by `classOf` -/
theorem equal_interval_spec (cells : List (Ext Rat)) (k : Nat) (hk : 1 ≤ k) (mn mx : Rat)
    (hmn : minQ (finiteVals cells) = some mn) (hmx : maxQ (finiteVals cells) = some mx) (hlt : mn < mx) :
    equalInterval Gen.cpuBinShape cells k =
      .ok (cells.map (classOf ((List.range k).map (fun i : Nat => mn + ((i : Rat) + 1) * ((mx - mn) / (k : Rat))))))
        ((List.range k).map (fun i : Nat => mn + ((i : Rat) + 1) * ((mx - mn) / (k : Rat)))) := by
  unfold equalInterval
  have hk0 : k ≠ 0 := by omega
  have hne : mn ≠ mx := ne_of_lt hlt
  simp only [hmn, hmx, hk0, hne, if_false, equalIntervalCuts_eq mn mx k hk hlt]
  have hw : 0 < (mx - mn) / (k : Rat) := div_pos (by linarith) (by exact_mod_cast hk)
  congr 1
  apply List.map_congr_left
  intro v _
  rw [cellS_gen, cell_classIds _ _ (equalInterval_sorted mn _ k hw) k (by simp)]
  intro h
  have := congrArg List.length h
  simp at this; omega

/-- class `i` of equal_interval is the `i`-th of the `k` equal-width intervals of `[mn, mx]`:
    `mn + i*w < x <= mn + (i+1)*w` (closed at `mn` for `i = 0`), for every `x` in `[mn, mx]` -/
theorem equal_interval_class (mn mx x : Rat) (k i : Nat) (hk : 1 ≤ k) (hlt : mn < mx) (hx1 : mn ≤ x) (hx2 : x ≤ mx) :
    classOf ((List.range k).map (fun i : Nat => mn + ((i : Rat) + 1) * ((mx - mn) / (k : Rat)))) (.fin x) = .fin (i : Rat) ↔
      i < k ∧ x ≤ mn + ((i : Rat) + 1) * ((mx - mn) / k) ∧ (i = 0 ∨ mn + (i : Rat) * ((mx - mn) / k) < x) := by
  have hw : 0 < (mx - mn) / (k : Rat) := div_pos (by linarith) (by exact_mod_cast hk)
  rw [classOf_band _ (equalInterval_sorted mn _ k hw)]
  simp only [List.length_map, List.length_range, List.getElem_map, List.getElem_range]
  constructor
  · rintro ⟨h, h1, h2⟩
    refine ⟨h, h1, ?_⟩
    rcases h2 with h2 | ⟨_, h2⟩
    · exact Or.inl h2
    · by_cases h0 : i = 0
      · exact Or.inl h0
      · right
        have : ((i - 1 : Nat) : Rat) + 1 = (i : Rat) := by
          have : i - 1 + 1 = i := by omega
          exact_mod_cast this
        rwa [this] at h2
  · rintro ⟨h, h1, h2⟩
    refine ⟨h, h1, ?_⟩
    rcases h2 with h2 | h2
    · exact Or.inl h2
    · by_cases h0 : i = 0
      · exact Or.inl h0
      · right
        refine ⟨by omega, ?_⟩
        have : ((i - 1 : Nat) : Rat) + 1 = (i : Rat) := by
          have : i - 1 + 1 = i := by omega
          exact_mod_cast this
        rwa [this]

/-- every finite cell of the raster gets a class in `[0, k-1]` (the last cut is the maximum) -/
theorem equal_interval_every_finite_classified (cells : List (Ext Rat)) (k : Nat) (hk : 1 ≤ k) (mn mx x : Rat)
    (hmx : maxQ (finiteVals cells) = some mx) (hlt : mn < mx) (hx : Ext.fin x ∈ cells) :
    ∃ i : Nat, i < k ∧
      classOf ((List.range k).map (fun i : Nat => mn + ((i : Rat) + 1) * ((mx - mn) / (k : Rat)))) (.fin x) = .fin (i : Rat) := by
  have hxm : x ≤ mx := (maxQ_spec _ _ hmx).2 x ((mem_finiteVals cells x).mpr hx)
  have hkpos : (0 : Rat) < k := by exact_mod_cast hk
  have hk0 : (k : Rat) ≠ 0 := ne_of_gt hkpos
  have hmem : mx ∈ (List.range k).map (fun i : Nat => mn + ((i : Rat) + 1) * ((mx - mn) / (k : Rat))) := by
    rw [List.mem_map]
    refine ⟨k - 1, by simp; omega, ?_⟩
    have : ((k - 1 : Nat) : Rat) + 1 = (k : Rat) := by
      have : k - 1 + 1 = k := by omega
      exact_mod_cast this
    rw [this]; field_simp; ring
  obtain ⟨i, hi, h⟩ := classOf_classified _ x mx hmem hxm
  exact ⟨i, by simpa using hi, h⟩

example : equalInterval Gen.cpuBinShape [.fin 0, .fin 1, .fin 2, .fin 3, .fin 4, .fin 5, .fin 6, .fin 7, .fin 8, .nan, .pinf] 4 =
    .ok [.fin 0, .fin 0, .fin 0, .fin 1, .fin 1, .fin 2, .fin 2, .fin 3, .fin 3, .nan, .nan] [2, 4, 6, 8] := by decide +kernel

/-! #### quantile: `qs` are the `k` percentile values numpy returned for 100/k, 200/k, …, 100 -/

/-- with exactly `k` percentile points (`quantile_grid_indexed`) the bins are the de-duplicated
    percentiles and every cell is classified by `classOf` (classes `< len(bins) <= k`) -/
theorem quantile_spec (cells : List (Ext Rat)) (qs : List Rat) (k : Nat) (hk : qs.length = k) (hne : qs ≠ []) :
    Bin.quantile Gen.cpuBinShape cells qs k = .ok (cells.map (classOf (uniq qs))) (uniq qs) ∧
    (uniq qs).Pairwise (· < ·) ∧ (uniq qs).length ≤ k := by
  have hlen := uniq_length qs
  have hsorted := uniq_sorted qs
  refine ⟨?_, hsorted, by omega⟩
  unfold Bin.quantile
  simp only
  congr 1
  apply List.map_congr_left
  intro v _
  have hune : uniq qs ≠ [] := by
    obtain ⟨a, ha⟩ := List.exists_mem_of_ne_nil qs hne
    exact List.ne_nil_of_mem ((mem_uniq a qs).mpr ha)
  rw [cellS_gen, cell_classIds _ hune (hsorted.imp le_of_lt)]
  split <;> omega

/-- **quantile classes are the k percentile bands**: when the `k` percentile values numpy returned for
    `100/k, 200/k, …, 100` are pairwise different (no band is empty of range), they *are* the bins, there are
    exactly `k` classes, and class `i` is the band between consecutive percentiles:
    `P(100·i/k) < x ≤ P(100·(i+1)/k)` (class 0: everything up to the first percentile).  With equal percentile
    values (`quantile_spec`) the equal ones collapse into one band and the classes are renumbered `0 … len−1`. -/
theorem quantile_percentile_bands (cells : List (Ext Rat)) (qs : List Rat) (k : Nat) (hk : qs.length = k) (hne : qs ≠ [])
    (hasc : qs.Pairwise (· < ·)) :
    Bin.quantile Gen.cpuBinShape cells qs k = .ok (cells.map (classOf qs)) qs ∧
    ∀ (x : Rat) (i : Nat), classOf qs (.fin x) = .fin (i : Rat) ↔
      ∃ h : i < qs.length, x ≤ qs[i] ∧ (i = 0 ∨ ∃ h' : i - 1 < qs.length, qs[i - 1] < x) := by
  have hu := uniq_of_sorted qs hasc
  have := (quantile_spec cells qs k hk hne).1
  rw [hu] at this
  exact ⟨this, fun x i => classOf_band qs (hasc.imp le_of_lt) x i⟩

/-- the percentile at 100 is the maximum, so the last bin is the maximum ... -/
theorem quantile_last_is_max (qs : List Rat) (mx : Rat) (hmem : mx ∈ qs) (hle : ∀ q ∈ qs, q ≤ mx)
    (hne : uniq qs ≠ []) : (uniq qs).getLast hne = mx := by
  have h1 : (uniq qs).getLast hne ≤ mx := hle _ ((mem_uniq _ qs).mp (List.getLast_mem hne))
  have h2 : mx ≤ (uniq qs).getLast hne := by
    obtain ⟨i, hi, hmx⟩ := List.getElem_of_mem ((mem_uniq mx qs).mpr hmem)
    rw [List.getLast_eq_getElem, ← hmx]
    by_cases hlt : i < (uniq qs).length - 1
    · exact le_of_lt ((List.pairwise_iff_getElem.mp (uniq_sorted qs)) _ _ _ _ hlt)
    · have : i = (uniq qs).length - 1 := by omega
      subst this; exact le_refl _
  exact le_antisymm h1 h2

/-- ... and every finite cell gets a class in `[0, k-1]` -/
theorem quantile_every_finite_classified (cells : List (Ext Rat)) (qs : List Rat) (k : Nat) (mx x : Rat)
    (hk : qs.length = k) (hmx : maxQ (finiteVals cells) = some mx) (hmem : mx ∈ qs) (hx : Ext.fin x ∈ cells) :
    ∃ i : Nat, i < k ∧ classOf (uniq qs) (.fin x) = .fin (i : Rat) := by
  have hxm : x ≤ mx := (maxQ_spec _ _ hmx).2 x ((mem_finiteVals cells x).mpr hx)
  obtain ⟨i, hi, h⟩ := classOf_classified (uniq qs) x mx ((mem_uniq mx qs).mpr hmem) hxm
  have := uniq_length qs
  exact ⟨i, by omega, h⟩

example : ([1, 2, 4] : List Rat).Pairwise (· < ·) := by decide +kernel
example : Bin.quantile Gen.cpuBinShape [.fin 0, .fin 1, .fin 2, .fin 3, .fin 4, .ninf] [1, 2, 2, 4] 4 =
    .ok [.fin 0, .fin 0, .fin 1, .fin 2, .fin 2, .nan] [1, 2, 4] := by decide +kernel

/-! #### natural_breaks -/

/-- **the recurrence**: every cell of the Jenks tables (`l >= 2` elements, `j + 2 >= 2` classes) is the
    minimum over the position of the last break, and `lower_class_limits` records an argmin -/
theorem jenks_recurrence (x : Nat → Rat) (n j l : Nat) (h2 : 2 ≤ l) (hl : l ≤ n) :
    (∀ i, 1 ≤ i → i < l → V x n (j + 2) l ≤ ssd x i l + V x n (j + 1) i) ∧
    2 ≤ L x n (j + 2) l ∧ L x n (j + 2) l ≤ l ∧
    V x n (j + 2) l = ssd x (L x n (j + 2) l - 1) l + V x n (j + 1) (L x n (j + 2) l - 1) :=
  recurrence x n j l h2 hl

/-- **optimality**: the partition obtained by walking `lower_class_limits` back from `(n, k)` is a
    partition of the `n` sorted sample values into at most `k` non-empty contiguous classes, its within-class
    sum of squared deviations is `var_combinations[n][k]`, and no partition into at most `k` (in particular:
    exactly `k`) non-empty contiguous classes has a smaller one -/
theorem jenks_optimal (x : Nat → Rat) (n k : Nat) (hn : 1 ≤ n) (hk : 1 ≤ k) :
    IsPartition n (back x n (k - 1) n) ∧ 1 ≤ (back x n (k - 1) n).length ∧ (back x n (k - 1) n).length ≤ k ∧
    cost x n (back x n (k - 1) n) = V x n k n ∧
    ∀ sizes, IsPartition n sizes → 1 ≤ sizes.length → sizes.length ≤ k →
      cost x n (back x n (k - 1) n) ≤ cost x n sizes := by
  obtain ⟨h1, h2, h3, h4⟩ := attained x n (k - 1) n hn (le_refl _)
  rw [show k - 1 + 1 = k by omega] at h3 h4
  refine ⟨h1, h2, h3, h4, ?_⟩
  intro sizes hp hl1 hl2
  rw [h4]
  have := lower x n (k - 1) n hn (le_refl _) sizes hp hl1 (by omega)
  rwa [show k - 1 + 1 = k by omega] at this

/-- the breaks `_run_jenks` extracts are the first value followed by the largest value of every class of
    that optimal partition (when it uses all `k` classes; otherwise the real code indexes out of range, which
    `natural_breaks` excludes by falling back when there are fewer than `k` distinct values) -/
theorem jenks_breaks_are_class_maxima (xs : List Rat) (k : Nat) (hn : 1 ≤ xs.length) (hk : 1 ≤ k)
    (hfull : (back (fun i => xs.getD i 0) xs.length (k - 1) xs.length).length = k) :
    kclass xs k = some ((fun i => xs.getD i 0) 0 ::
      uppers (fun i => xs.getD i 0) xs.length (back (fun i => xs.getD i 0) xs.length (k - 1) xs.length)) :=
  kclass_eq xs k hn hk hfull

/-- **every class is used**: on ascending data with at least `k − 1` strict ascents (i.e. at least `k` different
    values) the back-tracked optimal partition has exactly `k` classes -- a partition with fewer could be refined
    at an ascent inside one of its classes, strictly lowering the sum of squared deviations (`ssd_split_ascent`),
    which contradicts optimality.  This discharges the hypothesis `hfull` of `jenks_breaks_are_class_maxima`. -/
theorem jenks_uses_all_classes (x : Nat → Rat) (n k : Nat) (hs : Sorted x n) (hn : 1 ≤ n) (hk : 1 ≤ k)
    (ha : k ≤ asc x n + 1) : (back x n (k - 1) n).length = k :=
  back_full x n k hs hn hk ha

/-- ... in terms of the sample: at least `k` different values (the branch condition `uvk >= k` of
    `_run_natural_break`) -/
theorem jenks_uses_all_classes_of_sample (sample : List Rat) (k : Nat) (hk : 1 ≤ k) (hku : k ≤ (uniq sample).length) :
    (back (fun i => (sortQ sample).getD i 0) (sortQ sample).length (k - 1) (sortQ sample).length).length = k :=
  sample_full sample k hk hku

/-- **natural_breaks, Jenks branch** (at least `k` distinct sample values; breaks stored exactly,
    `breaks_stored_exactly`): the bins are the class maxima of the optimal partition of the sorted sample with
    the last one replaced by the raster maximum `mx`; they ascend, there are `k` of them, `mx` is one of them,
    and every cell is classified by `classOf` -/
theorem natural_breaks_spec (cells : List (Ext Rat)) (sample : List Rat) (k : Nat) (mx : Rat)
    (hmx : maxQ (finiteVals cells) = some mx) (hsub : ∀ s ∈ sample, s ≤ mx) (hne : sample ≠ [])
    (hk : 1 ≤ k) (hku : ¬ (uniq sample).length < k) :
    ∃ bins, naturalBreaks Gen.cpuBinShape id cells sample k = .ok (cells.map (classOf bins)) bins ∧
      bins.Pairwise (· ≤ ·) ∧ bins.length = k ∧ mx ∈ bins := by
  have hfull := sample_full sample k hk (by omega)
  obtain ⟨hss, hsm⟩ := sortQ_sorted sample
  have hlen : 1 ≤ (sortQ sample).length := by
    obtain ⟨a, ha⟩ := List.exists_mem_of_ne_nil sample hne
    exact List.length_pos_iff.mpr (List.ne_nil_of_mem ((hsm a).mpr ha))
  generalize hxs : sortQ sample = xs at *
  have hkc := kclass_eq xs k hlen hk hfull
  obtain ⟨hp, _, _, _⟩ := attained (fun i => xs.getD i 0) xs.length (k - 1) xs.length hlen (le_refl _)
  obtain ⟨hus, hub⟩ := uppers_sorted (fun i => xs.getD i 0) _ xs.length hp
    (fun i j hij hj => getD_sorted xs hss i j hij hj)
  have hul := uppers_length (fun i => xs.getD i 0) (back (fun i => xs.getD i 0) xs.length (k - 1) xs.length) xs.length
  generalize uppers (fun i => xs.getD i 0) xs.length (back (fun i => xs.getD i 0) xs.length (k - 1) xs.length) = U at *
  have hUk : U.length = k := hul.trans hfull
  have hUne : U ≠ [] := by intro h; rw [h] at hUk; simp at hUk; omega
  have hlast : xs.getD (xs.length - 1) 0 ≤ mx := by
    apply hsub; rw [← hsm]
    have hi : xs.length - 1 < xs.length := by omega
    simp only [List.getD_eq_getElem?_getD, List.getElem?_eq_getElem hi, Option.getD_some]
    exact List.getElem_mem _
  obtain ⟨b1, b2, b3, b4, _⟩ := setLast_sorted U mx hUne hus (fun a ha => le_trans (hub a ha) hlast)
  refine ⟨setLast U mx, ?_, b1, by omega, b4⟩
  unfold naturalBreaks
  simp only [hmx, hku, if_false, hxs, hkc, List.drop_one, List.tail_cons, id_eq, List.map_id]
  congr 1
  apply List.map_congr_left
  intro v _
  rw [cellS_gen, cell_classIds _ b3 b1 _ (by omega)]

/-- **natural_breaks, fallback branch** (fewer than `k` distinct sample values; the raster maximum is
    added to them, `natural_breaks_last_forced`): the bins are the distinct values of the sample and `mx`,
    ascending; at most `k` of them; the sample may even be empty -/
theorem natural_breaks_fallback_spec (cells : List (Ext Rat)) (sample : List Rat) (k : Nat) (mx : Rat)
    (hmx : maxQ (finiteVals cells) = some mx) (hku : (uniq sample).length < k) :
    ∃ bins, naturalBreaks Gen.cpuBinShape id cells sample k = .ok (cells.map (classOf bins)) bins ∧
      bins.Pairwise (· ≤ ·) ∧ bins.length ≤ k ∧ mx ∈ bins := by
  have b1 := insertU_sorted mx (uniq sample) (uniq_sorted sample)
  have b2 := insertU_length mx (uniq sample)
  have b4 : mx ∈ insertU mx (uniq sample) := (insertU_mem mx mx _).mpr (Or.inl rfl)
  refine ⟨insertU mx (uniq sample), ?_, b1.imp le_of_lt, by omega, b4⟩
  unfold naturalBreaks
  simp only [hmx, hku, if_true]
  congr 1
  apply List.map_congr_left
  intro v _
  rw [cellS_gen, cell_classIds _ (List.ne_nil_of_mem b4) (b1.imp le_of_lt) _ (le_refl _)]

/-- in both branches every finite cell of the raster gets a class in `[0, k-1]` -/
theorem natural_breaks_every_finite_classified (cells : List (Ext Rat)) (bins : List Rat) (k : Nat) (mx x : Rat)
    (hmx : maxQ (finiteVals cells) = some mx) (hmem : mx ∈ bins) (hlen : bins.length ≤ k) (hx : Ext.fin x ∈ cells) :
    ∃ i : Nat, i < k ∧ classOf bins (.fin x) = .fin (i : Rat) := by
  have hxm : x ≤ mx := (maxQ_spec _ _ hmx).2 x ((mem_finiteVals cells x).mpr hx)
  obtain ⟨i, hi, h⟩ := classOf_classified bins x mx hmem hxm
  exact ⟨i, by omega, h⟩

/-- why the storage must be exact (D8): if the stored last break is below the maximum, the maximum cell is
    above the last bin and gets NaN -/
theorem natural_breaks_needs_exact_storage (bins : List Rat) (hne : bins ≠ []) (hs : bins.Pairwise (· ≤ ·))
    (mx : Rat) (hr : bins.getLast hne < mx) : classOf bins (.fin mx) = .nan :=
  (classOf_nan_iff bins hne hs mx).mpr hr

-- a rounding that moves 5 to 4 leaves the maximum cell unclassified; exact storage classifies it
example : naturalBreaks Gen.cpuBinShape (fun q => if q = 5 then 4 else q) [.fin 1, .fin 2, .fin 4, .fin 5] [1, 2, 4, 5] 2 =
    .ok [.fin 0, .fin 0, .fin 1, .nan] [2, 4] := by decide +kernel
example : naturalBreaks Gen.cpuBinShape id [.fin 1, .fin 2, .fin 4, .fin 5, .pinf] [1, 2, 4, 5] 2 =
    .ok [.fin 0, .fin 0, .fin 1, .fin 1, .nan] [2, 5] := by decide +kernel
example : (back (fun i => [1, 2, 4, (5 : Rat)].getD i 0) 4 1 4).length = 2 := by decide +kernel
-- three strict ascents among 1, 2, 4, 5 (four different values): `jenks_uses_all_classes` applies for every k <= 4
example : asc (fun i => [1, 2, 4, (5 : Rat)].getD i 0) 4 = 3 := by decide +kernel
example : Sorted (fun i => [1, 2, 4, (5 : Rat)].getD i 0) 4 :=
  fun i j hij hj => getD_sorted [1, 2, 4, 5] (by decide +kernel) i j hij hj
-- the sample [0] of the raster [5, 0]: the fallback branch still classifies the maximum
example : naturalBreaks Gen.cpuBinShape id [.fin 5, .fin 0] [0] 3 = .ok [.fin 1, .fin 0] [0, 5] := by decide +kernel
example : naturalBreaks Gen.cpuBinShape id [.fin 5, .nan] [] 3 = .ok [.fin 0, .nan] [5] := by decide +kernel

/-! ### the program generated from `_cpu_bin` (layer T3: `Gen.IL.cpuBin`, translated statement by statement from
    /repo's current source) refines the model, so the clauses above hold for the *generated program*.

    `F` is any number type (`[Fl F]`): the program only uses `Fl.lt`, `Fl.le`, `Fl.isfinite`, `Fl.nan`.
    `WellFormed s rows cols nb nv`: the state holds a `rows x cols` raster (any shape, empty too), `nb` bins, `nv`
    new values.  `nb + 1 <= fuel`: the `while` of the binary search needs at most `nb` iterations plus the failing
    test (fuel is the interpreter's bound on `while` iterations, not part of the code). -/

section generated
open XrsVerif.IL XrsVerif.ILBin
variable {F : Type} [Fl F]

/-- the generated program is the composition of the blocks the refinement lemmas are about (re-checked against the
    regenerated `Gen/IL.lean` on every run: any edit of `_cpu_bin` that changes its translation breaks this `rfl`) -/
theorem generated_cpu_bin_blocks : Gen.IL.cpuBin.body = ILBin.prologue (.seq ILBin.yLoop .ret) ∧
    Gen.IL.cpuBin.ok = true := ⟨rfl, rfl⟩

/-- **the generated binary-search `while` returns the model's result**: entered like the program enters it
    (`0 <= start`, `end < nbins`, `start <= end + 1`, `mid = (end + start) // 2`) with more fuel than `end - start + 1`
    it ends normally -- not by fuel, not by an index error: `bins[mid]` is in range and `bins[mid - 1]` at `mid = 0`
    wraps to the last bin exactly like the model's `getW` --, `mid` holds `Bin.loop` (for any model fuel
    `n >= end - start + 1`), and only `start`, `end`, `mid` have changed -/
theorem generated_bin_search_loop (nb n fuel : Nat) (s : State F) (hrun : s.ctl = .run)
    (hs : s.shp "bins" = [nb]) (hl : (s.fa "bins").length = nb)
    (h0 : 0 ≤ s.ienv "start") (h1 : s.ienv "end" < nb) (h2 : s.ienv "start" ≤ s.ienv "end" + 1)
    (hm : s.ienv "mid" = (s.ienv "end" + s.ienv "start") / 2)
    (hn : (s.ienv "end" - s.ienv "start" + 1).toNat ≤ n) (hf : n + 1 ≤ fuel) :
    (exec fuel ILBin.whileS s).ctl = .run ∧
    (exec fuel ILBin.whileS s).ienv "mid" =
      Bin.loop (fun i => Fl.lt (getW Fl.nan (s.fa "bins") i) (s.fenv "val")) n (s.ienv "start") (s.ienv "end") ∧
    SameButI ["start", "end", "mid"] s (exec fuel ILBin.whileS s) :=
  while_refines nb n fuel s hrun hs hl h0 h1 h2 hm hn hf

/-- **refinement**: for every raster, every `bins` of length >= 1 (NaN, unsorted, ±inf: whatever the comparisons
    answer) and `new_values` at least as long, the generated program returns, `out` has the raster's shape and
    holds the model cell `Bin.cellG` (first-bin test, last-bin test, `Bin.loop`, wrapped reads) of every cell; the
    inputs are unchanged -/
theorem generated_cpu_bin_refines (s : State F) (fuel rows cols nb nv : Nat) (hw : WellFormed s rows cols nb nv)
    (hnb : 1 ≤ nb) (hnv : nb ≤ nv) (hf : nb + 1 ≤ fuel) :
    let r := Gen.IL.cpuBin.run s fuel
    r.ctl = .ret ∧ r.shp "out" = [rows, cols] ∧
    r.fa "out" = (s.fa "data").map (cellG Fl.lt Fl.le Fl.isfinite Fl.nan (s.fa "bins") (s.fa "new_values")) ∧
    r.fa "data" = s.fa "data" ∧ r.fa "bins" = s.fa "bins" ∧ r.fa "new_values" = s.fa "new_values" :=
  cpuBin_refines s fuel rows cols nb nv hw.run hw.dshp hw.dlen hw.bshp hw.blen hw.nshp hw.nlen hnv hf (Or.inl hnb)

/-- **first bin, for the generated program, over any number type**: if the bins are comparable with every finite
    cell (`bins[i] < v` iff not `v <= bins[i]`: no NaN bin) and ascending as seen by `v <= ·`, the generated program
    writes, for every finite cell, the new value of the *first* bin whose upper bound is `>=` the cell (NaN if there
    is none), and NaN for every non-finite cell -/
theorem generated_cpu_bin_first_bin (s : State F) (fuel rows cols nb nv : Nat) (hw : WellFormed s rows cols nb nv)
    (hnb : 1 ≤ nb) (hnv : nb ≤ nv) (hf : nb + 1 ≤ fuel)
    (htot : ∀ v ∈ s.fa "data", Fl.isfinite v = true → ∀ b ∈ s.fa "bins", Fl.lt b v = !Fl.le v b)
    (hmono : ∀ v ∈ s.fa "data", Fl.isfinite v = true →
      (s.fa "bins").Pairwise (fun a b => Fl.le v a = true → Fl.le v b = true)) :
    let r := Gen.IL.cpuBin.run s fuel
    r.ctl = .ret ∧ r.shp "out" = [rows, cols] ∧
    r.fa "out" = (s.fa "data").map fun v =>
      if Fl.isfinite v then
        match (s.fa "bins").findIdx? (fun b => Fl.le v b) with
        | some i => getW Fl.nan (s.fa "new_values") (i : Int)
        | none => Fl.nan
      else Fl.nan := by
  obtain ⟨h1, h2, h3, _⟩ := generated_cpu_bin_refines s fuel rows cols nb nv hw hnb hnv hf
  refine ⟨h1, h2, ?_⟩
  rw [h3]
  apply List.map_congr_left
  intro v hv
  unfold cellG
  cases hfin : Fl.isfinite v with
  | false => simp
  | true =>
    have hne : s.fa "bins" ≠ [] := by
      intro h; have := hw.blen; rw [h] at this; simp at this; omega
    rw [search_eq_findIdx Fl.lt Fl.le Fl.nan v (s.fa "bins") hne (htot v hv hfin) (hmono v hv hfin)]
    cases (s.fa "bins").findIdx? (fun b => Fl.le v b) with
    | none => simp
    | some i =>
      have : ((i : Int) > -1) := by omega
      simp [this]

/-- **the generated program is the model the reclassify theorems are about**: under any reading `e` of the number
    type as extended values (`ExtSem`: the comparisons and the finiteness test are the IEEE ones), cell by cell
    `out = cellS Gen.cpuBinShape` -/
theorem generated_cpu_bin_is_model {K : Type} [LinearOrder K] (e : F → Ext K) (he : ExtSem e)
    (s : State F) (fuel rows cols nb nv : Nat) (hw : WellFormed s rows cols nb nv)
    (hnb : 1 ≤ nb) (hnv : nb ≤ nv) (hf : nb + 1 ≤ fuel) :
    let r := Gen.IL.cpuBin.run s fuel
    r.ctl = .ret ∧ r.shp "out" = [rows, cols] ∧
    (r.fa "out").map e =
      (s.fa "data").map fun v => cellS Gen.cpuBinShape ((s.fa "bins").map e) ((s.fa "new_values").map e) (e v) := by
  obtain ⟨h1, h2, h3, _⟩ := generated_cpu_bin_refines s fuel rows cols nb nv hw hnb hnv hf
  refine ⟨h1, h2, ?_⟩
  rw [h3, List.map_map]
  apply List.map_congr_left
  intro v _
  simp only [Function.comp_apply]
  rw [cellG_sem e he, cellS_gen]

/-- **reclassify's clause for the generated program**: ascending NaN-free bins (±inf allowed) of any length >= 1:
    every finite cell gets the new value of the first bin whose upper bound is `>=` it, NaN if it is above the last
    bin; NaN / ±inf cells give NaN -/
theorem generated_reclassify_first_bin {K : Type} [LinearOrder K] (e : F → Ext K) (he : ExtSem e)
    (s : State F) (fuel rows cols nb nv : Nat) (hw : WellFormed s rows cols nb nv)
    (hnb : 1 ≤ nb) (hnv : nb ≤ nv) (hf : nb + 1 ≤ fuel) (hasc : ExtAscending ((s.fa "bins").map e)) :
    let r := Gen.IL.cpuBin.run s fuel
    r.ctl = .ret ∧ r.shp "out" = [rows, cols] ∧
    (r.fa "out").map e = (s.fa "data").map fun v =>
      match e v with
      | .fin x =>
        (match firstGEx ((s.fa "bins").map e) x with
         | some i => getW .nan ((s.fa "new_values").map e) (i : Int)
         | none => .nan)
      | _ => .nan := by
  obtain ⟨h1, h2, h3⟩ := generated_cpu_bin_is_model e he s fuel rows cols nb nv hw hnb hnv hf
  refine ⟨h1, h2, ?_⟩
  rw [h3]
  apply List.map_congr_left
  intro v _
  have hne : (s.fa "bins").map e ≠ [] := by
    intro h
    have := congrArg List.length h
    rw [List.length_map, hw.blen] at this; simp at this; omega
  cases hev : e v with
  | fin x => exact reclassify_spec _ _ hne hasc x
  | nan => exact reclassify_nonfinite _ _ _ rfl
  | ninf => exact reclassify_nonfinite _ _ _ rfl
  | pinf => exact reclassify_nonfinite _ _ _ rfl

/-- a raster without any finite cell never reads `bins`: all NaN, whatever `bins` is (empty too) -/
theorem generated_cpu_bin_no_finite_cell (s : State F) (fuel rows cols nb nv : Nat)
    (hw : WellFormed s rows cols nb nv) (hnv : nb ≤ nv) (hf : nb + 1 ≤ fuel)
    (hnf : ∀ v ∈ s.fa "data", Fl.isfinite v = false) :
    let r := Gen.IL.cpuBin.run s fuel
    r.ctl = .ret ∧ r.shp "out" = [rows, cols] ∧ r.fa "out" = List.replicate (rows * cols) Fl.nan := by
  obtain ⟨h1, h2, h3, _⟩ := cpuBin_refines s fuel rows cols nb nv hw.run hw.dshp hw.dlen hw.bshp hw.blen hw.nshp
    hw.nlen hnv hf (Or.inr hnf)
  refine ⟨h1, h2, ?_⟩
  rw [h3, ← hw.dlen]
  apply List.ext_getElem (by simp)
  intro i hi _
  simp only [List.getElem_map, List.getElem_replicate]
  unfold cellG
  rw [hnf _ (List.getElem_mem _)]
  simp

/-- **empty `bins`** (no bin list at all; the real code reads `bins[0]` of a zero-length array -- out of bounds, numba
    does not check): the generated program stops with an index error at the first finite cell -/
theorem generated_cpu_bin_empty_bins (s : State F) (fuel rows cols nv : Nat) (hw : WellFormed s rows cols 0 nv)
    (hfin : ∃ v ∈ s.fa "data", Fl.isfinite v = true) :
    (Gen.IL.cpuBin.run s fuel).ctl = .err "index" :=
  cpuBin_no_bins s fuel rows cols nv hw.run hw.dshp hw.dlen hw.bshp hw.blen hw.nshp hw.nlen hfin

/-- **the read `bins[mid - 1]` at `mid = 0`** (numba wraps a negative index once; ILang's `normIdx` and the model's
    `getW` do the same): when the first bin is comparable with the value (`bins[0] < v` iff not `v <= bins[0]`, i.e.
    `bins[0]` is not NaN) the search never evaluates a negative index -- its result is the same for *any* reading
    `g` of `bins` that is right on the indices `>= 0`.  (With a NaN first bin the read happens and sees the last
    bin; the cell then gets NaN or a bin `r` with `bins[r-1] < v`, as in the real code.) -/
theorem generated_cpu_bin_no_wraparound (B : List F) (v : F) (hne : B ≠ [])
    (h0 : Fl.lt (getW Fl.nan B 0) v = !Fl.le v (getW Fl.nan B 0))
    (g : Int → F) (hg : ∀ i, 0 ≤ i → g i = getW Fl.nan B i) :
    Bin.search Fl.lt Fl.le Fl.nan B v = Bin.searchP (fun i => Fl.lt (g i) v) (fun i => Fl.le v (g i)) B.length :=
  search_no_wrap Fl.lt Fl.le Fl.nan B v h0 g hg hne

end generated

section generated_examples
open XrsVerif.IL XrsVerif.ILBin
attribute [local instance] ILBin.cmpFl

-- non-vacuity, with ±inf: the generated program on a 2 x 3 raster over the comparison-only number type `Ext Int`
example :
    let s : State (Ext Int) := mkState 2 3 [.fin 16, .fin 15, .pinf, .fin 9, .nan, .fin 41]
      [.fin 10, .fin 15, .fin 15, .pinf] [.fin 1, .fin 2, .fin 3, .fin 4]
    (Gen.IL.cpuBin.run s 5).ctl = .ret ∧
    (Gen.IL.cpuBin.run s 5).fa "out" = [.fin 4, .fin 2, .nan, .fin 1, .nan, .fin 4] := by
  intro s
  have hw : WellFormed s 2 3 4 4 := mkState_wf 2 3 _ _ _ rfl
  have hasc : ExtAscending ((s.fa "bins").map id) := by
    rw [List.map_id, mkState_bins]; exact ⟨by decide, by decide⟩
  obtain ⟨h1, _, h3⟩ := generated_reclassify_first_bin id (cmpFl_sem Int) s 5 2 3 4 4 hw (by omega) (by omega)
    (by omega) hasc
  refine ⟨h1, ?_⟩
  rw [List.map_id, mkState_data, mkState_bins, mkState_newv] at h3
  rw [h3]; decide

-- empty bins: index error as soon as there is a finite cell; all NaN when there is none
example : (Gen.IL.cpuBin.run (mkState 1 2 [Ext.nan, .fin (3 : Int)] [] []) 1).ctl = .err "index" :=
  generated_cpu_bin_empty_bins _ 1 1 2 0 (mkState_wf 1 2 _ _ _ rfl) ⟨.fin 3, by simp, rfl⟩
example : (Gen.IL.cpuBin.run (mkState 1 2 [Ext.nan, (.pinf : Ext Int)] [] []) 1).fa "out" = [.nan, .nan] :=
  (generated_cpu_bin_no_finite_cell _ 1 1 2 0 0 (mkState_wf 1 2 _ _ _ rfl) (by omega) (by omega)
    (by intro v hv; simp at hv; rcases hv with rfl | rfl <;> rfl)).2.2
-- an empty raster
example : (Gen.IL.cpuBin.run (mkState 0 3 ([] : List (Ext Int)) [.fin 1] [.fin 7]) 2).fa "out" = [] :=
  (generated_cpu_bin_refines _ 2 0 3 1 1 (mkState_wf 0 3 _ _ _ rfl) (by omega) (by omega) (by omega)).2.2.1

end generated_examples

section generated_nv
open XrsVerif.IL XrsVerif.ILBin
local instance : Trig ℚ := ⟨id, id, fun a _ => a, id, id, id, id⟩

-- non-vacuity of the law hypotheses of `generated_cpu_bin_first_bin` at `NV ℚ` (NaN = `none`)
example :
    let s : State (NV ℚ) := mkState 1 3 [some 12, none, some 99] [some 10, some (25 / 2)] [some 0, some 1]
    (Gen.IL.cpuBin.run s 3).fa "out" = [some 1, none, none] := by
  intro s
  have hw : WellFormed s 1 3 2 2 := mkState_wf 1 3 _ _ _ rfl
  have hsem := nvRead_sem (K := ℚ)
  have hasc : ExtAscending ((s.fa "bins").map nvRead) := by
    rw [mkState_bins]; exact ⟨by decide +kernel, by decide +kernel⟩
  obtain ⟨_, _, h3⟩ := generated_cpu_bin_first_bin s 3 1 3 2 2 hw (by omega) (by omega) (by omega)
    (fun v _ hv => sem_total nvRead hsem _ hasc v hv) (fun v _ hv => sem_mono nvRead hsem _ hasc v hv)
  rw [mkState_data, mkState_bins, mkState_newv] at h3
  rw [h3]; decide +kernel

end generated_nv

end XrsVerif.C12
