import XrsVerif.Proofs.ViewshedSweep
import XrsVerif.Proofs.ViewshedDelExact
import XrsVerif.Proofs.ViewshedOutput
import XrsVerif.Proofs.ViewshedEvents
import XrsVerif.Proofs.ViewshedDiscipline
import XrsVerif.Proofs.ViewshedWrapper
import XrsVerif.Gen.ViewshedFacts
import XrsVerif.Proofs.ILViewshedOrder
import XrsVerif.Proofs.ILViewshedRotR
import XrsVerif.Proofs.ILViewshedSucc
import XrsVerif.Proofs.ILViewshedInsProg
import XrsVerif.Proofs.ILViewshedDel
import XrsVerif.Proofs.ILViewshedLift
import XrsVerif.Proofs.ILVsNV
import XrsVerif.Proofs.ILVsSweepFill
import XrsVerif.Proofs.ILVsSweepRen
import XrsVerif.Proofs.ILViewshedFixOrder
import XrsVerif.Proofs.ILViewshedDelRefines
import XrsVerif.Proofs.ILViewshedDelOrder
import Mathlib.Tactic.Positivity
/-
  C05 -- viewshed marks a cell visible exactly when the line-of-sight model says so.

  The statements are about `Model/Viewshed.lean` (the status tree, its query, rotations, insertion,
  deletion and the sweep, tied to xrspatial/viewshed.py by harness/corr_C05.py at three seams), about
  `Gen.viewshed_vertical_ang` (the translation of `_get_vertical_ang`, regenerated every run) and about
  `Gen.Viewshed.*` (facts read from the source every run).  Numbers are the elements of an arbitrary
  linearly ordered field: the interpolation is exact; float rounding of `+ - * /` and the values of
  `atan` / `sqrt` are covered only by the correspondence run, which feeds the model the doubles the
  real code produced.

  The line-of-sight model (the property's "model the function implements") is `visL`: a cell with key
  (squared distance) `k`, bearing `ang` and gradient `g` is visible iff no active cell with a smaller
  key that spans `ang` has an interpolated gradient greater than `g`.

  What is proved, and what is not:
    * `query_decides`            the two-phase tree query decides exactly `visL` on every tree with ordered
                                 keys whose stored maxima below the root never overestimate (`AugLeQ`; the
                                 root's own maximum is never read);
    * `sweep_refines`, `sweep_refines_of_checked_run`
                                 hence the sweep run with the tree reports the same visible cells as the
                                 sweep run with the list, provided every reached tree state is related
                                 to the list state (`Rel`: BST, AugLeQ, same nodes);
    * `rotate_preserves`, `fixups_preserve`, `leaf_insert_preserves`
                                 rotations (with the code's augmentation repair), recolourings and the
                                 insertion with its upward propagation preserve `Rel`, for all trees;
    * `delete_preserves_of_no_tie`
                                 the deletion (splice / successor copy with the loops L1 / L2 and the
                                 recomputations of the code) followed by any fixup preserves `Rel` and keeps the
                                 stored maxima EXACT whenever no two nodes of the tree tie in their minimum
                                 gradient; with `leaf_insert_exact` and `fixups_preserve_exact`, "`Rel` holds in
                                 every reachable state" is a theorem for tie-free sweeps (`tie_free_run_related`);
    * `delete_preserves_partial` with ties: the deletion still preserves the key order and removes exactly the
                                 node asked for, but it does NOT in general preserve "no overestimate":
                                 `delete_can_overestimate` exhibits a tree, satisfying every invariant, on which
                                 the code's augmentation repairs leave a stored maximum above the true one.  So
                                 for sweeps with gradient ties (plateaus) "`Rel` holds in every reachable state"
                                 is NOT a theorem; it is monitored after every operation of every generated run
                                 (seam 1 of the correspondence).  In the real sweeps found so far the
                                 overestimate sits at the root, whose maximum the query never reads (`AugLeQ`
                                 still holds, so `query_decides` still applies).
    * the output rule            observer 180, invisible -1, visible = the vertical angle, which lies in
                                 (0, 180) and is 90 exactly for a level target, over hypotheses on `atan`.
    * the event geometry (section 6, `Model/ViewshedEvents.lean`, exact integers / rationals, for ALL raster sizes,
      observer positions and terrains):
        `three_events_per_cell`, `event_count`   every non-observer cell yields exactly ENTER, CENTER, EXIT;
        `enter_corner_smallest_exit_corner_largest`
                                 which corner `_calc_event_pos` calls entering / exiting (the if-chain is read from the
                                 source) IS the corner of smallest / largest bearing, by exact cross products;
        `initial_iff_span_contains_bearing_zero`, `initial_status_set`
                                 the cells put into the status structure before the sweep are exactly those whose span
                                 contains bearing 0: the observer's row, strictly east;
        `corner_elevation_local`, `corner_elevation_value`, `corner_cells_are_the_block_at_the_corner`
                                 a corner elevation is the mean of the 2 x 2 block at the corner (own elevation at the
                                 border) and depends on nothing else;
        `initial_fill_uses_corner_elevations`, `init_fill_buffer_written_after_corner_elevations`
                                 the observer-row buffer that seeds the status structure carries those corner elevations
                                 (model), and the source writes it after computing them (fact read from the source);
        `events_sorted`, `cell_events_in_sweep_order`
                                 the lexsort order (bearing by half plane + cross product, then type) is a total preorder;
                                 in the sorted list a cell's events come ENTER, CENTER, EXIT -- on the east ray CENTER,
                                 EXIT, ENTER;
        `cell_operation_sequence`, `insert_delete_counts`, `sweep_discipline`, `sweep_without_initial_fill_breaks`
                                 over initial fill + sweep every cell is inserted, queried, deleted in this order (east ray:
                                 and re-inserted at the very end); an insertion never meets an active cell, a query or
                                 deletion always does; without the initial fill this fails.
    * the wrapper glue (section 9, `Model/ViewshedWrapper.lean` interpreting the facts read from `_viewshed_cpu`):
        `wrapper_source_shape`, `observer_cell_is_nearest_centre`, `resolution_is_coordinate_spacing`,
        `wrapper_feeds_the_sweep_the_model_inputs`, `observer_outside_is_value_error`
                                 for all coordinate arrays (ascending / descending, any spacing) the observer's cell is a cell
                                 whose centre is nearest; on equally spaced coordinates the cell sizes passed to the kernels are
                                 the signed coordinate steps (no attribute enters), so every key is the squared distance between
                                 coordinates; each quantity is passed in the position of the kernel parameter that means it.
    * the generated status-tree routines (section 7, layer T3): `generated_query_decides` -- the program translated
      statement by statement from `_max_grad_in_status_struct` decides line of sight on every state whose arrays hold a
      well-linked BST without overestimates below the root; `generated_rotations_are_model_rotations`,
      `generated_left_rotation_preserves`, `generated_small_routines`, `generated_tree_successor`;
      `generated_insert_is_model_insert` -- the program translated from `_insert_into_tree` (with `_rb_insert_fixup` and
      its rotations inlined) leaves arrays holding the model's complete insertion `rbInsert`, which preserves `Rel` and `AugLe`.
      NOT in the model: the float value of a bearing (`atan`), of a gradient (`atan`, `sqrt`) -- compared by seam 0 / the
      geometric oracle of the correspondence; NaN terrains (outside the property's quantifier).
-/
set_option linter.unusedSectionVars false
set_option linter.unusedVariables false
namespace XrsVerif.C05
open XrsVerif XrsVerif.Viewshed

variable {α : Type} [Field α] [LinearOrder α] [IsStrictOrderedRing α]

/-! ### 1. the query -/

/-- **The status-tree query decides line of sight.**  `t`: any tree with strictly ordered keys whose
    stored maxima below the root never overestimate (`AugLe` implies it); `K` a key of the tree; every node nearer than `K` spans the
    bearing (or has a minimum gradient ≤ `g`, which is how the permanent sentinel node is exempted).
    Then the caller's test `max <= gradient` holds iff no nearer node spanning the bearing has a
    greater interpolated gradient. -/
theorem query_decides {S : α} {t : Viewshed.Tree α} (K ang g : α) (hS : S ≤ g) (hb : BST t) (ha : AugLeQ S t)
    (hK : ∃ n ∈ t.toList, n.key = K)
    (hact : ∀ n ∈ t.toList, n.key < K → spans n ang = true ∨ minv n ≤ g) :
    query S t K ang g ≤ g ↔ ∀ n ∈ t.toList, n.key < K → spans n ang = true → itp n ang ≤ g :=
  query_decides' K ang g hS hb ha hK hact

/-- non-vacuity: a three-node tree whose root underestimates (stored 1, true maximum 2) satisfies the
    hypotheses, and the query at key 3 sees the gradient-2 node through the exact walk -/
example :
    let n1 : Node ℚ := ⟨1, 2, 2, 2, 0, 1, 2⟩
    let n2 : Node ℚ := ⟨2, 1, 1, 1, 0, 1, 2⟩
    let n3 : Node ℚ := ⟨3, 0, 0, 0, 0, 1, 2⟩
    let t : Viewshed.Tree ℚ := .node (.node .nil n1 2 true .nil) n2 1 false (.node .nil n3 0 true .nil)
    BST t ∧ AugLeQ (-5) t ∧ ¬ Exact (-5) t ∧ query (-5) t 3 1 0 = 2 ∧ visL t.toList 3 1 0 = false := by
  refine ⟨?_, ?_, ?_, ?_, ?_⟩
  · rw [← bstB_iff]; decide
  · rw [← augLeQB_iff]; decide
  · rw [← exactB_iff]; decide
  · decide
  · decide

/-- the interpolated gradient of a spanning node is never below its minimum gradient: the reason a
    maximum of minima may be used as a shortcut -/
theorem min_gradient_le_interpolated (n : Node α) (ang : α) (h : spans n ang = true) : minv n ≤ itp n ang :=
  minv_le_itp n ang h

/-- the interpolation is linear corner - centre - corner -/
theorem interpolation_endpoints (n : Node α) (h0 : n.a0 < n.a1) (h2 : n.a1 < n.a2) :
    itp n n.a0 = n.g0 ∧ itp n n.a1 = n.g1 ∧ itp n n.a2 = n.g2 :=
  ⟨itp_enter n h0, itp_centre n, itp_exit n h2⟩

/-- colours never influence the query (balance is performance, not correctness) -/
theorem query_colour_irrelevant (S : α) (f : List Dir → Bool → Bool) (t : Viewshed.Tree α) (K ang g : α) :
    query S (recolour f [] t) K ang g = query S t K ang g := by
  unfold query
  rw [recolour_contains, recolour_short, recolour_toList]

/-! ### 2. the sweep with the tree is the sweep with the list -/

/-- on related states the tree decides what the line-of-sight rule says -/
theorem visible_iff_line_of_sight {S : α} {d : Node α} {t : Viewshed.Tree α} {st : List (Node α)} {k ang g : α}
    (hr : Rel S d t st) (hq : QOK S d st k ang g) :
    visT S t k ang g = true ↔ ∀ n ∈ st, n.key < k → spans n ang = true → itp n ang ≤ g := by
  rw [visT_eq_visL hr hq, visL_iff]

/-- **Refinement, given that each tree operation preserves `BST ∧ AugLe ∧ (nodes = abstract set)`**:
    the L1 sweep run with any such implementation of the status structure reports exactly the visible
    cells of the L1 sweep run with the list. -/
theorem sweep_refines {S : α} {d : Node α} (O : TreeOps α) (hp : Preserves S d O)
    (ops : List (Op α)) (t : Viewshed.Tree α) (st : List (Node α)) (hr : Rel S d t st) (ho : OpsOK S d st ops) :
    runT S O t ops = runL st ops :=
  sweep_refines_along O ops t st (invAlong_of_preserves O hp ops t st hr ho) ho

/-- the same for one run whose every state is related (what the correspondence checks on the real
    arrays after every operation): nothing is assumed about the implementation -/
theorem sweep_refines_of_checked_run {S : α} {d : Node α} (O : TreeOps α)
    (ops : List (Op α)) (t : Viewshed.Tree α) (st : List (Node α))
    (hi : InvAlong S d O t st ops) (ho : OpsOK S d st ops) : runT S O t ops = runL st ops :=
  sweep_refines_along O ops t st hi ho

/-- non-vacuity of `Rel` / `QOK` / `OpsOK`: the initial structure (dummy only) is related to the empty
    active set, and a two-cell run satisfies the operation conditions -/
example : Rel (-100 : ℚ) (dummy (-100) 0 (-1)) (initTree (-100) 0 (-1)) [] := by
  refine ⟨?_, ?_, ?_⟩
  · rw [← bstB_iff]; decide
  · rw [← augLeQB_iff]; decide
  · intro n; simp [initTree, Tree.toList]

example :
    let a : Node ℚ := ⟨1, 1, 1, 1, -1, 0, 1⟩
    let b : Node ℚ := ⟨4, 0, 0, 0, -1, 0, 1⟩
    OpsOK (-100 : ℚ) (dummy (-100) 0 (-1)) [] [.ins a, .ins b, .qry 4 0 0, .del 1, .qry 4 (1/2) 0] ∧
      runL ([] : List (Node ℚ)) [.ins a, .ins b, .qry 4 0 0, .del 1, .qry 4 (1/2) 0] = [false, true] ∧
      runT (-100) (coreOps (-100)) (initTree (-100) 0 (-1)) [.ins a, .ins b, .qry 4 0 0, .del 1, .qry 4 (1/2) 0]
        = [false, true] := by
  refine ⟨?_, by decide +kernel, by decide +kernel⟩
  simp only [OpsOK, OpOK, QOK, stepL, dummy]
  refine ⟨⟨by norm_num, by simp⟩, ⟨by norm_num, by simp⟩, ?_, trivial, ?_, trivial⟩
  · refine ⟨by norm_num, ⟨_, List.mem_cons_self, rfl⟩, ?_, by decide +kernel, by decide +kernel⟩
    intro n hn hk
    simp only [List.mem_cons, List.not_mem_nil, or_false] at hn
    rcases hn with rfl | rfl
    · exact absurd hk (lt_irrefl _)
    · decide
  · refine ⟨by norm_num, ?_, ?_, by decide +kernel, by decide +kernel⟩
    · exact ⟨⟨4, 0, 0, 0, -1, 0, 1⟩, by decide +kernel, rfl⟩
    · intro n hn hk
      have : n = (⟨4, 0, 0, 0, -1, 0, 1⟩ : Node ℚ) := by
        simp only [List.mem_filter, List.mem_cons, List.not_mem_nil, or_false] at hn
        rcases hn.1 with rfl | rfl
        · rfl
        · exact absurd hn.2 (by decide)
      subst this
      exact absurd hk (lt_irrefl _)

/-! ### 3. which operations preserve the relation -/

/-- a single rotation anywhere in the tree, with the code's recomputation of the two stored maxima,
    keeps the key order, the nodes, "no overestimate" and exactness -/
theorem rotate_preserves (S : α) (p : List Dir) {t : Viewshed.Tree α} :
    ((atPath (rotL S) p t).toList = t.toList ∧ (atPath (rotR S) p t).toList = t.toList) ∧
    (BST t → BST (atPath (rotL S) p t) ∧ BST (atPath (rotR S) p t)) ∧
    (AugLe S t → AugLe S (atPath (rotL S) p t) ∧ AugLe S (atPath (rotR S) p t)) ∧
    (Exact S t → Exact S (atPath (rotL S) p t) ∧ Exact S (atPath (rotR S) p t)) :=
  ⟨⟨atPath_toList (rotL_toList S) p t, atPath_toList (rotR_toList S) p t⟩,
   fun h => ⟨atPath_BST (rotL_toList S) (fun _ => rotL_BST S) p h, atPath_BST (rotR_toList S) (fun _ => rotR_BST S) p h⟩,
   fun h => ⟨atPath_AugLe S (rotL_toList S) (fun _ => rotL_AugLe S) p h,
             atPath_AugLe S (rotR_toList S) (fun _ => rotR_AugLe S) p h⟩,
   fun h => ⟨atPath_Exact S (rotL_toList S) (fun _ => rotL_Exact S) p h,
             atPath_Exact S (rotR_toList S) (fun _ => rotR_Exact S) p h⟩⟩

/-- whatever `_rb_insert_fixup` / `_rb_delete_fixup` do (any sequence of rotations and recolourings,
    see `fixups_only_recolour_and_rotate`) preserves the relation to the abstract set -/
theorem fixups_preserve {S : α} {d : Node α} {t u : Viewshed.Tree α} {st : List (Node α)}
    (h : Rebal S t u) (hr : Rel S d t st) : Rel S d u st :=
  ⟨h.bst hr.1, h.augLeQ hr.2.1, fun n => by rw [h.toList]; exact hr.2.2 n⟩

/-- ... and exactness and "no overestimate anywhere" -/
theorem fixups_preserve_exact {S : α} {t u : Viewshed.Tree α} (h : Rebal S t u) :
    (Exact S t → Exact S u) ∧ (AugLe S t → AugLe S u) :=
  ⟨h.exact, h.augLe⟩

/-- `_insert_into_tree`: descent, new red leaf, upward propagation of its minimum gradient (which never
    overestimates), then any fixup: the relation is preserved and the new cell joins the active set -/
theorem leaf_insert_preserves {S : α} {d : Node α} {t u : Viewshed.Tree α} {st : List (Node α)} (n : Node α)
    (hr : Rel S d t st) (hd : n.key ≠ d.key) (hfresh : ∀ m ∈ st, m.key ≠ n.key)
    (hu : Rebal S (leafInsert n t) u) : Rel S d u (n :: st) := by
  obtain ⟨hb, ha, hm⟩ := hr
  refine fixups_preserve hu ⟨?_, insCore_AugLeQ S n ha, fun a => ?_⟩
  · refine insCore_BST n hb (fun m hm' => ?_)
    rcases (hm m).mp hm' with rfl | hm'
    · exact fun h => hd h.symm
    · exact hfresh m hm'
  · unfold leafInsert
    rw [insCore_toList, hm, List.mem_cons]
    tauto

/-- insertion also keeps exactness of the stored maxima -/
theorem leaf_insert_exact {S : α} {t : Viewshed.Tree α} (n : Node α) (h : Exact S t) (hS : S ≤ minv n) :
    Exact S (leafInsert n t) :=
  (insCore_Exact_aux S n h hS).1

/-- **`_delete_from_tree` without gradient ties.**  If the stored maxima are exact, no two nodes of the
    tree have the same minimum gradient and only nodes nearer than the deleted one carry the sentinel
    (the dummy), then the splice / successor copy with the code's augmentation repairs (loops L1, L2,
    recomputations F1, C), followed by any fixup, leaves a tree that is again exact, ordered, and holds
    exactly the remaining nodes. -/
theorem delete_preserves_of_no_tie {S : α} {d : Node α} {t : Viewshed.Tree α} {st : List (Node α)} (k : α)
    (hr : Rel S d t st) (he : Exact S t) (hk : ∃ n ∈ st, n.key = k) (hd : d.key ≠ k)
    (hnotie : ∀ a ∈ t.toList, ∀ b ∈ t.toList, minv a = minv b → a.key = b.key)
    (hsent : ∀ n ∈ t.toList, minv n = S → n.key < k) :
    ∃ c, delCore S k t = some c ∧ ∀ u, Rebal S c u →
      Exact S u ∧ Rel S d u (st.filter fun m => !(eqv m.key k)) := by
  obtain ⟨hb, ha, hm⟩ := hr
  obtain ⟨kn, hkn, hkk⟩ := hk
  have hsome := del_isSome S k ⟨kn, (hm kn).mpr (Or.inr hkn), hkk⟩ hb
  obtain ⟨res, hres⟩ := Option.isSome_iff_exists.mp hsome
  have hc : delCore S k t = some (if res.atY then refresh S res.t else res.t) := by simp [delCore, hres]
  refine ⟨_, hc, fun u hu => ?_⟩
  obtain ⟨hb', hm'⟩ := delCore_spec S k hc hb
  have hex := delCore_exact S k hc ⟨hb, he, hnotie, hsent⟩
  refine ⟨hu.exact hex, hu.bst hb', (hu.exact hex).augLe.toQ, fun n => ?_⟩
  rw [hu.toList, hm', hm, List.mem_filter]
  simp only [Bool.not_eq_eq_eq_not, Bool.not_true, ← Bool.not_eq_true, eqv_iff]
  constructor
  · rintro ⟨rfl | h, hne⟩
    · exact Or.inl rfl
    · exact Or.inr ⟨h, hne⟩
  · rintro (rfl | ⟨h, hne⟩)
    · exact ⟨Or.inl rfl, hd⟩
    · exact ⟨Or.inr h, hne⟩

/-- non-vacuity: a four-node tree with pairwise different minimum gradients, exact maxima, key 2 with two
    children (successor copy) -- the hypotheses hold and the result is exact -/
example :
    let f : ℤ → ℤ → Node ℤ := fun k v => ⟨k, v, v, v, 0, 1, 2⟩
    let t : Viewshed.Tree ℤ := .node (.node .nil (f 0 (-9)) (-9) false .nil) (f 2 1) 5 false
      (.node (.node .nil (f 3 5) 5 true .nil) (f 4 2) 5 false .nil)
    BST t ∧ Exact (-9) t ∧ (∀ a ∈ t.toList, ∀ b ∈ t.toList, minv a = minv b → a.key = b.key) ∧
      (∀ n ∈ t.toList, minv n = -9 → n.key < 2) ∧ ∃ u, delCore (-9) 2 t = some u ∧ Exact (-9) u := by
  refine ⟨?_, ?_, by decide, by decide, _, rfl, ?_⟩
  · rw [← bstB_iff]; decide
  · rw [← exactB_iff]; decide
  · rw [← exactB_iff]; decide

/-- **For sweeps without gradient ties the relation holds in every reachable state** -- for every
    implementation that performs the model's insertion / deletion followed by rotations and
    recolourings (`Impl`, which is what the correspondence observes of the real code). -/
theorem tie_free_run_related {S : α} {d : Node α} (O : TreeOps α) (hO : Impl S O) :
    ∀ (ops : List (Op α)) (t : Viewshed.Tree α) (st : List (Node α)),
      Rel S d t st → Exact S t → OpsOK S d st ops → NoTieOps S d st ops → InvAlong S d O t st ops := by
  intro ops
  induction ops with
  | nil => intro t st hr _ _ _; exact hr
  | cons op ops ih =>
    intro t st hr he ho hn
    obtain ⟨hok, ho'⟩ := ho
    obtain ⟨hnt, hn'⟩ := hn
    refine ⟨hr, ?_⟩
    cases op with
    | ins n =>
      have hu := hO.1 n t
      exact ih _ _ (leaf_insert_preserves n hr hok.1 hok.2 hu) (hu.exact (leaf_insert_exact n he hnt)) ho' hn'
    | del k =>
      obtain ⟨hk, hd, hnotie, hsent⟩ := hnt
      have hmem : ∀ n, n ∈ t.toList → n ∈ d :: st := fun n hn => by
        rcases (hr.2.2 n).mp hn with rfl | h
        · exact List.mem_cons_self
        · exact List.mem_cons_of_mem _ h
      obtain ⟨c, hc, hall⟩ := delete_preserves_of_no_tie k hr he hk hd
        (fun a ha b hb => hnotie a (hmem a ha) b (hmem b hb)) (fun n hn => hsent n (hmem n hn))
      obtain ⟨hex, hrel⟩ := hall _ (hO.2 k t c hc)
      exact ih _ _ hrel hex ho' hn'
    | qry k ang g => exact ih _ _ hr he ho' hn'

/-- hence, for tie-free sweeps, the run with the real structure reports exactly the line-of-sight rule -/
theorem tie_free_sweep_correct {S : α} {d : Node α} (O : TreeOps α) (hO : Impl S O)
    (ops : List (Op α)) (t : Viewshed.Tree α) (st : List (Node α))
    (hr : Rel S d t st) (he : Exact S t) (ho : OpsOK S d st ops) (hn : NoTieOps S d st ops) :
    runT S O t ops = runL st ops :=
  sweep_refines_along O ops t st (tie_free_run_related O hO ops t st hr he ho hn) ho

/-- non-vacuity: the model's own operations (no rebalancing at all) are such an implementation, and the
    two-cell run above is tie-free -/
example (S : α) : Impl S (coreOps S) :=
  ⟨fun n t => Rebal.refl _, fun k t c h => by simp only [coreOps, h, Option.getD_some]; exact Rebal.refl _⟩

example :
    let a : Node ℚ := ⟨1, 1, 1, 1, -1, 0, 1⟩
    let b : Node ℚ := ⟨4, 0, 0, 0, -1, 0, 1⟩
    NoTieOps (-100 : ℚ) (dummy (-100) 0 (-1)) [] [.ins a, .ins b, .qry 4 0 0, .del 1, .qry 4 (1/2) 0] := by
  simp only [NoTieOps, stepL, dummy]
  refine ⟨by decide +kernel, by decide +kernel, trivial, ⟨⟨⟨1, 1, 1, 1, -1, 0, 1⟩, by decide +kernel, rfl⟩, by norm_num, ?_, ?_⟩, trivial, trivial⟩
  · decide +kernel
  · decide +kernel

/-- `_delete_from_tree` (PARTIAL: everything except "no overestimate").  The splice / successor copy,
    with whatever the augmentation repairs store, followed by any fixup: the key is found, the keys stay
    strictly ordered and exactly the node with that key leaves the tree.  The missing conjunct
    `AugLe S u` is false in general, see `delete_can_overestimate`. -/
theorem delete_preserves_partial {S : α} {d : Node α} {t : Viewshed.Tree α} {st : List (Node α)} (k : α)
    (hr : Rel S d t st) (hk : ∃ n ∈ st, n.key = k) (hd : d.key ≠ k) :
    ∃ c, delCore S k t = some c ∧ ∀ u, Rebal S c u →
      BST u ∧ ∀ n, n ∈ u.toList ↔ (n = d ∨ n ∈ st.filter fun m => !(eqv m.key k)) := by
  obtain ⟨hb, ha, hm⟩ := hr
  obtain ⟨kn, hkn, hkk⟩ := hk
  have hsome := del_isSome S k ⟨kn, (hm kn).mpr (Or.inr hkn), hkk⟩ hb
  obtain ⟨res, hres⟩ := Option.isSome_iff_exists.mp hsome
  have hc : delCore S k t = some (if res.atY then refresh S res.t else res.t) := by simp [delCore, hres]
  refine ⟨_, hc, fun u hu => ?_⟩
  obtain ⟨hb', hm'⟩ := delCore_spec S k hc hb
  refine ⟨hu.bst hb', fun n => ?_⟩
  rw [hu.toList, hm', hm, List.mem_filter]
  simp only [Bool.not_eq_eq_eq_not, Bool.not_true, ← Bool.not_eq_true, eqv_iff]
  constructor
  · rintro ⟨rfl | h, hne⟩
    · exact Or.inl rfl
    · exact Or.inr ⟨h, hne⟩
  · rintro (rfl | ⟨h, hne⟩)
    · exact ⟨Or.inl rfl, hd⟩
    · exact ⟨Or.inr h, hne⟩

/-- **`AugLe` is not an invariant of the code's deletion.**  A five-node tree (keys 0,1,2,3,5; minimum
    gradients -9,0,2,0,0) with ordered keys and no overestimate -- its root stores 1 where the true
    maximum is 2, an underestimate left by earlier deletions -- on which deleting key 2 leaves the root's
    stored maximum (1) above the true maximum of what remains (0).  Found by exhaustive exploration of
    the real `_insert_into_tree` / `_delete_from_tree` on five keys (25 operations from the empty
    structure reach this tree); the model reproduces the real arrays step by step. -/
theorem delete_can_overestimate :
    ∃ (t u : Viewshed.Tree ℤ), BST t ∧ AugLe (-9) t ∧ delCore (-9) 2 t = some u ∧ BST u ∧ ¬ AugLe (-9) u := by
  let f : ℤ → ℤ → Node ℤ := fun k v => ⟨k, v, v, v, 0, 1, 2⟩
  refine ⟨.node (.node (.node (.node .nil (f 0 (-9)) 0 false (.node .nil (f 1 0) 0 true .nil)) (f 2 2) 2 true .nil)
            (f 3 0) 2 false .nil) (f 5 0) 1 false .nil,
          .node (.node (.node .nil (f 0 (-9)) 0 false (.node .nil (f 1 0) 0 true .nil)) (f 3 0) 0 false .nil)
            (f 5 0) 1 false .nil, ?_, ?_, ?_, ?_, ?_⟩
  · rw [← bstB_iff]; decide
  · rw [← augLeB_iff]; decide
  · decide
  · rw [← bstB_iff]; decide
  · rw [← augLeB_iff]; decide

/-- **and an overestimate below the root makes the query hide a visible cell.**  This seven-node tree is
    what the real `_insert_into_tree` / `_delete_from_tree` leave after 21 operations on keys 1..7 with
    minimum gradients (0,2,0,1,0,0,1) (corpus/C05/tree-wrong-answer-7keys.json, replayed against the real
    code on every run): node 5 -- the left child of the root -- stores 1 although every node below it has
    gradient 0.  The cell with key 7 and gradient 1/2 is in line of sight (all nearer cells have gradient 0),
    yet the query answers 1 > 1/2: invisible.  The sequence re-inserts keys; no sweep of a terrain has been
    found that reaches such a state (see design_notes/C05.md). -/
theorem status_tree_can_hide_a_visible_cell :
    ∃ (t : Viewshed.Tree ℚ) (K ang g : ℚ), BST t ∧ ¬ AugLeQ (-9) t ∧
      (∀ n ∈ t.toList, n.key < K → spans n ang = true ∨ minv n ≤ g) ∧
      visL t.toList K ang g = true ∧ visT (-9) t K ang g = false := by
  let f : ℚ → ℚ → Node ℚ := fun k v => ⟨k, v, v, v, 0, 1, 2⟩
  refine ⟨.node (.node (.node (.node .nil (f 0 (-9)) 0 false (.node .nil (f 1 0) 0 true .nil)) (f 3 0) 0 false .nil)
            (f 5 0) 1 true .nil) (f 6 0) 1 false (.node .nil (f 7 1) 1 true .nil), 7, 1, 1/2, ?_, ?_, ?_, ?_, ?_⟩
  · rw [← bstB_iff]; decide +kernel
  · rw [← augLeQB_iff]; decide +kernel
  · decide +kernel
  · decide +kernel
  · decide +kernel

/-! ### 4. facts read from the source on every run -/

/-- `_rb_insert_fixup` / `_rb_delete_fixup` store only to colour fields and call only the two rotations;
    the rotations store only the stored maximum and the three links; the query routines store nothing -/
theorem fixups_only_recolour_and_rotate :
    Gen.Viewshed.rb_insert_fixup_stores = [("tree_nodes", "TN_COLOR_ID")] ∧
    Gen.Viewshed.rb_delete_fixup_stores = [("tree_nodes", "TN_COLOR_ID")] ∧
    (∀ c ∈ Gen.Viewshed.rb_insert_fixup_calls, c = "_left_rotate" ∨ c = "_right_rotate") ∧
    (∀ c ∈ Gen.Viewshed.rb_delete_fixup_calls, c = "_left_rotate" ∨ c = "_right_rotate") ∧
    Gen.Viewshed.left_rotate_stores = [("tree_nodes", "TN_LEFT_ID"), ("tree_nodes", "TN_PARENT_ID"),
      ("tree_nodes", "TN_RIGHT_ID"), ("tree_vals", "TN_MAX_GRAD_ID")] ∧
    Gen.Viewshed.right_rotate_stores = Gen.Viewshed.left_rotate_stores ∧
    Gen.Viewshed.search_for_node_stores = [] ∧ Gen.Viewshed.find_max_value_within_key_stores = [] ∧
    Gen.Viewshed.max_grad_in_status_struct_stores = [] := by
  decide

/-- the sentinel, the event order (EXIT < CENTER < ENTER at equal bearing, bearing first) and the test -/
theorem sweep_constants :
    Gen.Viewshed.SMALLEST_GRAD = -10000000000000000000000 ∧
    Gen.Viewshed.EXITING_EVENT < Gen.Viewshed.CENTER_EVENT ∧ Gen.Viewshed.CENTER_EVENT < Gen.Viewshed.ENTERING_EVENT ∧
    Gen.Viewshed.lexsortKeys = ["E_TYPE_ID", "E_ANG_ID"] ∧
    Gen.Viewshed.visibleTest = "max <= status_node[TN_GRAD_1]" := by
  decide

/-! ### 5. the output rule -/

/-- the observer's cell is 180, the grid is pre-filled with INVISIBLE = -1 and only a visible cell is
    overwritten, with the vertical angle -/
theorem observer_180_invisible_minus_one :
    Gen.Viewshed.observerValue = 180 ∧ Gen.Viewshed.INVISIBLE = -1 ∧ Gen.Viewshed.gridFill = "INVISIBLE" ∧
    Gen.Viewshed.visibleStores = "vert_ang" := by
  decide

section
variable {K : Type} [Field K] [LinearOrder K] [IsStrictOrderedRing K] [Trig K]

/-- hypotheses on the uninterpreted `atan` / `sqrt` (true of the real functions; `π` is `4 * atan 1`) -/
structure TrigHyp (K : Type) [Field K] [LinearOrder K] [IsStrictOrderedRing K] [Trig K] : Prop where
  atan_pos : ∀ x : K, 0 < x → 0 < Trig.atan x
  atan_lt : ∀ x : K, Trig.atan x < 2 * Trig.atan 1          -- atan x < π / 2
  sqrt_pos : ∀ x : K, 0 < x → 0 < Trig.sqrt x

/-- the translated `_get_vertical_ang` never trips its assertion for a cell at positive distance -/
theorem vertical_angle_defined (ve d2 e : K) (hd : 0 < d2) : vertAngFailed ve d2 e = none :=
  vertAng_not_failed ve d2 e hd

/-- **the vertical angle lies in [0, 180], 90 = level**: a target below the observer's eye gets a
    value in (0, 90), a level target exactly 90, a target above a value in (90, 180)
    (`vertAng ve d2 e` is the generated `_get_vertical_ang(viewpoint_elev, dist², elev)`) -/
theorem vertical_angle_range (H : TrigHyp K) (ve d2 e : K) (hd : 0 < d2) :
    ∃ v, vertAng ve d2 e = some v ∧ 0 ≤ v ∧ v ≤ 180 ∧
      (e < ve → 0 < v ∧ v < 90) ∧ (e = ve → v = 90) ∧ (ve < e → 90 < v ∧ v < 180) := by
  have hs := H.sqrt_pos d2 hd
  have hpi : 0 < 4 * Trig.atan (1 : K) := by have := H.atan_pos 1 one_pos; linarith
  rcases lt_trichotomy e ve with hlt | rfl | hgt
  · have hde : 0 < ve - e := sub_pos.mpr hlt
    have hx : 0 < Trig.sqrt d2 / (ve - e) := div_pos hs hde
    have h1 := H.atan_pos _ hx
    have h2 := H.atan_lt (Trig.sqrt d2 / (ve - e))
    refine ⟨_, vertAng_below ve d2 e hd hlt (ne_of_gt hpi), ?_⟩
    have hv0 : 0 < Trig.atan (Trig.sqrt d2 / (ve - e)) * 180 / (4 * Trig.atan 1) := by positivity
    have hv1 : Trig.atan (Trig.sqrt d2 / (ve - e)) * 180 / (4 * Trig.atan 1) < 90 := by
      rw [div_lt_iff₀ hpi]; nlinarith
    exact ⟨le_of_lt hv0, by linarith, fun _ => ⟨hv0, hv1⟩, fun h => absurd h (ne_of_lt hlt),
      fun h => absurd h (not_lt_of_gt hlt)⟩
  · exact ⟨90, vertAng_level e d2 hd, by norm_num, by norm_num, fun h => absurd h (lt_irrefl _),
      fun _ => rfl, fun h => absurd h (lt_irrefl _)⟩
  · have hde : ve - e < 0 := sub_neg.mpr hgt
    have hx : 0 < |ve - e| / Trig.sqrt d2 := div_pos (abs_pos.mpr (ne_of_lt hde)) hs
    have h1 := H.atan_pos _ hx
    have h2 := H.atan_lt (|ve - e| / Trig.sqrt d2)
    refine ⟨_, vertAng_above ve d2 e hd hgt (ne_of_gt hpi) (ne_of_gt hs), ?_⟩
    have hv0 : 0 < Trig.atan (|ve - e| / Trig.sqrt d2) * 180 / (4 * Trig.atan 1) := by positivity
    have hv1 : Trig.atan (|ve - e| / Trig.sqrt d2) * 180 / (4 * Trig.atan 1) < 90 := by
      rw [div_lt_iff₀ hpi]; nlinarith
    exact ⟨by linarith, by linarith, fun h => absurd h (not_lt_of_gt hgt), fun h => absurd h.symm (ne_of_lt hgt),
      fun _ => ⟨by linarith, by linarith⟩⟩

end

/-! ### 6. the event geometry (Model/ViewshedEvents.lean; exact integers / rationals, compared with the real
    `_init_event_list`, `np.lexsort` and the interpreted sweep by seam 0 of the correspondence) -/

section Events
open XrsVerif.ViewshedEvents

/-- the event codes the model uses are the source's -/
theorem event_codes :
    Gen.Viewshed.ENTERING_EVENT = 1 ∧ Gen.Viewshed.CENTER_EVENT = 0 ∧ Gen.Viewshed.EXITING_EVENT = -1 := by decide

/-- **every non-observer cell of the raster yields exactly three events** -- its ENTER, CENTER and EXIT event, generated in
    this order -- and the observer's cell and anything outside the raster yields none; for all raster sizes, observer
    positions and terrains -/
theorem three_events_per_cell (T : Int → Int → Rat) (h w : Nat) (vr vc : Int) (r c : Nat) :
    (eventList T h w vr vc).filter (ofCell r c) =
      if r < h ∧ c < w ∧ ¬((r : Int) = vr ∧ (c : Int) = vc)
      then [mkEvent T h w vr vc r c 1, mkEvent T h w vr vc r c 0, mkEvent T h w vr vc r c (-1)] else [] :=
  eventList_filter_cell T h w vr vc r c

/-- hence `3 * (rows * cols - 1)` events in all, for an observer inside the raster -/
theorem event_count (T : Int → Int → Rat) (h w vr vc : Nat) (hr : vr < h) (hc : vc < w) :
    (eventList T h w vr vc).length + 3 = 3 * (h * w) := by
  unfold eventList
  have inner : ∀ i : Nat, ((List.range w).flatMap fun (j : Nat) =>
      if (i : Int) = (vr : Int) ∧ (j : Int) = (vc : Int) then [] else cellEvents T h w vr vc i j).length =
        if i = vr then (w - 1) * 3 + 0 else (w - 1) * 3 + 3 := by
    intro i
    by_cases hi : i = vr
    · subst hi
      rw [length_flatMap_range_one_exception w vc hc _ 3 0]
      · simp
      · intro j hj
        have : ¬ ((j : Int) = (vc : Int)) := by omega
        simp [this, cellEvents]
      · simp
    · have hi' : ¬ ((i : Int) = (vr : Int)) := by omega
      simp only [hi, if_false]
      rw [length_flatMap_range_one_exception w vc hc _ 3 3]
      · intro j _; simp [hi', cellEvents]
      · simp [hi', cellEvents]
  rw [length_flatMap_range_one_exception h vr hr _ ((w - 1) * 3 + 3) ((w - 1) * 3 + 0)]
  · obtain ⟨h', rfl⟩ : ∃ h', h = h' + 1 := ⟨h - 1, by omega⟩
    obtain ⟨w', rfl⟩ : ∃ w', w = w' + 1 := ⟨w - 1, by omega⟩
    simp only [Nat.add_sub_cancel]
    ring
  · intro i hi; rw [inner i]; simp [hi]
  · rw [inner vr]; simp

/-- non-vacuity: a 2 x 3 raster seen from (1, 1) -/
example : (eventList (fun i j => (i + 2 * j : Int)) 2 3 1 1).length = 15 := by decide

/-- **the entering corner has the smaller bearing, the exiting corner the larger** -- stated with exact cross products of
    the doubled vectors from the observer (x east, y north; `cross p q > 0` iff `q` is counter-clockwise of `p`):
    for every cell other than the observer's, both corners are corners of the cell (offsets ±1/2), the entering corner is
    strictly clockwise of the centre and the exiting corner strictly counter-clockwise, and among all four corners the
    entering one is the most clockwise and the exiting one the most counter-clockwise; every corner lies within 90° of
    the centre's direction, so "clockwise of" is an order on them. -/
theorem enter_corner_smallest_exit_corner_largest (dr dc : Int) (hne : dr ≠ 0 ∨ dc ≠ 0) :
    ((posOff 1 dr dc).1 = 1 ∨ (posOff 1 dr dc).1 = -1) ∧ ((posOff 1 dr dc).2 = 1 ∨ (posOff 1 dr dc).2 = -1) ∧
    ((posOff (-1) dr dc).1 = 1 ∨ (posOff (-1) dr dc).1 = -1) ∧ ((posOff (-1) dr dc).2 = 1 ∨ (posOff (-1) dr dc).2 = -1) ∧
    0 < cross (2 * dc + (posOff 1 dr dc).2) (-(2 * dr + (posOff 1 dr dc).1)) (2 * dc) (-(2 * dr)) ∧
    0 < cross (2 * dc) (-(2 * dr)) (2 * dc + (posOff (-1) dr dc).2) (-(2 * dr + (posOff (-1) dr dc).1)) ∧
    ∀ oy ox : Int, (oy = 1 ∨ oy = -1) → (ox = 1 ∨ ox = -1) →
      0 ≤ cross (2 * dc + (posOff 1 dr dc).2) (-(2 * dr + (posOff 1 dr dc).1)) (2 * dc + ox) (-(2 * dr + oy)) ∧
      0 ≤ cross (2 * dc + ox) (-(2 * dr + oy)) (2 * dc + (posOff (-1) dr dc).2) (-(2 * dr + (posOff (-1) dr dc).1)) ∧
      0 < (2 * dc) * (2 * dc + ox) + (2 * dr) * (2 * dr + oy) := by
  have hdot : ∀ oy ox : Int, (oy = 1 ∨ oy = -1) → (ox = 1 ∨ ox = -1) →
      0 < (2 * dc) * (2 * dc + ox) + (2 * dr) * (2 * dr + oy) := by
    intro oy ox hy hx
    obtain ⟨a1, a2⟩ := int_le_sq dr
    obtain ⟨b1, b2⟩ := int_le_sq dc
    have hpos : 1 ≤ dr * dr + dc * dc := by
      rcases hne with h | h
      · have : 1 ≤ dr * dr := by rcases Int.lt_or_gt_of_ne h with h | h <;> nlinarith
        nlinarith [mul_self_nonneg dc]
      · have : 1 ≤ dc * dc := by rcases Int.lt_or_gt_of_ne h with h | h <;> nlinarith
        nlinarith [mul_self_nonneg dr]
    rcases hy with rfl | rfl <;> rcases hx with rfl | rfl <;> nlinarith
  rcases posOff_cases dr dc with ⟨hr, hc, e1, e2⟩ | ⟨hr, hc, e1, e2⟩ | ⟨hr, hc, e1, e2⟩ | ⟨hr, hc, e1, e2⟩ |
      ⟨hr, hc, e1, e2⟩ | ⟨hr, hc, e1, e2⟩ | ⟨hr, hc, e1, e2⟩ | ⟨hr, hc, e1, e2⟩ | ⟨hr, hc, e1, e2⟩ <;>
    first
    | (exfalso; omega)
    | (rw [e1, e2]; dsimp only
       refine ⟨by decide, by decide, by decide, by decide, ?_, ?_, fun oy ox hy hx => ⟨?_, ?_, hdot oy ox hy hx⟩⟩ <;>
       simp only [cross_corner_centre, cross_centre_corner, cross_corner_corner] <;>
       first | omega | (rcases hy with rfl | rfl <;> rcases hx with rfl | rfl <;> omega))

/-- **a cell is in the status structure when the sweep starts iff its span contains bearing 0**: the east ray `(1, 0)`
    lies strictly between the entering and the exiting corner exactly for the cells of the observer's row strictly east
    of the observer -/
theorem initial_iff_span_contains_bearing_zero (dr dc : Int) (hne : dr ≠ 0 ∨ dc ≠ 0) :
    (0 < cross (2 * dc + (posOff 1 dr dc).2) (-(2 * dr + (posOff 1 dr dc).1)) 1 0 ∧
     0 < cross 1 0 (2 * dc + (posOff (-1) dr dc).2) (-(2 * dr + (posOff (-1) dr dc).1))) ↔ (dr = 0 ∧ 0 < dc) := by
  rcases posOff_cases dr dc with ⟨hr, hc, e1, e2⟩ | ⟨hr, hc, e1, e2⟩ | ⟨hr, hc, e1, e2⟩ | ⟨hr, hc, e1, e2⟩ |
      ⟨hr, hc, e1, e2⟩ | ⟨hr, hc, e1, e2⟩ | ⟨hr, hc, e1, e2⟩ | ⟨hr, hc, e1, e2⟩ | ⟨hr, hc, e1, e2⟩ <;>
    rw [e1, e2] <;> dsimp only <;> simp only [cross] <;> omega

/-- the columns put into the status structure before the sweep (`for i in range(vp_col + 1, n_cols)`) -/
theorem mem_initialCols (w : Nat) (vc j : Int) : j ∈ initialCols w vc ↔ vc < j ∧ 0 ≤ j ∧ j < w := by
  simp only [initialCols, List.mem_filter, List.mem_map, List.mem_range, decide_eq_true_eq]
  constructor
  · rintro ⟨⟨k, hk, rfl⟩, hv⟩; omega
  · rintro ⟨hv, h0, hw⟩; exact ⟨⟨j.toNat, by omega, by omega⟩, hv⟩

/-- the two together: for a cell `(r, c)` of the raster other than the observer's, "`(r, c)` is inserted by the initial
    fill" is equivalent to "the span of `(r, c)` contains bearing 0" -/
theorem initial_status_set (w : Nat) (vr vc r c : Int) (hc : 0 ≤ c ∧ c < w) (hne : r ≠ vr ∨ c ≠ vc) :
    (r = vr ∧ c ∈ initialCols w vc) ↔
      (0 < cross (2 * (c - vc) + (posOff 1 (r - vr) (c - vc)).2) (-(2 * (r - vr) + (posOff 1 (r - vr) (c - vc)).1)) 1 0 ∧
       0 < cross 1 0 (2 * (c - vc) + (posOff (-1) (r - vr) (c - vc)).2) (-(2 * (r - vr) + (posOff (-1) (r - vr) (c - vc)).1))) := by
  rw [initial_iff_span_contains_bearing_zero (r - vr) (c - vc) (by omega), mem_initialCols]
  omega

/-- **a corner elevation depends only on the (at most) four cells meeting at that corner**: two terrains that agree on the
    cell, on its two edge neighbours towards the corner and on the diagonal neighbour give the same corner elevation;
    these four cells are the 2 x 2 block around the corner point `_calc_event_pos` returns (`nbOff = posOff`, each ±1) -/
theorem corner_elevation_local (T T' : Int → Int → Rat) (h w vr vc ty row col : Int)
    (h1 : T row col = T' row col)
    (h2 : T (row + (nbOff ty (row - vr) (col - vc)).1) col = T' (row + (nbOff ty (row - vr) (col - vc)).1) col)
    (h3 : T row (col + (nbOff ty (row - vr) (col - vc)).2) = T' row (col + (nbOff ty (row - vr) (col - vc)).2))
    (h4 : T (row + (nbOff ty (row - vr) (col - vc)).1) (col + (nbOff ty (row - vr) (col - vc)).2) =
          T' (row + (nbOff ty (row - vr) (col - vc)).1) (col + (nbOff ty (row - vr) (col - vc)).2)) :
    cornerElev T h w vr vc ty row col = cornerElev T' h w vr vc ty row col := by
  simp only [cornerElev, h1, h2, h3, h4]

theorem corner_cells_are_the_block_at_the_corner (ty dr dc : Int) (hty : ty = 1 ∨ ty = -1) (hne : dr ≠ 0 ∨ dc ≠ 0) :
    nbOff ty dr dc = posOff ty dr dc ∧ ((nbOff ty dr dc).1 = 1 ∨ (nbOff ty dr dc).1 = -1) ∧
      ((nbOff ty dr dc).2 = 1 ∨ (nbOff ty dr dc).2 = -1) := by
  rw [nbOff_eq_posOff ty dr dc hty]
  obtain ⟨a, b, c, d, _⟩ := enter_corner_smallest_exit_corner_largest dr dc hne
  rcases hty with rfl | rfl
  · exact ⟨rfl, a, b⟩
  · exact ⟨rfl, c, d⟩

/-- the value: the mean of the four cells when the diagonal neighbour is inside the raster, the cell's own elevation at the border -/
theorem corner_elevation_value (T : Int → Int → Rat) (h w vr vc ty row col : Int) :
    let r1 := row + (nbOff ty (row - vr) (col - vc)).1
    let c1 := col + (nbOff ty (row - vr) (col - vc)).2
    (0 ≤ r1 ∧ r1 < h ∧ 0 ≤ c1 ∧ c1 < w →
      cornerElev T h w vr vc ty row col = (T r1 c1 + T r1 col + T row c1 + T row col) / 4) ∧
    (¬(0 ≤ r1 ∧ r1 < h ∧ 0 ≤ c1 ∧ c1 < w) → cornerElev T h w vr vc ty row col = T row col) := by
  intro r1 c1
  constructor
  · intro hin; simp only [cornerElev]; rw [if_pos hin]
  · intro hout; simp only [cornerElev]; rw [if_neg hout]

/-- **the observer-row buffer that seeds the status structure holds the corner elevations**: column `j` of `data` carries
    exactly the three elevations of the events of cell `(vr, j)`; the observer's own column its centre elevation -/
theorem initial_fill_uses_corner_elevations (T : Int → Int → Rat) (h w : Nat) (vr vc : Int) (j : Nat) (hj : j < w) :
    (dataRow T h w vr vc)[j]? = some
      (if (j : Int) = vc then (T vr vc, T vr vc, T vr vc)
       else ((mkEvent T h w vr vc vr j 1).e0, (mkEvent T h w vr vc vr j 0).e1, (mkEvent T h w vr vc vr j (-1)).e2)) := by
  simp only [dataRow, List.getElem?_map, List.getElem?_range hj, Option.map_some, mkEvent]

/-- ... and this is what the source does (facts read from `_init_event_list` on every run): the only writes to `data` that
    survive for a non-observer column come after both `_calc_event_elev` calls and store ENTER / CENTER / EXIT elevation
    in rows 0 / 1 / 2; the observer's own column keeps the centre elevation written before the `continue` -/
theorem init_fill_buffer_written_after_corner_elevations :
    Gen.Viewshed.dataWritesAfterElevs = [(0, "E_ELEV_0"), (1, "E_ELEV_1"), (2, "E_ELEV_2")] ∧
    Gen.Viewshed.dataWritesBeforeSkip = [(0, "E_ELEV_1"), (1, "E_ELEV_1"), (2, "E_ELEV_1")] ∧
    Gen.Viewshed.dataWriteGuards = ["i == vp_row"] := by decide

/-- the shape of `_calc_event_elev` in the source: neighbour from `_calculate_event_row_col`, own elevation by default and
    when a NaN is met, the in-raster guard, the 2 x 2 block read through the three-row window, the mean of four -/
theorem corner_elevation_source_shape :
    Gen.Viewshed.cornerElevNeighbour =
      "(row1, col1) = _calculate_event_row_col(event_type, event_row, event_col, viewpoint_row, viewpoint_col)" ∧
    Gen.Viewshed.cornerElevDefault = "inrast[1][event_col]" ∧
    Gen.Viewshed.cornerElevGuard = "0 <= row1 < n_rows and 0 <= col1 < n_cols" ∧
    Gen.Viewshed.cornerElevReads = ["inrast[row1 - event_row + 1][col1]", "inrast[row1 - event_row + 1][event_col]",
      "inrast[1][col1]", "inrast[1][event_col]"] ∧
    Gen.Viewshed.cornerElevNanFallback = "inrast[1][event_col]" ∧
    Gen.Viewshed.cornerElevMean = "(elev1 + elev2 + elev3 + elev4) / 4.0" := by decide

/-- the key of every cell other than the observer's -- its squared map distance -- is positive for non-degenerate cell sizes:
    no status node ever collides with the permanent dummy (key 0), as `leaf_insert_preserves` requires -/
theorem key_positive_off_observer (ew ns : Rat) (vr vc row col : Int) (hew : ew ≠ 0) (hns : ns ≠ 0)
    (hne : row ≠ vr ∨ col ≠ vc) : 0 < key ew ns vr vc row col :=
  key_pos ew ns vr vc row col hew hns hne

/-- **the event order is a sort**: the model of `np.lexsort((type, bearing))` -- bearing in [0, 2π) compared exactly by half
    plane and cross product, ties by the type code EXIT < CENTER < ENTER -- returns a permutation of the generated events
    in which every earlier event is `≤` every later one (the comparison is a total preorder on ALL events) -/
theorem events_sorted (T : Int → Int → Rat) (h w : Nat) (vr vc : Int) :
    (sortedEvents T h w vr vc).Perm (eventList T h w vr vc) ∧
    (sortedEvents T h w vr vc).Pairwise (fun a b => evLe vr vc a b = true) :=
  ⟨sortedEvents_perm T h w vr vc, sortedEvents_pairwise T h w vr vc⟩

/-- **within the sweep a cell's events come as ENTER, CENTER, EXIT** (entering corner < centre < exiting corner as bearings
    in [0, 2π)); the cells on the east ray are the exception the initial fill exists for: CENTER (bearing 0) first, then
    EXIT, and ENTER at the very end of the sweep.  For all raster sizes, observer positions, terrains. -/
theorem cell_events_in_sweep_order (T : Int → Int → Rat) (h w : Nat) (vr vc r c : Int) :
    (sortedEvents T h w vr vc).filter (ofCell r c) =
      if 0 ≤ r ∧ r < h ∧ 0 ≤ c ∧ c < w ∧ ¬(r = vr ∧ c = vc) then
        (if r = vr ∧ vc < c
         then [mkEvent T h w vr vc r c 0, mkEvent T h w vr vc r c (-1), mkEvent T h w vr vc r c 1]
         else [mkEvent T h w vr vc r c 1, mkEvent T h w vr vc r c 0, mkEvent T h w vr vc r c (-1)])
      else [] :=
  sortedEvents_filter_cell_int T h w vr vc r c

/-- **the status-structure operations of one cell over initial fill + sweep** (1 insert, 0 query, -1 delete):
    insert, query, delete for every cell off the east ray; initial insert, query, delete, insert for the cells on it (the
    second insertion, at the cell's ENTER event just below 2π, is never undone -- the sweep ends there); nothing for the
    observer's cell.  So every cell is deleted exactly once and queried exactly once, between an insertion and that deletion. -/
theorem cell_operation_sequence (T : Int → Int → Rat) (h w : Nat) (vr vc : Int) (hobs : 0 ≤ vr ∧ vr < h) (r c : Int) :
    kinds (sweepOps T h w vr vc) r c =
      if 0 ≤ r ∧ r < h ∧ 0 ≤ c ∧ c < w ∧ ¬(r = vr ∧ c = vc) then
        (if r = vr ∧ vc < c then [1, 0, -1, 1] else [1, 0, -1])
      else [] :=
  kinds_sweepOps T h w vr vc hobs r c

/-- each cell of the raster other than the observer's is deleted exactly once, queried exactly once, and inserted exactly once
    before that -- the cells of the east ray a second time after it -/
theorem insert_delete_counts (T : Int → Int → Rat) (h w : Nat) (vr vc : Int) (hobs : 0 ≤ vr ∧ vr < h) (r c : Int)
    (hin : 0 ≤ r ∧ r < h ∧ 0 ≤ c ∧ c < w ∧ ¬(r = vr ∧ c = vc)) :
    (kinds (sweepOps T h w vr vc) r c).count (-1) = 1 ∧ (kinds (sweepOps T h w vr vc) r c).count 0 = 1 ∧
    (kinds (sweepOps T h w vr vc) r c).count 1 = (if r = vr ∧ vc < c then 2 else 1) ∧
    (kinds (sweepOps T h w vr vc) r c).take 3 = [1, 0, -1] := by
  rw [kinds_sweepOps T h w vr vc hobs, if_pos hin]
  split <;> decide

/-- **the active-set discipline**: replaying the initial fill and then the sorted events, every insertion is of a cell that is
    not in the status structure and every deletion and every query is of a cell that is -- so the key a query or a deletion
    looks up is present (what `query_decides` / `delete_preserves_*` assume), and no cell is ever in the structure twice -/
theorem sweep_discipline (T : Int → Int → Rat) (h w : Nat) (vr vc : Int) (hobs : 0 ≤ vr ∧ vr < h) :
    replay [] (sweepOps T h w vr vc) = true :=
  replay_sweepOps T h w vr vc hobs

/-- ... and the initial fill is what makes it hold: without it, as soon as there is a cell east of the observer, the first
    event of the sweep queries a cell that is not in the structure -/
theorem sweep_without_initial_fill_breaks (T : Int → Int → Rat) (h w : Nat) (vr vc : Int) (hobs : 0 ≤ vr ∧ vr < h)
    (heast : 0 ≤ vc ∧ vc + 1 < w) : replay [] ((sortedEvents T h w vr vc).map opOfEvent) = false := by
  rw [Bool.eq_false_iff]
  intro hrep
  have := (replay_iff _ _).mp hrep vr (vc + 1)
  rw [kinds_map_opOfEvent, sortedEvents_filter_cell_int, if_pos (by omega), if_pos (by omega)] at this
  obtain ⟨k1, k0, km⟩ := kind_opOfEvent_mkEvent T h w vr vc vr (vc + 1)
  simp only [List.map_cons, List.map_nil, k1, k0, km] at this
  have hc : ([] : List (Int × Int)).contains (vr, vc + 1) = false := rfl
  rw [hc] at this
  exact absurd this (by decide)

/-- non-vacuity: instances on a 3 x 4 raster seen from (1, 1) -/
example : replay [] (sweepOps (fun i j => (i * j : Int)) 3 4 1 1) = true ∧
    replay [] ((sortedEvents (fun i j => (i * j : Int)) 3 4 1 1).map opOfEvent) = false :=
  ⟨sweep_discipline _ 3 4 1 1 (by decide), sweep_without_initial_fill_breaks _ 3 4 1 1 (by decide) (by decide)⟩

end Events

/-! ### 9. the wrapper glue: what `_viewshed_cpu` feeds the kernels (Model/ViewshedWrapper.lean)

  (placed before sections 7 / 8 because it continues the event geometry; numbered 9 as the latest addition.)
  `Gen.Viewshed.{ewResSrc, nsResSrc, obsRowSrc, obsColSrc, sweepParams, sweepArgs, initEventListArgs, ..}` are read from the
  source of `_viewshed_cpu` on every run by a symbolic evaluation of its straight-line body (`harness/facts_viewshed.py:
  wrapper_facts`); `ViewshedWrapper.wrapperInputs` INTERPRETS them.  The theorems say that, under the facts generated from
  the current source, the sweep is fed the inputs of the line-of-sight model: cell size = coordinate spacing (never an
  attribute), observer = the cell whose centre is nearest (on any axis direction), events sorted by (bearing, type). -/
section Wrapper
open XrsVerif.ViewshedWrapper XrsVerif.ViewshedEvents XrsVerif.Gen.Viewshed

/-- **the shape of `_viewshed_cpu` in the source** (facts read on every run): both cell sizes are `(c[-1] - c[0]) / (n - 1)` over
    the coordinate array of their own axis with the matching extent; the observer's row / column come from
    `sel(method='nearest')` followed by the equality lookup on the coordinate array of their own axis, after the per-axis
    `ValueError` range guard; the eye elevation is the raster value at that cell plus `observer_elev`, the target offset
    `target_elev` when positive, else 0; the raster is cast to float64 in place before `_init_event_list`; the event list is
    `np.lexsort`ed by (bearing, then type) and split into the int64 columns `[:, :3]` and the float64 columns `[:, 3:]`; and
    each of these is passed in the position of the kernel parameter that means it (`ew_res` gets the x size, `ns_res` the y
    size, `vp_row` the y index, ...). -/
theorem wrapper_source_shape :
    wrapperOk = true ∧
    ewResSrc = .coordSpan "x" "shape[1]" ∧ nsResSrc = .coordSpan "y" "shape[0]" ∧
    obsRowSrc = .nearestThenEq "y" ∧ obsColSrc = .nearestThenEq "x" ∧
    rangeChecks = [("x", "ValueError"), ("y", "ValueError")] ∧
    viewpointElevSrc = "float(raster.values[obs:row, obs:col]) + observer_elev" ∧
    viewpointTargetSrc = "target_elev if target_elev > 0 else 0.0" ∧
    rasterCast = "raster.values.astype(np.float64)" ∧ rasterCastBeforeInit = true ∧
    initEventListArgs = [("event_list", "zeros:events"), ("raster", "raster.values:float64"), ("vp_row", "obs:y"),
      ("vp_col", "obs:x"), ("data", "zeros:data"), ("visibility_grid", "filled:INVISIBLE")] ∧
    sortedEventsSrc = "lexsort(E_TYPE_ID,E_ANG_ID)" ∧
    eventRctsSrc = ("sorted[:, :3]", "int64") ∧ eventAesSrc = ("sorted[:, 3:]", "float64") ∧
    sweepParams.zip sweepArgs = [("raster", "raster.values:float64"), ("vp_row", "obs:y"), ("vp_col", "obs:x"),
      ("vp_elev", "velev"), ("vp_target", "vtarget"), ("ew_res", "res:x"), ("ns_res", "res:y"), ("event_rcts", "rcts"),
      ("event_aes", "aes"), ("data", "zeros:data"), ("visibility_grid", "filled:INVISIBLE")] ∧
    wiringOk = true := by
  decide

/-- **the observer's cell is the nearest centre, on every axis direction**: for ANY coordinate arrays (ascending, descending,
    any spacing) the row / column the source's lookup yields exists, is inside the raster, and no other coordinate is
    nearer to the observer's `y` / `x` -/
theorem observer_cell_is_nearest_centre (xs ys : List Rat) (x y : Rat) (hx : xs ≠ []) (hy : ys ≠ []) :
    ∃ vr vc, obsIndex obsRowSrc xs ys x y = some vr ∧ obsIndex obsColSrc xs ys x y = some vc ∧
      ∃ (hr : vr < ys.length) (hc : vc < xs.length),
        (∀ i (hi : i < ys.length), |ys[vr] - y| ≤ |ys[i] - y|) ∧ (∀ j (hj : j < xs.length), |xs[vc] - x| ≤ |xs[j] - x|) := by
  obtain ⟨vr, hvr, hr, hnr⟩ := obsIndex_nearest ys y hy
  obtain ⟨vc, hvc, hc, hnc⟩ := obsIndex_nearest xs x hx
  have e1 : obsRowSrc = .nearestThenEq "y" := by decide
  have e2 : obsColSrc = .nearestThenEq "x" := by decide
  refine ⟨vr, vc, ?_, ?_, hr, hc, ?_, ?_⟩
  · rw [e1]; simpa [obsIndex, axisCoords] using hvr
  · rw [e2]; simpa [obsIndex, axisCoords] using hvc
  · intro i hi; simpa [dist_eq_abs] using hnr i hi
  · intro j hj; simpa [dist_eq_abs] using hnc j hj

/-- **the cell size is the coordinate spacing**: on equally spaced coordinates (any origin, any step -- fractional, negative
    = a descending axis) the sizes the source passes as `ew_res` / `ns_res` are the signed steps -- whatever the attributes
    of the DataArray say -/
theorem resolution_is_coordinate_spacing (x0 dx y0 dy : Rat) (h w : Nat) (hh : 2 ≤ h) (hw : 2 ≤ w) :
    resOf ewResSrc (coordsAP x0 dx w) (coordsAP y0 dy h) = some dx ∧
    resOf nsResSrc (coordsAP x0 dx w) (coordsAP y0 dy h) = some dy := by
  have e1 : ewResSrc = .coordSpan "x" "shape[1]" := by decide
  have e2 : nsResSrc = .coordSpan "y" "shape[0]" := by decide
  rw [e1, e2]
  constructor
  · simp [resOf, axisCoords, extentOf, coordsAP_head x0 dx w (by omega), coordsAP_getLast x0 dx w (by omega),
      coordsAP_length]
    have := span_div x0 dx w hw
    simpa using this
  · simp [resOf, axisCoords, extentOf, coordsAP_head y0 dy h (by omega), coordsAP_getLast y0 dy h (by omega),
      coordsAP_length]
    have := span_div y0 dy h hh
    simpa using this

/-- **under the facts generated from the source the wrapper feeds the sweep the model's inputs.**  For every terrain, every
    raster of at least 2 x 2 equally spaced coordinates (any origin; steps of any sign and size, `dx ≠ dy` allowed), every
    observer position within the coordinate range, every observer / target height: `_viewshed_cpu` reaches the kernels with
      * the observer's cell = a cell whose centre is nearest to `(x, y)` in each axis,
      * `ew_res = dx`, `ns_res = dy` (signed), so that the key of every cell -- all the kernels ever use the sizes for -- is the
        squared distance between the two cells' COORDINATES,
      * eye elevation = terrain at that cell + `observer_elev`, target offset = `max target_elev 0`;
    the event arrays are the `np.lexsort((type, bearing))` of what `_init_event_list` produced for that cell
    (`wrapper_source_shape`), i.e. `sortedEvents` of `events_sorted`. -/
theorem wrapper_feeds_the_sweep_the_model_inputs (T : Int → Int → Rat) (x0 dx y0 dy x y oe te : Rat) (h w : Nat)
    (hh : 2 ≤ h) (hw : 2 ≤ w)
    (hx : inRange (coordsAP x0 dx w) x = true) (hy : inRange (coordsAP y0 dy h) y = true) :
    ∃ I : Inputs, wrapperInputs T (coordsAP x0 dx w) (coordsAP y0 dy h) x y oe te = .ok I ∧
      I.vr < h ∧ I.vc < w ∧
      (∀ i, i < h → |(y0 + (I.vr : Rat) * dy) - y| ≤ |(y0 + (i : Rat) * dy) - y|) ∧
      (∀ j, j < w → |(x0 + (I.vc : Rat) * dx) - x| ≤ |(x0 + (j : Rat) * dx) - x|) ∧
      I.ew = dx ∧ I.ns = dy ∧
      I.velev = T I.vr I.vc + oe ∧ I.vt = max te 0 ∧
      ∀ row col : Int, key I.ew I.ns I.vr I.vc row col =
        ((x0 + (col : Rat) * dx) - (x0 + (I.vc : Rat) * dx)) ^ 2 + ((y0 + (row : Rat) * dy) - (y0 + (I.vr : Rat) * dy)) ^ 2 := by
  obtain ⟨vr, vc, hvr, hvc, hr, hc, hnr, hnc⟩ := observer_cell_is_nearest_centre (coordsAP x0 dx w) (coordsAP y0 dy h) x y
    (coordsAP_ne_nil x0 dx w (by omega)) (coordsAP_ne_nil y0 dy h (by omega))
  obtain ⟨hew, hns⟩ := resolution_is_coordinate_spacing x0 dx y0 dy h w hh hw
  have hwire : wiringOk = true := by decide
  refine ⟨{ vr := vr, vc := vc, ew := dx, ns := dy, velev := T vr vc + oe, vt := if 0 < te then te else 0 }, ?_, ?_, ?_, ?_, ?_,
    rfl, rfl, rfl, ?_, ?_⟩
  · simp [wrapperInputs, hwire, hx, hy, hvr, hvc, hew, hns]
  · simpa [coordsAP_length] using hr
  · simpa [coordsAP_length] using hc
  · intro i hi
    have := hnr i (by simpa [coordsAP_length] using hi)
    simpa [coordsAP_getElem] using this
  · intro j hj
    have := hnc j (by simpa [coordsAP_length] using hj)
    simpa [coordsAP_getElem] using this
  · show (if 0 < te then te else 0) = max te 0
    split
    · rename_i h0; exact (max_eq_left (le_of_lt h0)).symm
    · rename_i h0; exact (max_eq_right (not_lt.mp h0)).symm
  · intro row col
    exact key_eq_coord_dist x0 dx y0 dy vr vc row col

/-- an observer outside the coordinate range of either axis is rejected with the source's `ValueError` -/
theorem observer_outside_is_value_error (T : Int → Int → Rat) (xs ys : List Rat) (x y oe te : Rat)
    (hout : inRange xs x = false ∨ inRange ys y = false) :
    wrapperInputs T xs ys x y oe te = .error "ValueError" := by
  have hwire : wiringOk = true := by decide
  rcases hout with h | h
  · simp [wrapperInputs, hwire, h]
  · by_cases hx : inRange xs x = true
    · simp [wrapperInputs, hwire, hx, h]
    · simp [wrapperInputs, hwire, hx]

/-- non-vacuity: a 3 x 3 north-up raster (y descending 5, 4.5, 4; x ascending 10, 12, 14 -- non-square cells), the observer
    given off-centre at (13.25, 4.125): row 2 (y = 4), column 2 (x = 14); `ew_res = 2`, `ns_res = -1/2` -/
example : wrapperInputs (fun i j => (i + 2 * j : Int)) (coordsAP 10 2 3) (coordsAP 5 (-1/2) 3) (53/4) (33/8) 1 0 =
    .ok { vr := 2, vc := 2, ew := 2, ns := -1/2, velev := 7, vt := 0 } := by
  decide +kernel
end Wrapper

/-! ### 7. the status-tree routines as *generated from the source* (layer T3)

  `Gen.IL.vs*` are the ILang translations of `_find_value_min_value`, `_tree_minimum`, `_search_for_node`,
  `_left_rotate`, `_right_rotate`, `_max_grad_in_status_struct` (harness/facts_il.py, regenerated every run, validated
  against the numba-compiled functions by the `il:` streams).  The refinement theorems (Proofs/ILViewshed*.lean) say
  that these programs compute the hand model the theorems above are about, on every state whose two arrays hold a
  well-linked tree: `sh : Sh` is the pointer structure (which row is the root, which rows hang left / right),
  `Linked` says the link columns spell it out (NIL = -1 = the last row), `absT` reads the model tree off the arrays. -/
section Generated
open XrsVerif.IL XrsVerif.ILVs
variable {F : Type} [Fl F] [Trig α]

/-- an ILang state at the value domain `NV α` (all numbers non-NaN) that holds the status tree `t0` at `root` -/
structure Holds (s : State (NV α)) (n : Nat) (sh : Sh) (t0 : Viewshed.Tree α) : Prop where
  vs : VS s n
  run : s.ctl = .run
  linked : Linked (s.ia "tree_nodes") n (-1) sh
  nodup : sh.idxs.Nodup
  root : s.ienv "root" = sh.ptr
  nil : vAt (s.fa "tree_vals") (n - 1) 7 = smallest
  abs : absT (s.fa "tree_vals") (s.ia "tree_nodes") sh = mapT emb t0

/-- the generated `_max_grad_in_status_struct` returns the model's `query` (search, phase 1 along the parent pointers,
    phase 2 = in-order predecessor walk with early exit) and leaves the arrays alone; fuel = one unit per loop iteration -/
theorem generated_query_is_model_query (s : State (NV α)) (fuel n : Nat) (sh : Sh) (t0 : Viewshed.Tree α)
    (h : Holds s n sh t0) (hb : BST t0) (K ang g : α)
    (hd : s.fenv "distance" = some K) (ha : s.fenv "angle" = some ang) (hg : s.fenv "gradient" = some g)
    (hfuel : sh.size + sh.height + 2 ≤ fuel) :
    let q := Gen.IL.vsQuery.run s fuel
    q.ctl = .ret ∧ q.fenv "ret0" = some (query smallestK t0 K ang g) ∧ q.fa = s.fa ∧ q.ia = s.ia :=
  vsQuery_model s fuel n h.vs h.run sh h.linked h.nodup h.root h.nil t0 h.abs hb K ang g hd ha hg hfuel

/-- **the generated query decides line of sight**: `query_decides` for the program translated from the source -/
theorem generated_query_decides (s : State (NV α)) (fuel n : Nat) (sh : Sh) (t0 : Viewshed.Tree α)
    (h : Holds s n sh t0) (hb : BST t0) (hq : AugLeQ smallestK t0) (K ang g : α) (hS : smallestK ≤ g)
    (hK : ∃ m ∈ t0.toList, m.key = K)
    (hact : ∀ m ∈ t0.toList, m.key < K → spans m ang = true ∨ minv m ≤ g)
    (hd : s.fenv "distance" = some K) (ha : s.fenv "angle" = some ang) (hg : s.fenv "gradient" = some g)
    (hfuel : sh.size + sh.height + 2 ≤ fuel) :
    let q := Gen.IL.vsQuery.run s fuel
    q.ctl = .ret ∧ ∃ v, q.fenv "ret0" = some v ∧
      (v ≤ g ↔ ∀ m ∈ t0.toList, m.key < K → spans m ang = true → itp m ang ≤ g) := by
  obtain ⟨h1, h2, _, _⟩ := generated_query_is_model_query s fuel n sh t0 h hb K ang g hd ha hg hfuel
  exact ⟨h1, _, h2, query_decides K ang g hS hb hq hK hact⟩

/-- for every number type: the generated query is the two-phase query of the abstracted tree with the phase-2 list
    given structurally (`predsOf`), provided the code's `raise ValueError` is not reached -/
theorem generated_query_generic (s : State F) (fuel n : Nat) (hv : VS s n) (hrun : s.ctl = .run) (sh : Sh)
    (hL : Linked (s.ia "tree_nodes") n (-1) sh) (hN : sh.idxs.Nodup) (hroot : s.ienv "root" = sh.ptr)
    (hS : vAt (s.fa "tree_vals") (n - 1) 7 = smallest)
    (hnf : ∀ nd ∈ predsOf (absT (s.fa "tree_vals") (s.ia "tree_nodes") sh) ⟨s.fenv "distance"⟩,
      ¬ (⟨s.fenv "distance"⟩ : Fv F) < nd.key)
    (hfuel : sh.size + sh.height + 2 ≤ fuel) :
    let q := Gen.IL.vsQuery.run s fuel
    q.ctl = .ret ∧
      q.fenv "ret0" = (queryP smallest (absT (s.fa "tree_vals") (s.ia "tree_nodes") sh)
        ⟨s.fenv "distance"⟩ ⟨s.fenv "angle"⟩ ⟨s.fenv "gradient"⟩).v ∧
      q.fa = s.fa ∧ q.ia = s.ia :=
  vsQuery_refines s fuel n hv hrun sh hL hN hroot hS hnf hfuel

/-- the generated `_left_rotate` / `_right_rotate` are the model's `rotL` / `rotR` on the abstraction, stored maxima
    included, for every number type (no order laws needed) -/
theorem generated_rotations_are_model_rotations (s : State F) (fuel n : Nat) (hv : VS s n) (hrun : s.ctl = .run)
    (a : Sh) (x : Nat) (b : Sh) (y : Nat) (c : Sh) (par : Int) :
    (Linked (s.ia "tree_nodes") n par (.node a x (.node b y c)) → (Sh.node a x (.node b y c)).idxs.Nodup →
      s.ienv "x" = x → (par = -1 ∨ ∃ p : Nat, par = (p : Int) ∧ p + 1 < n ∧ p ∉ (Sh.node a x (.node b y c)).idxs) →
      let q := Gen.IL.vsLeftRotate.run s fuel
      q.ctl = .ret ∧ Linked (q.ia "tree_nodes") n par (.node (.node a x b) y c) ∧
        absT (q.fa "tree_vals") (q.ia "tree_nodes") (.node (.node a x b) y c) =
          rotL (vAt (s.fa "tree_vals") (n - 1) 7) (absT (s.fa "tree_vals") (s.ia "tree_nodes") (.node a x (.node b y c))) ∧
        q.ienv "ret0" = (if par = -1 then (y : Int) else s.ienv "root")) ∧
    (Linked (s.ia "tree_nodes") n par (.node (.node a x b) y c) → (Sh.node (.node a x b) y c).idxs.Nodup →
      s.ienv "y" = y → (par = -1 ∨ ∃ p : Nat, par = (p : Int) ∧ p + 1 < n ∧ p ∉ (Sh.node (.node a x b) y c).idxs) →
      let q := Gen.IL.vsRightRotate.run s fuel
      q.ctl = .ret ∧ Linked (q.ia "tree_nodes") n par (.node a x (.node b y c)) ∧
        absT (q.fa "tree_vals") (q.ia "tree_nodes") (.node a x (.node b y c)) =
          rotR (vAt (s.fa "tree_vals") (n - 1) 7) (absT (s.fa "tree_vals") (s.ia "tree_nodes") (.node (.node a x b) y c)) ∧
        q.ienv "ret0" = (if par = -1 then (x : Int) else s.ienv "root")) := by
  refine ⟨fun hl hn hx hp => ?_, fun hl hn hy hp => ?_⟩
  · have := vsLeftRotate_refines s fuel n hv hrun a x b y c par hl hn hx hp
    exact ⟨this.1, this.2.2.2.1, this.2.2.2.2.1, this.2.2.1⟩
  · have := vsRightRotate_refines s fuel n hv hrun a x b y c par hl hn hy hp
    exact ⟨this.1, this.2.2.2.1, this.2.2.2.2.1, this.2.2.1⟩

/-- hence (`rotate_preserves`) the subtree the generated left rotation leaves behind holds the same nodes in the same
    order, and is ordered / free of overestimates / exact whenever the subtree before was -/
theorem generated_left_rotation_preserves (s : State (NV α)) (fuel n : Nat) (hv : VS s n) (hrun : s.ctl = .run)
    (a : Sh) (x : Nat) (b : Sh) (y : Nat) (c : Sh) (par : Int) (t0 : Viewshed.Tree α)
    (hl : Linked (s.ia "tree_nodes") n par (.node a x (.node b y c))) (hn : (Sh.node a x (.node b y c)).idxs.Nodup)
    (hx : s.ienv "x" = x) (hp : par = -1 ∨ ∃ p : Nat, par = (p : Int) ∧ p + 1 < n ∧ p ∉ (Sh.node a x (.node b y c)).idxs)
    (hS : vAt (s.fa "tree_vals") (n - 1) 7 = smallest)
    (habs : absT (s.fa "tree_vals") (s.ia "tree_nodes") (.node a x (.node b y c)) = mapT emb t0) :
    let q := Gen.IL.vsLeftRotate.run s fuel
    ∃ t1, absT (q.fa "tree_vals") (q.ia "tree_nodes") (.node (.node a x b) y c) = mapT emb t1 ∧
      t1.toList = t0.toList ∧ (BST t0 → BST t1) ∧ (AugLe smallestK t0 → AugLe smallestK t1) ∧
      (Exact smallestK t0 → Exact smallestK t1) := by
  have h := (vsLeftRotate_refines s fuel n hv hrun a x b y c par hl hn hx hp).2.2.2.2.1
  rw [habs, hS, smallest_emb, rotL_emb] at h
  have hp := rotate_preserves (α := α) smallestK [] (t := t0)
  simp only [atPath] at hp
  exact ⟨rotL smallestK t0, h, hp.1.1, fun hb => (hp.2.1 hb).1, fun ha => (hp.2.2.1 ha).1, fun he => (hp.2.2.2 he).1⟩

/-- **a generated rotation anywhere in the tree is one `Rebal` step of the model**: run at `NV α` at a position (`ctx`) of a
    well-linked tree holding the image of `t0`, the generated `_left_rotate` leaves a well-linked tree without repeated rows
    that holds `atPath (rotL S) p t0` (`p` the path to the position) -- so it keeps the node list, BST, AugLe and Exact
    (`rotate_preserves`) and every relation `Rel` (`fixups_preserve`); likewise `_right_rotate` -/
theorem generated_rotation_at_path (s : State (NV α)) (fuel n : Nat) (hv : VS s n) (hrun : s.ctl = .run) (ctx : ILVs.Ctx)
    (a : Sh) (x : Nat) (b : Sh) (y : Nat) (c : Sh) (t0 : Viewshed.Tree α)
    (hS : vAt (s.fa "tree_vals") (n - 1) 7 = smallest) :
    (Linked (s.ia "tree_nodes") n (-1) (plug (.node a x (.node b y c)) ctx) →
      (plug (.node a x (.node b y c)) ctx).idxs.Nodup → s.ienv "x" = x →
      absT (s.fa "tree_vals") (s.ia "tree_nodes") (plug (.node a x (.node b y c)) ctx) = mapT emb t0 →
      let q := Gen.IL.vsLeftRotate.run s fuel
      let t1 := atPath (rotL smallestK) (pathOf ctx) t0
      q.ctl = .ret ∧ Linked (q.ia "tree_nodes") n (-1) (plug (.node (.node a x b) y c) ctx) ∧
        (plug (.node (.node a x b) y c) ctx).idxs.Nodup ∧
        absT (q.fa "tree_vals") (q.ia "tree_nodes") (plug (.node (.node a x b) y c) ctx) = mapT emb t1 ∧
        t1.toList = t0.toList ∧ (BST t0 → BST t1) ∧ (AugLe smallestK t0 → AugLe smallestK t1) ∧
        (∀ (d : Node α) (st : List (Node α)), Rel smallestK d t0 st → Rel smallestK d t1 st)) ∧
    (Linked (s.ia "tree_nodes") n (-1) (plug (.node (.node a x b) y c) ctx) →
      (plug (.node (.node a x b) y c) ctx).idxs.Nodup → s.ienv "y" = y →
      absT (s.fa "tree_vals") (s.ia "tree_nodes") (plug (.node (.node a x b) y c) ctx) = mapT emb t0 →
      let q := Gen.IL.vsRightRotate.run s fuel
      let t1 := atPath (rotR smallestK) (pathOf ctx) t0
      q.ctl = .ret ∧ Linked (q.ia "tree_nodes") n (-1) (plug (.node a x (.node b y c)) ctx) ∧
        (plug (.node a x (.node b y c)) ctx).idxs.Nodup ∧
        absT (q.fa "tree_vals") (q.ia "tree_nodes") (plug (.node a x (.node b y c)) ctx) = mapT emb t1 ∧
        t1.toList = t0.toList ∧ (BST t0 → BST t1) ∧ (AugLe smallestK t0 → AugLe smallestK t1) ∧
        (∀ (d : Node α) (st : List (Node α)), Rel smallestK d t0 st → Rel smallestK d t1 st)) := by
  have hp := rotate_preserves (α := α) smallestK (pathOf ctx) (t := t0)
  refine ⟨fun hL hN hx habs => ?_, fun hL hN hy habs => ?_⟩
  · obtain ⟨r1, _, r3, r4, r5, _, _⟩ := vsLeftRotate_at_path s fuel n hv hrun ctx a x b y c hL hN hx
    rw [habs, hS, smallest_emb, atPath_emb _ _ (rotL_emb smallestK)] at r5
    exact ⟨r1, r3, r4, r5, hp.1.1, fun h => (hp.2.1 h).1, fun h => (hp.2.2.1 h).1,
      fun d st hr => fixups_preserve (Rebal.rotL (pathOf ctx) (Rebal.refl _)) hr⟩
  · obtain ⟨r1, _, r3, r4, r5, _, _⟩ := vsRightRotate_at_path s fuel n hv hrun ctx a x b y c hL hN hy
    rw [habs, hS, smallest_emb, atPath_emb _ _ (rotR_emb smallestK)] at r5
    exact ⟨r1, r3, r4, r5, hp.1.2, fun h => (hp.2.1 h).2, fun h => (hp.2.2.1 h).2,
      fun d st hr => fixups_preserve (Rebal.rotR (pathOf ctx) (Rebal.refl _)) hr⟩

/-- the small routines: `_find_value_min_value` is `minv`; `_tree_minimum` returns the row of the first node in order;
    `_search_for_node` returns NIL exactly when the model's `contains` is false -/
theorem generated_small_routines (s : State F) (fuel n : Nat) (hv : VS s n) (hrun : s.ctl = .run) :
    (PtrOK n (s.ienv "node_id") →
      (Gen.IL.vsFindValueMin.run s fuel).fenv "ret0" =
        (minv (nodeAt (s.fa "tree_vals") (rowOf n (s.ienv "node_id")))).v) ∧
    (∀ (l : Sh) (i : Nat) (r : Sh) (par : Int), Linked (s.ia "tree_nodes") n par (.node l i r) → s.ienv "x" = i →
      l.lheight < fuel →
      ∃ m : Nat, (Gen.IL.vsTreeMinimum.run s fuel).ienv "ret0" = m ∧
        (absT (s.fa "tree_vals") (s.ia "tree_nodes") (.node l i r)).toList.head? = some (nodeAt (s.fa "tree_vals") m)) ∧
    (∀ (sh : Sh) (par : Int), Linked (s.ia "tree_nodes") n par sh → s.ienv "root" = sh.ptr → sh.height < fuel →
      ((Gen.IL.vsSearch.run s fuel).ienv "ret0" = -1 ↔
        (absT (s.fa "tree_vals") (s.ia "tree_nodes") sh).contains ⟨s.fenv "key"⟩ = false)) := by
  refine ⟨fun hp => (vsFindValueMin_refines s fuel n hv hrun hp).2.1, fun l i r par hl hx hf => ?_,
    fun sh par hl hr hf => ?_⟩
  · exact ⟨minIdx l i, (vsTreeMinimum_refines s fuel n hv hrun l i r par hl hx hf).2.1, minIdx_head _ _ l i r⟩
  · rw [(vsSearch_refines s fuel n hv hrun sh par hl hr hf).2.1, findPtr_contains]
    simp

/-- the generated `_tree_successor` at a node with a right subtree (the only use `_delete_from_tree` makes of it)
    returns the row of the in-order successor: the first node in order of the right subtree -/
theorem generated_tree_successor (s : State F) (fuel n : Nat) (hv : VS s n) (hrun : s.ctl = .run)
    (l : Sh) (i : Nat) (rl : Sh) (m : Nat) (rr : Sh) (ctx : ILVs.Ctx)
    (hl : Linked (s.ia "tree_nodes") n (ctxPar ctx) (.node l i (.node rl m rr)))
    (hc : CtxLinked (s.ia "tree_nodes") n (i : Int) ctx) (hx : s.ienv "x" = i)
    (hf : (Sh.node rl m rr).height + ctx.length + 1 < fuel) :
    let q := Gen.IL.vsTreeSuccessor.run s fuel
    q.ctl = .ret ∧ ∃ k : Nat, q.ienv "ret0" = k ∧
      (absT (s.fa "tree_vals") (s.ia "tree_nodes") (.node rl m rr)).toList.head? = some (nodeAt (s.fa "tree_vals") k) := by
  obtain ⟨h1, h2, _, _⟩ := vsTreeSuccessor_refines s fuel n hv hrun l i (.node rl m rr) ctx hl hc hx hf
  obtain ⟨k, hk, hh⟩ := succPtr_head (s.fa "tree_vals") (s.ia "tree_nodes") i rl m rr ctx
  exact ⟨h1, k, h2.trans hk, hh⟩

/-- **the generated `_insert_into_tree` is the model's complete insertion** (the whole routine: descent, creation and
    linking of the new red leaf, upward propagation of its minimum gradient, `_rb_insert_fixup` -- the recolouring loop
    with its six inlined rotations, all cases and both mirror images -- and the blackening of the root).  Run at `NV α`
    on arrays that hold the image of a non-empty tree `t0` (root and NIL row black, the NIL row holding the sentinel),
    with `node_id` a fresh row and `value` the node `nn`, the program returns with arrays that hold the image of
    `rbInsert S nn t0` (Model/ViewshedFix.lean) -- shape, colours, keys, gradients, stored maxima -- well linked, the old
    rows plus `node_id`, `ret0` the root row, the NIL row unchanged in maximum and colour, the root black.
    Composed with the model theorems: `rbInsert` is `leafInsert` followed by rotations and recolourings (`Rebal`), so it
    holds exactly the old nodes plus `nn`, preserves `Rel` (BST, no overestimate below the root, node set = dummy +
    active list) with the new cell added, and preserves "no overestimate anywhere" (`AugLe`). -/
theorem generated_insert_is_model_insert (s : State (NV α)) (fuel n m : Nat) (hv : VS s n) (hm : VVal s m)
    (hrun : s.ctl = .run) (l : Sh) (i : Nat) (rr : Sh) (hL : Linked (s.ia "tree_nodes") n (-1) (.node l i rr))
    (hN : (Sh.node l i rr).idxs.Nodup) (hroot : s.ienv "root" = i) (nid : Nat) (hnid : nid + 1 < n)
    (hfresh : nid ∉ (Sh.node l i rr).idxs) (hid : s.ienv "node_id" = nid)
    (hnil : nAt (s.ia "tree_nodes") (n - 1) 0 ≠ 0) (hblack : nAt (s.ia "tree_nodes") i 0 ≠ 0)
    (hS : vAt (s.fa "tree_vals") (n - 1) 7 = smallest)
    (hfuel : (Sh.node l i rr).height + 2 ≤ fuel) (t0 : Viewshed.Tree α) (nn : Node α)
    (habs : absT (s.fa "tree_vals") (s.ia "tree_nodes") (.node l i rr) = mapT emb t0) (hval : valNode s = mapN emb nn) :
    let r := Gen.IL.vsInsert.run s fuel
    let t1 := rbInsert smallestK nn t0
    r.ctl = .ret ∧ VS r n ∧ (∃ sh' : Sh, Linked (r.ia "tree_nodes") n (-1) sh' ∧ sh'.idxs.Nodup ∧
        sh'.idxs.Perm (nid :: (Sh.node l i rr).idxs) ∧
        absT (r.fa "tree_vals") (r.ia "tree_nodes") sh' = mapT emb t1 ∧ r.ienv "ret0" = sh'.ptr) ∧
      vAt (r.fa "tree_vals") (n - 1) 7 = smallest ∧ nAt (r.ia "tree_nodes") (n - 1) 0 ≠ 0 ∧ isRed t1 = false ∧
      Rebal smallestK (leafInsert nn t0) t1 ∧
      (∀ k, k ∈ t1.toList ↔ k = nn ∨ k ∈ t0.toList) ∧
      (∀ (d : Node α) (st : List (Node α)), Rel smallestK d t0 st → nn.key ≠ d.key → (∀ k ∈ st, k.key ≠ nn.key) →
        Rel smallestK d t1 (nn :: st)) ∧
      (AugLe smallestK t0 → AugLe smallestK t1) := by
  intro r t1
  obtain ⟨r1, r2, sh', r3, r4, r5, r6, r7, r8, r9, r10⟩ :=
    vsInsert_model s fuel n m hv hm hrun l i rr hL hN hroot nid hnid hfresh hid hnil hblack hfuel smallestK
      (by rw [hS, smallest_emb]) t0 nn habs hval
  have hreb : Rebal smallestK (leafInsert nn t0) t1 := rbInsert_rebal smallestK nn t0
  refine ⟨r1, r2, ⟨sh', r3, r4, r5, r6, r7⟩, by rw [r8, smallest_emb], r9, r10, hreb, fun k => ?_,
    fun d st hr hd hf => leaf_insert_preserves nn hr hd hf hreb, fun ha => hreb.augLe (insCore_AugLe smallestK nn ha)⟩
  rw [hreb.toList]
  exact insCore_toList nn t0 k

/-- **the generated `_delete_from_tree` is the pass-form deletion with the colour fix-up**, for every number type (the
    whole routine: search, choice of the node `y` to splice out -- `z` or its in-order successor --, the splice, loop L1,
    the recomputation F1, the successor copy with the recomputation C, loop L2, `_rb_delete_fixup` -- all four cases,
    both mirror images, the six inlined rotations -- and the blackening of `x`).
    A key that is not in the tree makes the program stop with `ValueError` (the model's `delCore = none`).  A key found
    at `(l, z, r, ctx)` in a tree that is not the single node `z` (the status structure always keeps its dummy root),
    with a black NIL row and every colour cell `RB_RED` or `RB_BLACK`, makes it return with arrays that hold
      `rbDelFix S (path of x) t1`  if `y` was black and its child `x` is a node,  else  `t1`,
    where `t1 = delPassArr ..` is the tree after the four passes *as the code has them* (`ILVs.delPassT`,
    Proofs/ILViewshedDelPass.lean: the code's operand orders, its `==` on the stored numbers, ties and NaN included),
    well linked over the old rows without `y`, `ret0` the root row, `ret1 = y`, NIL row and colour sanity kept.
    `rbDelFix` is a sequence of rotations and recolourings (`Rebal`, Proofs/ViewshedFix.lean), so whatever `Rebal`
    preserves (node list, order, no overestimate, exactness of the stored maxima) is preserved from `t1`.
    That the pass form is the hand model's `delCore` over a linear order is `ILVs.delPassT_eq_delCore`; the statement
    in terms of the hand model is `generated_delete_is_model_delete` below. -/
theorem generated_delete_is_pass_form (s : State F) (fuel n : Nat) (hv : VS s n) (hrun : s.ctl = .run) (sh : Sh)
    (hL : Linked (s.ia "tree_nodes") n (-1) sh) (hN : sh.idxs.Nodup) (hroot : s.ienv "root" = sh.ptr)
    (hnil : nAt (s.ia "tree_nodes") (n - 1) 0 = 1) (hcol : ∀ j ∈ sh.idxs, ColV (nAt (s.ia "tree_nodes") j 0))
    (hf : sh.height + 2 ≤ fuel) :
    ((absT (s.fa "tree_vals") (s.ia "tree_nodes") sh).contains ⟨s.fenv "key"⟩ = false →
      (Gen.IL.vsDelete.run s fuel).ctl = .err "ValueError") ∧
    (∀ (l : Sh) (z : Nat) (r : Sh) (ctx : ILVs.Ctx),
      findZ (s.fa "tree_vals") ⟨s.fenv "key"⟩ sh [] = some (l, z, r, ctx) → ¬ (l = .nil ∧ r = .nil ∧ ctx = []) →
      let q := Gen.IL.vsDelete.run s fuel
      let P := splicePos l z r ctx
      let S : Fv F := vAt (s.fa "tree_vals") (n - 1) 7
      let t1 := delPassArr (s.fa "tree_vals") (s.ia "tree_nodes") n P.1 P.2.1 P.2.2.1 P.2.2.2
      P.2.1 = spliceIdx l z r ∧ q.ctl = .ret ∧ VS q n ∧
      ∃ sh' : Sh, Linked (q.ia "tree_nodes") n (-1) sh' ∧ sh'.idxs.Nodup ∧ (P.2.1 :: sh'.idxs).Perm sh.idxs ∧
        absT (q.fa "tree_vals") (q.ia "tree_nodes") sh' =
          (if nAt (s.ia "tree_nodes") P.2.1 0 = 1 ∧ P.1.ptr ≠ -1 then rbDelFix S (P.2.2.1.map Fr.dir) t1 else t1) ∧
        Rebal S t1 (absT (q.fa "tree_vals") (q.ia "tree_nodes") sh') ∧
        q.ienv "ret0" = sh'.ptr ∧ q.ienv "ret1" = P.2.1 ∧ vAt (q.fa "tree_vals") (n - 1) 7 = S ∧
        nAt (q.ia "tree_nodes") (n - 1) 0 = 1 ∧ (∀ j ∈ sh'.idxs, ColV (nAt (q.ia "tree_nodes") j 0))) := by
  refine ⟨fun h => vsDelete_absent s fuel n hv hrun sh hL hroot (by omega) h, fun l z r ctx hfz hbig => ?_⟩
  intro q P S t1
  obtain ⟨c1, c2, sh', c3, c4, c5, c6, c7, c8, c9, c10, c11, _⟩ :=
    vsDelete_refines s fuel n hv hrun sh hL hN hroot l z r ctx hfz hbig hnil hcol hf
  obtain ⟨_, _, _, _, _, p3, _⟩ := splicePos_spec l z r ctx
  have hreb : Rebal S t1 (absT (q.fa "tree_vals") (q.ia "tree_nodes") sh') := by
    rw [c6]
    split
    · exact rbDelFix_rebal S _ t1
    · exact Rebal.refl t1
  exact ⟨p3, c1, c2, sh', c3, c4, c5, c6, hreb, c7, c8, c9, c10, c11⟩

/-- **the generated `_delete_from_tree` is the model's complete deletion.**  Run at `NV α` on arrays that hold the
    image of a tree `t0` (more than the one node to delete; NIL row black and holding the sentinel, colour cells sane)
    with `key = k` found in the tree, the program returns with arrays that hold the image of `t1`, where
    `rbDelete smallestK k t0 = some t1` (Model/ViewshedFix.lean): the hand model's `delCore` -- splice or successor copy
    with the code's repairs of the stored maxima (loops L1, L2, recomputations F1, C), ties included -- followed, when a
    black node was spliced out and its child is not NIL, by `_rb_delete_fixup` (`rbDelFix`); well linked over the old
    rows without the freed one, which is returned in `ret1`; `ret0` the root row; NIL row and colour sanity kept.
    Composed with the model theorems: `t1` is `Rebal`-related to `delCore`'s result, so
      * the keys stay strictly ordered and exactly the node with key `k` leaves (`delete_preserves_partial`),
      * if the stored maxima were exact, no two nodes tie in their minimum gradient and only nearer nodes carry the
        sentinel, the maxima are exact again and `Rel` holds with the cell removed (`delete_preserves_of_no_tie`);
    with ties "no overestimate" can be lost -- that is a property of the code (`delete_can_overestimate`), and the
    program is proved to compute exactly that function. -/
theorem generated_delete_is_model_delete (s : State (NV α)) (fuel n : Nat) (hv : VS s n) (hrun : s.ctl = .run) (sh : Sh)
    (hL : Linked (s.ia "tree_nodes") n (-1) sh) (hN : sh.idxs.Nodup) (hroot : s.ienv "root" = sh.ptr)
    (hnil : nAt (s.ia "tree_nodes") (n - 1) 0 = 1) (hcol : ∀ j ∈ sh.idxs, ColV (nAt (s.ia "tree_nodes") j 0))
    (hS : vAt (s.fa "tree_vals") (n - 1) 7 = smallest) (hf : sh.height + 2 ≤ fuel)
    (t0 : Viewshed.Tree α) (k : α) (habs : absT (s.fa "tree_vals") (s.ia "tree_nodes") sh = mapT emb t0)
    (hkey : s.fenv "key" = some k) (l : Sh) (z : Nat) (r : Sh) (ctx : ILVs.Ctx)
    (hfind : findZ (s.fa "tree_vals") ⟨s.fenv "key"⟩ sh [] = some (l, z, r, ctx))
    (hbig : ¬ (l = .nil ∧ r = .nil ∧ ctx = [])) :
    let q := Gen.IL.vsDelete.run s fuel
    q.ctl = .ret ∧ VS q n ∧ ∃ (sh' : Sh) (c t1 : Viewshed.Tree α),
      delCore smallestK k t0 = some c ∧ rbDelete smallestK k t0 = some t1 ∧ Rebal smallestK c t1 ∧
      Linked (q.ia "tree_nodes") n (-1) sh' ∧ sh'.idxs.Nodup ∧ (spliceIdx l z r :: sh'.idxs).Perm sh.idxs ∧
      absT (q.fa "tree_vals") (q.ia "tree_nodes") sh' = mapT emb t1 ∧
      q.ienv "ret0" = sh'.ptr ∧ q.ienv "ret1" = spliceIdx l z r ∧ vAt (q.fa "tree_vals") (n - 1) 7 = smallest ∧
      nAt (q.ia "tree_nodes") (n - 1) 0 = 1 ∧ (∀ j ∈ sh'.idxs, ColV (nAt (q.ia "tree_nodes") j 0)) ∧
      (∀ (d : Node α) (st : List (Node α)), Rel smallestK d t0 st → (∃ m ∈ st, m.key = k) → d.key ≠ k →
        BST t1 ∧ ∀ m, m ∈ t1.toList ↔ (m = d ∨ m ∈ st.filter fun m => !(eqv m.key k))) ∧
      (∀ (d : Node α) (st : List (Node α)), Rel smallestK d t0 st → Exact smallestK t0 → (∃ m ∈ st, m.key = k) →
        d.key ≠ k → (∀ a ∈ t0.toList, ∀ b ∈ t0.toList, minv a = minv b → a.key = b.key) →
        (∀ m ∈ t0.toList, minv m = smallestK → m.key < k) →
        Exact smallestK t1 ∧ Rel smallestK d t1 (st.filter fun m => !(eqv m.key k))) := by
  intro q
  obtain ⟨c1, c2, sh', t1, c3, c4, c5, c6, c7, c8, c9, c10, c11, c12⟩ :=
    vsDelete_model s fuel n hv hrun sh hL hN hroot l z r ctx hfind hbig hnil hcol hf smallestK
      (by rw [hS, smallest_emb]) t0 k habs hkey
  obtain ⟨c, hc, hreb⟩ := rbDelete_rebal smallestK k t0 t1 c3
  obtain ⟨_, _, _, _, _, p3, _⟩ := splicePos_spec l z r ctx
  rw [p3] at c6 c9
  refine ⟨c1, c2, sh', c, t1, hc, c3, hreb, c4, c5, c6, c7, c8, c9, by rw [c10, smallest_emb], c11, c12, ?_, ?_⟩
  · intro d st hr hk hd
    obtain ⟨c', hc', h⟩ := delete_preserves_partial k hr hk hd
    rw [hc] at hc'
    cases hc'
    exact h t1 hreb
  · intro d st hr he hk hd hnt hsent
    obtain ⟨c', hc', h⟩ := delete_preserves_of_no_tie k hr he hk hd hnt hsent
    rw [hc] at hc'
    cases hc'
    exact h t1 hreb

/-! non-vacuity: a concrete state holding the three-node tree of the example after `query_decides` (rows 0 = the root
    with key 2, 1 = key 1, 2 = key 3, 3 = NIL); the generated query at key 3 returns 2, the gradient of the node
    with key 1 found by the exact walk; the left rotation at the root applies -/
def exVals : List (NV ℚ) :=
  ([2, 1, 1, 1, 0, 1, 2, 1,   1, 2, 2, 2, 0, 1, 2, 2,   3, 0, 0, 0, 0, 1, 2, 0,
    0, 0, 0, 0, 0, 0, 0, -10000000000000000000000] : List ℚ).map some
def exNodes : List Int := [1, 1, 2, -1,   0, -1, -1, 0,   0, -1, -1, 0,   1, -1, -1, -1]
def exState [Trig ℚ] : State (NV ℚ) :=
  { State.empty with
    fa := fun a => if a = "tree_vals" then exVals else [],
    ia := fun a => if a = "tree_nodes" then exNodes else [],
    shp := fun a => if a = "tree_vals" then [4, 8] else if a = "tree_nodes" then [4, 4] else [],
    ienv := fun _ => 0,
    fenv := fun v => if v = "distance" then some 3 else if v = "angle" then some 1 else if v = "gradient" then some 0
      else none }
def exTree : Viewshed.Tree ℚ :=
  .node (.node .nil ⟨1, 2, 2, 2, 0, 1, 2⟩ 2 true .nil) ⟨2, 1, 1, 1, 0, 1, 2⟩ 1 false (.node .nil ⟨3, 0, 0, 0, 0, 1, 2⟩ 0 true .nil)
def exShape : Sh := .node (.node .nil 1 .nil) 0 (.node .nil 2 .nil)

theorem exState_holds [Trig ℚ] : Holds exState 4 exShape exTree := by
  refine ⟨⟨rfl, rfl, rfl, rfl, by decide⟩, rfl, ?_, by decide, rfl, ?_, ?_⟩
  · simp [Linked, nAt, exState, exNodes, Sh.ptr, exShape]
  · simp [vAt, exState, exVals, smallest]
  · simp [absT, nodeAt, vAt, nAt, mapT, mapN, emb, exState, exVals, exNodes, exShape, exTree]

example [Trig ℚ] : (Gen.IL.vsQuery.run exState 7).ctl = .ret ∧ (Gen.IL.vsQuery.run exState 7).fenv "ret0" = some 2 := by
  have hb : BST exTree := by rw [← bstB_iff]; decide
  obtain ⟨h1, h2, _, _⟩ := generated_query_is_model_query exState 7 4 exShape exTree exState_holds hb 3 1 0 rfl rfl rfl
    (by decide)
  refine ⟨h1, ?_⟩
  rw [h2]
  have : query (smallestK : ℚ) exTree 3 1 0 = 2 := by
    unfold smallestK
    norm_num [query, Tree.contains, short, walk, exTree, Tree.toList, spans, itp, mx2, mn2, minv, mxOf]
  rw [this]

example [Trig ℚ] :
    let q := Gen.IL.vsLeftRotate.run exState 0
    q.ctl = .ret ∧ q.ienv "ret0" = 2 ∧ Linked (q.ia "tree_nodes") 4 (-1) (.node (.node (.node .nil 1 .nil) 0 .nil) 2 .nil) := by
  have h := (generated_rotations_are_model_rotations exState 0 4 exState_holds.vs rfl (.node .nil 1 .nil) 0 .nil 2 .nil
    (-1)).1 exState_holds.linked (by decide) rfl (Or.inl rfl)
  exact ⟨h.1, by simpa using h.2.2.2, h.2.1⟩

/-- the same tree in five rows (row 3 free, row 4 = NIL) with a new node of key 4 in `value` -/
def exVals5 : List (NV ℚ) :=
  ([2, 1, 1, 1, 0, 1, 2, 1,   1, 2, 2, 2, 0, 1, 2, 2,   3, 0, 0, 0, 0, 1, 2, 0,   0, 0, 0, 0, 0, 0, 0, 0,
    0, 0, 0, 0, 0, 0, 0, -10000000000000000000000] : List ℚ).map some
def exNodes5 : List Int := [1, 1, 2, -1,   0, -1, -1, 0,   0, -1, -1, 0,   0, 0, 0, 0,   1, -1, -1, -1]
def exStateIns [Trig ℚ] : State (NV ℚ) :=
  { State.empty with
    fa := fun a => if a = "tree_vals" then exVals5 else if a = "value" then ([4, 3, 3, 3, 0, 1, 2, 0] : List ℚ).map some else [],
    ia := fun a => if a = "tree_nodes" then exNodes5 else [],
    shp := fun a => if a = "tree_vals" then [5, 8] else if a = "tree_nodes" then [5, 4] else if a = "value" then [8] else [],
    ienv := fun v => if v = "node_id" then 3 else 0 }

/-- non-vacuity of `generated_insert_is_model_insert`: the key 4 goes below the red node 3 whose sibling 1 is red as
    well -- the red-uncle case recolours both black and the root red, the root is blackened again -/
example [Trig ℚ] :
    (Gen.IL.vsInsert.run exStateIns 4).ctl = .ret ∧
      ∃ sh' : Sh, absT ((Gen.IL.vsInsert.run exStateIns 4).fa "tree_vals") ((Gen.IL.vsInsert.run exStateIns 4).ia "tree_nodes") sh' =
        mapT emb (rbInsert smallestK ⟨4, 3, 3, 3, 0, 1, 2⟩ exTree) ∧ (Gen.IL.vsInsert.run exStateIns 4).ienv "ret0" = sh'.ptr := by
  obtain ⟨h1, _, ⟨sh', _, _, _, h5, h6⟩, _⟩ := generated_insert_is_model_insert exStateIns 4 5 8
    ⟨rfl, rfl, rfl, rfl, by decide⟩ ⟨rfl, rfl, by decide⟩ rfl (.node .nil 1 .nil) 0 (.node .nil 2 .nil)
    (by simp [Linked, nAt, exStateIns, exNodes5, Sh.ptr]) (by decide) rfl 3 (by decide) (by decide) rfl
    (by simp [nAt, exStateIns, exNodes5]) (by simp [nAt, exStateIns, exNodes5])
    (by simp [vAt, exStateIns, exVals5, smallest]) (by decide)
    exTree ⟨4, 3, 3, 3, 0, 1, 2⟩
    (by simp [absT, nodeAt, vAt, nAt, mapT, mapN, emb, exStateIns, exVals5, exNodes5, exTree])
    (by simp [valNode, valAt, mapN, emb, exStateIns])
  exact ⟨h1, sh', h5, h6⟩

example : rbInsert (smallestK : ℚ) ⟨4, 3, 3, 3, 0, 1, 2⟩ exTree =
    .node (.node .nil ⟨1, 2, 2, 2, 0, 1, 2⟩ 2 false .nil) ⟨2, 1, 1, 1, 0, 1, 2⟩ 3 false
      (.node .nil ⟨3, 0, 0, 0, 0, 1, 2⟩ 3 false (.node .nil ⟨4, 3, 3, 3, 0, 1, 2⟩ 3 true .nil)) := by
  decide

example [Trig ℚ] : (Gen.IL.vsDelete.run { exState with fenv := fun _ => some 7 } 4).ctl = .err "ValueError" := by
  refine (generated_delete_is_pass_form { exState with fenv := fun _ => some 7 } 4 4 ⟨rfl, rfl, rfl, rfl, by decide⟩ rfl exShape
    exState_holds.linked (by decide) rfl (by simp [nAt, exState, exNodes])
    (by simp [exShape, Sh.idxs, ColV, nAt, exState, exNodes]) (by decide)).1 ?_
  simp [absT, nodeAt, vAt, nAt, exState, exVals, exNodes, exShape, Tree.contains, fv_lt]
  norm_num

/-- non-vacuity of `generated_delete_is_pass_form`, no fix-up: the key 3 sits in the red leaf at row 2, which is
    spliced out itself; the program returns the freed row 2 -/
example [Trig ℚ] :
    (Gen.IL.vsDelete.run { exState with fenv := fun _ => some 3 } 5).ctl = .ret ∧
      (Gen.IL.vsDelete.run { exState with fenv := fun _ => some 3 } 5).ienv "ret1" = 2 := by
  obtain ⟨_, h1, _, _, _, _, _, _, _, _, h2, _⟩ := (generated_delete_is_pass_form { exState with fenv := fun _ => some 3 } 5 4
    ⟨rfl, rfl, rfl, rfl, by decide⟩ rfl exShape exState_holds.linked (by decide) rfl (by simp [nAt, exState, exNodes])
    (by simp [exShape, Sh.idxs, ColV, nAt, exState, exNodes]) (by decide)).2 .nil 2 .nil [.R (.node .nil 1 .nil) 0]
    (by
      simp [findZ, vAt, exState, exVals, exShape, fv_lt]
      norm_num) (by simp)
  exact ⟨h1, h2⟩

/-- a four-node tree in six rows (row 4 free, row 5 = NIL): black root 2, black children 1 and 3, the red leaf 4 below 3 -/
def exVals6 : List (NV ℚ) :=
  ([2, 1, 1, 1, 0, 1, 2, 3,   1, 2, 2, 2, 0, 1, 2, 2,   3, 0, 0, 0, 0, 1, 2, 3,   4, 3, 3, 3, 0, 1, 2, 3,
    0, 0, 0, 0, 0, 0, 0, 0,   0, 0, 0, 0, 0, 0, 0, -10000000000000000000000] : List ℚ).map some
def exNodes6 : List Int := [1, 1, 2, -1,   1, -1, -1, 0,   1, -1, 3, 0,   0, -1, -1, 2,   0, 0, 0, 0,   1, -1, -1, -1]
def exStateDel [Trig ℚ] : State (NV ℚ) :=
  { State.empty with
    fa := fun a => if a = "tree_vals" then exVals6 else [],
    ia := fun a => if a = "tree_nodes" then exNodes6 else [],
    shp := fun a => if a = "tree_vals" then [6, 8] else if a = "tree_nodes" then [6, 4] else [],
    ienv := fun _ => 0,
    fenv := fun _ => some 3 }

/-- non-vacuity with the fix-up: the key 3 sits in the black node at row 2 whose only child is the red leaf at row 3;
    row 2 is spliced out, `_rb_delete_fixup` is called with `x` = row 3 (and blackens it) -/
example [Trig ℚ] :
    (Gen.IL.vsDelete.run exStateDel 5).ctl = .ret ∧ (Gen.IL.vsDelete.run exStateDel 5).ienv "ret1" = 2 ∧
      nAt (exStateDel.ia "tree_nodes") (splicePos .nil 2 (.node .nil 3 .nil) [.R (.node .nil 1 .nil) 0]).2.1 0 = 1 ∧
      (splicePos .nil 2 (.node .nil 3 .nil) [.R (.node .nil 1 .nil) 0]).1.ptr ≠ -1 := by
  obtain ⟨_, h1, _, _, _, _, _, _, _, _, h2, _⟩ := (generated_delete_is_pass_form exStateDel 5 6
    ⟨rfl, rfl, rfl, rfl, by decide⟩ rfl (.node (.node .nil 1 .nil) 0 (.node .nil 2 (.node .nil 3 .nil)))
    (by simp [Linked, nAt, exStateDel, exNodes6, Sh.ptr]) (by decide) rfl (by simp [nAt, exStateDel, exNodes6])
    (by simp [Sh.idxs, ColV, nAt, exStateDel, exNodes6]) (by decide)).2 .nil 2 (.node .nil 3 .nil) [.R (.node .nil 1 .nil) 0]
    (by
      simp [findZ, vAt, exStateDel, exVals6, fv_lt]
      norm_num) (by simp)
  exact ⟨h1, h2, by simp [splicePos, nAt, exStateDel, exNodes6], by simp [splicePos, Sh.ptr]⟩

def exTree6 : Viewshed.Tree ℚ :=
  .node (.node .nil ⟨1, 2, 2, 2, 0, 1, 2⟩ 2 false .nil) ⟨2, 1, 1, 1, 0, 1, 2⟩ 3 false
    (.node .nil ⟨3, 0, 0, 0, 0, 1, 2⟩ 3 false (.node .nil ⟨4, 3, 3, 3, 0, 1, 2⟩ 3 true .nil))

/-- non-vacuity of `generated_delete_is_model_delete`: the arrays of `exStateDel` hold `exTree6`; deleting the key 3
    splices out the black node, its red child takes its place and is blackened by the fix-up -/
example [Trig ℚ] :
    (Gen.IL.vsDelete.run exStateDel 5).ctl = .ret ∧
      ∃ (sh' : Sh) (t1 : Viewshed.Tree ℚ), rbDelete smallestK 3 exTree6 = some t1 ∧
        absT ((Gen.IL.vsDelete.run exStateDel 5).fa "tree_vals") ((Gen.IL.vsDelete.run exStateDel 5).ia "tree_nodes") sh' =
          mapT emb t1 ∧ (Gen.IL.vsDelete.run exStateDel 5).ienv "ret0" = sh'.ptr := by
  obtain ⟨h1, _, sh', c, t1, _, h2, _, _, _, _, h3, h4, _⟩ := generated_delete_is_model_delete exStateDel 5 6
    ⟨rfl, rfl, rfl, rfl, by decide⟩ rfl (.node (.node .nil 1 .nil) 0 (.node .nil 2 (.node .nil 3 .nil)))
    (by simp [Linked, nAt, exStateDel, exNodes6, Sh.ptr]) (by decide) rfl (by simp [nAt, exStateDel, exNodes6])
    (by simp [Sh.idxs, ColV, nAt, exStateDel, exNodes6]) (by simp [vAt, exStateDel, exVals6, smallest]) (by decide)
    exTree6 3 (by simp [absT, nodeAt, vAt, nAt, mapT, mapN, emb, exStateDel, exVals6, exNodes6, exTree6]) rfl
    .nil 2 (.node .nil 3 .nil) [.R (.node .nil 1 .nil) 0]
    (by
      simp [findZ, vAt, exStateDel, exVals6, fv_lt]
      norm_num) (by simp)
  exact ⟨h1, sh', t1, h2, h3, h4⟩

example : rbDelete (smallestK : ℚ) 3 exTree6 =
    some (.node (.node .nil ⟨1, 2, 2, 2, 0, 1, 2⟩ 2 false .nil) ⟨2, 1, 1, 1, 0, 1, 2⟩ 3 false
      (.node .nil ⟨4, 3, 3, 3, 0, 1, 2⟩ 3 false .nil)) := by
  decide

example [Trig ℚ] :
    absT ((Gen.IL.vsLeftRotate.run exState 0).fa "tree_vals") ((Gen.IL.vsLeftRotate.run exState 0).ia "tree_nodes")
      (.node (.node (.node .nil 1 .nil) 0 .nil) 2 .nil) = mapT emb (rotL smallestK exTree) :=
  ((generated_rotation_at_path exState 0 4 exState_holds.vs rfl [] (.node .nil 1 .nil) 0 .nil 2 .nil exTree
    exState_holds.nil).1 exState_holds.linked (by decide) rfl exState_holds.abs).2.2.2.1

end Generated

/-! ### 8. the event geometry, the event list and the output rule as *generated from the source* (layer T3)

  `Gen.IL.vsEventRowCol`, `vsEventPos`, `vsAngle`, `vsVerticalAng`, `vsInitEventList` are the ILang translations of
  `_calculate_event_row_col`, `_calc_event_pos`, `_calculate_angle`, `_get_vertical_ang`, `_init_event_list` (callees
  inlined), regenerated on every run and validated against the numba-compiled functions by the `il:` streams.  The
  refinement theorems (Proofs/ILVs*.lean) say that they compute the hand model of section 6 / section 5: the corner
  tables `nbOff` / `posOff`, the corner elevation `cornerElev` through the three-row ring buffer, three events per
  non-observer cell in row-major order, the observer-row buffer, `180` at the observer, the vertical-angle formula.
  Bearings are `_calculate_angle` as an expression in `atan` (`angF`); they are not related to the exact cross-product
  order of section 6 here (that is compared by seam 0 of the correspondence). -/
section GeneratedEvents
open XrsVerif.IL XrsVerif.ILSw XrsVerif.ViewshedEvents
variable {F : Type} [Fl F]

/-- the generated `_calculate_event_row_col` names the model's diagonal neighbour `(row, col) + nbOff` for ENTER / EXIT of
    every cell and observer (its guard `abs(x - event_col > 1) or …` never fires); CENTER raises `ValueError` -/
theorem generated_event_corner_cell (s : State F) (fuel : Nat) (hs : s.ctl = .run) :
    let r := Gen.IL.vsEventRowCol.run s fuel
    let o := nbOff (s.ienv "event_type") (s.ienv "event_row" - s.ienv "viewpoint_row") (s.ienv "event_col" - s.ienv "viewpoint_col")
    (s.ienv "event_type" = 0 → r.ctl = .err "ValueError") ∧
    (s.ienv "event_type" ≠ 0 → r.ctl = .ret ∧ r.ienv "ret0" = s.ienv "event_row" + o.1 ∧ r.ienv "ret1" = s.ienv "event_col" + o.2) := by
  obtain ⟨h1, h2⟩ := vsEventRowCol_refines s fuel hs
  exact ⟨h1, fun h0 => ⟨(h2 h0).1, (h2 h0).2.1, (h2 h0).2.2.1⟩⟩

example [Trig ℚ] :
    let s : State (NV ℚ) := ⟨fun v => if v = "event_type" then 1 else if v = "event_row" then 2 else if v = "event_col" then 3 else 1,
      fun _ => none, fun _ => false, fun _ => [], fun _ => [], fun _ => [], fun _ _ _ _ _ _ => none, .run⟩
    (Gen.IL.vsEventRowCol.run s 0).ienv "ret0" = 3 ∧ (Gen.IL.vsEventRowCol.run s 0).ienv "ret1" = 2 := by
  intro s
  obtain ⟨_, h⟩ := generated_event_corner_cell s 0 rfl
  obtain ⟨_, h1, h2⟩ := h (by decide)
  rw [h1, h2]; decide

/-- **the generated `_calc_event_pos` returns the model's event point** (half the doubled coordinates `y2`, `x2` of `mkEvent`):
    the entering / exiting corner of section 6 for ENTER / EXIT, the cell centre for CENTER; its closing assertion holds -/
theorem generated_event_point [Trig α] (s : State (NV α)) (fuel : Nat) (hs : s.ctl = .run)
    (hty : s.ienv "event_type" = 1 ∨ s.ienv "event_type" = 0 ∨ s.ienv "event_type" = -1) :
    let r := Gen.IL.vsEventPos.run s fuel
    let o := posOff (s.ienv "event_type") (s.ienv "event_row" - s.ienv "viewpoint_row") (s.ienv "event_col" - s.ienv "viewpoint_col")
    r.ctl = .ret ∧ r.fenv "ret0" = some ((2 * (s.ienv "event_row" : α) + (o.1 : α)) / 2) ∧
      r.fenv "ret1" = some ((2 * (s.ienv "event_col" : α) + (o.2 : α)) / 2) := by
  intro r o
  obtain ⟨h1, h2, h3, _⟩ := vsEventPos_refines (halfOK_NV (K := α)) s fuel hs
  have hm : (o.1 = 1 ∨ o.1 = 0 ∨ o.1 = -1) ∧ (o.2 = 1 ∨ o.2 = 0 ∨ o.2 = -1) := by
    by_cases h0 : s.ienv "event_type" = 0
    · simp only [o]; rw [h0]; simp [posOff_centre]
    · simp only [o]; rw [posOff_eq_offOf _ _ _ h0]; exact offOf_mem _ _ _
  exact ⟨h1, h2.trans (halfF_NV _ _ hm.1), h3.trans (halfF_NV _ _ hm.2)⟩

/-- hence the corners the *generated* program returns are the corners of smallest / largest bearing
    (`enter_corner_smallest_exit_corner_largest` applies to the very offsets it adds) -/
theorem generated_corners_are_extreme (dr dc : Int) (hne : dr ≠ 0 ∨ dc ≠ 0) :
    offOf 1 dr dc = posOff 1 dr dc ∧ offOf (-1) dr dc = posOff (-1) dr dc ∧ offOf 1 dr dc = nbOff 1 dr dc ∧
      offOf (-1) dr dc = nbOff (-1) dr dc :=
  ⟨(posOff_eq_offOf 1 dr dc (by decide)).symm, (posOff_eq_offOf (-1) dr dc (by decide)).symm,
   (nbOff_eq_offOf 1 dr dc).symm, (nbOff_eq_offOf (-1) dr dc).symm⟩

/-- the generated `_calculate_angle` computes the bearing formula `angF` (axis cases first, then `atan (|Δy| / |Δx|)` placed
    in its quadrant), for every number type -/
theorem generated_bearing (s : State F) (fuel : Nat) (hs : s.ctl = .run) :
    let r := Gen.IL.vsAngle.run s fuel
    r.ctl = .ret ∧ r.fenv "ret0" =
      angF (s.fenv "event_x") (s.fenv "event_y") (Fl.lit (s.ienv "viewpoint_x") 1) (Fl.lit (s.ienv "viewpoint_y") 1) := by
  obtain ⟨h1, h2, _⟩ := vsAngle_refines s fuel hs
  exact ⟨h1, h2⟩

/-- due east is bearing 0, due north `π / 2` (rows grow downwards), whatever `atan` is -/
example [Trig ℚ] : angF (some 3 : NV ℚ) (some 1) (some 1) (some 1) = some 0 ∧
    angF (some 1 : NV ℚ) (some 0) (some 1) (some 1) = Fl.div piF (Fl.lit 2 1) := by
  constructor <;> simp [angF]

/-- **the vertical angle the generated `_get_vertical_ang` returns lies in [0, 180], 90 = level** (`vertical_angle_range` for
    the program translated statement by statement; its assertion does not fire at positive distance) -/
theorem generated_vertical_angle_range [Trig α] (H : TrigHyp α) (s : State (NV α)) (fuel : Nat) (hs : s.ctl = .run) (ve d2 e : α)
    (h1 : s.fenv "viewpoint_elev" = some ve) (h2 : s.fenv "distance_to_viewpoint" = some d2) (h3 : s.fenv "elev" = some e)
    (hd : 0 < d2) :
    let r := Gen.IL.vsVerticalAng.run s fuel
    r.ctl = .ret ∧ ∃ v, r.fenv "ret0" = some v ∧ 0 ≤ v ∧ v ≤ 180 ∧
      (e < ve → 0 < v ∧ v < 90) ∧ (e = ve → v = 90) ∧ (ve < e → 90 < v ∧ v < 180) := by
  obtain ⟨g1, _⟩ := vsVerticalAng_refines s fuel hs
  have hpos : Fl.lt (Fl.lit 0 1) (Fl.abs (s.fenv "distance_to_viewpoint")) = true := by
    rw [h2]; simp [abs_pos.mpr (ne_of_gt hd)]
  obtain ⟨c1, c2, _⟩ := g1 hpos
  obtain ⟨v, hv, rest⟩ := vertical_angle_range H ve d2 e hd
  refine ⟨c1, v, ?_, rest⟩
  rw [c2, h1, h2, h3, vangF_eq_vertAng ve d2 e hd, hv]

/-- **the generated `_init_event_list` writes the model's event list**: on a NaN-free `h × w` terrain `T` (read from `raster`)
    with the observer at `(vr, vc)`, the cell at linear position `p ≠ observer` -- the `cntBefore`-th non-observer cell in
    row-major order -- owns rows `3 · rank + t` of `event_list`, `t = 0, 1, 2` = ENTER, CENTER, EXIT, and they hold the model's
    `mkEvent` (row, column, type, entering-corner / centre / exiting-corner elevation; the bearing field is `_calculate_angle`
    of the model's event point); `data` holds the model's `dataRow`; the observer's cell of the visibility grid is 180 -/
theorem generated_event_list [Trig ℚ] (s : State (NV ℚ)) (fuel h w n vr vc : Nat) (wf : InitWf s h w n vr vc)
    (T : Int → Int → ℚ) (hT : terr (s.fa "raster") w = embT T) :
    let r := Gen.IL.vsInitEventList.run s fuel
    r.ctl = .ret ∧
    (∀ p, p < h * w → p ≠ vr * w + vc → ∀ t, t < 3 →
      let e := mkEvent T h w vr vc (p / w : Nat) (p % w : Nat) (tyOf t)
      ∀ k, k < 7 → (r.fa "event_list").getD ((3 * cntBefore (vr * w + vc) p + t) * 7 + k) none =
        ([some (e.row : ℚ), some (e.col : ℚ), some (e.ty : ℚ),
          angF (some ((e.x2 : ℚ) / 2)) (some ((e.y2 : ℚ) / 2)) (some (vc : ℚ)) (some (vr : ℚ)),
          some e.e0, some e.e1, some e.e2] : List (NV ℚ)).getD k none) ∧
    (∀ col, col < w → ∀ a b c, (dataRow T h w vr vc)[col]? = some (a, b, c) →
      (r.fa "data").getD col none = some a ∧ (r.fa "data").getD (w + col) none = some b ∧
        (r.fa "data").getD (2 * w + col) none = some c) ∧
    r.fa "visibility_grid" = (s.fa "visibility_grid").set (vr * w + vc) (some 180) := by
  obtain ⟨c1, c2, _, c4, _, c6, _⟩ := vsInitEventList_refines (litOK_NV (K := ℚ)) (halfOK_NV (K := ℚ)) s fuel h w n vr vc wf
  refine ⟨c1, ?_, ?_, ?_⟩
  · intro p hp hpo t ht e k hk
    have ht3 : tyOf t = 1 ∨ tyOf t = 0 ∨ tyOf t = -1 := by
      unfold tyOf; split <;> [skip; split] <;> simp
    have := c2 p hp hpo t ht k hk
    rw [hT, evRowF_model T h w vr vc _ _ _ ht3] at this
    exact this
  · intro col hcol a b c hrow
    obtain ⟨d1, d2, d3⟩ := c4 col hcol
    rw [hT] at d1 d2 d3
    simp only [dataRow, List.getElem?_map, List.getElem?_range hcol, Option.map_some, Option.some.injEq] at hrow
    by_cases hc : col = vc
    · subst hc
      simp only [dataTriple, if_true] at d1 d2 d3
      simp only [if_true, Prod.mk.injEq] at hrow
      obtain ⟨rfl, rfl, rfl⟩ := hrow
      exact ⟨d1, d2, d3⟩
    · have hc' : ¬ ((col : Int) = (vc : Int)) := by omega
      simp only [dataTriple, hc, if_false, cornerElevF_model] at d1 d2 d3
      simp only [hc', if_false, Prod.mk.injEq] at hrow
      obtain ⟨rfl, rfl, rfl⟩ := hrow
      exact ⟨d1, d2, d3⟩
  · rw [c6]; simp

/-- non-vacuity: a 1 × 2 terrain, the observer on the west cell: the only other cell yields rows 0, 1, 2 -/
example [Trig ℚ] :
    let s : State (NV ℚ) := ⟨fun _ => 0, fun _ => none, fun _ => false, fun _ => [],
      fun a => if a = "raster" then [some 1, some 2] else if a = "event_list" then List.replicate 21 (some 0)
        else if a = "data" then List.replicate 6 (some 0) else if a = "visibility_grid" then [some (-1), some (-1)] else [],
      fun a => if a = "raster" then [1, 2] else if a = "event_list" then [3, 7] else if a = "data" then [3, 2]
        else if a = "visibility_grid" then [1, 2] else [], fun _ _ _ _ _ _ => none, .run⟩
    InitWf s 1 2 3 0 0 ∧ terr (s.fa "raster") 2 = embT (fun r c => if r = 0 ∧ c = 0 then 1 else if r = 0 ∧ c = 1 then 2 else 0) →
    (Gen.IL.vsInitEventList.run s 0).fa "visibility_grid" = [some 180, some (-1)] := by
  intro s hh
  obtain ⟨_, _, _, h4⟩ := generated_event_list s 0 1 2 3 0 0 hh.1 _ hh.2
  rw [h4]; rfl

/-! #### the sweep (`Gen.IL.vsSweep`, `_viewshed_cpu_sweep`)

  The generated sweep is the template `sweepBody` around its four inlined status-tree routines (`vsSweep_is_template`, checked
  by `rfl`).  Proved about it: the set-up (`generated_sweep_setup`), one iteration of the initial fill, and one iteration of
  the event loop for each event type (`evBody_enter`, `evBody_exit`, `evBody_center` of Proofs/ILVsSweep*.lean) *in terms
  of the inlined tree routines as black boxes*: `InsContract`, `DelContract`, `QryContract` say of the inlined copy what the
  hand model says of the operation (`leafInsert` / `delCore` up to `Rebal`, the two-phase query) -- for the query that is
  exactly what `vsQuery_refines` proves of the stand-alone program `Gen.IL.vsQuery`.
  PARTIAL, see `generated_sweep_partial`: the contracts are hypotheses (no renaming lemma carries the stand-alone
  refinement theorems to the inlined copies; insertion and deletion are themselves only partially refined, section 7), and
  the two loops are not closed by induction (the idle-stack / fresh-row invariant and the event-order preconditions
  `sweep_discipline` supplies are per-iteration hypotheses). -/

/-- the generated sweep is the sweep template around its four inlined tree routines (any edit of `_viewshed_cpu_sweep` or of
    an inlined geometry function breaks this) -/
theorem generated_sweep_template :
    Gen.IL.vsSweep.body = sweepBody insFill insLoop delLoop qryLoop := vsSweep_is_template

/-- **the set-up of the generated sweep builds the model's initial status structure**: after it, `root = 0`, the two arrays
    hold a well-linked tree consisting of the permanent dummy root alone (`initTree`: key 0, gradients (-1, -1, S),
    bearings (S, S, 0), stored maximum S, black), the NIL row carries the sentinel, and the idle stack holds the rows
    `2 … N - 1` with `N - 2` on top of its height cell; the visibility grid, `data` and the event arrays are untouched -/
theorem generated_sweep_setup [Trig α] (s : State (NV α)) (fuel h w vc N : Nat) (hs : s.ctl = .run)
    (shR : s.shp "raster" = [h, w]) (hvc : s.ienv "vp_col" = vc) (hvcw : vc ≤ w) (hN : (w : Int) - vc + w * h + 10 = (N : Int)) :
    let r := exec fuel (ILVs.seqL sweepSetup) s
    r.ctl = .run ∧ r.ienv "root" = 0 ∧
      ILVs.Linked (r.ia "status_struct") N (-1) (.node .nil 0 .nil) ∧
      ILVs.absT (r.fa "status_values") (r.ia "status_struct") (.node .nil 0 .nil) =
        ILVs.mapT ILVs.emb (initTree (ILVs.smallestK : α) 0 (-1)) ∧
      ILVs.vAt (r.fa "status_values") (N - 1) 7 = ILVs.smallest ∧
      r.ia "idle" = idleInit N ∧ r.fa "visibility_grid" = s.fa "visibility_grid" ∧ r.fa "data" = s.fa "data" := by
  have hwh : (0 : Int) ≤ (w : Int) * h := by positivity
  have hN2 : 2 ≤ N := by omega
  have st := sweepSetup_exec s fuel h w vc N hs shR hvc hvcw hN
  obtain ⟨t1, t2, t3⟩ := setup_tree (F := NV α) N hN2
  refine ⟨st.ctl, st.root, ?_, ?_, ?_, st.idle, (st.keepF _ (by simp)).1, (st.keepF _ (by simp)).1⟩
  · rw [st.ss]; exact t1
  · rw [st.sv, st.ss, t2]
    simp [ILVs.mapT, initTree, dummy, dummyNodeF, ILVs.mapN, ILVs.emb, ILVs.smallest, ILVs.smallestK]
  · rw [st.sv]; exact t3


/-- non-vacuity: a 1 × 2 raster, the observer in column 0: fourteen rows, `root = 0` -/
example [Trig ℚ] :
    let s : State (NV ℚ) := ⟨fun _ => 0, fun _ => none, fun _ => false, fun _ => [], fun _ => [],
      fun a => if a = "raster" then [1, 2] else [], fun _ _ _ _ _ _ => none, .run⟩
    (exec 0 (ILVs.seqL sweepSetup) s).ienv "root" = 0 ∧ (exec 0 (ILVs.seqL sweepSetup) s).ia "idle" = idleInit 14 := by
  intro s
  obtain ⟨_, h2, _, _, _, h6, _⟩ := generated_sweep_setup (α := ℚ) s 0 1 2 0 14 rfl rfl rfl (by decide) (by decide)
  exact ⟨h2, h6⟩

/-- **a CENTER event of the generated sweep decides line of sight and writes the vertical angle** (over the contract of the
    inlined query): on arrays holding the image of a tree `t0` with ordered keys and no overestimate below the root, with
    the event's cell `(r, c)` active, the loop body writes `_get_vertical_ang` into `visibility_grid[r, c]` exactly when no
    nearer active cell spanning the event's bearing has a greater interpolated gradient -- `query_decides` for the program --
    and leaves the grid alone otherwise.  (`K`, `g`: the key and the centre gradient the program computes; their being
    numbers, the key positive and the vertical angle non-negative are hypotheses: `atan` / `sqrt` are uninterpreted.) -/
theorem generated_center_event [Trig α] (hq : QryContract (NV α) qryLoop qP) (ins del : St) (s : State (NV α))
    (fuel n h w ne : Nat) (sh : ILVs.Sh) (r c k : Nat) (inv : EvInv s ne k) (hv : SVS s n)
    (hL : ILVs.Linked (s.ia "status_struct") n (-1) sh) (hN : sh.idxs.Nodup) (hroot : s.ienv "root" = sh.ptr)
    (hS : ILVs.vAt (s.fa "status_values") (n - 1) 7 = ILVs.smallest) (shV : s.shp "visibility_grid" = [h, w])
    (hr0 : rctAt s k 0 = r) (hc0 : rctAt s k 1 = c) (hty : rctAt s k 2 = 0) (hr : r < h) (hc : c < w)
    (hfuel : sh.size + sh.height + 2 ≤ fuel)
    (t0 : Viewshed.Tree α) (habs : ILVs.absT (s.fa "status_values") (s.ia "status_struct") sh = ILVs.mapT ILVs.emb t0)
    (hb : BST t0) (haq : AugLeQ ILVs.smallestK t0) (K g a : α)
    (hkey : keyF (r : Int) (c : Int) (s.ienv "vp_row") (s.ienv "vp_col") (s.fenv "ew_res") (s.fenv "ns_res") = some K)
    (hg : gradCellF (r : Int) (c : Int) (Fl.add (aeAt s k 2) (s.fenv "vp_target")) (s.ienv "vp_row") (s.ienv "vp_col")
      (s.fenv "vp_elev") (s.fenv "ew_res") (s.fenv "ns_res") = some g)
    (ha : aeAt s k 0 = some a) (hSg : ILVs.smallestK ≤ g) (hKpos : 0 < K)
    (hact : ∃ m ∈ t0.toList, m.key = K) (hspan : ∀ m ∈ t0.toList, m.key < K → spans m a = true ∨ minv m ≤ g)
    (hge : Fl.le (Fl.lit 0 1) (vangF (s.fenv "vp_elev") (some K) (Fl.add (aeAt s k 2) (s.fenv "vp_target"))) = true) :
    let visible := ∀ m ∈ t0.toList, m.key < K → spans m a = true → itp m a ≤ g
    ∃ s' : State (NV α), exec fuel (evBody ins del qryLoop) s = s' ∧ s'.ctl = .run ∧ s'.ia = s.ia ∧
      s'.fa "status_values" = s.fa "status_values" ∧
      (visible → s'.fa "visibility_grid" = (s.fa "visibility_grid").set (r * w + c)
        (vangF (s.fenv "vp_elev") (some K) (Fl.add (aeAt s k 2) (s.fenv "vp_target")))) ∧
      (¬ visible → s'.fa "visibility_grid" = s.fa "visibility_grid") := by
  intro visible
  have hnf : ∀ nd ∈ ILVs.predsOf (ILVs.absT (s.fa "status_values") (s.ia "status_struct") sh) ⟨(some K : NV α)⟩,
      ¬ (⟨(some K : NV α)⟩ : ILVs.Fv (NV α)) < nd.key := by
    rw [habs]
    intro nd hnd
    change nd ∈ ILVs.predsOf (ILVs.mapT ILVs.emb t0) (ILVs.emb K) at hnd
    rw [ILVs.predsOf_emb, ILVs.predsOf_eq_filter hb] at hnd
    obtain ⟨m, hm, rfl⟩ := List.mem_map.mp hnd
    rw [List.mem_reverse, List.mem_filter] at hm
    have : m.key < K := by simpa using hm.2
    show ¬ (ILVs.emb K < ILVs.emb m.key)
    rw [ILVs.emb_lt]
    exact not_lt.mpr (le_of_lt this)
  have hpos : Fl.lt (Fl.lit 0 1) (Fl.abs (some K : NV α)) = true := by simp [abs_pos.mpr (ne_of_gt hKpos)]
  obtain ⟨ie', fe', be', hex, _, _⟩ := evBody_center hq ins del s fuel n h w ne sh r c k inv hv hL hN hroot hS shV hr0 hc0 hty hr hc
    hfuel (by rw [hkey]; exact hnf) (by rw [hkey]; exact hpos) (by rw [hkey]; exact hge)
  rw [hkey, hg, ha, habs] at hex
  have hq' : (ILVs.queryP ILVs.smallest (ILVs.mapT ILVs.emb t0) ⟨(some K : NV α)⟩ ⟨some a⟩ ⟨some g⟩).v =
      some (query ILVs.smallestK t0 K a g) := by
    change (ILVs.queryP (ILVs.emb ILVs.smallestK) (ILVs.mapT ILVs.emb t0) (ILVs.emb K) (ILVs.emb a) (ILVs.emb g)).v = _
    rw [ILVs.queryP_emb, ILVs.queryP_eq_query hb]
    rfl
  rw [hq'] at hex
  have hdec := query_decides K a g hSg hb haq hact hspan
  refine ⟨_, hex, rfl, rfl, by simp [setS_apply], ?_, ?_⟩
  · intro hvis
    have : query ILVs.smallestK t0 K a g ≤ g := hdec.mpr hvis
    simp [setS_apply, this]
  · intro hvis
    have : ¬ query ILVs.smallestK t0 K a g ≤ g := fun hle => hvis (hdec.mp hle)
    simp [setS_apply, this]

/-- **the contract of the inlined `_max_grad_in_status_struct` holds** (for every number type): the copy inside the generated
    sweep is the stand-alone `Gen.IL.vsQuery` renamed (`qryLoop_is_renaming`), so `vsQuery_refines` applies to it
    (`exec_ren`, `exec_renA`), and it writes no array and no scalar outside its prefix (`exec_frame`) -/
theorem generated_query_contract {F : Type} [Fl F] : QryContract F qryLoop qP := qryContract

/-- **the four inlined status-tree routines of the generated sweep are the stand-alone programs renamed**: scalars by a
    duplicate-checked table (the routine's prefix, inline counters shifted), the array parameters replaced by the sweep's
    arrays (`tree_vals ↦ status_values`, `tree_nodes ↦ status_struct`, `value ↦ status_node`) -/
theorem generated_tree_routines_are_renamings :
    ILVs.renAS (ILVs.swapT arrTbl) (ILVs.renS (ILVs.swapT qryTbl) Gen.IL.vsQuery.body) = qryLoop ∧
    ILVs.renAS (ILVs.swapT arrTbl) (ILVs.renS (ILVs.swapT insFillTbl) Gen.IL.vsInsert.body) = insFill ∧
    ILVs.renAS (ILVs.swapT arrTbl) (ILVs.renS (ILVs.swapT insLoopTbl) Gen.IL.vsInsert.body) = insLoop ∧
    ILVs.renAS (ILVs.swapT arrTbl) (ILVs.renS (ILVs.swapT delTbl) Gen.IL.vsDelete.body) = delLoop :=
  ⟨qryLoop_is_renaming, insFill_is_renaming, insLoop_is_renaming, delLoop_is_renaming⟩

/-- non-vacuity of the query contract: the status structure right after the set-up (the dummy root alone, row 1 = NIL) -- the
    inlined query at key 1 runs to its end inside the sweep's state and changes no array -/
example [Trig ℚ] :
    let s : State (NV ℚ) := { State.empty with
      fa := fun a => if a = "status_values" then
        ([0, -1, -1, -10000000000000000000000, -10000000000000000000000, -10000000000000000000000, 0, -10000000000000000000000,
          0, 0, 0, 0, 0, 0, 0, -10000000000000000000000] : List ℚ).map some else [],
      ia := fun a => if a = "status_struct" then [1, -1, -1, -1,  1, -1, -1, -1] else [],
      shp := fun a => if a = "status_values" then [2, 8] else if a = "status_struct" then [2, 4] else [],
      ienv := fun _ => 0,
      fenv := fun v => if v = "_max_grad_in_status_struct101$distance" then some 1 else some 0 }
    (exec 5 (.scope qryLoop) s).ctl = .run ∧ (exec 5 (.scope qryLoop) s).fa = s.fa := by
  intro s
  have hL : ILVs.Linked (s.ia "status_struct") 2 (-1) (.node .nil 0 .nil) := by
    simp [s, ILVs.Linked, ILVs.nAt, ILVs.Sh.ptr]
  obtain ⟨ie, fe, be, h, _⟩ := generated_query_contract (F := NV ℚ) s 5 2 (.node .nil 0 .nil) rfl
    ⟨rfl, rfl, rfl, rfl, by decide⟩ hL (by decide) rfl (by simp [s, ILVs.vAt, ILVs.smallest])
    (by
      intro nd hnd
      simp [s, ILVs.predsOf, ILVs.absT, ILVs.nodeAt, ILVs.vAt, qP, ILVs.fv_lt, Viewshed.Tree.toList] at hnd ⊢
      rw [hnd]
      simp [ILVs.fv_lt])
    (by decide)
  rw [h]
  exact ⟨rfl, rfl⟩

/-- **the sweep by induction over the event list -- what is missing** (PARTIAL): the iteration theorems compose into "the
    generated sweep is the model's sweep `runT` over `sweepOps`" once (i) the two remaining contracts `InsContract` (for
    `insFill`, `insLoop`) and `DelContract` (for `delLoop`) are discharged the way `generated_query_contract` discharges
    `QryContract`: the copies ARE renamings of `Gen.IL.vsInsert.body` / `Gen.IL.vsDelete.body`
    (`generated_tree_routines_are_renamings`); still to do: the duplicate check of their three tables (`TblOK`, as
    `qryTbl_ok`), and the model-level step from `vsInsert_refines` (`rbInsertC`) / `vsDelete_refines` (`delPassArr` +
    `rbDelFix`) to `Rebal (leafInsert …)` / `Rebal (delCore …)` for every number type, with the colour invariants as
    preconditions (root black before insert; NIL colour cell 1 and all colour cells 0/1 before delete -- `vsInsert_refines`
    does not restate the latter, so it must be strengthened for the two to chain), (ii) the idle-stack invariant (the rows
    above the stack height are exactly the rows not in the tree) is carried through the two loops, (iii)
    `sweep_discipline` is used to discharge "the key is in the tree" at EXIT / CENTER and "the key is not" at ENTER, and the
    three run-time assertions stay hypotheses.  What IS established unconditionally: the code around the tree routines, the
    query contract, and that all four copies are renamings. -/
theorem generated_sweep_partial :
    Gen.IL.vsSweep.body = ILVs.seqK sweepSetup
      (.seq (fillLoop insFill) (.seq (.setI "nevents" (.dim "event_rcts" 0)) (.seq (evLoop insLoop delLoop qryLoop) .ret))) :=
  vsSweep_is_template

end GeneratedEvents

end XrsVerif.C05
