import XrsVerif.Proofs.HaloNV
import XrsVerif.Core.HaloIter
import XrsVerif.Core.Dataflow
import XrsVerif.Model.Index
import XrsVerif.Gen.Overlap
import XrsVerif.Gen.Blocks
import XrsVerif.Gen.Reductions
import XrsVerif.Gen.Focal
import XrsVerif.Gen.Effects
import XrsVerif.Gen.GraphKeys
import XrsVerif.Proofs.GraphKeys
import XrsVerif.Proofs.Effects
import Mathlib.Algebra.Order.Field.Rat
/-
  C01 -- Dask-backed rasters give the NumPy result for every chunking and scheduler.

  Model: `Core/Halo.lean` (`mapOverlap`, `mapBlocks` = what dask does with the block function, for
  *any* row/column chunk lists), the kernels generated from source (`Gen/Kernels.lean`) run as block
  functions (`Kernel.runG`), and the facts generated from the Dask code paths (`Gen/Overlap.lean`,
  `Gen/Blocks.lean`, `Gen/Reductions.lean`, `Gen/Indices.lean`): depth, boundary, which function
  is mapped, where reductions are taken, eager calls.

  Statements are over `NV K` (NaN or an element of any ordered field), so "bit-identical" reads
  "the same expression tree on the same window"; rounding of re-ordered global mean/std is outside
  (the property grants it).  Scheduler independence: `Core/Dataflow.lean` (`schedule_independent`) for
  graphs of *pure* tasks; that every function this library hands to dask *is* pure -- writes no shared
  state, reads none that anybody writes -- is decided on the generated effect summaries
  (`Gen/Effects.lean`, section 6: `all_block_functions_pure`).  `DF.Graph` numbers its tasks, i.e. it assumes that
  different tasks have different keys; a dask graph is a dictionary, and several lazy results evaluated together are
  evaluated in the merge of their dictionaries.  Section 6b makes that assumption explicit (`Proofs/GraphKeys.lean`)
  and discharges the library's share of it from generated facts: no call site names the key of the layer it creates
  (`no_call_site_names_its_graph_key`), so key uniqueness is dask's own tokenisation of function and arguments.
-/
set_option linter.unusedSectionVars false
set_option linter.unusedVariables false
namespace XrsVerif.C01
open XrsVerif XrsVerif.Gen

variable {K : Type} [Field K] [LinearOrder K] [IsStrictOrderedRing K] [Trig K]

/-! ## 1. the halo theorem: any window-local operation, any chunking -/

/-- For every block function that is a stencil of a window-local cell function, every halo depth
    covering its radius and loop margins, every raster and **every pair of chunk lists that sum to
    the raster's extent** (1-cell chunks, chunks smaller than the kernel, non-square kernels: no
    side condition), the reassembled Dask result is the cell function on the `fill`-padded global
    window. -/
theorem halo_any_chunking {α β : Type} (fill : α) (dflt : β) (dr dc mr mc : Nat)
    (k : (Int → Int → α) → β) (f : Grid α → Grid β)
    (hk : WindowLocal dr dc k) (hf : IsStencil mr mc k f) (hmr : mr ≤ dr) (hmc : mc ≤ dc)
    (rch cch : List Nat) (g : Grid α) (hrs : rch.sum = g.h) (hcs : cch.sum = g.w)
    (i j : Int) (hi : 0 ≤ i) (hi' : i < g.h) (hj : 0 ≤ j) (hj' : j < g.w) :
    (mapOverlap fill dflt dr dc f rch cch g).cell i j = spec fill k g i j :=
  mapOverlap_eq_spec_of_valid fill dflt dr dc mr mc k f hk hf hmr hmc rch cch g hrs hcs i j hi hi' hj hj'

/-- hence two chunkings of the same raster agree cell for cell -/
theorem chunking_irrelevant {α β : Type} (fill : α) (dflt : β) (dr dc mr mc : Nat)
    (k : (Int → Int → α) → β) (f : Grid α → Grid β)
    (hk : WindowLocal dr dc k) (hf : IsStencil mr mc k f) (hmr : mr ≤ dr) (hmc : mc ≤ dc)
    (rch cch rch' cch' : List Nat) (g : Grid α)
    (hrs : rch.sum = g.h) (hcs : cch.sum = g.w) (hrs' : rch'.sum = g.h) (hcs' : cch'.sum = g.w)
    (i j : Int) (hi : 0 ≤ i) (hi' : i < g.h) (hj : 0 ≤ j) (hj' : j < g.w) :
    (mapOverlap fill dflt dr dc f rch cch g).cell i j = (mapOverlap fill dflt dr dc f rch' cch' g).cell i j :=
  chunk_independent fill dflt dr dc mr mc k f hk hf hmr hmc rch cch rch' cch' g hrs hcs hrs' hcs' i j hi hi' hj hj'

/-! ## 2. slope / aspect / curvature: Dask = NumPy at every cell incl. the NaN border -/

theorem slope_edge_strict : EdgeStrict K slope_cpu := by
  intro env vec rd h
  rcases h with h | h | h | h <;> ksimp [slope_cpu, h]

theorem aspect_edge_strict : EdgeStrict K aspect_cpu := by
  intro env vec rd h
  rcases h with h | h | h | h <;> ksimp [aspect_cpu, h]

theorem curvature_edge_strict : EdgeStrict K curvature_cpu := by
  intro env vec rd h
  rcases h with h | h | h | h <;> ksimp [curvature_cpu, h]

/-- the generated Dask wiring of the three kernels: one `map_overlap` (outside any loop), NaN boundary,
    depth ≥ 1, same kernel on blocks and on the whole raster, nothing eager -/
theorem stencil_wiring_ok :
    [slope_overlap, aspect_overlap, curvature_overlap, hillshade_overlap, mean_overlap].all (fun f =>
      f.ok && f.once && f.boundaryNaN && decide (1 ≤ (f.depth 3 3).1) && decide (1 ≤ (f.depth 3 3).2) &&
      (f.blockFunc == f.numpyFunc || f.numpyCalls.contains f.blockFunc) && f.eager.isEmpty) = true := by
  decide

theorem slope_dask_eq_numpy (env : String → NV K) (vec : String → List (NV K)) (dflt : NV K)
    (rch cch : List Nat) (g : Grid (String → NV K)) (hrs : rch.sum = g.h) (hcs : cch.sum = g.w)
    (i j : Int) (hi : 0 ≤ i) (hi' : i < g.h) (hj : 0 ≤ j) (hj' : j < g.w) :
    (mapOverlap nanFill dflt (slope_overlap.depth 3 3).1 (slope_overlap.depth 3 3).2
        (slope_cpu.runG env vec) rch cch g).cell i j = (slope_cpu.runG env vec g).cell i j :=
  Kernel.stencil1_dask_eq_numpy slope_cpu (by decide) (by decide) (by decide) (by decide) (by decide)
    (by decide) slope_edge_strict _ _ (by decide) (by decide) env vec dflt rch cch g hrs hcs i j hi hi' hj hj'

theorem aspect_dask_eq_numpy (env : String → NV K) (vec : String → List (NV K)) (dflt : NV K)
    (rch cch : List Nat) (g : Grid (String → NV K)) (hrs : rch.sum = g.h) (hcs : cch.sum = g.w)
    (i j : Int) (hi : 0 ≤ i) (hi' : i < g.h) (hj : 0 ≤ j) (hj' : j < g.w) :
    (mapOverlap nanFill dflt (aspect_overlap.depth 3 3).1 (aspect_overlap.depth 3 3).2
        (aspect_cpu.runG env vec) rch cch g).cell i j = (aspect_cpu.runG env vec g).cell i j :=
  Kernel.stencil1_dask_eq_numpy aspect_cpu (by decide) (by decide) (by decide) (by decide) (by decide)
    (by decide) aspect_edge_strict _ _ (by decide) (by decide) env vec dflt rch cch g hrs hcs i j hi hi' hj hj'

theorem curvature_dask_eq_numpy (env : String → NV K) (vec : String → List (NV K)) (dflt : NV K)
    (rch cch : List Nat) (g : Grid (String → NV K)) (hrs : rch.sum = g.h) (hcs : cch.sum = g.w)
    (i j : Int) (hi : 0 ≤ i) (hi' : i < g.h) (hj : 0 ≤ j) (hj' : j < g.w) :
    (mapOverlap nanFill dflt (curvature_overlap.depth 3 3).1 (curvature_overlap.depth 3 3).2
        (curvature_cpu.runG env vec) rch cch g).cell i j = (curvature_cpu.runG env vec g).cell i j :=
  Kernel.stencil1_dask_eq_numpy curvature_cpu (by decide) (by decide) (by decide) (by decide) (by decide)
    (by decide) curvature_edge_strict _ _ (by decide) (by decide) env vec dflt rch cch g hrs hcs i j hi hi' hj hj'

/-! ## 3. kernel-shaped operations (focal apply / focal_stats, convolution_2d, hotspots):
       the halo depth read from the Dask path covers the window half-widths read from the NumPy
       function, for **every** kernel shape (a swapped `(pad_w, pad_h)` makes this false) -/

theorem apply_depth_covers_radius (kr kc : Nat) :
    (apply_radius kr kc).1 ≤ (apply_overlap.depth kr kc).1 ∧ (apply_radius kr kc).2 ≤ (apply_overlap.depth kr kc).2 := by
  simp [apply_radius, apply_overlap]

theorem convolve_depth_covers_radius (kr kc : Nat) :
    (convolve_radius kr kc).1 ≤ (convolve_overlap.depth kr kc).1 ∧
    (convolve_radius kr kc).2 ≤ (convolve_overlap.depth kr kc).2 := by
  simp [convolve_radius, convolve_overlap]

theorem kernel_shaped_wiring_ok :
    [apply_overlap, convolve_overlap, hotspots_overlap].all (fun f =>
      f.ok && f.once && f.boundaryNaN && (f.blockFunc == f.numpyFunc || f.numpyCalls.contains f.blockFunc)
        && f.eager.isEmpty) = true := by
  decide

/-- any operation whose NumPy function is a stencil of a cell function with the half-widths of
    `_apply_numpy` gives, under the generated Dask wiring, that cell function on the NaN-padded
    global window -- for every kernel shape (non-square included) and every chunking -/
theorem apply_dask_eq_spec {α β : Type} (fill : α) (dflt : β) (kr kc : Nat)
    (k : (Int → Int → α) → β) (f : Grid α → Grid β)
    (hk : WindowLocal (apply_radius kr kc).1 (apply_radius kr kc).2 k)
    (hf : IsStencil 0 0 k f)
    (rch cch : List Nat) (g : Grid α) (hrs : rch.sum = g.h) (hcs : cch.sum = g.w)
    (i j : Int) (hi : 0 ≤ i) (hi' : i < g.h) (hj : 0 ≤ j) (hj' : j < g.w) :
    (mapOverlap fill dflt (apply_overlap.depth kr kc).1 (apply_overlap.depth kr kc).2 f rch cch g).cell i j =
      spec fill k g i j :=
  halo_any_chunking fill dflt _ _ 0 0 k f
    (hk.mono (apply_depth_covers_radius kr kc).1 (apply_depth_covers_radius kr kc).2) hf
    (Nat.zero_le _) (Nat.zero_le _) rch cch g hrs hcs i j hi hi' hj hj'

/-- convolution: the NumPy loop skips a margin equal to the half-widths (NaN there); the Dask depth
    covers both radius and margin -/
theorem convolve_dask_eq_spec {α β : Type} (fill : α) (dflt : β) (kr kc : Nat)
    (k : (Int → Int → α) → β) (f : Grid α → Grid β)
    (hk : WindowLocal (convolve_radius kr kc).1 (convolve_radius kr kc).2 k)
    (hf : IsStencil (convolve_radius kr kc).1 (convolve_radius kr kc).2 k f)
    (rch cch : List Nat) (g : Grid α) (hrs : rch.sum = g.h) (hcs : cch.sum = g.w)
    (i j : Int) (hi : 0 ≤ i) (hi' : i < g.h) (hj : 0 ≤ j) (hj' : j < g.w) :
    (mapOverlap fill dflt (convolve_overlap.depth kr kc).1 (convolve_overlap.depth kr kc).2 f rch cch g).cell i j =
      spec fill k g i j :=
  halo_any_chunking fill dflt _ _ _ _ k f
    (hk.mono (convolve_depth_covers_radius kr kc).1 (convolve_depth_covers_radius kr kc).2) hf
    (convolve_depth_covers_radius kr kc).1 (convolve_depth_covers_radius kr kc).2
    rch cch g hrs hcs i j hi hi' hj hj'

/-! ### focal `mean` with `passes`

  `mean(agg, passes)` can reach dask in two shapes: `passes` successive `map_overlap`s of the one-pass
  kernel (`passesChunked`: every pass gets a fresh halo of the previous pass's *result*), or one
  `map_overlap` whose block function runs all the passes on its block (`passesFused`).  Which one the
  code has is read from the source on every run:
    * `Gen.Focal.mean_iterates_passes` / `mean_passes_fact.loopInPublic` -- the `for _ in range(passes)`
      loop is in `mean()` and feeds `_mean`'s result back;
    * `mean_passes_fact.dispatchOnce` -- `_mean` calls the backend function once per call, no loop;
    * `mean_overlap.once`, `mean_overlap.blockFunc == mean_overlap.numpyFunc` -- the Dask backend function
      holds exactly one `map_overlap` and what it maps is the one-pass kernel itself, not a wrapper. -/

/-- "the passes loop is outside `map_overlap`" -- all generated -/
def meanPassesOutside : Bool :=
  Focal.mean_iterates_passes && mean_passes_fact.loopInPublic && mean_passes_fact.dispatchOnce &&
    mean_overlap.ok && mean_overlap.once && (mean_overlap.blockFunc == mean_overlap.numpyFunc)

/-- the Dask path of `focal.mean(agg, passes)` for a one-pass block function `f`, as the generated
    facts describe it -/
def meanDask {α : Type} (fill dflt : α) (f : Grid α → Grid α) (rch cch : List Nat) (passes : Nat)
    (g : Grid α) : Grid α :=
  if meanPassesOutside then
    passesChunked fill dflt (mean_overlap.depth 3 3).1 (mean_overlap.depth 3 3).2 f rch cch passes g
  else
    passesFused fill dflt (mean_overlap.depth 3 3).1 (mean_overlap.depth 3 3).2 f rch cch passes g

theorem mean_passes_outside_overlap : meanPassesOutside = true := by decide

/-- **multi-pass mean, every chunking**: for any 3x3 cell function `k` (radius 1) and any block function
    `f` that computes `k` wherever the whole 3x3 window lies inside the block (`IsStencil 1 1`: what
    `_mean_numpy`, which clips its window at the *block* edge, does), `passes` iterations of
    (map_overlap depth 1 ∘ one-pass kernel) equal `passes` iterations of the whole-raster one-pass
    specification -- for **any number of passes** and every chunking (1-cell chunks included).
    Proof: the halo theorem, iterated (`passes_eq_spec`). -/
theorem mean_dask_passes {α : Type} (fill dflt : α) (k : (Int → Int → α) → α) (f : Grid α → Grid α)
    (hk : WindowLocal 1 1 k) (hf : IsStencil 1 1 k f)
    (rch cch : List Nat) (g : Grid α) (hrs : rch.sum = g.h) (hcs : cch.sum = g.w) (passes : Nat) :
    (meanDask fill dflt f rch cch passes g).EqOn (passesSpec fill k passes g) := by
  simp only [meanDask, mean_passes_outside_overlap, if_true]
  exact passes_eq_spec fill dflt _ _ 1 1 k f (hk.mono (by decide) (by decide)) hf (by decide) (by decide)
    rch cch g hrs hcs passes

/-- hence the result after `passes` passes does not depend on the chunking -/
theorem mean_passes_chunking_irrelevant {α : Type} (fill dflt : α) (k : (Int → Int → α) → α) (f : Grid α → Grid α)
    (hk : WindowLocal 1 1 k) (hf : IsStencil 1 1 k f)
    (rch cch rch' cch' : List Nat) (g : Grid α) (hrs : rch.sum = g.h) (hcs : cch.sum = g.w)
    (hrs' : rch'.sum = g.h) (hcs' : cch'.sum = g.w) (passes : Nat)
    (i j : Int) (hi : 0 ≤ i) (hi' : i < g.h) (hj : 0 ≤ j) (hj' : j < g.w) :
    (meanDask fill dflt f rch cch passes g).cell i j = (meanDask fill dflt f rch' cch' passes g).cell i j := by
  have h1 := mean_dask_passes fill dflt k f hk hf rch cch g hrs hcs passes
  have h2 := mean_dask_passes fill dflt k f hk hf rch' cch' g hrs' hcs' passes
  have e1 := h1.2.2 i j hi (by rw [h1.1, (passesSpec_dims fill k passes g).1]; exact hi') hj
    (by rw [h1.2.1, (passesSpec_dims fill k passes g).2]; exact hj')
  have e2 := h2.2.2 i j hi (by rw [h2.1, (passesSpec_dims fill k passes g).1]; exact hi') hj
    (by rw [h2.2.1, (passesSpec_dims fill k passes g).2]; exact hj')
  rw [e1, e2]

/-! ## 4. per-cell operations mapped over blocks: spectral indices, binary, hotspots classes,
       true_color bands -- `map_blocks` over any chunking is the kernel on the whole raster -/

/-- every generated per-cell kernel reads only offset (0,0) and has no loop margin -/
theorem percell_kernels_ok :
    ([arvi_cpu, evi_cpu, gci_cpu, normalized_ratio_cpu, savi_cpu, sipi_cpu, ebbi_cpu,
      normalize_data_cpu, binary_cpu, hotspots_cpu, true_color_alpha_numpy, true_color_alpha_dask].all fun k =>
      readsWithin k.body.reads 0 0 && k.top == 0 && k.bottom == 0 && k.left == 0 && k.right == 0) = true := by
  decide

theorem percell_dask_eq_numpy {F : Type} [Fl F] (k : Kernel)
    (hok : (readsWithin k.body.reads 0 0 && k.top == 0 && k.bottom == 0 && k.left == 0 && k.right == 0) = true)
    (env : String → F) (vec : String → List F) (fill : String → F) (dflt : F)
    (rch cch : List Nat) (g : Grid (String → F)) (hrs : rch.sum = g.h) (hcs : cch.sum = g.w)
    (i j : Int) (hi : 0 ≤ i) (hi' : i < g.h) (hj : 0 ≤ j) (hj' : j < g.w) :
    (mapBlocks fill dflt (k.runG env vec) rch cch g).cell i j = (k.runG env vec g).cell i j := by
  simp only [Bool.and_eq_true, beq_iff_eq] at hok
  exact Kernel.mapBlocks_eq_numpy k env vec hok.1.1.1.1 hok.1.1.1.2 hok.1.1.2 hok.1.2 hok.2
    fill dflt rch cch g hrs hcs i j hi hi' hj hj'

/-- every spectral index: the Dask wrapper maps the *same* kernel with the same argument order, and
    that kernel is per-cell -/
theorem indices_dask_wiring_ok :
    allIndexWirings.all (fun w => w.daskSameKernel && readsWithin w.kernel.body.reads 0 0 &&
      w.kernel.top == 0 && w.kernel.bottom == 0 && w.kernel.left == 0 && w.kernel.right == 0) = true := by
  decide

/-- binary / reclassify (`_bin`) / true_color normalisation / perlin / terrain noise layers: the
    block function is the function NumPy runs (or one it calls), mapped without overlap, lazily -/
theorem blocks_wiring_ok :
    allBlocksFacts.all (fun f => f.ok && f.depthless &&
      (f.blockFunc == f.numpyFunc || f.numpyReaches.contains f.blockFunc) && f.eager.isEmpty) = true := by
  decide

/-! ## 5. global reductions are taken over the whole raster, outside the block function, and
       combining per-block partial results gives the whole-raster value -/

theorem reductions_are_global :
    allReductionFacts.all (fun f => f.ok && f.blockReductions.isEmpty && !f.globalReductions.isEmpty) = true := by
  decide

/-- NaN-skipping maximum (`nanmax`): `none` = no valid value yet -/
def nmax : NV K → NV K → NV K
  | none, b => b
  | a, none => a
  | some a, some b => some (max a b)

def nmin : NV K → NV K → NV K
  | none, b => b
  | a, none => a
  | some a, some b => some (min a b)

theorem nmax_assoc (a b c : NV K) : nmax (nmax a b) c = nmax a (nmax b c) := by
  cases a <;> cases b <;> cases c <;> simp [nmax, max_assoc]

theorem nmin_assoc (a b c : NV K) : nmin (nmin a b) c = nmin a (nmin b c) := by
  cases a <;> cases b <;> cases c <;> simp [nmin, min_assoc]

/-- folding an associative operation with identity `e`: the accumulator can be split off -/
theorem foldl_split {α : Type} (op : α → α → α) (hassoc : ∀ a b c, op (op a b) c = op a (op b c))
    (e : α) (hl : ∀ a, op e a = a) (hr : ∀ a, op a e = a) (a : α) (l : List α) :
    l.foldl op a = op a (l.foldl op e) := by
  induction l generalizing a with
  | nil => simp [hr]
  | cons x xs ih =>
    simp only [List.foldl_cons]
    rw [ih (op a x), hl x, ih x, hassoc]

/-- **partition invariance**: reducing every block and then combining the partial results equals
    reducing the whole raster, for every split of the cells into blocks (any number, any sizes,
    empty blocks included) -/
theorem reduce_blocks_eq_global {α : Type} (op : α → α → α)
    (hassoc : ∀ a b c, op (op a b) c = op a (op b c))
    (e : α) (hl : ∀ a, op e a = a) (hr : ∀ a, op a e = a) (blocks : List (List α)) :
    (blocks.map (fun b => b.foldl op e)).foldl op e = blocks.flatten.foldl op e := by
  induction blocks with
  | nil => rfl
  | cons b bs ih =>
    simp only [List.map_cons, List.foldl_cons, List.flatten_cons, List.foldl_append]
    rw [hl, foldl_split op hassoc e hl hr (b.foldl op e) _, ih,
        foldl_split op hassoc e hl hr (b.foldl op e) bs.flatten]

/-- `nanmax` / `nanmin` of the raster from per-block `nanmax` / `nanmin` (true_color, equal_interval) -/
theorem nanmax_blocks (blocks : List (List (NV K))) :
    (blocks.map (fun b => b.foldl nmax none)).foldl nmax none = blocks.flatten.foldl nmax none :=
  reduce_blocks_eq_global nmax nmax_assoc none (by intro a; cases a <;> rfl) (by intro a; cases a <;> rfl) blocks

theorem nanmin_blocks (blocks : List (List (NV K))) :
    (blocks.map (fun b => b.foldl nmin none)).foldl nmin none = blocks.flatten.foldl nmin none :=
  reduce_blocks_eq_global nmin nmin_assoc none (by intro a; cases a <;> rfl) (by intro a; cases a <;> rfl) blocks

/-- sums (hence counts, sums of squares, and mean / std built from them) over exact numbers -/
theorem sum_blocks (blocks : List (List K)) :
    (blocks.map (fun b => b.foldl (· + ·) 0)).foldl (· + ·) 0 = blocks.flatten.foldl (· + ·) 0 :=
  reduce_blocks_eq_global (· + ·) add_assoc 0 zero_add add_zero blocks

/-! ## 6. every scheduler and worker count

  A Dask computation is a graph of pure tasks (block functions on halo blocks, reductions,
  reassembly).  `DF.run g sched` executes an arbitrary *schedule*: any sequence of batches, a batch
  being the tasks that the workers start in the same tick (1 worker = singleton batches; threads x N
  = batches of up to N; any order that respects readiness).  Whatever the schedule, a task that gets
  computed gets its denotation -- so two runs under different schedulers / worker counts agree on
  every block they both produce, and two complete runs produce the same raster. -/

open XrsVerif.Effects in
/-- a function handed to dask is *pure* when its generated effect summary writes no shared cell at all
    (`confined []`: no `np.random.seed`, no draw from the global RNG, no mutation of a module table or
    of a mutable default) and reads only cells nobody in the library writes (`noStale volatile []`:
    a constant such as `aspect.RADIAN` is fine, the global RNG is not) -/
def taskPure (σ : Effects.Summary) : Bool :=
  confined [] σ.prog && noStale Gen.volatile [] σ.prog

/-- the block functions of this property's operations, by qualified name: the `map_overlap` sites, the
    `map_blocks` sites, the spectral-index kernels -/
def blockFunctions : List String :=
  allOverlapFacts.map (·.blockQual) ++ allBlocksFacts.map (·.blockQual) ++ allIndexWirings.map (·.kernel.name)

/-- **purity of everything handed to dask** (generated, re-decided on every run): every block function
    above has an effect summary among `Gen.taskSummaries` (so it was resolved to a function of /repo:
    not a lambda, not a wrapper defined on the spot), every task function of the library is pure, and
    no task expression of these modules is left unresolved.  A block function that seeds / draws from
    the process-global RNG (a permutation table built inside the task) makes this false. -/
theorem all_block_functions_pure :
    (blockFunctions.all fun n => Gen.taskSummaries.any fun σ => σ.name == n) = true ∧
    Gen.taskSummaries.all taskPure = true := by
  constructor <;> decide +kernel

open XrsVerif.Effects in
/-- what purity buys: run every task `i` of a graph as the library function `σ i` (any of the generated
    task summaries), against whatever state `hist i` the process-global cells are in when a worker
    thread picks the task up -- any sequence of library calls (other tasks, other public calls: they
    may write the volatile cells) completed before.  Two executions under different schedules,
    worker counts and interleavings agree on every value they compute. -/
theorem pure_tasks_any_schedule {V R : Type} [Inhabited V] (cells : Cell → V)
    (deps : Nat → List Nat) (deps_lt : ∀ i j, j ∈ deps i → j < i)
    (σ : Nat → Summary) (hσ : ∀ i, σ i ∈ Gen.taskSummaries)
    (sem : Nat → Sem (String → V) V R) (args : Nat → List R → String → V)
    (hist₁ hist₂ : Nat → List (Call (String → V) V R))
    (hh₁ : ∀ i, ∀ p ∈ hist₁ i, confined Gen.volatile p.prog = true)
    (hh₂ : ∀ i, ∀ p ∈ hist₂ i, confined Gen.volatile p.prog = true)
    (s₁ s₂ : List (List Nat)) (i : Nat) (v w : R)
    (h₁ : DF.run ⟨deps, fun i ins => (step (runHist (Lib.fresh cells) (hist₁ i)) ((σ i).call (sem i) (args i ins))).2,
            deps_lt⟩ s₁ (fun _ => none) i = some v)
    (h₂ : DF.run ⟨deps, fun i ins => (step (runHist (Lib.fresh cells) (hist₂ i)) ((σ i).call (sem i) (args i ins))).2,
            deps_lt⟩ s₂ (fun _ => none) i = some w) : v = w := by
  have hp : ∀ i, noStale Gen.volatile [] (σ i).prog = true := by
    intro i
    have := (List.all_eq_true.mp all_block_functions_pure.2) (σ i) (hσ i)
    simp only [taskPure, Bool.and_eq_true] at this
    exact this.2
  have e : (fun i ins => (step (runHist (Lib.fresh cells) (hist₁ i)) ((σ i).call (sem i) (args i ins))).2) =
      (fun i ins => (step (runHist (Lib.fresh cells) (hist₂ i)) ((σ i).call (sem i) (args i ins))).2) := by
    funext i ins
    exact step_result_eq Gen.volatile cells _ _ _ (hp i)
      (runHist_inv Gen.volatile cells (hist₁ i) _ (hh₁ i) (fresh_inv Gen.volatile cells))
      (runHist_inv Gen.volatile cells (hist₂ i) _ (hh₂ i) (fresh_inv Gen.volatile cells))
  rw [e] at h₁
  exact DF.schedule_independent _ s₁ s₂ i v w h₁ h₂

theorem any_schedule_same_result {V : Type} (g : DF.Graph V) (s1 s2 : List (List Nat)) (i : Nat) (v w : V)
    (h1 : DF.run g s1 (fun _ => none) i = some v) (h2 : DF.run g s2 (fun _ => none) i = some w) : v = w :=
  DF.schedule_independent g s1 s2 i v w h1 h2

/-- and that value is the task's denotation, which does not mention the schedule at all -/
theorem scheduled_value_is_denotation {V : Type} (g : DF.Graph V) (s : List (List Nat)) (i : Nat) (v : V)
    (h : DF.run g s (fun _ => none) i = some v) : v = DF.den g i :=
  DF.run_sound g s _ (by intro i v h; simp at h) i v h

/-! ## 6b. several lazy results in one graph: who answers for the graph keys

  Sections 1-6 speak about *one* graph whose tasks are told apart by construction (`DF.Graph` is indexed by task).
  dask tells tasks apart by their **key**, `(layer name, i, j)`, and evaluates several results together
  (`dask.compute(a, b)`, `a - b`, one `xr.Dataset`) in the merged dictionary: equal key = same task.
  `GraphKeys.joint_eval_eq_alone`: if equal keys do stand for equal tasks, every result evaluated together has the
  value it has alone; `GraphKeys.collision_replaces_a_result`: otherwise not.  A layer gets its name from dask --
  `funcname(func)-tokenize(func, args, kwargs)`, a hash of everything the block task depends on -- unless the call
  passes `name=` (the complete key; `token=` is only the readable prefix).  Then uniqueness is the call site's business:
  `name='normalized_ratio'`, or a token of *some* of the arguments, gives two different calls the same keys. -/

/-- the modules this property's operations live in -/
def graphModules : List String :=
  ["slope", "aspect", "curvature", "hillshade", "focal", "convolution", "classify", "multispectral", "perlin", "terrain"]

/-- the layer-creating calls of those modules, as found by the sweep of `facts_dask.graph_key_facts` -/
def graphSites : List GraphKeyFact := allGraphKeyFacts.filter fun s => graphModules.contains s.module

/-- **no call site names the key of the layer it creates** (generated, re-decided on every run):
    (1, 2) the `map_overlap` / `map_blocks` call of every operation passes no `name=` and forwards no `**kwargs`
    (per-operation facts, the parsers that also give depth / boundary / block function);
    (3) nor does any layer-creating call anywhere in the modules of this property (`map_blocks`, `map_overlap`,
    `blockwise`, `from_array`, `from_delayed`, `delayed`, hand-made layers -- an independent sweep);
    (4) the sweep is not blind: it finds the Dask function of every operation described in (1, 2), with the right kind
    of call, and at least one site in each module.
    So every key of every graph this library builds is `dask`'s token of the block function and of *all* its
    arguments: the hypothesis `Faithful` of `joint_results_are_the_single_results` is dask's contract, not the library's. -/
theorem no_call_site_names_its_graph_key :
    (allOverlapFacts.all fun f => f.keyName == "" && !f.opaqueKwargs) = true ∧
    (allBlocksFacts.all fun f => f.keyName == "" && !f.opaqueKwargs) = true ∧
    (graphSites.all GraphKeyFact.keyFree) = true ∧
    ((allOverlapFacts.all fun f => graphSites.any fun s => s.site == f.daskQual && s.kind == "map_overlap") &&
     (allBlocksFacts.all fun f => graphSites.any fun s => s.site == f.daskQual && s.kind == "map_blocks") &&
     (graphModules.all fun m => graphSites.any fun s => s.module == m)) = true := by
  refine ⟨?_, ?_, ?_, ?_⟩ <;> decide +kernel

/-- what that buys.  `calls`: any public calls on Dask-backed rasters (same function or different ones, any arguments,
    any chunkings `blocks c`); each contributes a layer of block tasks `task c` under the name `name c`.  If names are
    faithful (equal name ⇒ equal block task: dask's tokenisation, since by the theorem above no call site replaces
    it), then evaluating all of them in ONE graph gives every key of every call the value it has in that call's own
    graph -- which is the value sections 1-6 equate with the NumPy result. -/
theorem joint_results_are_the_single_results {C V : Type} (name : C → String)
    (task : C → Nat × Nat → GraphKeys.Task (String × Nat × Nat) V) (hf : GraphKeys.Faithful name task)
    (blocks : C → List (Nat × Nat)) (calls : List C) (c : C) (hc : c ∈ calls)
    (n : Nat) (k : String × Nat × Nat) (v : V)
    (h : GraphKeys.eval (GraphKeys.layer name task (blocks c) c) n k = some v) :
    GraphKeys.eval (GraphKeys.merge (calls.map fun c => GraphKeys.layer name task (blocks c) c)) n k = some v :=
  GraphKeys.joint_layers_eq_alone name task hf blocks calls c hc n k v h

/-- the same for whole graphs (input layers, block layer, trimming, reductions): pairwise agreement on shared keys is all
    that is needed -/
theorem joint_graphs_are_the_single_graphs {K V : Type} [BEq K] (gs : List (GraphKeys.Graph K V))
    (hag : ∀ g₁ ∈ gs, ∀ g₂ ∈ gs, GraphKeys.Agree g₁ g₂) (g : GraphKeys.Graph K V) (hg : g ∈ gs)
    (n : Nat) (k : K) (v : V) (h : GraphKeys.eval g n k = some v) :
    GraphKeys.eval (GraphKeys.merge gs) n k = some v :=
  GraphKeys.joint_eval_eq_alone gs hag g hg n k v h

/-- and a key chosen at the call site from only part of what the task depends on (a constant, a token of the first
    band, a token that leaves out `target_values`) cannot be faithful once two calls agree on that part and differ in
    their task -/
theorem partial_key_is_not_faithful {C A V : Type} (view : C → A) (tok : A → String)
    (task : C → Nat × Nat → GraphKeys.Task (String × Nat × Nat) V) (c₁ c₂ : C)
    (hv : view c₁ = view c₂) (hd : task c₁ ≠ task c₂) : ¬ GraphKeys.Faithful (fun c => tok (view c)) task :=
  GraphKeys.partial_token_not_faithful view tok task c₁ c₂ hv hd

/-! ## 7. non-vacuity -/
instance : Trig ℚ := ⟨id, id, fun a _ => a, id, id, id, id⟩

/-- a 3x3 raster split into 1-cell chunks satisfies the hypotheses of `slope_dask_eq_numpy` -/
example : ([1, 1, 1] : List Nat).sum = 3 := by decide
example : nmax (some (3 : ℚ)) (nmax none none) = some 3 := rfl
example : (apply_radius 5 3, apply_overlap.depth 5 3) = ((2, 1), (2, 1)) := by decide

/-- a concrete 3x3 cell function (the window sum) and a block function that computes it with the
    window clipped at the *block* edge, as `_mean_numpy` does -/
def sumK (w : Int → Int → Int) : Int :=
  w (-1) (-1) + w (-1) 0 + w (-1) 1 + w 0 (-1) + w 0 0 + w 0 1 + w 1 (-1) + w 1 0 + w 1 1
def sumBlock (g : Grid Int) : Grid Int :=
  { h := g.h, w := g.w, cell := fun i j => sumK (fun a b => g.get 0 (i + a) (j + b)) }
def col12 : Grid Int := { h := 2, w := 1, cell := fun i _ => if i = 0 then 1 else 2 }

/-- they satisfy the hypotheses of `mean_dask_passes` -/
example : WindowLocal 1 1 sumK := by
  intro w1 w2 h
  simp only [sumK]
  rw [h (-1) (-1), h (-1) 0, h (-1) 1, h 0 (-1), h 0 0, h 0 1, h 1 (-1), h 1 0, h 1 1] <;> decide
example : IsStencil 1 1 sumK sumBlock := by
  intro g i j h1 h2 h3 h4
  simp only [sumBlock, sumK, Grid.get]
  rw [if_pos (by omega), if_pos (by omega), if_pos (by omega), if_pos (by omega), if_pos (by omega),
      if_pos (by omega), if_pos (by omega), if_pos (by omega), if_pos (by omega)]
/-- the fact is needed: with the two passes *inside* one `map_overlap` of depth 1 (the shape
    `meanPassesOutside = false` stands for) the column [1, 2] split into two 1-cell chunks gives 21 at the
    top cell (the halo cells -- fill outside the raster included -- have been run through pass 1 as if they were
    data), the iterated whole-raster computation 6; with the passes outside (what the theorem is
    about) the chunked computation gives 6 -/
example : (passesFused 0 0 1 1 sumBlock [1, 1] [1] 2 col12).cell 0 0 = 21 ∧
    (passesSpec 0 sumK 2 col12).cell 0 0 = 6 ∧
    (passesChunked 0 0 1 1 sumBlock [1, 1] [1] 2 col12).cell 0 0 = 6 := by decide +kernel

/-- purity rejects something real: a task function that seeds and draws from the global RNG -/
def seedingTask : Effects.Summary := {
  name := "perlin._perlin_block"
  isPublic := false
  prog := .op (.seed .rng) (.op (.draw .rng) .nil)
  deps := ["x", "y", "seed"]
  tasks := []
  kernels := []
}
example : taskPure seedingTask = false := by decide
example : Gen.summary_focal__mean_numpy ∈ Gen.taskSummaries ∧ taskPure Gen.summary_aspect__run_numpy = true := by
  constructor <;> decide +kernel

/-- the graph-key facts reject something real: a site that writes its own key (a `token=` prefix is fine) -/
def namedSite : GraphKeyFact := {
  module := "multispectral", site := "multispectral._run_normalized_ratio_dask", kind := "map_blocks",
  nameArg := "'normalized_ratio'", nameFrom := [], tokenArg := "", keyNameArg := "", opaqueKwargs := false }
def prefixedSite : GraphKeyFact := {
  module := "focal", site := "focal._mean_dask_numpy", kind := "map_overlap",
  nameArg := "", nameFrom := [], tokenArg := "'mean'", keyNameArg := "", opaqueKwargs := false }
example : namedSite.keyFree = false ∧ prefixedSite.keyFree = true := by decide
/-- the hypothesis of `joint_graphs_are_the_single_graphs` is needed (two one-task graphs under one key: alone 1 and 2,
    together 1 and 1), and satisfiable: a naming that is injective on calls is faithful -/
example : GraphKeys.eval GraphKeys.gTwo 1 0 = some 2 ∧ GraphKeys.eval (GraphKeys.merge [GraphKeys.gOne, GraphKeys.gTwo]) 1 0 = some 1 :=
  ⟨GraphKeys.collision_replaces_a_result.2.1, GraphKeys.collision_replaces_a_result.2.2⟩
example (task : Bool → Nat × Nat → GraphKeys.Task (String × Nat × Nat) Nat) :
    GraphKeys.Faithful (fun c : Bool => if c then "ndvi-1f3a" else "ndvi-77c0") task := by
  intro c₁ c₂ h
  cases c₁ <;> cases c₂ <;> first | rfl | (exfalso; revert h; decide)

end XrsVerif.C01
