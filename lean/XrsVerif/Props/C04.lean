import XrsVerif.Proofs.Crosstab
import XrsVerif.Proofs.ZonalReduce
import XrsVerif.Gen.Zonal
import Mathlib.Tactic.FieldSimp
import Mathlib.Tactic.Ring
/-
  C04 -- Cross-tabulation is a true contingency table under any zone / category selection.

  Every statement is about the position-faithful model of `_crosstab_numpy` (Model/Crosstab.lean)
  run with the structural facts harness/facts_zonal.py reads from /repo's *current* source:
    `Gen.Zonal.stripIndices`     non-finite-zone indices dropped before the gather           (D1)
    `Gen.Zonal.catStartAlways`   `cat_start` advanced for every category, selected or not     (D3)
    `Gen.Zonal.rowsSortedNumpy`  the `zone` column lists the ids in the order the rows are computed in (D4)
    `Gen.Zonal.pctNumpy / pctDask / stridesBits`  the `percentage` expression as written in the source (a `PExpr`
                                 tree) and the width of the integer counts it is applied to
  On a tree with one of the defects the corresponding `*_fact` below does not check and this file
  does not build; `skipped_category_is_counted` / `rows_mislabelled` show what goes wrong then.

  Quantifiers: all rasters, all `valid` predicates (finite and != nodata), all requests `zoneIds`,
  `catIds` (any order, absent ids), every permutation that sorts the cells by zone.  Percentages are
  over an arbitrary field of characteristic 0 (exact arithmetic).
-/
set_option linter.unusedSectionVars false
set_option linter.unusedVariables false
namespace XrsVerif.C04
open XrsVerif XrsVerif.Zonal

variable {κ γ : Type} [LinearOrder κ] [LinearOrder γ]

theorem strip_fact : Gen.Zonal.stripIndices = true := rfl
theorem cat_start_fact : Gen.Zonal.catStartAlways = true := rfl
theorem rows_fact : Gen.Zonal.rowsSortedNumpy = true := rfl

/-- **count**: rows = the requested zones that exist (ascending), columns = the requested categories
    that exist (request order), entry (z, c) = number of cells with zone z whose value is c, finite
    and not nodata; `_total_count` = the zone's number of valid cells.  The call does not raise. -/
theorem crosstab_count (zones : Nat → X κ) (values : Nat → X γ) (valid : X γ → Bool)
    (cells perm : List Nat) (zoneIds : Option (List κ)) (catIds : Option (List γ))
    (hp : SortsCells zones cells perm) :
    crosstabNumpy2d Gen.Zonal.stripIndices Gen.Zonal.catStartAlways Gen.Zonal.rowsSortedNumpy
        zones values valid cells zoneIds catIds perm
      = some { zone := wantedZones zones cells zoneIds
               cats := selectIds (findCats2d values valid cells) catIds
               total := (wantedZones zones cells zoneIds).map (fun z => (zoneCells zones values valid cells z).length)
               rows := (wantedZones zones cells zoneIds).map (fun z =>
                  (selectIds (findCats2d values valid cells) catIds).map (countZC zones values valid cells z)) } := by
  rw [strip_fact, cat_start_fact, rows_fact]
  exact crosstabNumpy2d_fixed zones values valid cells perm zoneIds catIds hp

/-- what an entry counts, spelled out on cells -/
theorem entry_counts_cells (zones : Nat → X κ) (values : Nat → X γ) (valid : X γ → Bool) (cells : List Nat)
    (z : κ) (c : γ) :
    countZC zones values valid cells z c
      = (cells.filter (fun i => zones i == .fin z && (valid (values i) && values i == .fin c))).length :=
  countZC_eq_cells zones values valid cells z c

/-- the categories offered are exactly the valid values present -/
theorem cats_are_valid_values (values : Nat → X γ) (valid : X γ → Bool) (cells : List Nat) (c : γ) :
    c ∈ findCats2d values valid cells ↔ ∃ i ∈ cells, valid (values i) = true ∧ values i = .fin c :=
  mem_findCats2d values valid cells c

/-- entry of a table by labels -/
def entry {ρ : Type} (t : CTable κ γ ρ) (z : κ) (c : γ) : Option ρ :=
  ((t.zone.zip t.rows).lookup z).bind (fun r => (t.cats.zip r).lookup c)

theorem lookup_zip_map {α β : Type} [DecidableEq α] (l : List α) (h : α → β) (a : α) (ha : a ∈ l) :
    (l.zip (l.map h)).lookup a = some (h a) := by
  induction l with
  | nil => simp at ha
  | cons b l ih =>
    simp only [List.map_cons, List.zip_cons_cons, List.lookup_cons]
    by_cases e : a = b
    · subst e; simp
    · have : (a == b) = false := by simp [e]
      rw [this]
      rcases List.mem_cons.mp ha with h' | h'
      · exact absurd h' e
      · exact ih h'

/-- **restriction commutes**: whatever `zone_ids` / `cat_ids` are given (any order, absent ids), every
    entry of the restricted table, looked up by its zone label and its category label, is the entry
    of the unrestricted table with the same labels -- each row is labelled with its own zone -/
theorem restrict_commutes (zones : Nat → X κ) (values : Nat → X γ) (valid : X γ → Bool)
    (cells perm perm' : List Nat) (zoneIds : Option (List κ)) (catIds : Option (List γ))
    (hp : SortsCells zones cells perm) (hp' : SortsCells zones cells perm') :
    ∃ t full,
      crosstabNumpy2d Gen.Zonal.stripIndices Gen.Zonal.catStartAlways Gen.Zonal.rowsSortedNumpy
        zones values valid cells zoneIds catIds perm = some t ∧
      crosstabNumpy2d Gen.Zonal.stripIndices Gen.Zonal.catStartAlways Gen.Zonal.rowsSortedNumpy
        zones values valid cells none none perm' = some full ∧
      (∀ z, z ∈ t.zone ↔ z ∈ full.zone ∧ wanted zoneIds z = true) ∧
      (∀ c, c ∈ t.cats ↔ c ∈ full.cats ∧ wanted catIds c = true) ∧
      ∀ z ∈ t.zone, ∀ c ∈ t.cats,
        entry t z c = some (countZC zones values valid cells z c) ∧ entry full z c = entry t z c := by
  refine ⟨_, _, crosstab_count zones values valid cells perm zoneIds catIds hp,
    crosstab_count zones values valid cells perm' none none hp', ?_, ?_, ?_⟩
  · intro z
    simp only [wantedZones, List.mem_filter]
    have : wanted (none : Option (List κ)) z = true := rfl
    simp [this]
  · intro c
    cases catIds with
    | none => simp [selectIds, wanted]
    | some req => simp [selectIds, wanted, List.mem_filter, and_comm]
  · intro z hz c hc
    have hzf : z ∈ wantedZones zones cells (none : Option (List κ)) := by
      simp only [wantedZones, List.mem_filter] at hz ⊢
      exact ⟨hz.1, rfl⟩
    have hcf : c ∈ selectIds (findCats2d values valid cells) (none : Option (List γ)) := by
      cases catIds with
      | none => exact hc
      | some req => simp only [selectIds, List.mem_filter] at hc ⊢; simpa using hc.2
    simp only [entry]
    rw [lookup_zip_map _ _ z hz, lookup_zip_map _ _ z hzf]
    simp only [Option.bind_some]
    rw [lookup_zip_map _ _ c hc, lookup_zip_map _ _ c hcf]
    exact ⟨rfl, rfl⟩

/-! ### percentages -/

section pct
variable {F : Type} [Field F] [CharZero F]

/-- `agg='percentage'`: every entry is the count as a percentage of the zone's valid cells; a zone
    without valid cell has NaN everywhere -/
theorem crosstab_percentage (total n : Nat) :
    (finishCell true total n : Option F)
      = if total = 0 then none else some ((n : F) / (total : F) * ((100 : Nat) : F)) := rfl

theorem finish_rows (pct : Bool) (L : List κ) (C : List γ) (tot : κ → Nat) (g : κ → γ → Nat) :
    ((({ zone := L, cats := C, total := L.map tot, rows := L.map (fun z => C.map (g z)) } : CTable κ γ Nat).finish pct
        : CTable κ γ (Option F))).rows
      = L.map (fun z => C.map (fun c => finishCell pct (tot z) (g z c))) := by
  simp only [CTable.finish]
  induction L with
  | nil => rfl
  | cons a L ih => simp [ih]

/-! #### the percentage as the source computes it

  The counts are NumPy integers of `Gen.Zonal.stridesBits` bits (differences of the breaks `_strides`
  returns); `Gen.Zonal.pctNumpy` / `pctDask` are the expressions of `_crosstab_numpy` / `_crosstab_df_dask`,
  translated from the source, evaluated by `PExpr.eval` with NumPy's typing: integer × integer literal stays
  in the counts' width and wraps around, a division (or anything that meets a float) is floating point.
  `percentage_no_wrap_*`: for **every** count that fits the width and every total the source expression is
  `count / total * 100` -- no intermediate result leaves the integer range.  The proof script closes every
  spelling in which the count meets the float total (or a float literal) before it is multiplied by an
  integer (`c / t * 100`, `100 * (c / t)`, `c * 100.0 / t`, `c * (100 / t)`, ...); for `c * 100 / t` the
  statement is false from `count = 21474837` on (`reordered_wraps`) and this file does not build. -/

/-- the breaks (hence the counts) are at least 32-bit integers: rasters below 2^31 cells cannot wrap them -/
theorem strides_bits_fact : 32 ≤ Gen.Zonal.stridesBits := by decide

theorem percentage_no_wrap_numpy (total n : Nat) (hn : n < 2 ^ (Gen.Zonal.stridesBits - 1)) :
    (pctCell Gen.Zonal.pctNumpy Gen.Zonal.stridesBits total n : Option F) = finishCell true total n := by
  unfold pctCell finishCell
  by_cases h : total = 0
  · simp [h]
  · have ht : ((total : Nat) : F) ≠ 0 := by exact_mod_cast h
    simp only [h, if_false, Gen.Zonal.pctNumpy, PExpr.eval, PVal.toF, if_true, Option.some.injEq]
    push_cast
    first | rfl | ring1 | (field_simp; done) | (field_simp; ring1)

theorem percentage_no_wrap_dask (total n : Nat) (hn : n < 2 ^ (Gen.Zonal.stridesBits - 1)) :
    (pctCell Gen.Zonal.pctDask Gen.Zonal.stridesBits total n : Option F) = finishCell true total n := by
  unfold pctCell finishCell
  by_cases h : total = 0
  · simp [h]
  · have ht : ((total : Nat) : F) ≠ 0 := by exact_mod_cast h
    simp only [h, if_false, Gen.Zonal.pctDask, PExpr.eval, PVal.toF, if_true, Option.some.injEq]
    push_cast
    first | rfl | ring1 | (field_simp; done) | (field_simp; ring1)

/-- the table the driver prints (`CTable.finishSrc`, percentages through the source's expression) is the
    table of `crosstab_percentage` whenever every count fits the integer width -/
theorem finish_src_eq (pct : Bool) (t : CTable κ γ Nat)
    (hfit : ∀ r ∈ t.rows, ∀ n ∈ r, n < 2 ^ (Gen.Zonal.stridesBits - 1)) :
    (t.finishSrc Gen.Zonal.pctNumpy Gen.Zonal.stridesBits pct : CTable κ γ (Option F)) = t.finish pct := by
  have key : ∀ (tots : List Nat) (rows : List (List Nat)), (∀ r ∈ rows, ∀ n ∈ r, n < 2 ^ (Gen.Zonal.stridesBits - 1)) →
      List.zipWith (fun tot (r : List Nat) => r.map (fun n =>
          if pct then (pctCell Gen.Zonal.pctNumpy Gen.Zonal.stridesBits tot n : Option F) else some ((n : Int) : F))) tots rows
        = List.zipWith (fun tot r => r.map (finishCell pct tot)) tots rows := by
    intro tots
    induction tots with
    | nil => intro rows _; simp
    | cons a tl ih =>
      intro rows hr
      cases rows with
      | nil => simp
      | cons r rs =>
        simp only [List.zipWith_cons_cons]
        rw [ih rs (fun r' hr' => hr r' (List.mem_cons_of_mem _ hr'))]
        congr 1
        apply List.map_congr_left
        intro n hn
        cases pct with
        | true => simpa using percentage_no_wrap_numpy a n (hr r (List.mem_cons_self ..) n hn)
        | false => simp [finishCell]
  simp only [CTable.finishSrc, CTable.finish]
  rw [key t.total t.rows hfit]

/-- **why the order of the operations matters**: multiplied first, in 32-bit integers, the entry of a
    (zone, category) pair with 21 474 837 cells (a 4 800 × 4 800 raster) is negative; the same expression
    over 64-bit counts, or the source's order, gives the percentage -/
theorem reordered_wraps :
    wrapS 32 (21474837 * 100) = -2147483596 ∧
    (pctCell (PExpr.div (.mul .count (.lit 100)) .total) 32 23000000 21474837 : Option Rat)
      = some (-2147483596 / 23000000) ∧
    (pctCell (PExpr.div (.mul .count (.lit 100)) .total) 32 23000000 21474837 : Option Rat)
      ≠ finishCell true 23000000 21474837 ∧
    (pctCell (PExpr.div (.mul .count (.lit 100)) .total) 64 23000000 21474837 : Option Rat)
      = finishCell true 23000000 21474837 := by
  refine ⟨by decide, by decide +kernel, by decide +kernel, by decide +kernel⟩

/-- **every non-empty row sums to 100** when all categories are shown -/
theorem rows_sum_100 (zones : Nat → X κ) (values : Nat → X γ) (valid : X γ → Bool) (cells : List Nat) (z : κ)
    (hfin : ∀ v, valid v = true → v.isFin = true)
    (hne : (zoneCells zones values valid cells z).length ≠ 0) :
    ((findCats2d values valid cells).map (fun c =>
        ((countZC zones values valid cells z c : Nat) : F) / (((zoneCells zones values valid cells z).length : Nat) : F)
          * ((100 : Nat) : F))).sum = ((100 : Nat) : F) := by
  have h := percent_sum (F := F) ((findCats2d values valid cells).map (countZC zones values valid cells z))
    (zoneCells zones values valid cells z).length hne (sum_countZC zones values valid cells z hfin)
  rw [List.map_map] at h
  exact h

/-- **the three filters of the crosstab are the validity predicate**: the masks of `_find_cats` (which
    categories exist), `_single_zone_crosstab_2d` (what is counted, and the denominator of a percentage) and
    `_single_zone_crosstab_3d`, translated from the current source, read with NumPy's IEEE semantics, keep
    exactly the values that are finite and not equal to `nodata_values` -/
theorem crosstab_mask_facts {G : Type} [DecidableEq G] (nodata : Option (X G)) (v : X G) :
    Gen.Zonal.maskFindCats.eval nodata v = validX nodata v ∧
    Gen.Zonal.maskZone2d.eval nodata v = validX nodata v ∧
    Gen.Zonal.maskZone3d.eval nodata v = validX nodata v := by
  refine ⟨?_, ?_, ?_⟩ <;> rcases nodata with _ | (_ | _ | _ | _) <;> cases v <;>
    (try simp [Gen.Zonal.maskFindCats, Gen.Zonal.maskZone2d, Gen.Zonal.maskZone3d, MExpr.eval, validX, ieeeEq, X.isFin]) <;>
    (try exact eq_comm)

/-- the built-in validity predicate only admits finite values -/
theorem validX_finite {G : Type} [DecidableEq G] (nodata : Option (X G)) (v : X G) (h : validX nodata v = true) :
    v.isFin = true := by
  cases v <;> simp_all [validX, X.isFin]

end pct

/-! ### 3-D -/

/-- **3-D**: the categories are the layers; every entry is the chosen aggregate over the valid cells
    of that layer inside that zone (for any order-independent aggregate, e.g. the seven built-in ones) -/
theorem crosstab_3d {ν ρ : Type} (zones : Nat → X κ) (layers : List (γ × (Nat → ν)))
    (valid : ν → Bool) (func : List ν → ρ) (hf : PermInv func) (cells perm : List Nat)
    (zoneIds : Option (List κ)) (catIds : Option (List γ)) (hp : SortsCells zones cells perm) :
    crosstabNumpy3d Gen.Zonal.stripIndices Gen.Zonal.rowsSortedNumpy zones layers valid func cells zoneIds catIds perm
      = some { zone := wantedZones zones cells zoneIds
               cats := selectIds (layers.map Prod.fst) catIds
               cols := (selectIds (layers.map Prod.fst) catIds).map (fun c =>
                  optCol (layers.find? (fun l => l.1 == c)) (fun l =>
                    (wantedZones zones cells zoneIds).map (fun z => func (zoneCells zones l.2 valid cells z)))) } := by
  rw [strip_fact, rows_fact, crosstabNumpy3d_fixed zones layers valid func cells perm zoneIds catIds hp]
  congr 2
  apply List.map_congr_left
  intro c _
  cases layers.find? (fun l => l.1 == c) with
  | none => rfl
  | some l =>
    simp only [optCol]
    apply List.map_congr_left
    intro z _
    exact hf _ _ (zoneCells_perm zones l.2 valid perm cells hp.isPerm z)

/-- the seven built-in aggregates are order independent, so `crosstab_3d` applies to each -/
theorem builtin_aggregates {F : Type} [Field F] [LinearOrder F] [IsStrictOrderedRing F] (sqrt : F → F) (s : Stat) :
    PermInv (Stat.func sqrt s : List (X F) → Option F) := Stat.func_permInv sqrt s

/-! ### why the facts matter -/

/-- D3: zones `[[1,1,1],[2,2,2]]`, values `[[10,10,20],[10,20,20]]`, `cat_ids=[20]`: when the offset
    is advanced only for selected categories, column 20 also counts the cells with value 10 -/
theorem skipped_category_is_counted :
    let zones : Nat → X Int := fun i => [X.fin 1, .fin 1, .fin 1, .fin 2, .fin 2, .fin 2].getD i .nan
    let values : Nat → X Int := fun i => [X.fin 10, .fin 10, .fin 20, .fin 10, .fin 20, .fin 20].getD i .nan
    (crosstabNumpy2d true false true zones values X.isFin (List.range 6) none (some [20]) [0, 1, 2, 3, 4, 5]).map (·.rows)
      = some [[3], [3]] ∧
    (crosstabNumpy2d true true true zones values X.isFin (List.range 6) none (some [20]) [0, 1, 2, 3, 4, 5]).map (·.rows)
      = some [[1], [2]] := by
  decide

/-- D4: same rasters, `zone_ids=[2, 1]`: labels in request order over rows in computed order -/
theorem rows_mislabelled :
    let zones : Nat → X Int := fun i => [X.fin 1, .fin 1, .fin 1, .fin 2, .fin 2, .fin 2].getD i .nan
    let values : Nat → X Int := fun i => [X.fin 10, .fin 10, .fin 20, .fin 10, .fin 20, .fin 20].getD i .nan
    (crosstabNumpy2d true true false zones values X.isFin (List.range 6) (some [2, 1]) none [0, 1, 2, 3, 4, 5]).map
        (fun t => (t.zone, t.rows)) = some ([2, 1], [[2, 1], [1, 2]]) ∧
    (crosstabNumpy2d true true true zones values X.isFin (List.range 6) (some [2, 1]) none [0, 1, 2, 3, 4, 5]).map
        (fun t => (t.zone, t.rows)) = some ([1, 2], [[2, 1], [1, 2]]) := by
  decide

/-! ### non-vacuity -/

example : SortsCells (fun i => ([X.fin 1, .fin 1, .fin 1, .fin 2, .fin 2, .fin 2] : List (X Int)).getD i .nan)
    (List.range 6) [0, 1, 2, 3, 4, 5] := ⟨by decide, by decide⟩

/-- counts of realistic rasters fit the width: 23 000 000 < 2^31 -/
example : 23000000 < 2 ^ (Gen.Zonal.stridesBits - 1) := by decide

example : (zoneCells (fun i => ([X.fin 1, .fin 1, .fin 2] : List (X Int)).getD i .nan)
    (fun i => ([X.fin 10, .nan, .fin 20] : List (X Int)).getD i .nan) X.isFin (List.range 3) 1).length ≠ 0 := by decide

end XrsVerif.C04
