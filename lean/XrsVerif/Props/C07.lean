import XrsVerif.Proofs.HaloNV
import XrsVerif.Proofs.ProximityWindow
import XrsVerif.Gen.ProximityDask
import XrsVerif.Gen.GraphKeys
import XrsVerif.Proofs.GraphKeys
import XrsVerif.Gen.Kernels
import Mathlib.Algebra.Order.Field.Rat
import Mathlib.Tactic.Linarith
import Mathlib.Tactic.Ring
import Mathlib.Tactic.Positivity
/-
  C07 -- Chunked proximity equals whole-raster proximity.

  What is proved here (all about definitions regenerated from /repo: `Gen.proximity_dask`,
  `Gen.proximity_is_target`):
  * the halo, in cells, computed per axis from max_distance and *that axis'* cell size covers every
    target within max_distance of a chunk cell, for both planar metrics (`halo_covers_*`,
    `target_in_halo_window`);
  * NaN halo cells are never targets, with default and explicit target lists (`boundary_not_target`);
  * the single-block fallback is the whole-raster computation (`single_block_is_whole`);
  * data and both coordinate grids are chunked and padded alike, boundary NaN, depth order
    (rows, columns) (`proximity_wiring_ok`) -- so distances inside a block are global distances.
  The four-sweep itself (the model `Prox.run` of C06, run on the block's halo window and on the whole raster):
  * the *exact* nearest target cut at max_distance is the same on the window and on the whole raster at every
    cell of the block (`window_exact_eq_whole`), hence the two sweeps can only differ where one of them is not
    exact (`difference_is_inexactness`, `window_eq_whole_of_exact`), and they agree on every raster with
    exactly one target (`window_eq_whole_single_target`);
  * the unconditional statement "sweep on the window = sweep on the whole raster on the block's cells" is
    **false** (`window_sweep_eq_whole_false`): 3x4 raster, cells 1 wide and 2 high, max_distance 2.9, targets
    (0,3), (1,1), (2,0), block = last row: the whole-raster sweep leaves (2,3) NaN although (1,1) is at
    sqrt 8 = 2.83, the sweep on the window (rows 1..2) finds it.  `window_alloc_differs_on_tie`: with a fourth
    target both distances are exact and equal but the two runs name different equidistant targets.
    The real `proximity()` / `allocation()` / `direction()` do exactly this (corpus/C07, KNOWN_FINDINGS.txt).
-/
set_option linter.unusedSectionVars false
set_option linter.unusedVariables false
namespace XrsVerif.C07
open XrsVerif XrsVerif.Gen

/-! ## the generated wiring -/
theorem proximity_wiring_ok :
    (proximity_dask.ok && proximity_dask.fallbackSingleBlock && proximity_dask.boundaryNaN &&
      proximity_dask.coordsChunkedLikeRaster &&
      (proximity_dask.depthOrder == ["pad_y", "pad_x"]) &&
      (proximity_dask.arrays == ["raster.data", "xs", "ys"]) &&
      (proximity_dask.fallbackDisjuncts.contains "max_distance >= max_possible_distance")) = true := by
  decide

/-- **the GREAT_CIRCLE halo guard (repair of D28)**: the halo `max_distance[m] / cellsize[deg]` covers `max_distance`
    only while a degree of longitude is long enough on every row; the generated `_process` computes
    `halo_covers_max_distance` in front of `_process_dask` (true for the planar metrics, for GREAT_CIRCLE the test
    "metres per degree of longitude at the row nearest to a pole >= pi / 2") and `not halo_covers_max_distance` is a
    disjunct of the single-block test.  Whatever makes the code fall back is sound (`single_block_is_whole` below: one block
    of the raster's own shape is the whole-raster computation), so the disjunct can only enlarge the set of inputs for
    which Dask = NumPy holds by construction; that the threshold is *sufficient* for the haversine metric is not a
    theorem here (transcendental) -- it is decided by the geographic stream of the correspondence run, which now
    goes down to a few metres from either pole. -/
theorem great_circle_guard_wired :
    (proximity_dask.fallbackDisjuncts.contains "not halo_covers_max_distance" &&
      (proximity_dask.gcGuardDefault == "True") &&
      (proximity_dask.gcGuardWhen == "distance_metric == GREAT_CIRCLE and raster.shape[0] > 0") &&
      (proximity_dask.gcGuardTest ==
        "max_abs_lat = min(float(np.max(np.abs(ys))), 90.0); metres_per_degree_of_longitude = np.radians(1.0) * 6378137 * np.cos(np.radians(max_abs_lat)); halo_covers_max_distance = metres_per_degree_of_longitude >= np.pi / 2")) = true := by
  decide +kernel

/-- every reason for the fallback that the generated test lists is one of the two analysed ones -/
theorem fallback_reasons_closed :
    proximity_dask.fallbackDisjuncts.all
      (fun d => d == "max_distance >= max_possible_distance" || d == "not halo_covers_max_distance") = true := by
  decide

/-- **the `map_overlap` of `_process_dask` leaves the key of its layer to dask** (generated): no `name=`, no forwarded
    `**kwargs` -- in the per-operation fact and in the independent sweep over `proximity.py` (which sees that very call,
    inside `_process._process_dask`, and the two `from_array` calls of the coordinate grids).  The block function is a
    closure over `target_values`, `max_distance`, the metric and the mode; dask's key is a token of that closure and of
    all three arrays, so per-class / per-distance / per-mode results evaluated in one graph (`dask.compute(a, b)`,
    `a - b`, one Dataset) keep their own tasks: `joint_proximity_results_are_the_single_results` below
    (model and counter-example: Proofs/GraphKeys.lean, Props/C01 section 6b).  A key written at the call site from only
    some of these (`C01.partial_key_is_not_faithful`) would break this theorem before any input is found. -/
theorem proximity_site_leaves_key_to_dask :
    (proximity_dask.keyName == "" && !proximity_dask.opaqueKwargs &&
      ((allGraphKeyFacts.filter fun s => s.module == "proximity").all GraphKeyFact.keyFree) &&
      (allGraphKeyFacts.any fun s => s.site == "proximity._process._process_dask" && s.kind == "map_overlap")) = true := by
  decide +kernel

/-- hence (for any naming that is faithful, as dask's is): any set of proximity / allocation / direction calls
    evaluated together gives each block the value it has when its call is computed alone -/
theorem joint_proximity_results_are_the_single_results {C V : Type} (name : C → String)
    (task : C → Nat × Nat → GraphKeys.Task (String × Nat × Nat) V) (hf : GraphKeys.Faithful name task)
    (blocks : C → List (Nat × Nat)) (calls : List C) (c : C) (hc : c ∈ calls)
    (n : Nat) (k : String × Nat × Nat) (v : V)
    (h : GraphKeys.eval (GraphKeys.layer name task (blocks c) c) n k = some v) :
    GraphKeys.eval (GraphKeys.merge (calls.map fun c => GraphKeys.layer name task (blocks c) c)) n k = some v :=
  GraphKeys.joint_layers_eq_alone name task hf blocks calls c hc n k v h

/-! ## the halo covers max_distance, per axis with its own cell size -/

/-- `d` cells of size `cs` within `maxd` => `d` ≤ the generated row pad (uses the y cell size) -/
theorem pad_rows_covers (maxd csx csy : ℚ) (hcs : 0 < csy) (d : ℤ) (h : (|d| : ℚ) * csy ≤ maxd) :
    |d| ≤ (proximity_dask.pad maxd csx csy).1 := by
  show |d| ≤ Rat.floor (maxd / csy + 1 / 2)
  rw [Rat.le_floor_iff]
  have h1 : ((|d| : ℤ) : ℚ) ≤ maxd / csy := by
    rw [le_div_iff₀ hcs]; push_cast; exact h
  linarith

/-- the column pad uses the x cell size -/
theorem pad_cols_covers (maxd csx csy : ℚ) (hcs : 0 < csx) (d : ℤ) (h : (|d| : ℚ) * csx ≤ maxd) :
    |d| ≤ (proximity_dask.pad maxd csx csy).2 := by
  show |d| ≤ Rat.floor (maxd / csx + 1 / 2)
  rw [Rat.le_floor_iff]
  have h1 : ((|d| : ℤ) : ℚ) ≤ maxd / csx := by
    rw [le_div_iff₀ hcs]; push_cast; exact h
  linarith

theorem le_of_sq_le {a b : ℚ} (ha : 0 ≤ a) (hb : 0 ≤ b) (h : a ^ 2 ≤ b ^ 2) : a ≤ b := by
  by_contra hlt
  rw [not_le] at hlt
  nlinarith

/-- EUCLIDEAN: a target `dy` rows and `dx` columns away whose distance is ≤ max_distance lies within
    the halo on both axes (non-square cells included) -/
theorem halo_covers_euclidean (maxd csx csy : ℚ) (hx : 0 < csx) (hy : 0 < csy) (hm : 0 ≤ maxd)
    (dy dx : ℤ) (h : ((dx : ℚ) * csx) ^ 2 + ((dy : ℚ) * csy) ^ 2 ≤ maxd ^ 2) :
    |dy| ≤ (proximity_dask.pad maxd csx csy).1 ∧ |dx| ≤ (proximity_dask.pad maxd csx csy).2 := by
  constructor
  · apply pad_rows_covers maxd csx csy hy
    apply le_of_sq_le (by positivity) hm
    have : ((|dy| : ℚ) * csy) ^ 2 = ((dy : ℚ) * csy) ^ 2 := by rw [mul_pow, mul_pow, sq_abs]
    rw [this]; nlinarith [sq_nonneg ((dx : ℚ) * csx)]
  · apply pad_cols_covers maxd csx csy hx
    apply le_of_sq_le (by positivity) hm
    have : ((|dx| : ℚ) * csx) ^ 2 = ((dx : ℚ) * csx) ^ 2 := by rw [mul_pow, mul_pow, sq_abs]
    rw [this]; nlinarith [sq_nonneg ((dy : ℚ) * csy)]

/-- MANHATTAN -/
theorem halo_covers_manhattan (maxd csx csy : ℚ) (hx : 0 < csx) (hy : 0 < csy)
    (dy dx : ℤ) (h : (|dx| : ℚ) * csx + (|dy| : ℚ) * csy ≤ maxd) :
    |dy| ≤ (proximity_dask.pad maxd csx csy).1 ∧ |dx| ≤ (proximity_dask.pad maxd csx csy).2 := by
  have h1 : 0 ≤ (|dx| : ℚ) * csx := by positivity
  have h2 : 0 ≤ (|dy| : ℚ) * csy := by positivity
  exact ⟨pad_rows_covers maxd csx csy hy dy (by linarith), pad_cols_covers maxd csx csy hx dx (by linarith)⟩

/-- hence the target's cell is inside the window dask hands to the block containing the cell:
    rows `r0 - pad .. r0 + hh + pad`, whatever the chunk -/
theorem target_in_halo_window (pad : ℤ) (r0 hh r dy : ℤ) (hr : r0 ≤ r ∧ r < r0 + hh) (hd : |dy| ≤ pad) :
    r0 - pad ≤ r + dy ∧ r + dy < r0 + hh + pad := by
  have := abs_le.mp hd
  omega

/-! ## NaN halo cells are never targets -/
section
variable {K : Type} [Field K] [LinearOrder K] [IsStrictOrderedRing K] [Trig K]

/-- default target rule (non-zero and finite) and explicit target list: a NaN cell is not a target -/
theorem boundary_not_target (n_values : NV K) (values : List (NV K)) :
    proximity_is_target.cell (envOf [("n_values", n_values)]) (rd0 [("source_line", (none : NV K))])
      (fun v => if v = "values" then values else []) = some 0 ∨
    n_values = none := by
  cases n_values with
  | none => right; rfl
  | some n =>
    left
    by_cases hn : n = 0
    · subst hn; ksimp [proximity_is_target]
    · ksimp [proximity_is_target, hn]

/-- and the default rule accepts exactly the non-zero finite cells -/
theorem default_target_rule (v : K) :
    proximity_is_target.cell (envOf [("n_values", some (0 : K))]) (rd0 [("source_line", some v)])
      (fun _ => []) = if v = 0 then some 0 else some 1 := by
  ksimp [proximity_is_target]
  split <;> simp_all
end

/-! ## the single-block fallback is the whole-raster computation -/

/-- a block function that only looks at the cells of its block -/
def ExtentLocal {α β : Type} (f : Grid α → Grid β) : Prop :=
  ∀ g1 g2 : Grid α, g1.h = g2.h → g1.w = g2.w →
    (∀ i j : Int, 0 ≤ i → i < g1.h → 0 ≤ j → j < g1.w → g1.cell i j = g2.cell i j) →
    ∀ i j : Int, 0 ≤ i → i < g1.h → 0 ≤ j → j < g1.w → (f g1).cell i j = (f g2).cell i j

/-- one chunk of the raster's own shape and depth 0 (what the fallback rechunks to): the Dask result
    is the block function applied to the raster itself -/
theorem single_block_is_whole {α β : Type} (fill : α) (dflt : β) (f : Grid α → Grid β) (hf : ExtentLocal f)
    (g : Grid α) (i j : Int) (hi : 0 ≤ i) (hi' : i < g.h) (hj : 0 ≤ j) (hj' : j < g.w) :
    (mapOverlap fill dflt 0 0 f [g.h] [g.w] g).cell i j = (f g).cell i j := by
  have hr : locate [g.h] 0 i.toNat = some (0, g.h) := by simp [locate]; omega
  have hc : locate [g.w] 0 j.toNat = some (0, g.w) := by simp [locate]; omega
  simp only [mapOverlap, hr, hc]
  have := hf (haloBlock fill 0 0 g 0 g.h 0 g.w) g (by simp [haloBlock]) (by simp [haloBlock])
    (by intro a b h1 h2 h3 h4
        simp only [haloBlock] at h2 h4 ⊢
        simp only [Grid.get]
        rw [if_pos ⟨by omega, by omega, by omega, by omega⟩]
        congr 1 <;> omega)
    i j hi (by simp [haloBlock]; omega) hj (by simp [haloBlock]; omega)
  simpa using this

/-! ## what the halo gives for the result: partial -/

/-- **partial**: the unconditional statement "chunked = whole" is false for the four-sweep heuristic
    (`window_sweep_eq_whole_false` below).  What *is* proved: any block function that is determined by the cells within the
    halo radius (e.g. the exact nearest-target distance cut at max_distance, which the sweep equals
    whenever it is exact) gives the same value chunked and whole. -/
theorem chunked_eq_whole_partial {α β : Type} (fill : α) (dflt : β) (dr dc : Nat)
    (k : (Int → Int → α) → β) (f : Grid α → Grid β)
    (hk : WindowLocal dr dc k) (hf : IsStencil 0 0 k f)
    (rch cch : List Nat) (g : Grid α) (hrs : rch.sum = g.h) (hcs : cch.sum = g.w)
    (i j : Int) (hi : 0 ≤ i) (hi' : i < g.h) (hj : 0 ≤ j) (hj' : j < g.w) :
    (mapOverlap fill dflt dr dc f rch cch g).cell i j = spec fill k g i j :=
  mapOverlap_eq_spec_of_valid fill dflt dr dc 0 0 k f hk hf (Nat.zero_le _) (Nat.zero_le _)
    rch cch g hrs hcs i j hi hi' hj hj'

/-! ## the four-sweep on a halo window versus the four-sweep on the whole raster -/
section sweep
open XrsVerif.Prox

theorem adiff_cast_int (a b : Nat) : ((adiff a b : Nat) : ℤ) = |(a : ℤ) - (b : ℤ)| := by
  unfold adiff
  rcases le_total a b with h | h
  · rw [abs_of_nonpos (by omega)]; omega
  · rw [abs_of_nonneg (by omega)]; omega

/-- **the halo the code computes covers max_distance in the proximity model**: grid steps `sx·u`, `sy·u` (u = coordinate
    unit), threshold `m` of the model exact for `maxd` (`hexact`: `2·d ≤ m` means `d·u² ≤ maxd²`, true for
    `m = ⌈2·maxd²/u²⌉` whenever frac(maxd²/u²) ≤ 1/2): the generated `pad maxd csx csy` is a `HaloCovers` halo -/
theorem generated_pad_covers (c : Cfg) (hpl : c.Planar) (hsx : 0 < c.sx) (hsy : 0 < c.sy)
    (u maxd : ℚ) (hu : 0 < u) (hmd : 0 ≤ maxd) (m : Nat) (hmax : c.max2x2 = some m)
    (hexact : ∀ d : Nat, 2 * d ≤ m → (d : ℚ) * u ^ 2 ≤ maxd ^ 2) :
    HaloCovers c (proximity_dask.pad maxd (c.sx * u) (c.sy * u)).1.toNat
      (proximity_dask.pad maxd (c.sx * u) (c.sy * u)).2.toNat := by
  intro r1 c1 r2 c2 hw
  unfold withinMax at hw
  rw [hmax] at hw
  simp only [decide_eq_true_eq] at hw
  have hd := hexact _ hw
  have hcx : (0 : ℚ) < c.sx * u := by positivity
  have hcy : (0 : ℚ) < c.sy * u := by positivity
  set dy : ℤ := (r1 : ℤ) - r2 with hdy
  set dx : ℤ := (c1 : ℤ) - c2 with hdx
  have ey : ((adiff r1 r2 : Nat) : ℚ) = ((|dy| : ℤ) : ℚ) := by rw [hdy, ← adiff_cast_int]; simp
  have ex : ((adiff c1 c2 : Nat) : ℚ) = ((|dx| : ℤ) : ℚ) := by rw [hdx, ← adiff_cast_int]; simp
  have key : |dy| ≤ (proximity_dask.pad maxd (c.sx * u) (c.sy * u)).1 ∧
      |dx| ≤ (proximity_dask.pad maxd (c.sx * u) (c.sy * u)).2 := by
    rcases hpl with h | h
    · apply halo_covers_euclidean maxd _ _ hcx hcy hmd dy dx
      unfold dist2 at hd
      rw [h] at hd
      simp only at hd
      push_cast at hd
      rw [ey, ex] at hd
      have e1 : ((dx : ℚ) * (c.sx * u)) ^ 2 = ((|dx| : ℤ) : ℚ) * c.sx * (((|dx| : ℤ) : ℚ) * c.sx) * u ^ 2 := by
        push_cast; rw [mul_pow, ← sq_abs (dx : ℚ)]; ring
      have e2 : ((dy : ℚ) * (c.sy * u)) ^ 2 = ((|dy| : ℤ) : ℚ) * c.sy * (((|dy| : ℤ) : ℚ) * c.sy) * u ^ 2 := by
        push_cast; rw [mul_pow, ← sq_abs (dy : ℚ)]; ring
      rw [e1, e2]
      nlinarith [hd]
    · apply halo_covers_manhattan maxd _ _ hcx hcy dy dx
      unfold dist2 at hd
      rw [h] at hd
      simp only at hd
      push_cast at hd
      rw [ey, ex] at hd
      apply le_of_sq_le (by positivity) hmd
      push_cast at hd ⊢
      nlinarith [hd]
  have h1 := adiff_cast_int r1 r2
  have h2 := adiff_cast_int c1 c2
  have h3 : |dy| = |(r1 : ℤ) - r2| := rfl
  have h4 : |dx| = |(c1 : ℤ) - c2| := rfl
  obtain ⟨k1, k2⟩ := key
  constructor <;> omega

/-- **halo theorem for the specification of proximity** (planar metrics, any cell sizes, any block, any halo that covers
    max_distance, window clipped at the raster edge): the exact nearest-target distance cut at max_distance computed on
    the block's halo window equals, at every cell of the block, the one computed on the whole raster. -/
theorem window_exact_eq_whole (c : Cfg) (hpl : c.Planar) (tg : Nat → Nat → Bool) (a0 a1 b0 b1 py px : Nat)
    (hc : HaloCovers c py px) (hH : a1 ≤ c.H) (hW : b1 ≤ c.W)
    (r p : Nat) (hr0 : a0 ≤ r) (hr1 : r < a1) (hp0 : b0 ≤ p) (hp1 : p < b1) :
    exactCut ((haloWin c a0 a1 b0 b1 py px).cfg c) ((haloWin c a0 a1 b0 b1 py px).tg tg)
      (r - (haloWin c a0 a1 b0 b1 py px).r0) (p - (haloWin c a0 a1 b0 b1 py px).c0) = exactCut c tg r p :=
  exactCut_window c hpl tg a0 a1 b0 b1 py px hc hH hW r p hr0 hr1 hp0 hp1

/-- ... in particular with the halo `_process_dask` computes (`Gen.proximity_dask.pad`, regenerated from the source) -/
theorem window_exact_eq_whole_generated_pad (c : Cfg) (hpl : c.Planar) (hsx : 0 < c.sx) (hsy : 0 < c.sy)
    (u maxd : ℚ) (hu : 0 < u) (hmd : 0 ≤ maxd) (m : Nat) (hmax : c.max2x2 = some m)
    (hexact : ∀ d : Nat, 2 * d ≤ m → (d : ℚ) * u ^ 2 ≤ maxd ^ 2)
    (tg : Nat → Nat → Bool) (a0 a1 b0 b1 : Nat) (hH : a1 ≤ c.H) (hW : b1 ≤ c.W)
    (r p : Nat) (hr0 : a0 ≤ r) (hr1 : r < a1) (hp0 : b0 ≤ p) (hp1 : p < b1) :
    let py := (proximity_dask.pad maxd (c.sx * u) (c.sy * u)).1.toNat
    let px := (proximity_dask.pad maxd (c.sx * u) (c.sy * u)).2.toNat
    exactCut ((haloWin c a0 a1 b0 b1 py px).cfg c) ((haloWin c a0 a1 b0 b1 py px).tg tg)
      (r - (haloWin c a0 a1 b0 b1 py px).r0) (p - (haloWin c a0 a1 b0 b1 py px).c0) = exactCut c tg r p :=
  window_exact_eq_whole c hpl tg a0 a1 b0 b1 _ _
    (generated_pad_covers c hpl hsx hsy u maxd hu hmd m hmax hexact) hH hW r p hr0 hr1 hp0 hp1

/-- the sweep on the block's halo window, read at the block cell (r, p) of the raster -/
def winProx (c : Cfg) (tg : Nat → Nat → Bool) (a0 a1 b0 b1 py px r p : Nat) : Option Nat :=
  proxAt (run ((haloWin c a0 a1 b0 b1 py px).cfg c) ((haloWin c a0 a1 b0 b1 py px).tg tg))
    (r - (haloWin c a0 a1 b0 b1 py px).r0) (p - (haloWin c a0 a1 b0 b1 py px).c0)

/-- ... and the target it names, in raster coordinates -/
def winAlloc (c : Cfg) (tg : Nat → Nat → Bool) (a0 a1 b0 b1 py px r p : Nat) : Tgt :=
  (allocAt (run ((haloWin c a0 a1 b0 b1 py px).cfg c) ((haloWin c a0 a1 b0 b1 py px).tg tg))
    (r - (haloWin c a0 a1 b0 b1 py px).r0) (p - (haloWin c a0 a1 b0 b1 py px).c0)).map
    (fun t => ((haloWin c a0 a1 b0 b1 py px).r0 + t.1, (haloWin c a0 a1 b0 b1 py px).c0 + t.2))

/-- where both sweeps are exact they agree -/
theorem window_eq_whole_of_exact (c : Cfg) (hpl : c.Planar) (tg : Nat → Nat → Bool) (a0 a1 b0 b1 py px : Nat)
    (hc : HaloCovers c py px) (hH : a1 ≤ c.H) (hW : b1 ≤ c.W)
    (r p : Nat) (hr0 : a0 ≤ r) (hr1 : r < a1) (hp0 : b0 ≤ p) (hp1 : p < b1)
    (hwin : winProx c tg a0 a1 b0 b1 py px r p =
      exactCut ((haloWin c a0 a1 b0 b1 py px).cfg c) ((haloWin c a0 a1 b0 b1 py px).tg tg)
        (r - (haloWin c a0 a1 b0 b1 py px).r0) (p - (haloWin c a0 a1 b0 b1 py px).c0))
    (hwhole : proxAt (run c tg) r p = exactCut c tg r p) :
    winProx c tg a0 a1 b0 b1 py px r p = proxAt (run c tg) r p := by
  rw [hwin, hwhole]
  exact window_exact_eq_whole c hpl tg a0 a1 b0 b1 py px hc hH hW r p hr0 hr1 hp0 hp1

/-- a difference between the chunked and the whole-raster result is always a failure of exactness of one of the two
    sweeps (never of the halo) -/
theorem difference_is_inexactness (c : Cfg) (hpl : c.Planar) (tg : Nat → Nat → Bool) (a0 a1 b0 b1 py px : Nat)
    (hc : HaloCovers c py px) (hH : a1 ≤ c.H) (hW : b1 ≤ c.W)
    (r p : Nat) (hr0 : a0 ≤ r) (hr1 : r < a1) (hp0 : b0 ≤ p) (hp1 : p < b1)
    (hne : winProx c tg a0 a1 b0 b1 py px r p ≠ proxAt (run c tg) r p) :
    winProx c tg a0 a1 b0 b1 py px r p ≠
      exactCut ((haloWin c a0 a1 b0 b1 py px).cfg c) ((haloWin c a0 a1 b0 b1 py px).tg tg)
        (r - (haloWin c a0 a1 b0 b1 py px).r0) (p - (haloWin c a0 a1 b0 b1 py px).c0) ∨
    proxAt (run c tg) r p ≠ exactCut c tg r p := by
  by_cases h1 : winProx c tg a0 a1 b0 b1 py px r p =
      exactCut ((haloWin c a0 a1 b0 b1 py px).cfg c) ((haloWin c a0 a1 b0 b1 py px).tg tg)
        (r - (haloWin c a0 a1 b0 b1 py px).r0) (p - (haloWin c a0 a1 b0 b1 py px).c0)
  · right
    intro h2
    exact hne (window_eq_whole_of_exact c hpl tg a0 a1 b0 b1 py px hc hH hW r p hr0 hr1 hp0 hp1 h1 h2)
  · left; exact h1

/-- a raster with exactly one target (planar metric, positive steps): chunked = whole for every block, every halo
    covering max_distance, all three outputs (proximity, and the target ALLOCATION / DIRECTION are computed from) -/
theorem window_eq_whole_single_target (c : Cfg) (hpl : c.Planar) (hsx : 0 < c.sx) (hsy : 0 < c.sy)
    (tg : Nat → Nat → Bool) (t0 : Nat × Nat) (ht0 : IsTarget c tg t0) (huniq : ∀ t, IsTarget c tg t → t = t0)
    (a0 a1 b0 b1 py px : Nat) (hc : HaloCovers c py px) (hH : a1 ≤ c.H) (hW : b1 ≤ c.W)
    (r p : Nat) (hr0 : a0 ≤ r) (hr1 : r < a1) (hp0 : b0 ≤ p) (hp1 : p < b1) :
    winProx c tg a0 a1 b0 b1 py px r p = proxAt (run c tg) r p ∧
    winAlloc c tg a0 a1 b0 b1 py px r p = allocAt (run c tg) r p := by
  have hin := haloWin_inside c a0 a1 b0 b1 py px (by omega) (by omega) hH hW
  have hrw : r - (haloWin c a0 a1 b0 b1 py px).r0 < (haloWin c a0 a1 b0 b1 py px).h := by
    simp only [haloWin]; omega
  have hpw : p - (haloWin c a0 a1 b0 b1 py px).c0 < (haloWin c a0 a1 b0 b1 py px).w := by
    simp only [haloWin]; omega
  have hwhole := single_target_cut c tg hpl hsx hsy t0 ht0 huniq r p (by omega) (by omega)
  have hwin := window_run_exact_of_single c tg hpl hsx hsy t0 huniq _ hin _ _ hrw hpw
  have hprox := window_eq_whole_of_exact c hpl tg a0 a1 b0 b1 py px hc hH hW r p hr0 hr1 hp0 hp1 hwin hwhole
  refine ⟨hprox, ?_⟩
  have hrefl := planar_refl c hpl
  have hs := run_cell_sound c tg hrefl r p (by omega) (by omega)
  have hplv : ((haloWin c a0 a1 b0 b1 py px).cfg c).Planar := hpl
  have hsv := run_cell_sound _ ((haloWin c a0 a1 b0 b1 py px).tg tg) (planar_refl _ hplv) _ _ hrw hpw
  unfold winProx at hprox
  unfold winAlloc
  cases hl : proxAt (run c tg) r p with
  | none =>
    rw [hl] at hprox
    rw [hs.2 hl, hsv.2 hprox]; rfl
  | some d =>
    rw [hl] at hprox
    obtain ⟨t, hat, hT, _⟩ := hs.1 d hl
    obtain ⟨t', hat', hT', _⟩ := hsv.1 d hprox
    rw [hat, hat', huniq t hT]
    have := huniq _ (win_target_is_grid_target c hpl tg _ hin t' hT' 0 0).1
    simp only [Option.map_some, this]

/-- the statement one would like to have for the heuristic sweep: for every raster, block, halo covering max_distance
    (window clipped at the raster edge), the sweep on the window gives the whole-raster value on the block's cells -/
def WindowSweepEqWhole : Prop :=
  ∀ (c : Cfg) (tg : Nat → Nat → Bool) (a0 a1 b0 b1 py px r p : Nat),
    c.Planar → 0 < c.sx → 0 < c.sy → HaloCovers c py px → a1 ≤ c.H → b1 ≤ c.W →
    a0 ≤ r → r < a1 → b0 ≤ p → p < b1 →
    winProx c tg a0 a1 b0 b1 py px r p = proxAt (run c tg) r p

/-- the witness: 3 rows x 4 columns, cells 1 wide and 2 high, EUCLIDEAN, max_distance 2.9 (⌈2·2.9²⌉ = 17) -/
def witCfg : Cfg := { H := 3, W := 4, sx := 1, sy := 2, metric := .euclid, max2x2 := some 17 }
/-- targets at (0,3), (1,1), (2,0) -/
def witTg : Nat → Nat → Bool := fun r p => (r == 0 && p == 3) || (r == 1 && p == 1) || (r == 2 && p == 0)

theorem witness_halo_covers : HaloCovers witCfg 1 3 :=
  haloCovers_of_bound witCfg (Or.inl rfl) 17 1 3 rfl (by decide) (by decide)

/-- the halo of the witness is the one the generated `pad` expressions give for max_distance 2.9 and cells 1 x 2, and 17
    is the model's threshold for that max_distance -/
theorem witness_halo_is_generated_pad :
    proximity_dask.pad (29 / 10) 1 2 = (1, 3) ∧ Rat.ceil (2 * (29 / 10 : ℚ) ^ 2) = 17 := by
  constructor
  · decide +kernel
  · decide +kernel

/-- on the witness, block = last row (rows [2,3), all columns), halo (1, 3): the whole-raster sweep leaves (2,3) NaN,
    the sweep on the window (rows 1..2) reports 8 = 2² + 2², which is the exact nearest target (1,1) -- within
    max_distance (2·8 ≤ 17) -/
theorem window_sweep_differs_3x4 :
    proxAt (run witCfg witTg) 2 3 = none ∧ winProx witCfg witTg 2 3 0 4 1 3 2 3 = some 8 ∧
    exactCut witCfg witTg 2 3 = some 8 ∧ winAlloc witCfg witTg 2 3 0 4 1 3 2 3 = some (1, 1) := by
  decide +kernel

/-- **the heuristic sweep is not window independent**: the halo covers max_distance and still the chunked result
    differs from the whole-raster result -/
theorem window_sweep_eq_whole_false : ¬ WindowSweepEqWhole := by
  intro h
  have h1 := h witCfg witTg 2 3 0 4 1 3 2 3 (Or.inl rfl) (by decide) (by decide) witness_halo_covers
    (by decide) (by decide) (by decide) (by decide) (by decide) (by decide)
  rw [window_sweep_differs_3x4.1, window_sweep_differs_3x4.2.1] at h1
  cases h1

/-- second way to differ: 4x4, same cells and max_distance, targets (0,3), (1,1), (2,0), (3,1), block = row 2.  At
    (2,3) both runs report the exact distance 8, but the whole-raster run names (3,1) (found by the bottom-up pass) and
    the window run names (1,1) (found by its top-down pass): ALLOCATION and DIRECTION differ, PROXIMITY does not -/
theorem window_alloc_differs_on_tie :
    let c : Cfg := { H := 4, W := 4, sx := 1, sy := 2, metric := .euclid, max2x2 := some 17 }
    let tg : Nat → Nat → Bool := fun r p =>
      (r == 0 && p == 3) || (r == 1 && p == 1) || (r == 2 && p == 0) || (r == 3 && p == 1)
    proxAt (run c tg) 2 3 = some 8 ∧ winProx c tg 2 3 0 4 1 3 2 3 = some 8 ∧
    allocAt (run c tg) 2 3 = some (3, 1) ∧ winAlloc c tg 2 3 0 4 1 3 2 3 = some (1, 1) := by
  decide +kernel

end sweep

/-! ## non-vacuity -/
example : (proximity_dask.pad 5 2 (1/2)) = (10, 3) := by decide +kernel
/-- `generated_pad_covers`: the exactness hypothesis on the threshold holds for the witness (max_distance 2.9, unit 1, m = 17) -/
example : ∀ d : Nat, 2 * d ≤ 17 → (d : ℚ) * (1 : ℚ) ^ 2 ≤ (29 / 10 : ℚ) ^ 2 := by
  intro d h
  have : (d : ℚ) ≤ 8 := by exact_mod_cast (by omega : d ≤ 8)
  norm_num; linarith
/-- `window_eq_whole_single_target` / `window_exact_eq_whole`: a halo that covers max_distance exists for every finite
    threshold (here 5x5 unit cells, max_distance 2: one more row is beyond it) -/
example : Prox.HaloCovers { H := 5, W := 5, sx := 1, sy := 1, metric := .euclid, max2x2 := some 8 } 2 2 :=
  Prox.haloCovers_of_bound _ (Or.inl rfl) 8 2 2 rfl (by decide) (by decide)
example : ((3 : ℚ) * 1) ^ 2 + ((4 : ℚ) * 1) ^ 2 ≤ (5 : ℚ) ^ 2 := by norm_num

end XrsVerif.C07
