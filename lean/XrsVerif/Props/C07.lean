import XrsVerif.Proofs.HaloNV
import XrsVerif.Gen.ProximityDask
import XrsVerif.Gen.Kernels
import Mathlib.Algebra.Order.Field.Rat
import Mathlib.Tactic.Linarith
import Mathlib.Tactic.Positivity
/-
  C07 -- Chunked proximity equals whole-raster proximity.

  What is proved here (all about definitions regenerated from /repo: `Gen.proximity_dask`,
  `Gen.proximity_is_target`):
  * the halo, in cells, computed per axis from max_distance and *that axis'* cell size covers every
    target within max_distance of a chunk cell, for both planar metrics (`halo_covers_*`,
    `target_in_halo_window`);
  * NaN halo cells are never targets, with default and explicit target lists (`boundary_not_target`);
  * the single-block fallback is the whole-raster computation (`single_block_is_whole`);
  * data and both coordinate grids are chunked and padded alike, boundary NaN, depth order
    (rows, columns) (`proximity_wiring_ok`) -- so distances inside a block are global distances.
  What is *not* proved: that the four-sweep propagation returns the same answer on the truncated
  window as on the whole raster (`chunked_eq_whole_partial` states what is available); that part
  rests on the differential run of harness/corr_C07.py.
-/
set_option linter.unusedSectionVars false
set_option linter.unusedVariables false
namespace XrsVerif.C07
open XrsVerif XrsVerif.Gen

/-! ## the generated wiring -/
theorem proximity_wiring_ok :
    (proximity_dask.ok && proximity_dask.fallbackSingleBlock && proximity_dask.boundaryNaN &&
      proximity_dask.coordsChunkedLikeRaster &&
      (proximity_dask.depthOrder == ["pad_y", "pad_x"]) &&
      (proximity_dask.arrays == ["raster.data", "xs", "ys"]) &&
      (proximity_dask.fallbackTest == "max_distance >= max_possible_distance")) = true := by
  decide

/-! ## the halo covers max_distance, per axis with its own cell size -/

/-- `d` cells of size `cs` within `maxd` => `d` ≤ the generated row pad (uses the y cell size) -/
theorem pad_rows_covers (maxd csx csy : ℚ) (hcs : 0 < csy) (d : ℤ) (h : (|d| : ℚ) * csy ≤ maxd) :
    |d| ≤ (proximity_dask.pad maxd csx csy).1 := by
  show |d| ≤ Rat.floor (maxd / csy + 1 / 2)
  rw [Rat.le_floor_iff]
  have h1 : ((|d| : ℤ) : ℚ) ≤ maxd / csy := by
    rw [le_div_iff₀ hcs]; push_cast; exact h
  linarith

/-- the column pad uses the x cell size -/
theorem pad_cols_covers (maxd csx csy : ℚ) (hcs : 0 < csx) (d : ℤ) (h : (|d| : ℚ) * csx ≤ maxd) :
    |d| ≤ (proximity_dask.pad maxd csx csy).2 := by
  show |d| ≤ Rat.floor (maxd / csx + 1 / 2)
  rw [Rat.le_floor_iff]
  have h1 : ((|d| : ℤ) : ℚ) ≤ maxd / csx := by
    rw [le_div_iff₀ hcs]; push_cast; exact h
  linarith

theorem le_of_sq_le {a b : ℚ} (ha : 0 ≤ a) (hb : 0 ≤ b) (h : a ^ 2 ≤ b ^ 2) : a ≤ b := by
  by_contra hlt
  rw [not_le] at hlt
  nlinarith

/-- EUCLIDEAN: a target `dy` rows and `dx` columns away whose distance is ≤ max_distance lies within
    the halo on both axes (non-square cells included) -/
theorem halo_covers_euclidean (maxd csx csy : ℚ) (hx : 0 < csx) (hy : 0 < csy) (hm : 0 ≤ maxd)
    (dy dx : ℤ) (h : ((dx : ℚ) * csx) ^ 2 + ((dy : ℚ) * csy) ^ 2 ≤ maxd ^ 2) :
    |dy| ≤ (proximity_dask.pad maxd csx csy).1 ∧ |dx| ≤ (proximity_dask.pad maxd csx csy).2 := by
  constructor
  · apply pad_rows_covers maxd csx csy hy
    apply le_of_sq_le (by positivity) hm
    have : ((|dy| : ℚ) * csy) ^ 2 = ((dy : ℚ) * csy) ^ 2 := by rw [mul_pow, mul_pow, sq_abs]
    rw [this]; nlinarith [sq_nonneg ((dx : ℚ) * csx)]
  · apply pad_cols_covers maxd csx csy hx
    apply le_of_sq_le (by positivity) hm
    have : ((|dx| : ℚ) * csx) ^ 2 = ((dx : ℚ) * csx) ^ 2 := by rw [mul_pow, mul_pow, sq_abs]
    rw [this]; nlinarith [sq_nonneg ((dy : ℚ) * csy)]

/-- MANHATTAN -/
theorem halo_covers_manhattan (maxd csx csy : ℚ) (hx : 0 < csx) (hy : 0 < csy)
    (dy dx : ℤ) (h : (|dx| : ℚ) * csx + (|dy| : ℚ) * csy ≤ maxd) :
    |dy| ≤ (proximity_dask.pad maxd csx csy).1 ∧ |dx| ≤ (proximity_dask.pad maxd csx csy).2 := by
  have h1 : 0 ≤ (|dx| : ℚ) * csx := by positivity
  have h2 : 0 ≤ (|dy| : ℚ) * csy := by positivity
  exact ⟨pad_rows_covers maxd csx csy hy dy (by linarith), pad_cols_covers maxd csx csy hx dx (by linarith)⟩

/-- hence the target's cell is inside the window dask hands to the block containing the cell:
    rows `r0 - pad .. r0 + hh + pad`, whatever the chunk -/
theorem target_in_halo_window (pad : ℤ) (r0 hh r dy : ℤ) (hr : r0 ≤ r ∧ r < r0 + hh) (hd : |dy| ≤ pad) :
    r0 - pad ≤ r + dy ∧ r + dy < r0 + hh + pad := by
  have := abs_le.mp hd
  omega

/-! ## NaN halo cells are never targets -/
section
variable {K : Type} [Field K] [LinearOrder K] [IsStrictOrderedRing K] [Trig K]

/-- default target rule (non-zero and finite) and explicit target list: a NaN cell is not a target -/
theorem boundary_not_target (n_values : NV K) (values : List (NV K)) :
    proximity_is_target.cell (envOf [("n_values", n_values)]) (rd0 [("source_line", (none : NV K))])
      (fun v => if v = "values" then values else []) = some 0 ∨
    n_values = none := by
  cases n_values with
  | none => right; rfl
  | some n =>
    left
    by_cases hn : n = 0
    · subst hn; ksimp [proximity_is_target]
    · ksimp [proximity_is_target, hn]

/-- and the default rule accepts exactly the non-zero finite cells -/
theorem default_target_rule (v : K) :
    proximity_is_target.cell (envOf [("n_values", some (0 : K))]) (rd0 [("source_line", some v)])
      (fun _ => []) = if v = 0 then some 0 else some 1 := by
  ksimp [proximity_is_target]
  split <;> simp_all
end

/-! ## the single-block fallback is the whole-raster computation -/

/-- a block function that only looks at the cells of its block -/
def ExtentLocal {α β : Type} (f : Grid α → Grid β) : Prop :=
  ∀ g1 g2 : Grid α, g1.h = g2.h → g1.w = g2.w →
    (∀ i j : Int, 0 ≤ i → i < g1.h → 0 ≤ j → j < g1.w → g1.cell i j = g2.cell i j) →
    ∀ i j : Int, 0 ≤ i → i < g1.h → 0 ≤ j → j < g1.w → (f g1).cell i j = (f g2).cell i j

/-- one chunk of the raster's own shape and depth 0 (what the fallback rechunks to): the Dask result
    is the block function applied to the raster itself -/
theorem single_block_is_whole {α β : Type} (fill : α) (dflt : β) (f : Grid α → Grid β) (hf : ExtentLocal f)
    (g : Grid α) (i j : Int) (hi : 0 ≤ i) (hi' : i < g.h) (hj : 0 ≤ j) (hj' : j < g.w) :
    (mapOverlap fill dflt 0 0 f [g.h] [g.w] g).cell i j = (f g).cell i j := by
  have hr : locate [g.h] 0 i.toNat = some (0, g.h) := by simp [locate]; omega
  have hc : locate [g.w] 0 j.toNat = some (0, g.w) := by simp [locate]; omega
  simp only [mapOverlap, hr, hc]
  have := hf (haloBlock fill 0 0 g 0 g.h 0 g.w) g (by simp [haloBlock]) (by simp [haloBlock])
    (by intro a b h1 h2 h3 h4
        simp only [haloBlock] at h2 h4 ⊢
        simp only [Grid.get]
        rw [if_pos ⟨by omega, by omega, by omega, by omega⟩]
        congr 1 <;> omega)
    i j hi (by simp [haloBlock]; omega) hj (by simp [haloBlock]; omega)
  simpa using this

/-! ## what the halo gives for the result: partial -/

/-- **partial**: the unconditional statement "chunked = whole" is not a theorem of this model: the
    four-sweep propagation is a heuristic, so equality on a truncated window does not follow from the
    halo alone.  What *is* proved: any block function that is determined by the cells within the
    halo radius (e.g. the exact nearest-target distance cut at max_distance, which the sweep equals
    whenever it is exact) gives the same value chunked and whole. -/
theorem chunked_eq_whole_partial {α β : Type} (fill : α) (dflt : β) (dr dc : Nat)
    (k : (Int → Int → α) → β) (f : Grid α → Grid β)
    (hk : WindowLocal dr dc k) (hf : IsStencil 0 0 k f)
    (rch cch : List Nat) (g : Grid α) (hrs : rch.sum = g.h) (hcs : cch.sum = g.w)
    (i j : Int) (hi : 0 ≤ i) (hi' : i < g.h) (hj : 0 ≤ j) (hj' : j < g.w) :
    (mapOverlap fill dflt dr dc f rch cch g).cell i j = spec fill k g i j :=
  mapOverlap_eq_spec_of_valid fill dflt dr dc 0 0 k f hk hf (Nat.zero_le _) (Nat.zero_le _)
    rch cch g hrs hcs i j hi hi' hj hj'

/-! ## non-vacuity -/
example : (proximity_dask.pad 5 2 (1/2)) = (10, 3) := by decide +kernel
example : ((3 : ℚ) * 1) ^ 2 + ((4 : ℚ) * 1) ^ 2 ≤ (5 : ℚ) ^ 2 := by norm_num

end XrsVerif.C07
