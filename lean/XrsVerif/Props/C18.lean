import XrsVerif.Proofs.Trim
import XrsVerif.Proofs.ILTrim
import XrsVerif.Proofs.NumFl
import XrsVerif.Gen.TrimFacts
/-
  C18 -- trim and crop return the minimal window, cells and coordinates intact.

  Model: `Model/Trim.lean` (hand model of `_trim`, `_crop`, `trim`, `crop` of xrspatial/zonal.py as
  repaired by fixes/D5-… and fixes/D16-…).  Tie: (1) `Gen/TrimFacts.lean`, regenerated from the source by
  harness/facts_trim.py on every run: the match predicate, direction and range of each of the eight scans,
  the early empty return, and what the wrappers do to the value / id list and slice -- the theorems of the
  first section require these to be the canonical shapes and prove that their interpretation
  (`Trim.windowS`) is the hand model, and `trim_minimal` / `crop_minimal` are stated for that interpretation
  of the *generated* shapes; (2) layer T3: `Gen.IL.trim` / `Gen.IL.crop`, the kernels `_trim` / `_crop` translated
  statement by statement into ILang (harness/facts_il.py, validated against numba by harness/il_corr.py) -- the last
  section proves that these *programs* compute `Trim.bounds` (refinement, Proofs/ILTrim.lean) and restates the
  minimal-window clause for them; (3) the correspondence run, harness/corr_C18.py.
  Rasters are functions `cell : Nat → Nat → Num` on `rows × cols`; `Num` has NaN, ±inf and exact
  rationals, and structural equality on `Num` is the NaN-aware equality.
-/
set_option linter.unusedVariables false
namespace XrsVerif.C18
open XrsVerif XrsVerif.Wire XrsVerif.Trim

variable {κ τ : Type}

/-! ### the source has the shape the model assumes (facts generated from the `ast`, Gen/TrimFacts.lean) -/

/-- four scans: rows upwards, rows downwards, columns upwards, columns downwards, each over the whole axis with
    an inner loop over every cell of the row / column, all with the same match predicate and polarity -/
def canonicalScans (m : Match) (p : Polarity) : List ScanShape :=
  [⟨true, .rows, .up, true, m, p⟩, ⟨true, .rows, .down, true, m, p⟩,
   ⟨true, .cols, .up, true, m, p⟩, ⟨true, .cols, .down, true, m, p⟩]

/-- the match predicates are exact: `_trim` tests `e == val or (isnan(e) and isnan(val))` in all four scans,
    `_crop` tests `==` in all four -- never a call such as `np.isclose`, never an ordering -/
theorem trim_match_is_exact :
    Gen.trimKernel.scans.map (·.mtch) = [.eqOrBothNan, .eqOrBothNan, .eqOrBothNan, .eqOrBothNan]
    ∧ Gen.cropKernel.scans.map (·.mtch) = [.eq, .eq, .eq, .eq] := by decide

/-- direction, range and polarity of every scan, and the early empty return, are the canonical ones -/
theorem kernels_are_canonical :
    Gen.trimKernel = ⟨true, canonicalScans .eqOrBothNan .hitIfUnmatched, true⟩
    ∧ Gen.cropKernel = ⟨true, canonicalScans .eq .hitIfMatched, true⟩ := by decide

/-- the wrappers hand the caller's `values` / `zones_ids` to the kernel as they are: no cast, no re-binding
    (a cast to the raster dtype would wrap NaN, negative, out-of-range and fractional entries onto cell values) -/
theorem trim_values_not_cast : Gen.trimWrapper.listCast = .none ∧ Gen.cropWrapper.listCast = .none := by decide

/-- `trim(raster, values, name)`: `_trim(raster.data, values)`, slice of `raster`;
    `crop(zones, values, zones_ids, name)`: `_crop(zones.data, zones_ids)`, slice of `values`;
    the slice is `[top: bottom + 1, left: right + 1]`, `.name = name`, returned -/
theorem wrappers_are_canonical :
    Gen.trimWrapper = ⟨true, "_trim", 0, 1, .none, 0, true, true⟩
    ∧ Gen.cropWrapper = ⟨true, "_crop", 0, 2, .none, 1, true, true⟩ := by decide

/-- `e == val or (isnan(e) and isnan(val))` is the NaN-aware (structural) equality -/
theorem matchS_nanAware (e v : Num) : matchS .eqOrBothNan e v = (e == v) := by
  simp only [matchS, ieeeEq]
  by_cases he : e = Num.nan
  · subst he
    by_cases hv : v = Num.nan
    · subst hv; decide
    · have h1 : (v == Num.nan) = false := by simpa using hv
      have h2 : (Num.nan == v) = false := by simpa using fun h : Num.nan = v => hv h.symm
      simp [h1, h2]
  · have h1 : (e == Num.nan) = false := by simpa using he
    have h2 : (e != Num.nan) = true := by simpa using he
    simp [h1, h2]

/-- the interpretation of the shapes found in the source is the hand model -/
theorem generated_trim_is_model (r : Raster κ τ) (ex : List Num) (name : String) :
    windowS Gen.trimKernel Gen.trimWrapper r r ex name = trim r ex name := by
  simp [windowS, Gen.trimKernel, Gen.trimWrapper, boundsS, scanS, hitS, dirRange, castS, matchS_nanAware, trim,
    trimBounds, bounds, kept]

theorem generated_crop_is_model (z v : Raster κ τ) (ids : List Num) (name : String) :
    windowS Gen.cropKernel Gen.cropWrapper z v ids name = crop z v ids name := by
  simp [windowS, Gen.cropKernel, Gen.cropWrapper, boundsS, scanS, hitS, dirRange, castS, matchS, crop, cropBounds,
    bounds, selected]

/-! ### which cells count -/

/-- trim keeps a cell exactly when its value is not listed -- NaN included: a listed NaN is excluded -/
theorem kept_iff (excludes : List Num) (v : Num) : kept excludes v = true ↔ v ∉ excludes := by
  simp only [kept, Bool.not_eq_true', List.any_eq_false, beq_iff_eq]
  constructor
  · intro h hv; exact h v hv rfl
  · intro h e he hev; exact h (hev ▸ he)

/-- crop selects a zone cell exactly when its (non-NaN) id is listed -/
theorem selected_iff (ids : List Num) (v : Num) : selected ids v = true ↔ v ≠ Num.nan ∧ v ∈ ids := by
  simp only [selected, ieeeEq, List.any_eq_true, Bool.and_eq_true, bne_iff_ne, beq_iff_eq]
  constructor
  · rintro ⟨e, he, hne, rfl⟩; exact ⟨hne, he⟩
  · rintro ⟨hne, hv⟩; exact ⟨v, hv, hne, rfl⟩

/-! ### the four scans give the minimal window (any hit predicate) -/

/-- a window `[t,b]×[l,r]` -/
def Inside (t b l r : Int) (y x : Nat) : Prop := t ≤ (y : Int) ∧ (y : Int) ≤ b ∧ l ≤ (x : Int) ∧ (x : Int) ≤ r

/-- If some cell is a hit, the bounds are inside the raster, every hit lies inside the window, each
    of the four border lines of the window holds a hit, hence every window that contains all hits
    contains this one.  If no cell is a hit the window is the empty `(0,-1,0,-1)`. -/
theorem bounds_minimal (rows cols : Nat) (hit : Nat → Nat → Bool) :
    ((∃ y x, y < rows ∧ x < cols ∧ hit y x = true) →
      ∃ t b l r : Nat, bounds rows cols hit = ⟨t, b, l, r⟩
        ∧ t ≤ b ∧ b < rows ∧ l ≤ r ∧ r < cols
        ∧ (∀ y x, y < rows → x < cols → hit y x = true → Inside t b l r y x)
        ∧ (∃ x, x < cols ∧ hit t x = true) ∧ (∃ x, x < cols ∧ hit b x = true)
        ∧ (∃ y, y < rows ∧ hit y l = true) ∧ (∃ y, y < rows ∧ hit y r = true)
        ∧ ∀ t' b' l' r' : Int,
            (∀ y x, y < rows → x < cols → hit y x = true → Inside t' b' l' r' y x) →
            t' ≤ t ∧ (b : Int) ≤ b' ∧ l' ≤ l ∧ (r : Int) ≤ r')
    ∧ ((∀ y x, y < rows → x < cols → hit y x = false) → bounds rows cols hit = ⟨0, -1, 0, -1⟩) := by
  refine ⟨?_, bounds_of_no_hit rows cols hit⟩
  intro h
  obtain ⟨t, b, l, r, hb, ht, hbb, hl, hr, ⟨xt, hxt, hht⟩, ⟨xb, hxb, hhb⟩, ⟨yl, hyl, hhl⟩, ⟨yr, hyr, hhr⟩, hall⟩ :=
    bounds_of_hit rows cols hit h
  have e1 := hall t xt ht hxt hht
  have e2 := hall yl l hyl hl hhl
  refine ⟨t, b, l, r, hb, by omega, hbb, by omega, hr, ?_, ⟨xt, hxt, hht⟩, ⟨xb, hxb, hhb⟩, ⟨yl, hyl, hhl⟩,
    ⟨yr, hyr, hhr⟩, ?_⟩
  · intro y x hy hx hh
    have := hall y x hy hx hh
    simp only [Inside]; omega
  · intro t' b' l' r' hin
    have a1 := hin t xt ht hxt hht
    have a2 := hin b xb hbb hxb hhb
    have a3 := hin yl l hyl hl hhl
    have a4 := hin yr r hyr hr hhr
    simp only [Inside] at a1 a2 a3 a4
    omega

/-! ### the window is a contiguous slice: cells, coordinates, attrs at the same positions -/

theorem window_is_slice (ra : Raster κ τ) (t b l r : Nat) (name : String)
    (htb : t ≤ b) (hb : b < ra.rows) (hlr : l ≤ r) (hr : r < ra.cols) :
    let w := window ra ⟨t, b, l, r⟩ name
    w.cells.length = b - t + 1 ∧ w.ys.length = b - t + 1 ∧ w.xs.length = r - l + 1
    ∧ (∀ i, i ≤ b - t → w.ys[i]? = some (ra.ys (t + i))
        ∧ ∃ row, w.cells[i]? = some row ∧ row.length = r - l + 1
            ∧ ∀ j, j ≤ r - l → row[j]? = some (ra.cell (t + i) (l + j)))
    ∧ (∀ j, j ≤ r - l → w.xs[j]? = some (ra.xs (l + j)))
    ∧ w.attrs = ra.attrs ∧ w.name = name := by
  intro w
  have h1 : min (b + 1) ra.rows - t = b - t + 1 := by omega
  have h2 : min (r + 1) ra.cols - l = r - l + 1 := by omega
  simp only [w, window, sliceIdx_nat, h1, h2]
  refine ⟨by simp, by simp, by simp, ?_, ?_, by simp⟩
  · intro i hi
    have hi' : i < b - t + 1 := by omega
    refine ⟨by simp [hi'], ?_⟩
    refine ⟨(List.range' l (r - l + 1)).map fun x => ra.cell (t + i) x, by simp [hi'], by simp, ?_⟩
    intro j hj
    have hj' : j < r - l + 1 := by omega
    simp [hj']
  · intro j hj
    have hj' : j < r - l + 1 := by omega
    simp [hj']

/-- *every* coordinate variable of the raster -- scalar coordinates, the dimension coordinates with their attrs, extra
    1-D coordinates along one dimension, 2-D auxiliary coordinates -- reappears in the window: the same variables in the
    same order, each under its name, with its own attrs and its own dimensions, and its labels are the original's at the
    same positions (restricted along the dimensions it has, untouched along the others) -/
theorem window_coords_are_slices (ra : Raster κ τ) (t b l r : Nat) (name : String)
    (htb : t ≤ b) (hb : b < ra.rows) (hlr : l ≤ r) (hr : r < ra.cols) :
    let w := window ra ⟨t, b, l, r⟩ name
    w.coords.length = ra.coords.length
    ∧ ∀ (k : Nat) (c : Coord κ τ), ra.coords[k]? = some c →
        ∃ wc : WCoord κ τ, w.coords[k]? = some wc ∧ wc.name = c.name ∧ wc.onY = c.onY ∧ wc.onX = c.onX ∧ wc.attrs = c.attrs
          ∧ wc.vals.length = (if c.onY then b - t + 1 else 1)
          ∧ ∀ i, i < (if c.onY then b - t + 1 else 1) →
              ∃ row, wc.vals[i]? = some row ∧ row.length = (if c.onX then r - l + 1 else 1)
                ∧ ∀ j, j < (if c.onX then r - l + 1 else 1) →
                    row[j]? = some (c.val (if c.onY then t + i else 0) (if c.onX then l + j else 0)) := by
  intro w
  have h1 : min (b + 1) ra.rows - t = b - t + 1 := by omega
  have h2 : min (r + 1) ra.cols - l = r - l + 1 := by omega
  simp only [w, window, sliceIdx_nat, h1, h2]
  refine ⟨by simp, ?_⟩
  intro k c hk
  refine ⟨c.restrict (List.range' t (b - t + 1)) (List.range' l (r - l + 1)), by simp [hk], rfl, rfl, rfl, rfl, ?_, ?_⟩
  · cases hy : c.onY <;> simp [Coord.restrict, hy]
  · intro i hi
    cases hy : c.onY <;> cases hx : c.onX <;> simp only [hy, if_true, if_false, Bool.false_eq_true] at hi ⊢
    all_goals
      refine ⟨_, by simp [Coord.restrict, hy, hx, hi]; rfl, by simp, ?_⟩
      intro j hj
      simp [hj]

/-- the empty window has no cell and no label, and still the raster's attrs; every coordinate variable is still there
    with its name and attrs, empty along the dimensions it has (a scalar coordinate keeps its value) -/
theorem window_empty (ra : Raster κ τ) (name : String) :
    let w := window ra ⟨0, -1, 0, -1⟩ name
    w.cells = [] ∧ w.ys = [] ∧ w.xs = [] ∧ w.attrs = ra.attrs ∧ w.name = name
    ∧ w.coords = ra.coords.map fun c => ⟨c.name, c.onY, c.onX,
        (if c.onY then [] else [if c.onX then [] else [c.val 0 0]]), c.attrs⟩ := by
  simp only [window, sliceIdx, Coord.restrict]
  refine ⟨by simp, by simp, by simp, by simp, by simp, ?_⟩
  apply List.map_congr_left
  intro c _
  cases c.onY <;> cases c.onX <;> simp

/-! ### trim and crop -/

/-- `trim` -- as the shapes generated from the current source describe it -- returns the smallest window of the
    raster containing every cell whose value is not listed -/
theorem trim_minimal (ra : Raster κ τ) (excludes : List Num) (name : String) :
    ((∃ y x, y < ra.rows ∧ x < ra.cols ∧ ra.cell y x ∉ excludes) →
      ∃ t b l r : Nat, windowS Gen.trimKernel Gen.trimWrapper ra ra excludes name = window ra ⟨t, b, l, r⟩ name
        ∧ t ≤ b ∧ b < ra.rows ∧ l ≤ r ∧ r < ra.cols
        ∧ (∀ y x, y < ra.rows → x < ra.cols → ra.cell y x ∉ excludes → Inside t b l r y x)
        ∧ (∃ x, x < ra.cols ∧ ra.cell t x ∉ excludes) ∧ (∃ x, x < ra.cols ∧ ra.cell b x ∉ excludes)
        ∧ (∃ y, y < ra.rows ∧ ra.cell y l ∉ excludes) ∧ (∃ y, y < ra.rows ∧ ra.cell y r ∉ excludes)
        ∧ ∀ t' b' l' r' : Int,
            (∀ y x, y < ra.rows → x < ra.cols → ra.cell y x ∉ excludes → Inside t' b' l' r' y x) →
            t' ≤ t ∧ (b : Int) ≤ b' ∧ l' ≤ l ∧ (r : Int) ≤ r')
    ∧ ((∀ y x, y < ra.rows → x < ra.cols → ra.cell y x ∈ excludes) →
        (windowS Gen.trimKernel Gen.trimWrapper ra ra excludes name).cells = []
        ∧ (windowS Gen.trimKernel Gen.trimWrapper ra ra excludes name).ys = []
        ∧ (windowS Gen.trimKernel Gen.trimWrapper ra ra excludes name).xs = []) := by
  rw [generated_trim_is_model]
  have key := bounds_minimal ra.rows ra.cols (fun y x => kept excludes (ra.cell y x))
  simp only [kept_iff] at key
  constructor
  · intro h
    obtain ⟨t, b, l, r, hb, rest⟩ := key.1 h
    exact ⟨t, b, l, r, by simp [trim, trimBounds, hb], rest⟩
  · intro h
    have hb := key.2 (by
      intro y x hy hx
      cases hk : kept excludes (ra.cell y x) with
      | false => rfl
      | true => exact absurd (h y x hy hx) ((kept_iff _ _).mp hk))
    have := window_empty ra name
    simp only [trim, trimBounds, hb]
    exact ⟨this.1, this.2.1, this.2.2.1⟩

/-- `crop` -- as the shapes generated from the current source describe it -- returns the window of `values`
    spanning all cells of `zones` whose id is listed -/
theorem crop_minimal (zones values : Raster κ τ) (ids : List Num) (name : String) :
    ((∃ y x, y < zones.rows ∧ x < zones.cols ∧ selected ids (zones.cell y x) = true) →
      ∃ t b l r : Nat, windowS Gen.cropKernel Gen.cropWrapper zones values ids name = window values ⟨t, b, l, r⟩ name
        ∧ t ≤ b ∧ b < zones.rows ∧ l ≤ r ∧ r < zones.cols
        ∧ (∀ y x, y < zones.rows → x < zones.cols → selected ids (zones.cell y x) = true → Inside t b l r y x)
        ∧ (∃ x, x < zones.cols ∧ selected ids (zones.cell t x) = true)
        ∧ (∃ x, x < zones.cols ∧ selected ids (zones.cell b x) = true)
        ∧ (∃ y, y < zones.rows ∧ selected ids (zones.cell y l) = true)
        ∧ (∃ y, y < zones.rows ∧ selected ids (zones.cell y r) = true)
        ∧ ∀ t' b' l' r' : Int,
            (∀ y x, y < zones.rows → x < zones.cols → selected ids (zones.cell y x) = true → Inside t' b' l' r' y x) →
            t' ≤ t ∧ (b : Int) ≤ b' ∧ l' ≤ l ∧ (r : Int) ≤ r')
    ∧ ((∀ y x, y < zones.rows → x < zones.cols → selected ids (zones.cell y x) = false) →
        (windowS Gen.cropKernel Gen.cropWrapper zones values ids name).cells = []
        ∧ (windowS Gen.cropKernel Gen.cropWrapper zones values ids name).ys = []
        ∧ (windowS Gen.cropKernel Gen.cropWrapper zones values ids name).xs = []) := by
  rw [generated_crop_is_model]
  have key := bounds_minimal zones.rows zones.cols (fun y x => selected ids (zones.cell y x))
  constructor
  · intro h
    obtain ⟨t, b, l, r, hb, rest⟩ := key.1 h
    exact ⟨t, b, l, r, by simp [crop, cropBounds, hb], rest⟩
  · intro h
    have hb := key.2 h
    have := window_empty values name
    simp only [crop, cropBounds, hb]
    exact ⟨this.1, this.2.1, this.2.2.1⟩

/-! ### the programs generated from the source (layer T3): `Gen.IL.trim`, `Gen.IL.crop`

  `IL.trim_refines` / `IL.crop_refines` (Proofs/ILTrim.lean) prove, for every number type `[Fl F]`, every raster
  size (0 × n and n × 0 included) and every list, that the program translated statement by statement from the
  current source of `_trim` / `_crop` ends with `return` and returns `Trim.bounds rows cols hit`, where a cell is a hit
  iff no listed `e` has `e == v or (isnan(e) and isnan(v))` (trim) resp. some listed `e` has `e == v` (crop).  All four
  scans are instances of one statement-building function (`TrimScan.scanSt`), handled by one lemma
  (`TrimScan.scanSt_spec`); that the generated bodies are such instances is `TrimScan.trim_body_eq` / `crop_body_eq`
  (by `decide`), so any edit of the source that changes the translated program changes that obligation. -/

section generated_programs
open XrsVerif.IL XrsVerif.IL.TrimScan

/-- the minimal-window clause, for four integers returned by a kernel and a hit predicate -/
def MinimalWindow (rows cols : Nat) (hit : Nat → Nat → Bool) (w : Bounds) : Prop :=
  ((∃ y x, y < rows ∧ x < cols ∧ hit y x = true) →
    ∃ t b l r : Nat, w = ⟨t, b, l, r⟩
      ∧ t ≤ b ∧ b < rows ∧ l ≤ r ∧ r < cols
      ∧ (∀ y x, y < rows → x < cols → hit y x = true → Inside t b l r y x)
      ∧ (∃ x, x < cols ∧ hit t x = true) ∧ (∃ x, x < cols ∧ hit b x = true)
      ∧ (∃ y, y < rows ∧ hit y l = true) ∧ (∃ y, y < rows ∧ hit y r = true)
      ∧ ∀ t' b' l' r' : Int,
          (∀ y x, y < rows → x < cols → hit y x = true → Inside t' b' l' r' y x) →
          t' ≤ t ∧ (b : Int) ≤ b' ∧ l' ≤ l ∧ (r : Int) ≤ r')
  ∧ ((∀ y x, y < rows → x < cols → hit y x = false) → w = ⟨0, -1, 0, -1⟩)

/-- the generated `_trim`, over any number type: it returns, and its four results are the minimal window of the cells
    that no listed value matches (`==`, or both NaN) -- empty `(0,-1,0,-1)` when every cell is matched -/
theorem generated_trim_program_minimal {F : Type} [Fl F] (s : State F) (fuel rows cols : Nat)
    (cell : Nat → Nat → F) (excludes : List F) (h : Holds s rows cols cell "excludes" excludes) :
    (Gen.IL.trim.run s fuel).ctl = .ret
    ∧ progBounds (Gen.IL.trim.run s fuel) = bounds rows cols (fun y x => trimHit excludes (cell y x))
    ∧ MinimalWindow rows cols (fun y x => trimHit excludes (cell y x)) (progBounds (Gen.IL.trim.run s fuel)) := by
  obtain ⟨h1, h2⟩ := trim_refines s fuel rows cols h.run h.shape h.lshape
  have hb : progBounds (Gen.IL.trim.run s fuel) = bounds rows cols (fun y x => trimHit excludes (cell y x)) := by
    rw [progBounds, h2, h.list]
    exact bounds_congr _ _ _ _ (fun y x hy hx => by rw [h.cells y x hy hx])
  refine ⟨h1, hb, ?_⟩
  rw [hb]
  exact bounds_minimal rows cols _

/-- the generated `_crop`, over any number type: it returns, and its four results are the minimal window of the cells
    that `==` some listed value -- empty `(0,-1,0,-1)` when there is none -/
theorem generated_crop_program_minimal {F : Type} [Fl F] (s : State F) (fuel rows cols : Nat)
    (cell : Nat → Nat → F) (ids : List F) (h : Holds s rows cols cell "values" ids) :
    (Gen.IL.crop.run s fuel).ctl = .ret
    ∧ progBounds (Gen.IL.crop.run s fuel) = bounds rows cols (fun y x => cropHit ids (cell y x))
    ∧ MinimalWindow rows cols (fun y x => cropHit ids (cell y x)) (progBounds (Gen.IL.crop.run s fuel)) := by
  obtain ⟨h1, h2⟩ := crop_refines s fuel rows cols h.run h.shape h.lshape
  have hb : progBounds (Gen.IL.crop.run s fuel) = bounds rows cols (fun y x => cropHit ids (cell y x)) := by
    rw [progBounds, h2, h.list]
    exact bounds_congr _ _ _ _ (fun y x hy hx => by rw [h.cells y x hy hx])
  refine ⟨h1, hb, ?_⟩
  rw [hb]
  exact bounds_minimal rows cols _

/-- at the model's numbers (`Wire.Num` read as a number type, Proofs/NumFl.lean: `Fl.eq` = `ieeeEq`, `Fl.isnan` =
    "is NaN") the program's hit predicates are the model's `kept` / `selected` -/
theorem trimHit_is_kept (excludes : List Num) (v : Num) : trimHit excludes v = kept excludes v := by
  have : ∀ e, trimMatch e v = (e == v) := fun e => by
    rw [← matchS_nanAware]; rfl
  simp [trimHit, kept, this]

theorem cropHit_is_selected (ids : List Num) (v : Num) : cropHit ids v = selected ids v := rfl

/-- the generated `_trim` run on the cells of a raster and an exclusion list returns the model's bounds; hence the
    window it cuts is `trim` as the generated shapes describe it … -/
theorem generated_trim_program_is_model (ra : Raster κ τ) (excludes : List Num) (name : String)
    (s : State Num) (fuel : Nat) (h : Holds s ra.rows ra.cols ra.cell "excludes" excludes) :
    (Gen.IL.trim.run s fuel).ctl = .ret
    ∧ progBounds (Gen.IL.trim.run s fuel) = trimBounds ra excludes
    ∧ window ra (progBounds (Gen.IL.trim.run s fuel)) name
        = windowS Gen.trimKernel Gen.trimWrapper ra ra excludes name := by
  obtain ⟨h1, h2, _⟩ := generated_trim_program_minimal s fuel ra.rows ra.cols ra.cell excludes h
  have hb : progBounds (Gen.IL.trim.run s fuel) = trimBounds ra excludes := by
    rw [h2]; simp only [trimHit_is_kept]; rfl
  exact ⟨h1, hb, by rw [hb, generated_trim_is_model]; rfl⟩

/-- … and that window is the smallest window of the raster containing every cell whose value is not listed
    (`trim_minimal` for the *generated program*) -/
theorem generated_trim_window_minimal (ra : Raster κ τ) (excludes : List Num) (name : String)
    (s : State Num) (fuel : Nat) (h : Holds s ra.rows ra.cols ra.cell "excludes" excludes) :
    let w := window ra (progBounds (Gen.IL.trim.run s fuel)) name
    ((∃ y x, y < ra.rows ∧ x < ra.cols ∧ ra.cell y x ∉ excludes) →
      ∃ t b l r : Nat, w = window ra ⟨t, b, l, r⟩ name
        ∧ t ≤ b ∧ b < ra.rows ∧ l ≤ r ∧ r < ra.cols
        ∧ (∀ y x, y < ra.rows → x < ra.cols → ra.cell y x ∉ excludes → Inside t b l r y x)
        ∧ (∃ x, x < ra.cols ∧ ra.cell t x ∉ excludes) ∧ (∃ x, x < ra.cols ∧ ra.cell b x ∉ excludes)
        ∧ (∃ y, y < ra.rows ∧ ra.cell y l ∉ excludes) ∧ (∃ y, y < ra.rows ∧ ra.cell y r ∉ excludes)
        ∧ ∀ t' b' l' r' : Int,
            (∀ y x, y < ra.rows → x < ra.cols → ra.cell y x ∉ excludes → Inside t' b' l' r' y x) →
            t' ≤ t ∧ (b : Int) ≤ b' ∧ l' ≤ l ∧ (r : Int) ≤ r')
    ∧ ((∀ y x, y < ra.rows → x < ra.cols → ra.cell y x ∈ excludes) → w.cells = [] ∧ w.ys = [] ∧ w.xs = []) := by
  intro w
  have hw : w = windowS Gen.trimKernel Gen.trimWrapper ra ra excludes name :=
    (generated_trim_program_is_model ra excludes name s fuel h).2.2
  rw [hw]
  exact trim_minimal ra excludes name

/-- the generated `_crop` run on the cells of `zones` and an id list returns the model's bounds; hence the window of
    `values` it cuts is `crop` as the generated shapes describe it … -/
theorem generated_crop_program_is_model (zones values : Raster κ τ) (ids : List Num) (name : String)
    (s : State Num) (fuel : Nat) (h : Holds s zones.rows zones.cols zones.cell "values" ids) :
    (Gen.IL.crop.run s fuel).ctl = .ret
    ∧ progBounds (Gen.IL.crop.run s fuel) = cropBounds zones ids
    ∧ window values (progBounds (Gen.IL.crop.run s fuel)) name
        = windowS Gen.cropKernel Gen.cropWrapper zones values ids name := by
  obtain ⟨h1, h2, _⟩ := generated_crop_program_minimal s fuel zones.rows zones.cols zones.cell ids h
  have hb : progBounds (Gen.IL.crop.run s fuel) = cropBounds zones ids := by
    rw [h2]; rfl
  exact ⟨h1, hb, by rw [hb, generated_crop_is_model]; rfl⟩

/-- … and that window spans exactly the cells of `zones` whose id is listed (`crop_minimal` for the *generated
    program*) -/
theorem generated_crop_window_minimal (zones values : Raster κ τ) (ids : List Num) (name : String)
    (s : State Num) (fuel : Nat) (h : Holds s zones.rows zones.cols zones.cell "values" ids) :
    let w := window values (progBounds (Gen.IL.crop.run s fuel)) name
    ((∃ y x, y < zones.rows ∧ x < zones.cols ∧ selected ids (zones.cell y x) = true) →
      ∃ t b l r : Nat, w = window values ⟨t, b, l, r⟩ name
        ∧ t ≤ b ∧ b < zones.rows ∧ l ≤ r ∧ r < zones.cols
        ∧ (∀ y x, y < zones.rows → x < zones.cols → selected ids (zones.cell y x) = true → Inside t b l r y x)
        ∧ (∃ x, x < zones.cols ∧ selected ids (zones.cell t x) = true)
        ∧ (∃ x, x < zones.cols ∧ selected ids (zones.cell b x) = true)
        ∧ (∃ y, y < zones.rows ∧ selected ids (zones.cell y l) = true)
        ∧ (∃ y, y < zones.rows ∧ selected ids (zones.cell y r) = true)
        ∧ ∀ t' b' l' r' : Int,
            (∀ y x, y < zones.rows → x < zones.cols → selected ids (zones.cell y x) = true → Inside t' b' l' r' y x) →
            t' ≤ t ∧ (b : Int) ≤ b' ∧ l' ≤ l ∧ (r : Int) ≤ r')
    ∧ ((∀ y x, y < zones.rows → x < zones.cols → selected ids (zones.cell y x) = false) →
        w.cells = [] ∧ w.ys = [] ∧ w.xs = []) := by
  intro w
  have hw : w = windowS Gen.cropKernel Gen.cropWrapper zones values ids name :=
    (generated_crop_program_is_model zones values ids name s fuel h).2.2
  rw [hw]
  exact crop_minimal zones values ids name

end generated_programs

/-! ### what the unrepaired kernels do where they differ (D5, D16) -/

/-- D5: the `e == val` comparison agrees with the NaN-aware one only when NaN is not listed … -/
theorem keptAsIs_partial (excludes : List Num) (v : Num) (h : Num.nan ∉ excludes) :
    keptAsIs excludes v = kept excludes v := by
  simp only [keptAsIs, kept, ieeeEq]
  congr 1
  induction excludes with
  | nil => rfl
  | cons e es ih =>
    have hne : e ≠ Num.nan := fun h' => h (h' ▸ List.mem_cons_self)
    have := ih (fun h' => h (List.mem_cons_of_mem _ h'))
    have hb : (e != Num.nan) = true := by simpa using hne
    simp [List.any_cons, this, hb]

/-- … and with the default exclusion list `(nan,)` it keeps the NaN cells: nothing is trimmed -/
example : keptAsIs [Num.nan] Num.nan = true ∧ kept [Num.nan] Num.nan = false := by decide

/-- D16: without the early return the kernels agree with the repaired ones whenever some cell is a hit … -/
theorem boundsAsIs_partial (rows cols : Nat) (hit : Nat → Nat → Bool)
    (h : ∃ y x, y < rows ∧ x < cols ∧ hit y x = true) :
    boundsAsIs rows cols hit = bounds rows cols hit := by
  obtain ⟨y0, x0, hy0, hx0, h0⟩ := h
  have hr : ∃ y ∈ List.range rows, rowHit cols hit y = true :=
    ⟨y0, List.mem_range.mpr hy0, rowHit_iff.mpr ⟨x0, hx0, h0⟩⟩
  obtain ⟨t, ht, _⟩ := scan_found (R := (· < ·)) List.pairwise_lt_range hr
  simp [boundsAsIs, bounds, ht]

/-- … and when nothing is a hit they return `(rows-1, 0, cols-1, 0)`: every scan runs to its end.
    That window is empty unless the raster is 1×1, where it is the whole raster. -/
theorem boundsAsIs_no_hit (rows cols : Nat) (hit : Nat → Nat → Bool) (hr : 0 < rows) (hc : 0 < cols)
    (h : ∀ y x, y < rows → x < cols → hit y x = false) :
    boundsAsIs rows cols hit = ⟨(rows - 1 : Nat), 0, (cols - 1 : Nat), 0⟩ := by
  have hrow : ∀ y ∈ List.range rows, rowHit cols hit y = false := by
    intro y hy
    cases hh : rowHit cols hit y with
    | false => rfl
    | true =>
      obtain ⟨x, hx, hxx⟩ := rowHit_iff.mp hh
      rw [h y x (List.mem_range.mp hy) hx] at hxx; cases hxx
  have hcol : ∀ x ∈ List.range cols, colHit rows hit x = false := by
    intro x hx
    cases hh : colHit rows hit x with
    | false => rfl
    | true =>
      obtain ⟨y, hy, hyy⟩ := colHit_iff.mp hh
      rw [h y x hy (List.mem_range.mp hx)] at hyy; cases hyy
  have f1 : (List.range rows).find? (rowHit cols hit) = none :=
    List.find?_eq_none.mpr (by intro y hy; simp [hrow y hy])
  have f2 : (List.range rows).reverse.find? (rowHit cols hit) = none :=
    List.find?_eq_none.mpr (by intro y hy; simp [hrow y (List.mem_reverse.mp hy)])
  have f3 : (List.range cols).find? (colHit rows hit) = none :=
    List.find?_eq_none.mpr (by intro x hx; simp [hcol x hx])
  have f4 : (List.range cols).reverse.find? (colHit rows hit) = none :=
    List.find?_eq_none.mpr (by intro x hx; simp [hcol x (List.mem_reverse.mp hx)])
  obtain ⟨r', rfl⟩ : ∃ r', rows = r' + 1 := ⟨rows - 1, by omega⟩
  obtain ⟨c', rfl⟩ : ∃ c', cols = c' + 1 := ⟨cols - 1, by omega⟩
  simp only [boundsAsIs, scan, scan_fold, f1, f2, f3, f4]
  simp [List.getLast?_reverse, List.head?_range, List.getLast?_range]

/-! ### non-vacuity -/

/-- a 3×4 raster with kept cells (value 5) at (1,1) and (2,2), everything else NaN -/
def exRaster : Raster Nat String :=
  ⟨3, 4, fun y x => if (y = 1 ∧ x = 1) ∨ (y = 2 ∧ x = 2) then Num.fin 5 else Num.nan, fun y => 10 + y, fun x => 20 + x, "attrs",
   [⟨"spatial_ref", false, false, fun _ _ => 0, "crs"⟩, ⟨"y", true, false, fun y _ => 10 + y, "units=m"⟩,
    ⟨"lon", true, true, fun y x => 100 * y + x, "degrees_east"⟩, ⟨"col_km", false, true, fun _ x => 7 * x, ""⟩]⟩

example : trimBounds exRaster [Num.nan] = ⟨1, 2, 1, 2⟩ := by decide
example : (trim exRaster [Num.nan]).cells = [[Num.fin 5, Num.nan], [Num.nan, Num.fin 5]]
    ∧ (trim exRaster [Num.nan]).ys = [11, 12] ∧ (trim exRaster [Num.nan]).xs = [21, 22] := by decide
/-- the coordinate variables of the example (a scalar one, the y dimension coordinate with attrs, a 2-D auxiliary one, an
    extra 1-D one along x) restricted to the window rows 1..2 × columns 1..2 -/
example : (trim exRaster [Num.nan]).coords.map (fun c => (c.name, c.vals, c.attrs))
    = [("spatial_ref", [[0]], "crs"), ("y", [[11], [12]], "units=m"), ("lon", [[101, 102], [201, 202]], "degrees_east"),
       ("col_km", [[7, 14]], "")] := by decide
example : cropBounds exRaster [Num.fin 5] = ⟨1, 2, 1, 2⟩ := by decide
example : trimBounds exRaster [Num.nan, Num.fin 5] = ⟨0, -1, 0, -1⟩ := by decide
example : (windowS Gen.trimKernel Gen.trimWrapper exRaster exRaster [Num.nan] "t").cells
    = [[Num.fin 5, Num.nan], [Num.nan, Num.fin 5]] := by decide
example : ∃ y x, y < exRaster.rows ∧ x < exRaster.cols ∧ exRaster.cell y x ∉ [Num.nan] :=
  ⟨1, 1, by decide, by decide, by decide⟩


/-- the hypotheses of the theorems about the generated programs are met by the state the wrapper builds: the
    example raster, row-major, and the default exclusion list `(nan,)` -/
example : IL.Holds (IL.inputState 3 4 (IL.flatCells 3 4 exRaster.cell) "excludes" [Num.nan])
    exRaster.rows exRaster.cols exRaster.cell "excludes" [Num.nan] :=
  IL.inputState_holds 3 4 exRaster.cell "excludes" (by decide) [Num.nan]

/-- … so the generated `_trim` program, run on it, returns `(1, 2, 1, 2)`, and `(0, -1, 0, -1)` when 5 is excluded too -/
example : IL.progBounds (Gen.IL.trim.run (IL.inputState 3 4 (IL.flatCells 3 4 exRaster.cell) "excludes" [Num.nan]) 0)
    = ⟨1, 2, 1, 2⟩ := by
  rw [(generated_trim_program_is_model exRaster [Num.nan] "t" _ 0
    (IL.inputState_holds 3 4 exRaster.cell "excludes" (by decide) [Num.nan])).2.1]
  decide

example : IL.progBounds (Gen.IL.trim.run
    (IL.inputState 3 4 (IL.flatCells 3 4 exRaster.cell) "excludes" [Num.nan, Num.fin 5]) 0) = ⟨0, -1, 0, -1⟩ := by
  rw [(generated_trim_program_is_model exRaster [Num.nan, Num.fin 5] "t" _ 0
    (IL.inputState_holds 3 4 exRaster.cell "excludes" (by decide) [Num.nan, Num.fin 5])).2.1]
  decide

example : IL.progBounds (Gen.IL.crop.run (IL.inputState 3 4 (IL.flatCells 3 4 exRaster.cell) "values" [Num.fin 5]) 0)
    = ⟨1, 2, 1, 2⟩ := by
  rw [(generated_crop_program_is_model exRaster exRaster [Num.fin 5] "c" _ 0
    (IL.inputState_holds 3 4 exRaster.cell "values" (by decide) [Num.fin 5])).2.1]
  decide

/-- an empty raster (0 × 3) is covered: the generated program returns the empty window -/
example (F : Type) [Fl F] (lst : List F) :
    IL.progBounds (Gen.IL.trim.run (IL.inputState 0 3 ([] : List F) "excludes" lst) 0) = ⟨0, -1, 0, -1⟩ := by
  have h : IL.Holds (IL.inputState 0 3 ([] : List F) "excludes" lst) 0 3 (fun _ _ => Fl.nan) "excludes" lst :=
    IL.inputState_holds 0 3 (fun _ _ => Fl.nan) "excludes" (by decide) lst
  exact ((generated_trim_program_minimal _ 0 0 3 _ lst h).2.2).2 (fun y x hy _ => absurd hy (Nat.not_lt_zero y))

end XrsVerif.C18
