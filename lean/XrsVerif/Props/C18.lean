import XrsVerif.Proofs.Trim
import XrsVerif.Gen.TrimFacts
/-
  C18 -- trim and crop return the minimal window, cells and coordinates intact.

  Model: `Model/Trim.lean` (hand model of `_trim`, `_crop`, `trim`, `crop` of xrspatial/zonal.py as
  repaired by fixes/D5-… and fixes/D16-…).  Tie: (1) `Gen/TrimFacts.lean`, regenerated from the source by
  harness/facts_trim.py on every run: the match predicate, direction and range of each of the eight scans,
  the early empty return, and what the wrappers do to the value / id list and slice -- the theorems of the
  first section require these to be the canonical shapes and prove that their interpretation
  (`Trim.windowS`) is the hand model, and `trim_minimal` / `crop_minimal` are stated for that interpretation
  of the *generated* shapes; (2) the correspondence run, harness/corr_C18.py.
  Rasters are functions `cell : Nat → Nat → Num` on `rows × cols`; `Num` has NaN, ±inf and exact
  rationals, and structural equality on `Num` is the NaN-aware equality.
-/
set_option linter.unusedVariables false
namespace XrsVerif.C18
open XrsVerif XrsVerif.Wire XrsVerif.Trim

variable {κ τ : Type}

/-! ### the source has the shape the model assumes (facts generated from the `ast`, Gen/TrimFacts.lean) -/

/-- four scans: rows upwards, rows downwards, columns upwards, columns downwards, each over the whole axis with
    an inner loop over every cell of the row / column, all with the same match predicate and polarity -/
def canonicalScans (m : Match) (p : Polarity) : List ScanShape :=
  [⟨true, .rows, .up, true, m, p⟩, ⟨true, .rows, .down, true, m, p⟩,
   ⟨true, .cols, .up, true, m, p⟩, ⟨true, .cols, .down, true, m, p⟩]

/-- the match predicates are exact: `_trim` tests `e == val or (isnan(e) and isnan(val))` in all four scans,
    `_crop` tests `==` in all four -- never a call such as `np.isclose`, never an ordering -/
theorem trim_match_is_exact :
    Gen.trimKernel.scans.map (·.mtch) = [.eqOrBothNan, .eqOrBothNan, .eqOrBothNan, .eqOrBothNan]
    ∧ Gen.cropKernel.scans.map (·.mtch) = [.eq, .eq, .eq, .eq] := by decide

/-- direction, range and polarity of every scan, and the early empty return, are the canonical ones -/
theorem kernels_are_canonical :
    Gen.trimKernel = ⟨true, canonicalScans .eqOrBothNan .hitIfUnmatched, true⟩
    ∧ Gen.cropKernel = ⟨true, canonicalScans .eq .hitIfMatched, true⟩ := by decide

/-- the wrappers hand the caller's `values` / `zones_ids` to the kernel as they are: no cast, no re-binding
    (a cast to the raster dtype would wrap NaN, negative, out-of-range and fractional entries onto cell values) -/
theorem trim_values_not_cast : Gen.trimWrapper.listCast = .none ∧ Gen.cropWrapper.listCast = .none := by decide

/-- `trim(raster, values, name)`: `_trim(raster.data, values)`, slice of `raster`;
    `crop(zones, values, zones_ids, name)`: `_crop(zones.data, zones_ids)`, slice of `values`;
    the slice is `[top: bottom + 1, left: right + 1]`, `.name = name`, returned -/
theorem wrappers_are_canonical :
    Gen.trimWrapper = ⟨true, "_trim", 0, 1, .none, 0, true, true⟩
    ∧ Gen.cropWrapper = ⟨true, "_crop", 0, 2, .none, 1, true, true⟩ := by decide

/-- `e == val or (isnan(e) and isnan(val))` is the NaN-aware (structural) equality -/
theorem matchS_nanAware (e v : Num) : matchS .eqOrBothNan e v = (e == v) := by
  simp only [matchS, ieeeEq]
  by_cases he : e = Num.nan
  · subst he
    by_cases hv : v = Num.nan
    · subst hv; decide
    · have h1 : (v == Num.nan) = false := by simpa using hv
      have h2 : (Num.nan == v) = false := by simpa using fun h : Num.nan = v => hv h.symm
      simp [h1, h2]
  · have h1 : (e == Num.nan) = false := by simpa using he
    have h2 : (e != Num.nan) = true := by simpa using he
    simp [h1, h2]

/-- the interpretation of the shapes found in the source is the hand model -/
theorem generated_trim_is_model (r : Raster κ τ) (ex : List Num) (name : String) :
    windowS Gen.trimKernel Gen.trimWrapper r r ex name = trim r ex name := by
  simp [windowS, Gen.trimKernel, Gen.trimWrapper, boundsS, scanS, hitS, dirRange, castS, matchS_nanAware, trim,
    trimBounds, bounds, kept]

theorem generated_crop_is_model (z v : Raster κ τ) (ids : List Num) (name : String) :
    windowS Gen.cropKernel Gen.cropWrapper z v ids name = crop z v ids name := by
  simp [windowS, Gen.cropKernel, Gen.cropWrapper, boundsS, scanS, hitS, dirRange, castS, matchS, crop, cropBounds,
    bounds, selected]

/-! ### which cells count -/

/-- trim keeps a cell exactly when its value is not listed -- NaN included: a listed NaN is excluded -/
theorem kept_iff (excludes : List Num) (v : Num) : kept excludes v = true ↔ v ∉ excludes := by
  simp only [kept, Bool.not_eq_true', List.any_eq_false, beq_iff_eq]
  constructor
  · intro h hv; exact h v hv rfl
  · intro h e he hev; exact h (hev ▸ he)

/-- crop selects a zone cell exactly when its (non-NaN) id is listed -/
theorem selected_iff (ids : List Num) (v : Num) : selected ids v = true ↔ v ≠ Num.nan ∧ v ∈ ids := by
  simp only [selected, ieeeEq, List.any_eq_true, Bool.and_eq_true, bne_iff_ne, beq_iff_eq]
  constructor
  · rintro ⟨e, he, hne, rfl⟩; exact ⟨hne, he⟩
  · rintro ⟨hne, hv⟩; exact ⟨v, hv, hne, rfl⟩

/-! ### the four scans give the minimal window (any hit predicate) -/

/-- a window `[t,b]×[l,r]` -/
def Inside (t b l r : Int) (y x : Nat) : Prop := t ≤ (y : Int) ∧ (y : Int) ≤ b ∧ l ≤ (x : Int) ∧ (x : Int) ≤ r

/-- If some cell is a hit, the bounds are inside the raster, every hit lies inside the window, each
    of the four border lines of the window holds a hit, hence every window that contains all hits
    contains this one.  If no cell is a hit the window is the empty `(0,-1,0,-1)`. -/
theorem bounds_minimal (rows cols : Nat) (hit : Nat → Nat → Bool) :
    ((∃ y x, y < rows ∧ x < cols ∧ hit y x = true) →
      ∃ t b l r : Nat, bounds rows cols hit = ⟨t, b, l, r⟩
        ∧ t ≤ b ∧ b < rows ∧ l ≤ r ∧ r < cols
        ∧ (∀ y x, y < rows → x < cols → hit y x = true → Inside t b l r y x)
        ∧ (∃ x, x < cols ∧ hit t x = true) ∧ (∃ x, x < cols ∧ hit b x = true)
        ∧ (∃ y, y < rows ∧ hit y l = true) ∧ (∃ y, y < rows ∧ hit y r = true)
        ∧ ∀ t' b' l' r' : Int,
            (∀ y x, y < rows → x < cols → hit y x = true → Inside t' b' l' r' y x) →
            t' ≤ t ∧ (b : Int) ≤ b' ∧ l' ≤ l ∧ (r : Int) ≤ r')
    ∧ ((∀ y x, y < rows → x < cols → hit y x = false) → bounds rows cols hit = ⟨0, -1, 0, -1⟩) := by
  refine ⟨?_, bounds_of_no_hit rows cols hit⟩
  intro h
  obtain ⟨t, b, l, r, hb, ht, hbb, hl, hr, ⟨xt, hxt, hht⟩, ⟨xb, hxb, hhb⟩, ⟨yl, hyl, hhl⟩, ⟨yr, hyr, hhr⟩, hall⟩ :=
    bounds_of_hit rows cols hit h
  have e1 := hall t xt ht hxt hht
  have e2 := hall yl l hyl hl hhl
  refine ⟨t, b, l, r, hb, by omega, hbb, by omega, hr, ?_, ⟨xt, hxt, hht⟩, ⟨xb, hxb, hhb⟩, ⟨yl, hyl, hhl⟩,
    ⟨yr, hyr, hhr⟩, ?_⟩
  · intro y x hy hx hh
    have := hall y x hy hx hh
    simp only [Inside]; omega
  · intro t' b' l' r' hin
    have a1 := hin t xt ht hxt hht
    have a2 := hin b xb hbb hxb hhb
    have a3 := hin yl l hyl hl hhl
    have a4 := hin yr r hyr hr hhr
    simp only [Inside] at a1 a2 a3 a4
    omega

/-! ### the window is a contiguous slice: cells, coordinates, attrs at the same positions -/

theorem window_is_slice (ra : Raster κ τ) (t b l r : Nat) (name : String)
    (htb : t ≤ b) (hb : b < ra.rows) (hlr : l ≤ r) (hr : r < ra.cols) :
    let w := window ra ⟨t, b, l, r⟩ name
    w.cells.length = b - t + 1 ∧ w.ys.length = b - t + 1 ∧ w.xs.length = r - l + 1
    ∧ (∀ i, i ≤ b - t → w.ys[i]? = some (ra.ys (t + i))
        ∧ ∃ row, w.cells[i]? = some row ∧ row.length = r - l + 1
            ∧ ∀ j, j ≤ r - l → row[j]? = some (ra.cell (t + i) (l + j)))
    ∧ (∀ j, j ≤ r - l → w.xs[j]? = some (ra.xs (l + j)))
    ∧ w.attrs = ra.attrs ∧ w.name = name := by
  intro w
  have h1 : min (b + 1) ra.rows - t = b - t + 1 := by omega
  have h2 : min (r + 1) ra.cols - l = r - l + 1 := by omega
  simp only [w, window, sliceIdx_nat, h1, h2]
  refine ⟨by simp, by simp, by simp, ?_, ?_, by simp⟩
  · intro i hi
    have hi' : i < b - t + 1 := by omega
    refine ⟨by simp [hi'], ?_⟩
    refine ⟨(List.range' l (r - l + 1)).map fun x => ra.cell (t + i) x, by simp [hi'], by simp, ?_⟩
    intro j hj
    have hj' : j < r - l + 1 := by omega
    simp [hj']
  · intro j hj
    have hj' : j < r - l + 1 := by omega
    simp [hj']

/-- the empty window has no cell and no coordinate, and still the raster's attrs -/
theorem window_empty (ra : Raster κ τ) (name : String) :
    let w := window ra ⟨0, -1, 0, -1⟩ name
    w.cells = [] ∧ w.ys = [] ∧ w.xs = [] ∧ w.attrs = ra.attrs ∧ w.name = name := by
  simp [window, sliceIdx]

/-! ### trim and crop -/

/-- `trim` -- as the shapes generated from the current source describe it -- returns the smallest window of the
    raster containing every cell whose value is not listed -/
theorem trim_minimal (ra : Raster κ τ) (excludes : List Num) (name : String) :
    ((∃ y x, y < ra.rows ∧ x < ra.cols ∧ ra.cell y x ∉ excludes) →
      ∃ t b l r : Nat, windowS Gen.trimKernel Gen.trimWrapper ra ra excludes name = window ra ⟨t, b, l, r⟩ name
        ∧ t ≤ b ∧ b < ra.rows ∧ l ≤ r ∧ r < ra.cols
        ∧ (∀ y x, y < ra.rows → x < ra.cols → ra.cell y x ∉ excludes → Inside t b l r y x)
        ∧ (∃ x, x < ra.cols ∧ ra.cell t x ∉ excludes) ∧ (∃ x, x < ra.cols ∧ ra.cell b x ∉ excludes)
        ∧ (∃ y, y < ra.rows ∧ ra.cell y l ∉ excludes) ∧ (∃ y, y < ra.rows ∧ ra.cell y r ∉ excludes)
        ∧ ∀ t' b' l' r' : Int,
            (∀ y x, y < ra.rows → x < ra.cols → ra.cell y x ∉ excludes → Inside t' b' l' r' y x) →
            t' ≤ t ∧ (b : Int) ≤ b' ∧ l' ≤ l ∧ (r : Int) ≤ r')
    ∧ ((∀ y x, y < ra.rows → x < ra.cols → ra.cell y x ∈ excludes) →
        (windowS Gen.trimKernel Gen.trimWrapper ra ra excludes name).cells = []
        ∧ (windowS Gen.trimKernel Gen.trimWrapper ra ra excludes name).ys = []
        ∧ (windowS Gen.trimKernel Gen.trimWrapper ra ra excludes name).xs = []) := by
  rw [generated_trim_is_model]
  have key := bounds_minimal ra.rows ra.cols (fun y x => kept excludes (ra.cell y x))
  simp only [kept_iff] at key
  constructor
  · intro h
    obtain ⟨t, b, l, r, hb, rest⟩ := key.1 h
    exact ⟨t, b, l, r, by simp [trim, trimBounds, hb], rest⟩
  · intro h
    have hb := key.2 (by
      intro y x hy hx
      cases hk : kept excludes (ra.cell y x) with
      | false => rfl
      | true => exact absurd (h y x hy hx) ((kept_iff _ _).mp hk))
    have := window_empty ra name
    simp only [trim, trimBounds, hb]
    exact ⟨this.1, this.2.1, this.2.2.1⟩

/-- `crop` -- as the shapes generated from the current source describe it -- returns the window of `values`
    spanning all cells of `zones` whose id is listed -/
theorem crop_minimal (zones values : Raster κ τ) (ids : List Num) (name : String) :
    ((∃ y x, y < zones.rows ∧ x < zones.cols ∧ selected ids (zones.cell y x) = true) →
      ∃ t b l r : Nat, windowS Gen.cropKernel Gen.cropWrapper zones values ids name = window values ⟨t, b, l, r⟩ name
        ∧ t ≤ b ∧ b < zones.rows ∧ l ≤ r ∧ r < zones.cols
        ∧ (∀ y x, y < zones.rows → x < zones.cols → selected ids (zones.cell y x) = true → Inside t b l r y x)
        ∧ (∃ x, x < zones.cols ∧ selected ids (zones.cell t x) = true)
        ∧ (∃ x, x < zones.cols ∧ selected ids (zones.cell b x) = true)
        ∧ (∃ y, y < zones.rows ∧ selected ids (zones.cell y l) = true)
        ∧ (∃ y, y < zones.rows ∧ selected ids (zones.cell y r) = true)
        ∧ ∀ t' b' l' r' : Int,
            (∀ y x, y < zones.rows → x < zones.cols → selected ids (zones.cell y x) = true → Inside t' b' l' r' y x) →
            t' ≤ t ∧ (b : Int) ≤ b' ∧ l' ≤ l ∧ (r : Int) ≤ r')
    ∧ ((∀ y x, y < zones.rows → x < zones.cols → selected ids (zones.cell y x) = false) →
        (windowS Gen.cropKernel Gen.cropWrapper zones values ids name).cells = []
        ∧ (windowS Gen.cropKernel Gen.cropWrapper zones values ids name).ys = []
        ∧ (windowS Gen.cropKernel Gen.cropWrapper zones values ids name).xs = []) := by
  rw [generated_crop_is_model]
  have key := bounds_minimal zones.rows zones.cols (fun y x => selected ids (zones.cell y x))
  constructor
  · intro h
    obtain ⟨t, b, l, r, hb, rest⟩ := key.1 h
    exact ⟨t, b, l, r, by simp [crop, cropBounds, hb], rest⟩
  · intro h
    have hb := key.2 h
    have := window_empty values name
    simp only [crop, cropBounds, hb]
    exact ⟨this.1, this.2.1, this.2.2.1⟩

/-! ### what the unrepaired kernels do where they differ (D5, D16) -/

/-- D5: the `e == val` comparison agrees with the NaN-aware one only when NaN is not listed … -/
theorem keptAsIs_partial (excludes : List Num) (v : Num) (h : Num.nan ∉ excludes) :
    keptAsIs excludes v = kept excludes v := by
  simp only [keptAsIs, kept, ieeeEq]
  congr 1
  induction excludes with
  | nil => rfl
  | cons e es ih =>
    have hne : e ≠ Num.nan := fun h' => h (h' ▸ List.mem_cons_self)
    have := ih (fun h' => h (List.mem_cons_of_mem _ h'))
    have hb : (e != Num.nan) = true := by simpa using hne
    simp [List.any_cons, this, hb]

/-- … and with the default exclusion list `(nan,)` it keeps the NaN cells: nothing is trimmed -/
example : keptAsIs [Num.nan] Num.nan = true ∧ kept [Num.nan] Num.nan = false := by decide

/-- D16: without the early return the kernels agree with the repaired ones whenever some cell is a hit … -/
theorem boundsAsIs_partial (rows cols : Nat) (hit : Nat → Nat → Bool)
    (h : ∃ y x, y < rows ∧ x < cols ∧ hit y x = true) :
    boundsAsIs rows cols hit = bounds rows cols hit := by
  obtain ⟨y0, x0, hy0, hx0, h0⟩ := h
  have hr : ∃ y ∈ List.range rows, rowHit cols hit y = true :=
    ⟨y0, List.mem_range.mpr hy0, rowHit_iff.mpr ⟨x0, hx0, h0⟩⟩
  obtain ⟨t, ht, _⟩ := scan_found (R := (· < ·)) List.pairwise_lt_range hr
  simp [boundsAsIs, bounds, ht]

/-- … and when nothing is a hit they return `(rows-1, 0, cols-1, 0)`: every scan runs to its end.
    That window is empty unless the raster is 1×1, where it is the whole raster. -/
theorem boundsAsIs_no_hit (rows cols : Nat) (hit : Nat → Nat → Bool) (hr : 0 < rows) (hc : 0 < cols)
    (h : ∀ y x, y < rows → x < cols → hit y x = false) :
    boundsAsIs rows cols hit = ⟨(rows - 1 : Nat), 0, (cols - 1 : Nat), 0⟩ := by
  have hrow : ∀ y ∈ List.range rows, rowHit cols hit y = false := by
    intro y hy
    cases hh : rowHit cols hit y with
    | false => rfl
    | true =>
      obtain ⟨x, hx, hxx⟩ := rowHit_iff.mp hh
      rw [h y x (List.mem_range.mp hy) hx] at hxx; cases hxx
  have hcol : ∀ x ∈ List.range cols, colHit rows hit x = false := by
    intro x hx
    cases hh : colHit rows hit x with
    | false => rfl
    | true =>
      obtain ⟨y, hy, hyy⟩ := colHit_iff.mp hh
      rw [h y x hy (List.mem_range.mp hx)] at hyy; cases hyy
  have f1 : (List.range rows).find? (rowHit cols hit) = none :=
    List.find?_eq_none.mpr (by intro y hy; simp [hrow y hy])
  have f2 : (List.range rows).reverse.find? (rowHit cols hit) = none :=
    List.find?_eq_none.mpr (by intro y hy; simp [hrow y (List.mem_reverse.mp hy)])
  have f3 : (List.range cols).find? (colHit rows hit) = none :=
    List.find?_eq_none.mpr (by intro x hx; simp [hcol x hx])
  have f4 : (List.range cols).reverse.find? (colHit rows hit) = none :=
    List.find?_eq_none.mpr (by intro x hx; simp [hcol x (List.mem_reverse.mp hx)])
  obtain ⟨r', rfl⟩ : ∃ r', rows = r' + 1 := ⟨rows - 1, by omega⟩
  obtain ⟨c', rfl⟩ : ∃ c', cols = c' + 1 := ⟨cols - 1, by omega⟩
  simp only [boundsAsIs, scan, scan_fold, f1, f2, f3, f4]
  simp [List.getLast?_reverse, List.head?_range, List.getLast?_range]

/-! ### non-vacuity -/

/-- a 3×4 raster with kept cells (value 5) at (1,1) and (2,2), everything else NaN -/
def exRaster : Raster Nat String :=
  ⟨3, 4, fun y x => if (y = 1 ∧ x = 1) ∨ (y = 2 ∧ x = 2) then Num.fin 5 else Num.nan, fun y => 10 + y, fun x => 20 + x, "attrs"⟩

example : trimBounds exRaster [Num.nan] = ⟨1, 2, 1, 2⟩ := by decide
example : (trim exRaster [Num.nan]).cells = [[Num.fin 5, Num.nan], [Num.nan, Num.fin 5]]
    ∧ (trim exRaster [Num.nan]).ys = [11, 12] ∧ (trim exRaster [Num.nan]).xs = [21, 22] := by decide
example : cropBounds exRaster [Num.fin 5] = ⟨1, 2, 1, 2⟩ := by decide
example : trimBounds exRaster [Num.nan, Num.fin 5] = ⟨0, -1, 0, -1⟩ := by decide
example : (windowS Gen.trimKernel Gen.trimWrapper exRaster exRaster [Num.nan] "t").cells
    = [[Num.fin 5, Num.nan], [Num.nan, Num.fin 5]] := by decide
example : ∃ y x, y < exRaster.rows ∧ x < exRaster.cols ∧ exRaster.cell y x ∉ [Num.nan] :=
  ⟨1, 1, by decide, by decide, by decide⟩

end XrsVerif.C18
