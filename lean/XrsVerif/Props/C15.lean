import XrsVerif.Proofs.Polygonize
import XrsVerif.Proofs.PolygonizeOrbit
import XrsVerif.Proofs.PolygonizeRegions
import XrsVerif.Proofs.PolygonizeLossless
import XrsVerif.Proofs.PolygonizeLosslessB
import XrsVerif.Proofs.PolygonizeGlue
import XrsVerif.Gen.PolygonizeFacts
/-
  C15 -- polygonize is lossless.

  Model (Model/Polygonize.lean): `calculateRegions` (W/S/SW/SE rules, `mergeRegions` lookup chain with its
  allocated size, compaction to first-pixel ranks), the follower `step` on states (pixel, heading) with the
  three turn rules (Right if the pixel ahead-right is in the region, else Straight if the pixel ahead is,
  else Left), `followLoop`/`follow` (vertex recorded when the heading changes, visited flags), `scan`
  (exterior / hole starts, hole attachment), `polygonizeNumpy` (nx = 1 workaround, transform).

  Proved here, for every raster size, values, mask and connectivity, no size bound (closeness reflexive,
  symmetric, transitive -- integer rasters, the property's domain):
  * `lossless`                **the complete statement**: `scan` succeeds and its result passes `losslessB`, the
                              decidable formalisation of the whole property (cell assignment by the even-odd
                              rule; same polygon <-> same connected region; shoelace area = pixel count;
                              exteriors anticlockwise, holes clockwise; rings closed, on pixel corners,
                              axis-parallel edges of non-zero length, >= 4 vertices).  `holds_all`: for integer
                              equality `holds nx ny c8 values mask = true` for every raster.
  Its clauses in readable form:
  * `lossless_cells`          masked pixel centre in no polygon; unmasked in exactly one (inside the exterior
                              ring, inside no hole ring), number `regionId - 1`, with a close value;
  * `lossless_even_odd`       total crossing parity over all rings of polygon k is odd <-> pixel in region k+1;
  * `polygons_are_components` polygons <-> connected regions one to one;
  * `lossless_area_orientation`  sum of shoelace areas = pixel count; exterior anticlockwise, holes clockwise;
  * `region_ids_first_pixel_ranks`  region ids are the ranks of the first pixels in scan order;
  * `lossless_numpy`, `lossless_single_column`  the same through `polygonizeNumpy` (nx = 1 workaround);
  and the building blocks:
  * `regions_are_components`  `_calculate_regions`: masked pixels get 0, unmasked pixels a positive id, and two
                              unmasked pixels get the same id exactly when a chain of 4- (8-) adjacent unmasked
                              pixels with close values joins them;
  * `follow_invariant`, `follow_axis_parallel`, `follow_step_injective`, `follow_terminates`,
    `hole_start_on_boundary`, `exterior_start_on_boundary`, `vertices_on_corners`, `ring_closed_rectilinear`,
    `transform_every_vertex`, `lossless_partial` (one boundary).

  Proof idea of `lossless` (Proofs/PolygonizeLossless*.lean, no Jordan curve theorem): the states of a followed
  ring form a list that `step` permutes; winding numbers counted on unit edges (vertical / horizontal ray) agree
  and are constant on 8-adjacent pixels of the region (the turn-right-first rule at diagonal pinches); the scan
  invariant shows that every boundary edge whose upper pixel is in the raster lies on exactly one followed cycle,
  so going up a column the winding number flips exactly where region membership does; discrete Green gives area
  and orientation.

  Wrapper glue (section at the end; facts regenerated from the source by harness/facts_polygonize.py):
  * `glue_numpy_as_modelled`, `glue_passes_through`, `glue_no_narrowing_cast`   the generated facts of
                              `_polygonize_numpy` / `polygonize()` are the ones the model assumes: row-major
                              flattening, the nx = 1 workaround, no way out other than `_scan`'s result; mask and
                              transform reach the kernel uncast, no supplied transform is dropped; every raster dtype
                              reaches the kernel in a dtype that keeps all its values and its `_is_close` kind;
  * `int_cast_keeps_iff`      the integer part of that table is exact (C conversion = identity on the source range);
  * `wrapper_is_numpy`, `wrapper_transform_every_vertex`, `wrapper_lossless`   hence the wrapper (as the facts describe
                              it) is `polygonizeNumpy` on the caller's own values and transform: column values are the
                              raster's, the given transform is applied to every vertex, the result is lossless.

  What is outside: that the hand model is `polygonize.py` (checked by the correspondence run: exact comparison
  of region array, column and every vertex on all small rasters and random larger ones, plus an independent
  oracle); float closeness that is not an equivalence (NaN, inf, tolerances).
-/
set_option linter.unusedVariables false
namespace XrsVerif.C15
open XrsVerif XrsVerif.Polygonize

/-- `_calculate_regions` computes the connected components: a masked pixel gets region 0, an unmasked
    pixel a positive region, and two unmasked pixels get the same region exactly when they are joined by
    a chain of links -- `Link p q`: `p` a pixel of the raster, `q` its W or S (connectivity 8: or SW, SE)
    neighbour, both unmasked, values close. -/
theorem regions_are_components {V : Type} (nx ny : Nat) (conn8 : Bool) (close : V → V → Bool)
    (values : Nat → V) (mask : Nat → Bool) (hnx : 0 < nx)
    (hsymm : ∀ a b, close a b = true → close b a = true)
    (htrans : ∀ a b c, close a b = true → close b c = true → close a c = true)
    {p q : Nat} (hp : p < nx * ny) (hq : q < nx * ny) :
    (mask p = false → regionId nx ny conn8 close values mask p = 0) ∧
    (mask p = true → 1 ≤ regionId nx ny conn8 close values mask p) ∧
    (mask p = true → mask q = true →
      (regionId nx ny conn8 close values mask p = regionId nx ny conn8 close values mask q ↔
        ConnP nx conn8 close values mask (nx * ny) p q)) :=
  regionId_spec nx ny conn8 close values mask hnx hsymm htrans hp hq

/-- the list returned by `calculateRegions` (what the driver prints and `scan` uses) is `regionId` -/
theorem regions_list {V : Type} (nx ny : Nat) (conn8 : Bool) (close : V → V → Bool) (values : Nat → V)
    (mask : Nat → Bool) :
    calculateRegions nx ny conn8 close values mask =
      (List.range (nx * ny)).map (regionId nx ny conn8 close values mask) :=
  calculateRegions_eq nx ny conn8 close values mask

/-- the merge loop of `_merge_regions` keeps every pointer going to a smaller id and adds exactly the
    pair (lower, upper) to the equivalence generated by the pointers -/
theorem merge_chain_connected (lk : Lookup) (lower upper : Nat) (hF : Forest lk.get) (hl : 0 < lower)
    (hlu : lower < upper) :
    Forest (mergeLoop (upper + 1) lk lower upper).get ∧
    ∀ u v, Eqv (mergeLoop (upper + 1) lk lower upper).get u v ↔ EqvPlus lk.get lower upper u v :=
  ⟨(mergeLoop_spec (upper + 1) lk lower upper hF hl hlu (by omega)).1,
   (mergeLoop_spec (upper + 1) lk lower upper hF hl hlu (by omega)).2.1⟩

/-- every state of the follower keeps the region on its left (its own pixel) and a pixel that is not in
    the region -- or the outside of the raster -- on its right -/
theorem follow_invariant (R : Int → Int → Bool) (s : FSt) (h : Valid R s) : Valid R (step R s) :=
  step_valid R s h

/-- every iteration moves the current vertex by exactly one unit along the heading -/
theorem follow_axis_parallel (R : Int → Int → Bool) (s : FSt) :
    (step R s).corner = (s.corner.1 + s.d.dx, s.corner.2 + s.d.dy) :=
  corner_step R s

/-- the step is injective on boundary-edge states -/
theorem follow_step_injective (R : Int → Int → Bool) (s t : FSt) (hs : Valid R s) (ht : Valid R t)
    (h : step R s = step R t) : s = t :=
  step_injective R s t hs ht h

/-- started on a boundary edge, `follow` returns (the `while True` loop of `_follow` terminates) -/
theorem follow_terminates (nx ny : Nat) (regs : Nat → Nat) (ij : Nat) (hole : Bool)
    (hstart : Valid (inRegion nx ny regs (regs ij))
      ⟨(ij % nx : Nat), (ij / nx : Nat), if hole then .W else .E⟩) :
    (follow nx ny regs ij hole).isSome = true :=
  follow_isSome nx ny regs ij hole hstart

/-- the state a hole is started from (`_scan`: `ij >= nx`, `regions[ij] != regions[ij-nx]`) is a
    boundary edge of the region of pixel `ij - nx` -/
theorem hole_start_on_boundary (nx ny : Nat) (regs : Nat → Nat) (ij : Nat) (hnx : 0 < nx) (h1 : nx ≤ ij)
    (h2 : ij < nx * ny) (hne : regs ij ≠ regs (ij - nx)) :
    Valid (inRegion nx ny regs (regs (ij - nx))) ⟨((ij - nx) % nx : Nat), ((ij - nx) / nx : Nat), .W⟩ :=
  hole_start_valid nx ny regs ij hnx h1 h2 hne

/-- the state an exterior is started from is a boundary edge when the pixel below `ij` is not in the
    same region (true for the first pixel of a region in scan order) -/
theorem exterior_start_on_boundary (nx ny : Nat) (regs : Nat → Nat) (ij : Nat) (hnx : 0 < nx)
    (h2 : ij < nx * ny) (hfirst : nx ≤ ij → regs (ij - nx) ≠ regs ij) :
    Valid (inRegion nx ny regs (regs ij)) ⟨(ij % nx : Nat), (ij / nx : Nat), .E⟩ :=
  exterior_start_valid nx ny regs ij hnx h2 hfirst

/-- every ring returned by `follow` is closed (first = last = the start vertex), has at least two
    points, and consecutive points are joined by axis-parallel segments -/
theorem ring_closed_rectilinear (nx ny : Nat) (regs : Nat → Nat) (ij : Nat) (hole : Bool) (tr : Trace)
    (h : follow nx ny regs ij hole = some tr) :
    Rectilinear tr.pts ∧ tr.pts.head? = tr.pts.getLast? ∧
      tr.pts.head? = some (FSt.corner ⟨(ij % nx : Nat), (ij / nx : Nat), if hole then .W else .E⟩) ∧
      2 ≤ tr.pts.length := by
  obtain ⟨h1, h2, h3, h4⟩ := follow_ring nx ny regs ij hole tr h
  exact ⟨h1, by rw [h2, h3], h2, h4⟩

/-- every vertex of a ring is a pixel corner of the raster: an integer point of `[0,nx] × [0,ny]` -/
theorem vertices_on_corners (nx ny : Nat) (regs : Nat → Nat) (ij : Nat) (hole : Bool) (tr : Trace)
    (hstart : Valid (inRegion nx ny regs (regs ij))
      ⟨(ij % nx : Nat), (ij / nx : Nat), if hole then .W else .E⟩)
    (h : follow nx ny regs ij hole = some tr) : ∀ p ∈ tr.pts, InBox nx ny p :=
  follow_inBox nx ny regs ij hole tr hstart h

/-- a supplied affine transform is applied to every vertex of every ring (and to nothing else) -/
theorem transform_every_vertex {V : Type} (nx ny : Nat) (conn8 : Bool) (close : V → V → Bool)
    (values : Nat → V) (mask : Nat → Bool) (t : List Rat) :
    (polygonizeNumpy nx ny conn8 close values mask (some t)).polys =
      (polygonizeNumpy nx ny conn8 close values mask none).polys.map
        (fun rings => rings.map (fun ring => ring.map (fun p => affineR t p))) ∧
    (polygonizeNumpy nx ny conn8 close values mask (some t)).column =
      (polygonizeNumpy nx ny conn8 close values mask none).column ∧
    (polygonizeNumpy nx ny conn8 close values mask (some t)).ok =
      (polygonizeNumpy nx ny conn8 close values mask none).ok := by
  simp [polygonizeNumpy, List.map_map, Function.comp_def, affine_eq]

/-- What is proved of losslessness, for one boundary: started on a boundary edge of a region, the
    follower terminates and returns a closed rectilinear ring through the start vertex, keeping the
    region on its left and the complement on its right at every step (`follow_invariant`), each step
    being one unit along an axis (`follow_axis_parallel`), no boundary edge being visited twice before
    the return (`follow_step_injective`).
    (Superseded by `lossless`, which proves the full statement for every raster.) -/
theorem lossless_partial (nx ny : Nat) (regs : Nat → Nat) (ij : Nat) (hole : Bool)
    (hstart : Valid (inRegion nx ny regs (regs ij))
      ⟨(ij % nx : Nat), (ij / nx : Nat), if hole then .W else .E⟩) :
    ∃ tr, follow nx ny regs ij hole = some tr ∧ Rectilinear tr.pts ∧ tr.pts.head? = tr.pts.getLast? ∧
      tr.pts.head? = some (FSt.corner ⟨(ij % nx : Nat), (ij / nx : Nat), if hole then .W else .E⟩) ∧
      2 ≤ tr.pts.length := by
  have h := follow_terminates nx ny regs ij hole hstart
  cases hf : follow nx ny regs ij hole with
  | none => rw [hf] at h; cases h
  | some tr => exact ⟨tr, rfl, ring_closed_rectilinear nx ny regs ij hole tr hf⟩

/-- region ids are first-pixel ranks: a pixel with id `r + 1 ≥ 2` is preceded (scan order) by a pixel with
    id `r`; so `column[k]` is the value of the first pixel of region `k + 1` -/
theorem region_ids_first_pixel_ranks {V : Type} (nx ny : Nat) (conn8 : Bool) (close : V → V → Bool)
    (values : Nat → V) (mask : Nat → Bool) (hnx : 0 < nx)
    (hsymm : ∀ a b, close a b = true → close b a = true)
    (htrans : ∀ a b c, close a b = true → close b c = true → close a c = true)
    {ij r : Nat} (hij : ij < nx * ny) (hr : 1 ≤ r)
    (h : regionId nx ny conn8 close values mask ij = r + 1) :
    ∃ p, p < ij ∧ regionId nx ny conn8 close values mask p = r :=
  regionId_ranked nx ny conn8 close values mask hnx hsymm htrans hij hr h

/-- **Polygonize is lossless: cell assignment.**  For every raster size, values, mask and connectivity
    (closeness reflexive, symmetric, transitive: integer rasters) `scan` succeeds, returns as many values as
    polygons, and assigning each pixel centre `(X + ½, Y + ½)` to the polygons whose exterior ring contains it
    and none of whose hole rings does (`inPolygon`: even-odd rule on the returned, vertex-compressed rings --
    the very test `losslessB` uses) puts
    * every masked pixel in no polygon,
    * every unmasked pixel in exactly one polygon, number `regionId − 1`, whose column entry is close to
      the pixel's value. -/
theorem lossless_cells {V : Type} (nx ny : Nat) (conn8 : Bool) (close : V → V → Bool)
    (values : Nat → V) (mask : Nat → Bool) (hnx : 0 < nx) (hrefl : ∀ a, close a a = true)
    (hsymm : ∀ a b, close a b = true → close b a = true)
    (htrans : ∀ a b c, close a b = true → close b c = true → close a c = true) :
    let sc := scan nx ny conn8 close values mask
    sc.ok = true ∧ sc.column.length = sc.polys.length ∧
    ∀ X Y : Nat, X < nx → Y < ny →
      (mask (X + Y * nx) = false →
        ∀ k, k < sc.polys.length → inPolygon (sc.polys.getD k []) (X : Int) (Y : Int) = false) ∧
      (mask (X + Y * nx) = true →
        ∃ k, k < sc.polys.length ∧ k + 1 = regionId nx ny conn8 close values mask (X + Y * nx) ∧
          (∀ k', k' < sc.polys.length →
            (inPolygon (sc.polys.getD k' []) (X : Int) (Y : Int) = true ↔ k' = k)) ∧
          ∃ v, sc.column.reverse[k]? = some v ∧ close v (values (X + Y * nx)) = true) :=
  scan_cells_lossless nx ny conn8 close values mask hnx hrefl hsymm htrans _ rfl

/-- **Even-odd form.**  For every polygon `k` and every pixel of the raster: the total number of ring edges
    of polygon `k` (exterior and holes together) crossed by the ray from the pixel centre is odd exactly
    when the pixel belongs to region `k + 1`; and this agrees with "inside the exterior, inside no hole". -/
theorem lossless_even_odd {V : Type} (nx ny : Nat) (conn8 : Bool) (close : V → V → Bool)
    (values : Nat → V) (mask : Nat → Bool) (hnx : 0 < nx)
    (hsymm : ∀ a b, close a b = true → close b a = true)
    (htrans : ∀ a b c, close a b = true → close b c = true → close a c = true) :
    let sc := scan nx ny conn8 close values mask
    ∀ k, k < sc.polys.length → ∀ X Y : Nat, X < nx → Y < ny →
      (((sc.polys.getD k []).map (fun ring => crossings ring (X : Int) (Y : Int))).sum % 2 = 1 ↔
        regionId nx ny conn8 close values mask (X + Y * nx) = k + 1) ∧
      (inPolygon (sc.polys.getD k []) (X : Int) (Y : Int) = true ↔
        regionId nx ny conn8 close values mask (X + Y * nx) = k + 1) := by
  intro sc k hk X Y hX hY
  obtain ⟨_, h2, _, _, _, h6⟩ := scan_regions_lossless nx ny conn8 close values mask hnx hsymm htrans
  have hk' : k < (scan nx ny conn8 close values mask).regionDone := by rw [← h2]; exact hk
  obtain ⟨a, b⟩ := h6 k hk' X Y hX hY
  constructor
  · show ((((scan nx ny conn8 close values mask).polys.getD k []).map _).sum % 2 = 1 ↔ _)
    rw [b]; split <;> simp_all
  · show (inPolygon ((scan nx ny conn8 close values mask).polys.getD k []) _ _ = true ↔ _)
    rw [a, beq_iff_eq]

/-- **The polygons are exactly the connected regions.**  Every polygon contains an unmasked pixel, and two
    unmasked pixels lie in a common polygon iff they are joined by a chain of adjacent (4 / 8) unmasked
    pixels with close values. -/
theorem polygons_are_components {V : Type} (nx ny : Nat) (conn8 : Bool) (close : V → V → Bool)
    (values : Nat → V) (mask : Nat → Bool) (hnx : 0 < nx)
    (hsymm : ∀ a b, close a b = true → close b a = true)
    (htrans : ∀ a b c, close a b = true → close b c = true → close a c = true) :
    let sc := scan nx ny conn8 close values mask
    (∀ k, k < sc.polys.length → ∃ X Y : Nat, X < nx ∧ Y < ny ∧ mask (X + Y * nx) = true ∧
      inPolygon (sc.polys.getD k []) (X : Int) (Y : Int) = true) ∧
    (∀ X Y X' Y' : Nat, X < nx → Y < ny → X' < nx → Y' < ny → mask (X + Y * nx) = true →
      mask (X' + Y' * nx) = true →
      ((∃ k, k < sc.polys.length ∧ inPolygon (sc.polys.getD k []) (X : Int) (Y : Int) = true ∧
          inPolygon (sc.polys.getD k []) (X' : Int) (Y' : Int) = true) ↔
        ConnP nx conn8 close values mask (nx * ny) (X + Y * nx) (X' + Y' * nx))) :=
  scan_polygons_components nx ny conn8 close values mask hnx hsymm htrans _ rfl

/-- **Area and orientation.**  For every polygon `k`: the shoelace areas of its rings (exterior positive,
    holes negative) add up to the number of pixels of region `k + 1` (`area2` is twice the signed area); the
    first ring -- the exterior -- is anticlockwise (positive area) and every further ring -- a hole -- is
    clockwise (negative area).  Discrete Green: the shoelace area of a followed ring is twice the sum over
    the pixels of its winding number. -/
theorem lossless_area_orientation {V : Type} (nx ny : Nat) (conn8 : Bool) (close : V → V → Bool)
    (values : Nat → V) (mask : Nat → Bool) (hnx : 0 < nx)
    (hsymm : ∀ a b, close a b = true → close b a = true)
    (htrans : ∀ a b c, close a b = true → close b c = true → close a c = true) :
    let sc := scan nx ny conn8 close values mask
    ∀ k, k < sc.polys.length →
      ((sc.polys.getD k []).map area2).sum =
        2 * (((List.range (nx * ny)).countP
          (fun p => regionId nx ny conn8 close values mask p == k + 1) : Nat) : Int) ∧
      ∃ ext holes, sc.polys.getD k [] = ext :: holes ∧ 0 < area2 ext ∧ ∀ h ∈ holes, area2 h < 0 :=
  scan_regions_area nx ny conn8 close values mask hnx hsymm htrans _ rfl

/-- **Polygonize is lossless -- the complete statement.**  For every raster size, values, mask and
    connectivity (closeness reflexive, symmetric, transitive: integer rasters) `scan` succeeds and its result
    passes `losslessB`, the decidable formalisation of the whole property: every unmasked pixel centre in
    exactly one polygon (exterior minus holes, even-odd rule) carrying its value, masked pixels in none; two
    pixels in the same polygon exactly when they are in the same connected region (as labelled by C16's
    `regions`); each polygon's shoelace area = its pixel count; exteriors anticlockwise, holes clockwise; rings
    closed, on pixel corners, axis-parallel edges of non-zero length, at least four vertices. -/
theorem lossless {V : Type} (nx ny : Nat) (conn8 : Bool) (close : V → V → Bool)
    (values : Nat → V) (mask : Nat → Bool) (hnx : 0 < nx) (hrefl : ∀ a, close a a = true)
    (hsymm : ∀ a b, close a b = true → close b a = true)
    (htrans : ∀ a b c, close a b = true → close b c = true → close a c = true) :
    let sc := scan nx ny conn8 close values mask
    sc.ok = true ∧ losslessB nx ny conn8 close values mask sc.column.reverse sc.polys = true :=
  ⟨(scan_cells_lossless nx ny conn8 close values mask hnx hrefl hsymm htrans _ rfl).1,
   scan_losslessB nx ny conn8 close values mask hnx hrefl hsymm htrans _ rfl⟩

/-- `_polygonize_numpy` without a transform: it succeeds and its polygons are integer rings (mapped to
    rationals) that pass `losslessB` -- for the raster itself if `nx ≠ 1`, for the widened 2-column raster
    (second column masked out) of the `nx = 1` workaround otherwise -/
theorem lossless_numpy {V : Type} (nx ny : Nat) (conn8 : Bool) (close : V → V → Bool)
    (values : Nat → V) (mask : Nat → Bool) (hnx : 0 < nx) (hrefl : ∀ a, close a a = true)
    (hsymm : ∀ a b, close a b = true → close b a = true)
    (htrans : ∀ a b c, close a b = true → close b c = true → close a c = true) :
    let out := polygonizeNumpy nx ny conn8 close values mask none
    out.ok = true ∧
    ∃ polysInt : List (List Ring),
      out.polys = polysInt.map (fun rings => rings.map (fun r => r.map toRat)) ∧
      (if nx = 1 then
        losslessB 2 ny conn8 close (fun ij => values (ij / 2))
          (fun ij => decide (ij % 2 = 0) && mask (ij / 2)) out.column polysInt
       else losslessB nx ny conn8 close values mask out.column polysInt) = true := by
  by_cases h1 : nx = 1
  · have := lossless 2 ny conn8 close (fun ij => values (ij / 2))
      (fun ij => decide (ij % 2 = 0) && mask (ij / 2)) (by omega) hrefl hsymm htrans
    simp only [polygonizeNumpy, h1, if_true]
    exact ⟨this.1, _, rfl, this.2⟩
  · have := lossless nx ny conn8 close values mask hnx hrefl hsymm htrans
    simp only [polygonizeNumpy, h1, if_false]
    exact ⟨this.1, _, rfl, this.2⟩

/-- the `nx = 1` workaround, cell assignment for the single column itself: pixel `Y` lies in no polygon if
    masked, in exactly one polygon -- with a close value -- otherwise -/
theorem lossless_single_column {V : Type} (ny : Nat) (conn8 : Bool) (close : V → V → Bool)
    (values : Nat → V) (mask : Nat → Bool) (hrefl : ∀ a, close a a = true)
    (hsymm : ∀ a b, close a b = true → close b a = true)
    (htrans : ∀ a b c, close a b = true → close b c = true → close a c = true) :
    let out := polygonizeNumpy 1 ny conn8 close values mask none
    let sc := scan 2 ny conn8 close (fun ij => values (ij / 2)) (fun ij => decide (ij % 2 = 0) && mask (ij / 2))
    out.ok = true ∧ out.column = sc.column.reverse ∧
    out.polys = sc.polys.map (fun rings => rings.map (fun r => r.map toRat)) ∧
    out.column.length = sc.polys.length ∧
    ∀ Y : Nat, Y < ny →
      (mask Y = false → ∀ k, k < sc.polys.length → inPolygon (sc.polys.getD k []) 0 (Y : Int) = false) ∧
      (mask Y = true → ∃ k, k < sc.polys.length ∧
          (∀ k', k' < sc.polys.length → (inPolygon (sc.polys.getD k' []) 0 (Y : Int) = true ↔ k' = k)) ∧
          ∃ v, out.column[k]? = some v ∧ close v (values Y) = true) := by
  intro out sc
  have h := lossless_cells 2 ny conn8 close (fun ij => values (ij / 2))
    (fun ij => decide (ij % 2 = 0) && mask (ij / 2)) (by omega) hrefl hsymm htrans
  obtain ⟨h1, h2, h3⟩ := h
  refine ⟨h1, rfl, rfl, by show sc.column.reverse.length = _; rw [List.length_reverse]; exact h2, ?_⟩
  intro Y hY
  have := h3 0 Y (by omega) hY
  have e1 : (0 + Y * 2) % 2 = 0 := by omega
  have e2 : (0 + Y * 2) / 2 = Y := by omega
  simp only [e1, e2, decide_true, Bool.true_and] at this
  obtain ⟨a, b⟩ := this
  refine ⟨fun hm k hk => a hm k hk, fun hm => ?_⟩
  obtain ⟨k, hk, _, hk2, v, hv, hc⟩ := b hm
  exact ⟨k, hk, hk2, v, hv, hc⟩

/-! ### non-vacuity, and the full statement evaluated on concrete rasters -/

def eqI (a b : Int) : Bool := a == b

/-- `scan` on a raster followed by the full losslessness check -/
def holds (nx ny : Nat) (c8 : Bool) (values : Nat → Int) (mask : Nat → Bool) : Bool :=
  let sc := scan nx ny c8 eqI values mask
  sc.ok && losslessB nx ny c8 eqI values mask sc.column.reverse sc.polys

/-- 3×3 ring of 1s around a 0: one polygon with a hole, one square -/
def ringV : Nat → Int := fun ij => if ij = 4 then 0 else 1
/-- 2×2 checkerboard: a diagonal pinch (one bow-tie polygon per value with connectivity 8) -/
def pinchV : Nat → Int := fun ij => if ij = 0 ∨ ij = 3 then 1 else 0

/-- for integer rasters (closeness = equality) the full check holds for **every** raster -/
theorem holds_all (nx ny : Nat) (c8 : Bool) (values : Nat → Int) (mask : Nat → Bool) (hnx : 0 < nx) :
    holds nx ny c8 values mask = true := by
  have := lossless nx ny c8 eqI values mask hnx (fun a => by simp [eqI])
    (fun a b h => by simp only [eqI, beq_iff_eq] at *; exact h.symm)
    (fun a b c h1 h2 => by simp only [eqI, beq_iff_eq] at *; exact h1.trans h2)
  unfold holds
  simp only [Bool.and_eq_true]
  exact this

example : (scan 3 3 false eqI ringV (fun _ => true)).polys =
    [[[(0, 0), (3, 0), (3, 3), (0, 3), (0, 0)], [(2, 1), (1, 1), (1, 2), (2, 2), (2, 1)]],
     [[(1, 1), (2, 1), (2, 2), (1, 2), (1, 1)]]] := by decide +kernel
example : holds 3 3 false ringV (fun _ => true) = true := by decide +kernel
example : holds 3 3 true ringV (fun _ => true) = true := by decide +kernel
example : holds 2 2 true pinchV (fun _ => true) = true := by decide +kernel
example : holds 2 2 false pinchV (fun _ => true) = true := by decide +kernel
/-- with a mask -/
example : holds 3 2 false (fun ij => (ij % 2 : Nat)) (fun ij => decide (ij ≠ 2)) = true := by decide +kernel
/-- a single column goes through the `nx = 1` workaround -/
example : (polygonizeNumpy 1 3 false eqI (fun ij => if ij = 2 then 2 else 1) (fun _ => true) none).polys =
    [[[(0, 0), (1, 0), (1, 2), (0, 2), (0, 0)]], [[(0, 2), (1, 2), (1, 3), (0, 3), (0, 2)]]] := by
  decide +kernel
/-- the check rejects a wrong result (the hole dropped) -/
example : losslessB 3 3 false eqI ringV (fun _ => true) [1, 0]
    [[[(0, 0), (3, 0), (3, 3), (0, 3), (0, 0)]], [[(1, 1), (2, 1), (2, 2), (1, 2), (1, 1)]]] = false := by
  decide +kernel
/-- the hypotheses of `regions_are_components` hold for integer equality; `Link` is inhabited -/
example : (∀ a b : Int, eqI a b = true → eqI b a = true) ∧
    (∀ a b c : Int, eqI a b = true → eqI b c = true → eqI a c = true) := by
  simp only [eqI, beq_iff_eq]
  exact ⟨fun a b h => h.symm, fun a b c h1 h2 => h1.trans h2⟩
example : Link 3 false eqI ringV (fun _ => true) 9 1 0 := by
  refine ⟨by decide, by decide, rfl, rfl, by decide⟩
/-- a U-shape whose arms meet late: ids 1 and 2 are merged through the lookup -/
example : calculateRegions 3 2 false eqI (fun ij => if ij = 1 then 0 else 1) (fun _ => true) = [1, 2, 1, 1, 1, 1] := by
  decide +kernel
/-- the start states of `lossless_partial` exist: exterior of the ring region, and its hole -/
example : Valid (inRegion 3 3 (fun ij => if ij = 4 then 2 else 1) 1) ⟨0, 0, .E⟩ := by decide
example : Valid (inRegion 3 3 (fun ij => if ij = 4 then 2 else 1) 1) ⟨1, 0, .W⟩ := by decide

/-- the hypotheses of `lossless_cells` hold for integer equality on the 3×3 ring raster, and its
    conclusion there is not vacuous: the centre pixel lies in polygon 1 only, a border pixel in polygon 0 only -/
example : (0 < 3) ∧ (∀ a : Int, eqI a a = true) := ⟨by decide, fun a => by simp [eqI]⟩
example :
    let sc := scan 3 3 false eqI ringV (fun _ => true)
    sc.polys.length = 2 ∧ inPolygon (sc.polys.getD 1 []) 1 1 = true ∧ inPolygon (sc.polys.getD 0 []) 1 1 = false ∧
      inPolygon (sc.polys.getD 0 []) 0 2 = true ∧ regionId 3 3 false eqI ringV (fun _ => true) 4 = 2 := by
  decide +kernel
example := lossless_cells 3 3 false eqI ringV (fun _ => true) (by decide) (fun a => by simp [eqI])
  (fun a b h => by simp only [eqI, beq_iff_eq] at *; exact h.symm)
  (fun a b c h1 h2 => by simp only [eqI, beq_iff_eq] at *; exact h1.trans h2)

/-- `lossless_area_orientation` on the 3×3 ring: polygon 0 has an exterior of area 9 and a hole of area −1
    (8 pixels), polygon 1 is the unit square -/
example :
    let sc := scan 3 3 false eqI ringV (fun _ => true)
    (sc.polys.getD 0 []).map area2 = [18, -2] ∧ (sc.polys.getD 1 []).map area2 = [2] ∧
      (List.range 9).countP (fun p => regionId 3 3 false eqI ringV (fun _ => true) p == 1) = 8 := by
  decide +kernel

/-! ### wrapper glue: `polygonize()` and `_polygonize_numpy` around the numba pipeline

  The facts `Gen.PolygonizeFacts.wrapperFacts` / `numpyFacts` are regenerated from the source on every run.
  `wrapperModel F cast close dropIf src …` (Model/PolygonizeGlue.lean) is the wrapper as facts `F` describe it: the
  values of a `src` raster are cast to the dtype `F` records for `src`, compared by that dtype's `_is_close`, and a
  supplied transform is replaced by `None` when a recorded drop condition holds.  A cast that loses values of some
  accepted dtype (e.g. uint64 -> int64), a cast to the other `_is_close` kind, or any condition under which a
  supplied transform does not reach the kernel makes one of the `decide`s below fail. -/

open XrsVerif.Gen.PolygonizeFacts in
/-- `_polygonize_numpy` is what `polygonizeNumpy` models: its only way out is the result of
    `_scan(values, mask, connectivity_8, transform, nx, ny)`, arrays are flattened row-major, and for `nx == 1` a
    second, masked-out column is appended on the right -/
theorem glue_numpy_as_modelled : numpyFacts.asModelled = true := by decide

open XrsVerif.Gen.PolygonizeFacts in
/-- `polygonize()`: every source shape was recognised; mask and transform reach the kernel with their own dtype, a
    supplied transform is dropped on no path, the third argument is `connectivity == 8` -/
theorem glue_passes_through : wrapperFacts.passesThrough = true := by decide

open XrsVerif.Gen.PolygonizeFacts in
/-- **no narrowing cast**: for every raster dtype the facts record the dtype at the kernel, and the step from the one to
    the other keeps every value of the raster dtype and its `_is_close` kind (`glueSafe`) -/
theorem glue_no_narrowing_cast (s : DType) :
    (wrapperFacts.valuesAtKernel.lookup s).map (glueSafe s) = some true := by
  cases s <;> decide

/-- the integer part of `keepsValues` is exact: the C conversion to `t` returns every value of `s` unchanged iff
    `keepsValues s t` -/
theorem int_cast_keeps_iff (s t : DType) (hs : s.isInt = true) (ht : t.isInt = true) :
    keepsValues s t = true ↔ ∀ v, s.inRange v = true → wrapTo t v = v := by
  constructor
  · exact fun h v hv => wrapTo_keeps s t hs ht h v hv
  · intro h
    cases hk : keepsValues s t with
    | true => rfl
    | false =>
      obtain ⟨v, hv, hne⟩ := wrapTo_loses s t hs ht hk
      exact absurd (h v hv) hne

open XrsVerif.Gen.PolygonizeFacts in
/-- **The wrapper is `_polygonize_numpy` on the caller's own values and transform.**  For every raster dtype `src`,
    every cast that is the identity where `glueSafe` (`hcast`), every family of closeness tests that does not change
    along a `glueSafe` step (`hclose`), and *whatever* the drop conditions mean (`dropIf` arbitrary). -/
theorem wrapper_is_numpy {V : Type} (cast : DType → DType → V → V) (close : DType → V → V → Bool)
    (dropIf : String → List Rat → Bool)
    (hcast : ∀ s t v, glueSafe s t = true → cast s t v = v)
    (hclose : ∀ s t, glueSafe s t = true → close t = close s)
    (src : DType) (nx ny : Nat) (conn8 : Bool) (values : Nat → V) (mask : Nat → Bool)
    (transform : Option (List Rat)) :
    wrapperModel wrapperFacts cast close dropIf src nx ny conn8 values mask transform =
      polygonizeNumpy nx ny conn8 (close src) values mask transform := by
  have h := glue_no_narrowing_cast src
  cases ht : wrapperFacts.valuesAtKernel.lookup src with
  | none => rw [ht] at h; cases h
  | some t =>
  rw [ht] at h
  have hs : glueSafe src t = true := by simpa using h
  have hd : wrapperFacts.transformDrops = [] := by decide
  have hv : (fun ij => cast src t (values ij)) = values := funext fun ij => hcast _ _ _ hs
  simp only [wrapperModel, ht, hd, bind_noDrop, hclose _ _ hs, hv]

open XrsVerif.Gen.PolygonizeFacts in
/-- **a supplied affine transform is applied to every vertex -- through the wrapper**: the polygons returned for
    `transform = some t` are those returned without a transform, every vertex mapped by `t`; the column (the raster's
    own values) and success are unchanged -/
theorem wrapper_transform_every_vertex {V : Type} (cast : DType → DType → V → V) (close : DType → V → V → Bool)
    (dropIf : String → List Rat → Bool)
    (hcast : ∀ s t v, glueSafe s t = true → cast s t v = v)
    (hclose : ∀ s t, glueSafe s t = true → close t = close s)
    (src : DType) (nx ny : Nat) (conn8 : Bool) (values : Nat → V) (mask : Nat → Bool) (t : List Rat) :
    let out := wrapperModel wrapperFacts cast close dropIf src nx ny conn8 values mask (some t)
    let out0 := polygonizeNumpy nx ny conn8 (close src) values mask none
    out.polys = out0.polys.map (fun rings => rings.map (fun ring => ring.map (fun p => affineR t p))) ∧
      out.column = out0.column ∧ out.ok = out0.ok := by
  intro out out0
  have := wrapper_is_numpy cast close dropIf hcast hclose src nx ny conn8 values mask (some t)
  show (wrapperModel wrapperFacts cast close dropIf src nx ny conn8 values mask (some t)).polys = _ ∧
    (wrapperModel wrapperFacts cast close dropIf src nx ny conn8 values mask (some t)).column = _ ∧
    (wrapperModel wrapperFacts cast close dropIf src nx ny conn8 values mask (some t)).ok = _
  rw [this]
  exact transform_every_vertex nx ny conn8 (close src) values mask t

open XrsVerif.Gen.PolygonizeFacts in
/-- **losslessness through the wrapper** (no transform): the public function's result on a `src` raster is the
    lossless result of `lossless_numpy` for the raster's own values (closeness of `src` an equivalence) -/
theorem wrapper_lossless {V : Type} (cast : DType → DType → V → V) (close : DType → V → V → Bool)
    (dropIf : String → List Rat → Bool)
    (hcast : ∀ s t v, glueSafe s t = true → cast s t v = v)
    (hclose : ∀ s t, glueSafe s t = true → close t = close s)
    (src : DType) (nx ny : Nat) (conn8 : Bool) (values : Nat → V) (mask : Nat → Bool) (hnx : 0 < nx)
    (hrefl : ∀ a, close src a a = true)
    (hsymm : ∀ a b, close src a b = true → close src b a = true)
    (htrans : ∀ a b c, close src a b = true → close src b c = true → close src a c = true) :
    let out := wrapperModel wrapperFacts cast close dropIf src nx ny conn8 values mask none
    out.ok = true ∧
    ∃ polysInt : List (List Ring),
      out.polys = polysInt.map (fun rings => rings.map (fun r => r.map toRat)) ∧
      (if nx = 1 then
        losslessB 2 ny conn8 (close src) (fun ij => values (ij / 2))
          (fun ij => decide (ij % 2 = 0) && mask (ij / 2)) out.column polysInt
       else losslessB nx ny conn8 (close src) values mask out.column polysInt) = true := by
  intro out
  have h : out = polygonizeNumpy nx ny conn8 (close src) values mask none :=
    wrapper_is_numpy cast close dropIf hcast hclose src nx ny conn8 values mask none
  rw [h]
  exact lossless_numpy nx ny conn8 (close src) values mask hnx hrefl hsymm htrans

/-! non-vacuity of the glue theorems, and what a lossy cast / a dropped transform look like -/

/-- the hypotheses `hcast` / `hclose` hold for the identity cast and one closeness test -/
example : (∀ (s t : DType) (v : Int), glueSafe s t = true → (fun _ _ v => v : DType → DType → Int → Int) s t v = v) ∧
    (∀ s t : DType, glueSafe s t = true → (fun _ => eqI : DType → Int → Int → Bool) t = (fun _ => eqI) s) :=
  ⟨fun _ _ _ _ => rfl, fun _ _ _ => rfl⟩
/-- widening casts are accepted, narrowing ones and changes of the `_is_close` kind are not -/
example : glueSafe .i32 .i64 = true ∧ glueSafe .u8 .i16 = true ∧ glueSafe .f32 .f64 = true ∧
    glueSafe .u64 .i64 = false ∧ glueSafe .i64 .f64 = false ∧ glueSafe .i32 .f64 = false ∧
    glueSafe .f64 .f32 = false ∧ glueSafe .i8 .u64 = false := by decide
/-- uint64 -> int64 wraps the upper half of the range: 2^63 becomes -2^63, 2^64 - 1 becomes -1 -/
example : wrapTo .i64 (2 ^ 63) = -(2 ^ 63) ∧ wrapTo .i64 (2 ^ 64 - 1) = -1 ∧ DType.u64.inRange (2 ^ 63) = true := by
  decide
/-- facts with a drop condition: the model hands back untransformed vertices when the condition holds -/
example :
    let F : WrapperFacts := { Gen.PolygonizeFacts.wrapperFacts with transformDrops := ["linear part is the unit matrix"] }
    (wrapperModel F (fun _ _ v => v) (fun _ => eqI) (fun _ _ => true) .i64 1 1 false (fun _ => 1) (fun _ => true)
        (some [1, 0, 10, 0, 1, 20])).polys = [[[(0, 0), (1, 0), (1, 1), (0, 1), (0, 0)]]] ∧
    (wrapperModel Gen.PolygonizeFacts.wrapperFacts (fun _ _ v => v) (fun _ => eqI) (fun _ _ => true) .i64 1 1 false
        (fun _ => 1) (fun _ => true) (some [1, 0, 10, 0, 1, 20])).polys =
      [[[(10, 20), (11, 20), (11, 21), (10, 21), (10, 20)]]] := by
  decide +kernel

end XrsVerif.C15
