import XrsVerif.Proofs.Polygonize
/-
  C15 -- polygonize is lossless (work in progress header; see the theorem list below).
-/
set_option linter.unusedVariables false
namespace XrsVerif.C15
open XrsVerif XrsVerif.Polygonize

/-- `follow_invariant`: every state of the follower keeps the region on its left (its own pixel) and a
    pixel that is not in the region -- or the outside of the raster -- on its right -/
theorem follow_invariant (R : Int → Int → Bool) (s : FSt) (h : Valid R s) : Valid R (step R s) :=
  step_valid R s h

/-- every iteration moves the current vertex by exactly one unit along the heading: vertices are cell
    corners (integer points) joined by axis-parallel unit steps -/
theorem follow_axis_parallel (R : Int → Int → Bool) (s : FSt) :
    (step R s).corner = (s.corner.1 + s.d.dx, s.corner.2 + s.d.dy) :=
  corner_step R s

/-- the step is injective on boundary-edge states -/
theorem follow_step_injective (R : Int → Int → Bool) (s t : FSt) (hs : Valid R s) (ht : Valid R t)
    (h : step R s = step R t) : s = t :=
  step_injective R s t hs ht h

/-- a supplied affine transform is applied to every vertex of every ring (and to nothing else) -/
theorem transform_every_vertex {V : Type} (nx ny : Nat) (conn8 : Bool) (close : V → V → Bool)
    (values : Nat → V) (mask : Nat → Bool) (t : List Rat) :
    (polygonizeNumpy nx ny conn8 close values mask (some t)).polys =
      (polygonizeNumpy nx ny conn8 close values mask none).polys.map
        (fun rings => rings.map (fun ring => ring.map (affineR t))) ∧
    (polygonizeNumpy nx ny conn8 close values mask (some t)).column =
      (polygonizeNumpy nx ny conn8 close values mask none).column := by
  simp [polygonizeNumpy, List.map_map, Function.comp_def, affine_eq]

end XrsVerif.C15
