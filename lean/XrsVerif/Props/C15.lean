import XrsVerif.Proofs.Polygonize
import XrsVerif.Proofs.PolygonizeOrbit
/-
  C15 -- polygonize is lossless.

  Model (Model/Polygonize.lean): `calculateRegions` (W/S/SW/SE rules, `mergeRegions` lookup chain with its
  allocated size, compaction to first-pixel ranks), the follower `step` on states (pixel, heading) with the
  three turn rules (Right if the pixel ahead-right is in the region, else Straight if the pixel ahead is,
  else Left), `followLoop`/`follow` (vertex recorded when the heading changes, visited flags), `scan`
  (exterior / hole starts, hole attachment), `polygonizeNumpy` (nx = 1 workaround, transform).

  Proved here, for every raster size, region array and start:
  * `follow_invariant`        every state keeps the region on its left and a pixel outside the region (or
                              outside the raster) on its right;
  * `follow_axis_parallel`    every iteration moves the current vertex by one unit along the heading:
                              vertices are pixel corners joined by axis-parallel unit steps;
  * `follow_step_injective`   the step is injective on boundary-edge states;
  * `follow_terminates`       started on a boundary edge the follower is back at its start within the fuel
                              (injective self-map of a finite set, at most 4·nx·ny states);
  * `hole_start_on_boundary`, `exterior_start_on_boundary`  the states `_scan` starts from are boundary edges
                              (for exteriors: given that the pixel is the first of its region in scan order);
  * `ring_closed_rectilinear` every returned ring starts and ends at the start vertex and consecutive
                              vertices share a coordinate;
  * `transform_every_vertex`  the affine transform is applied to every vertex of every ring, nothing else;
  * `lossless_partial`        the above assembled for one boundary.

  NOT proved (the gap): that the rings, rasterised with the even-odd rule at the pixel centres, give back
  exactly the regions (a discrete Jordan-curve argument), that the shoelace area equals the pixel count
  (discrete Green), the orientation claim, that `calculateRegions` yields the connected components with
  first-pixel ranks (union-find invariant of the merge lookup), and that `scan` attaches every hole to the
  right exterior.  The complete statement is `Polygonize.losslessB` (a decidable check of a result against
  the raster, with connectivity expressed through the C16 labelling whose correctness Props/C16 proves);
  below it is evaluated by the kernel on concrete rasters (hole, diagonal pinch, mask, single column) and
  the correspondence run checks it -- through an independent Python oracle -- on the real code for every
  raster up to 12 pixels over {0,1}, 10 pixels over three symbols, and random larger ones.
-/
set_option linter.unusedVariables false
namespace XrsVerif.C15
open XrsVerif XrsVerif.Polygonize

/-- every state of the follower keeps the region on its left (its own pixel) and a pixel that is not in
    the region -- or the outside of the raster -- on its right -/
theorem follow_invariant (R : Int → Int → Bool) (s : FSt) (h : Valid R s) : Valid R (step R s) :=
  step_valid R s h

/-- every iteration moves the current vertex by exactly one unit along the heading -/
theorem follow_axis_parallel (R : Int → Int → Bool) (s : FSt) :
    (step R s).corner = (s.corner.1 + s.d.dx, s.corner.2 + s.d.dy) :=
  corner_step R s

/-- the step is injective on boundary-edge states -/
theorem follow_step_injective (R : Int → Int → Bool) (s t : FSt) (hs : Valid R s) (ht : Valid R t)
    (h : step R s = step R t) : s = t :=
  step_injective R s t hs ht h

/-- started on a boundary edge, `follow` returns (the `while True` loop of `_follow` terminates) -/
theorem follow_terminates (nx ny : Nat) (regs : Nat → Nat) (ij : Nat) (hole : Bool)
    (hstart : Valid (inRegion nx ny regs (regs ij))
      ⟨(ij % nx : Nat), (ij / nx : Nat), if hole then .W else .E⟩) :
    (follow nx ny regs ij hole).isSome = true :=
  follow_isSome nx ny regs ij hole hstart

/-- the state a hole is started from (`_scan`: `ij >= nx`, `regions[ij] != regions[ij-nx]`) is a
    boundary edge of the region of pixel `ij - nx` -/
theorem hole_start_on_boundary (nx ny : Nat) (regs : Nat → Nat) (ij : Nat) (hnx : 0 < nx) (h1 : nx ≤ ij)
    (h2 : ij < nx * ny) (hne : regs ij ≠ regs (ij - nx)) :
    Valid (inRegion nx ny regs (regs (ij - nx))) ⟨((ij - nx) % nx : Nat), ((ij - nx) / nx : Nat), .W⟩ :=
  hole_start_valid nx ny regs ij hnx h1 h2 hne

/-- the state an exterior is started from is a boundary edge when the pixel below `ij` is not in the
    same region (true for the first pixel of a region in scan order) -/
theorem exterior_start_on_boundary (nx ny : Nat) (regs : Nat → Nat) (ij : Nat) (hnx : 0 < nx)
    (h2 : ij < nx * ny) (hfirst : nx ≤ ij → regs (ij - nx) ≠ regs ij) :
    Valid (inRegion nx ny regs (regs ij)) ⟨(ij % nx : Nat), (ij / nx : Nat), .E⟩ :=
  exterior_start_valid nx ny regs ij hnx h2 hfirst

/-- every ring returned by `follow` is closed (first = last = the start vertex), has at least two
    points, and consecutive points are joined by axis-parallel segments -/
theorem ring_closed_rectilinear (nx ny : Nat) (regs : Nat → Nat) (ij : Nat) (hole : Bool) (tr : Trace)
    (h : follow nx ny regs ij hole = some tr) :
    Rectilinear tr.pts ∧ tr.pts.head? = tr.pts.getLast? ∧
      tr.pts.head? = some (FSt.corner ⟨(ij % nx : Nat), (ij / nx : Nat), if hole then .W else .E⟩) ∧
      2 ≤ tr.pts.length := by
  obtain ⟨h1, h2, h3, h4⟩ := follow_ring nx ny regs ij hole tr h
  exact ⟨h1, by rw [h2, h3], h2, h4⟩

/-- a supplied affine transform is applied to every vertex of every ring (and to nothing else) -/
theorem transform_every_vertex {V : Type} (nx ny : Nat) (conn8 : Bool) (close : V → V → Bool)
    (values : Nat → V) (mask : Nat → Bool) (t : List Rat) :
    (polygonizeNumpy nx ny conn8 close values mask (some t)).polys =
      (polygonizeNumpy nx ny conn8 close values mask none).polys.map
        (fun rings => rings.map (fun ring => ring.map (fun p => affineR t p))) ∧
    (polygonizeNumpy nx ny conn8 close values mask (some t)).column =
      (polygonizeNumpy nx ny conn8 close values mask none).column ∧
    (polygonizeNumpy nx ny conn8 close values mask (some t)).ok =
      (polygonizeNumpy nx ny conn8 close values mask none).ok := by
  simp [polygonizeNumpy, List.map_map, Function.comp_def, affine_eq]

/-- What is proved of losslessness, for one boundary: started on a boundary edge of a region, the
    follower terminates and returns a closed rectilinear ring through the start vertex, keeping the
    region on its left and the complement on its right at every step (`follow_invariant`), each step
    being one unit along an axis (`follow_axis_parallel`), no boundary edge being visited twice before
    the return (`follow_step_injective`).
    The full statement -- `losslessB … = true` for the output of `scan` on every raster -- is not proved;
    see the header. -/
theorem lossless_partial (nx ny : Nat) (regs : Nat → Nat) (ij : Nat) (hole : Bool)
    (hstart : Valid (inRegion nx ny regs (regs ij))
      ⟨(ij % nx : Nat), (ij / nx : Nat), if hole then .W else .E⟩) :
    ∃ tr, follow nx ny regs ij hole = some tr ∧ Rectilinear tr.pts ∧ tr.pts.head? = tr.pts.getLast? ∧
      tr.pts.head? = some (FSt.corner ⟨(ij % nx : Nat), (ij / nx : Nat), if hole then .W else .E⟩) ∧
      2 ≤ tr.pts.length := by
  have h := follow_terminates nx ny regs ij hole hstart
  cases hf : follow nx ny regs ij hole with
  | none => rw [hf] at h; cases h
  | some tr => exact ⟨tr, rfl, ring_closed_rectilinear nx ny regs ij hole tr hf⟩

/-! ### non-vacuity, and the full statement evaluated on concrete rasters -/

def eqI (a b : Int) : Bool := a == b

/-- `scan` on a raster followed by the full losslessness check -/
def holds (nx ny : Nat) (c8 : Bool) (values : Nat → Int) (mask : Nat → Bool) : Bool :=
  let sc := scan nx ny c8 eqI values mask
  sc.ok && losslessB nx ny c8 eqI values mask sc.column.reverse sc.polys

/-- 3×3 ring of 1s around a 0: one polygon with a hole, one square -/
def ringV : Nat → Int := fun ij => if ij = 4 then 0 else 1
/-- 2×2 checkerboard: a diagonal pinch (one bow-tie polygon per value with connectivity 8) -/
def pinchV : Nat → Int := fun ij => if ij = 0 ∨ ij = 3 then 1 else 0

example : (scan 3 3 false eqI ringV (fun _ => true)).polys =
    [[[(0, 0), (3, 0), (3, 3), (0, 3), (0, 0)], [(2, 1), (1, 1), (1, 2), (2, 2), (2, 1)]],
     [[(1, 1), (2, 1), (2, 2), (1, 2), (1, 1)]]] := by decide +kernel
example : holds 3 3 false ringV (fun _ => true) = true := by decide +kernel
example : holds 3 3 true ringV (fun _ => true) = true := by decide +kernel
example : holds 2 2 true pinchV (fun _ => true) = true := by decide +kernel
example : holds 2 2 false pinchV (fun _ => true) = true := by decide +kernel
/-- with a mask -/
example : holds 3 2 false (fun ij => (ij % 2 : Nat)) (fun ij => decide (ij ≠ 2)) = true := by decide +kernel
/-- a single column goes through the `nx = 1` workaround -/
example : (polygonizeNumpy 1 3 false eqI (fun ij => if ij = 2 then 2 else 1) (fun _ => true) none).polys =
    [[[(0, 0), (1, 0), (1, 2), (0, 2), (0, 0)]], [[(0, 2), (1, 2), (1, 3), (0, 3), (0, 2)]]] := by
  decide +kernel
/-- the check rejects a wrong result (the hole dropped) -/
example : losslessB 3 3 false eqI ringV (fun _ => true) [1, 0]
    [[[(0, 0), (3, 0), (3, 3), (0, 3), (0, 0)]], [[(1, 1), (2, 1), (2, 2), (1, 2), (1, 1)]]] = false := by
  decide +kernel
/-- the start states of `lossless_partial` exist: exterior of the ring region, and its hole -/
example : Valid (inRegion 3 3 (fun ij => if ij = 4 then 2 else 1) 1) ⟨0, 0, .E⟩ := by decide
example : Valid (inRegion 3 3 (fun ij => if ij = 4 then 2 else 1) 1) ⟨1, 0, .W⟩ := by decide

end XrsVerif.C15
