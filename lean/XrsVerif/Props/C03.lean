import XrsVerif.Proofs.CrosstabDask
import XrsVerif.Proofs.ChunkGrid
import XrsVerif.Proofs.KSimp
import XrsVerif.Gen.Zonal
import XrsVerif.Gen.Kernels
import Mathlib.Tactic.FieldSimp
import Mathlib.Tactic.Ring
/-
  C03 -- Zonal tables do not depend on how Dask rasters are chunked.

  The dask paths of `stats` and `crosstab` are modelled in Model/ZonalDask.lean / Model/Crosstab.lean:
  every pair of `zip(zones_blocks, values_blocks)` runs the position-faithful sort-and-stride with the
  *global* `unique_zones`, the per-block partial tables are reduced over the block axis by the
  combiners of `_DASK_STATS` (stats) or added key-wise (crosstab).  The structural facts the model is
  run with are read from /repo's current source by harness/facts_zonal.py and the translator:
    `Gen.Zonal.stripIndices`                         (D1)  indices of non-finite zones dropped before the gather
    `Gen.Zonal.comb`                                 (D2)  shapes of the `_DASK_STATS` lambdas
    `Gen.Zonal.statsAligns / crosstab2dAligns`       (D12) values rechunked onto the zones chunking
    `Gen.Zonal.rowsSortedDask = rowsSortedNumpy`           both backends label the rows the same way
    `Gen.dask_mean / dask_var / dask_std`                  the documented formulas, translated from the source
  On a tree with one of the defects the corresponding `*_fact` does not check and this file does not build.

  Quantifiers: all rasters, all `valid` predicates, all requests with at least one existing zone, all
  stat subsets, **every partition of the cells into blocks** (`GoodBlocks`), hence (`gridBlocks_perm`,
  `pairBlocks_aligned`) every chunking of the zones raster and -- because of the rechunk -- every
  chunking of the values raster; every sorting permutation in every block.  max / min / count are
  exact; sum / mean / var / std hold over an arbitrary linearly ordered field (float rounding is
  covered by the correspondence run only); `sqrt` is uninterpreted.
  Schedulers / worker counts: every block function and combiner of the model is a pure function of
  its inputs, which is what makes the result schedule independent; the real schedulers (synchronous,
  threads with 1..4 workers) are exercised by harness/corr_C03.py, not proved here.
-/
set_option linter.unusedSectionVars false
set_option linter.unusedVariables false
set_option linter.unnecessarySeqFocus false
namespace XrsVerif.C03
open XrsVerif XrsVerif.Zonal

variable {κ γ : Type} [LinearOrder κ] [LinearOrder γ]

/-! ### the source facts -/

theorem strip_fact : Gen.Zonal.stripIndices = true := rfl
/-- `_DASK_STATS`: nanmax, nanmin, and NaN-preserving sums (a zone empty in every block stays NaN) -/
theorem comb_fact : Gen.Zonal.comb = fixedComb := by funext s; cases s <;> rfl
/-- `_DASK_BLOCK_STATS`: max, min, sum, count, sum of squares of the block's zone values -/
theorem block_stats_fact : Gen.Zonal.blockStatsOk = true := rfl
/-- `_stats_dask_numpy` feeds `_dask_mean(sum, count)`, `_dask_std/_dask_var(sum_squares, sum ** 2, count)` -/
theorem dask_args_fact : Gen.Zonal.daskMeanArgs = ["sum", "count"] ∧
    Gen.Zonal.daskStdArgs = ["sum_squares", "sum**2", "count"] ∧
    Gen.Zonal.daskVarArgs = ["sum_squares", "sum**2", "count"] := by decide
theorem stats_aligns_fact : Gen.Zonal.statsAligns = true := rfl
theorem crosstab2d_aligns_fact : Gen.Zonal.crosstab2dAligns = true := rfl
theorem crosstab3d_aligns_fact : Gen.Zonal.crosstab3dAligns = true := rfl
theorem rows_flags_agree : Gen.Zonal.rowsSortedDask = Gen.Zonal.rowsSortedNumpy := rfl

section formulas
variable {K : Type} [Field K] [LinearOrder K] [IsStrictOrderedRing K] [Trig K]

/-- the translated `_dask_mean` is the model's `daskMean` (`sums / counts`, NaN for 0/0 and NaN operands) -/
theorem gen_dask_mean (s c : NV K) :
    Gen.dask_mean.cell (envOf [("sums", s), ("counts", c)]) (rd0 []) (fun _ => []) = daskMean s c := by
  cases s <;> cases c <;> ksimp [Gen.dask_mean, daskMean, oDiv]

/-- the translated `_dask_var` is `(sum_squares - squared_sum / n) / n` -/
theorem gen_dask_var (ss sq n : NV K) :
    Gen.dask_var.cell (envOf [("sum_squares", ss), ("squared_sum", sq), ("n", n)]) (rd0 []) (fun _ => [])
      = daskVar ss sq n := by
  cases ss <;> cases sq <;> cases n <;> ksimp [Gen.dask_var, daskVar, oDiv, oSub] <;> split <;> simp_all

/-- the translated `_dask_std` is the root of the same expression -/
theorem gen_dask_std (ss sq n : NV K) :
    Gen.dask_std.cell (envOf [("sum_squares", ss), ("squared_sum", sq), ("n", n)]) (rd0 []) (fun _ => [])
      = daskStd Trig.sqrt ss sq n := by
  cases ss <;> cases sq <;> cases n <;> ksimp [Gen.dask_std, daskStd, daskVar, oDiv, oSub] <;> split <;> simp_all

end formulas

/-! ### stats -/

section stats
variable {F : Type} [Field F] [LinearOrder F] [IsStrictOrderedRing F]

/-- **dask stats = NumPy stats** for every partition of the cells into aligned blocks: same zone
    column (ascending, requested and existing), and every statistic equal -- max / min / count exactly,
    sum / mean / var / std as elements of the field (`sum / count`, `(ss - s²/n)/n`, its root) -/
theorem dask_stats_eq_numpy (sqrt : F → F) (zones : Nat → X κ) (values : Nat → X F) (nodata : Option (X F))
    (cells perm : List Nat) (blocks : List Block) (stats : List Stat) (zoneIds : Option (List κ))
    (hb : GoodBlocks zones cells blocks) (hp : SortsCells zones cells perm)
    (hreq : zoneIds = none ∨ wantedZones zones cells zoneIds ≠ []) :
    daskStats Gen.Zonal.stripIndices Gen.Zonal.comb sqrt zones values cells (validX nodata) blocks stats zoneIds
      = some (statsNumpy Gen.Zonal.stripIndices zones values cells (validX nodata) (none : Option F)
                (stats.map (Stat.func sqrt)) zoneIds perm) := by
  have hfin : ∀ v, validX nodata v = true → v.isFin = true := by
    intro v hv; cases v <;> simp_all [validX, X.isFin]
  rw [strip_fact, comb_fact, daskStats_fixed sqrt zones values (validX nodata) hfin cells blocks stats zoneIds hb hreq,
    statsNumpy_fixed zones values cells perm (validX nodata) none _ zoneIds hp]
  congr 2
  rw [List.map_map]
  apply List.map_congr_left
  intro s _
  apply List.map_congr_left
  intro u _
  rw [zoneStat_perm zones values (validX nodata) none (Stat.func sqrt s) (Stat.func_permInv sqrt s) perm cells hp.isPerm u,
    numpy_entry sqrt s zones values (validX nodata) hfin cells u]

/-- **every chunking**: an `h × w` raster, zones chunked by any `(rs, cs)` with `sum rs = h`, `sum cs = w`,
    values arriving with *any* chunking `vch`: after the rechunk the pairs of blocks are good, so the
    table is the NumPy table -/
theorem dask_stats_any_chunking (sqrt : F → F) (h w : Nat) (zones : Nat → X κ) (values : Nat → X F)
    (nodata : Option (X F)) (zch vch : List Nat × List Nat) (perms : List (List Nat)) (perm : List Nat)
    (stats : List Stat) (zoneIds : Option (List κ))
    (hr : zch.1.sum = h) (hc : zch.2.sum = w)
    (hl : perms.length = (gridBlocks w zch.1 zch.2).length)
    (hs : ∀ b ∈ pairBlocks true w zch vch perms, SortsCells (Block.fn b.zc zones) (List.range b.zc.length) b.perm)
    (hp : SortsCells zones (List.range (h * w)) perm)
    (hreq : zoneIds = none ∨ wantedZones zones (List.range (h * w)) zoneIds ≠ []) :
    daskStats Gen.Zonal.stripIndices Gen.Zonal.comb sqrt zones values (List.range (h * w)) (validX nodata)
        (pairBlocks Gen.Zonal.statsAligns w zch vch perms) stats zoneIds
      = some (statsNumpy Gen.Zonal.stripIndices zones values (List.range (h * w)) (validX nodata) (none : Option F)
                (stats.map (Stat.func sqrt)) zoneIds perm) := by
  rw [stats_aligns_fact]
  have ha := pairBlocks_aligned w zch vch perms hl
  refine dask_stats_eq_numpy sqrt zones values nodata _ perm _ stats zoneIds ⟨ha.1, ?_, hs⟩ hp hreq
  rw [ha.2.1]
  exact gridBlocks_perm h w zch.1 zch.2 hr hc

end stats

/-! ### crosstab -/

/-- **block tables add up**: the dask crosstab (2-D, counts) is the NumPy crosstab for every partition
    of the cells into aligned blocks; `percentage` is taken after combining on both paths (`CTable.finish`) -/
theorem crosstab_blocks_add (zones : Nat → X κ) (values : Nat → X γ) (valid : X γ → Bool)
    (cells perm : List Nat) (zoneIds : Option (List κ)) (catIds : Option (List γ))
    (blocks : List Block) (hb : GoodBlocks zones cells blocks) (hne : blocks ≠ [])
    (hp : SortsCells zones cells perm) :
    crosstabDask2d Gen.Zonal.stripIndices Gen.Zonal.catStartAlways Gen.Zonal.rowsSortedDask
        zones values valid cells zoneIds catIds blocks
      = crosstabNumpy2d Gen.Zonal.stripIndices Gen.Zonal.catStartAlways Gen.Zonal.rowsSortedNumpy
        zones values valid cells zoneIds catIds perm := by
  rw [strip_fact, rows_flags_agree]
  exact crosstabDask2d_eq_numpy _ _ zones values valid cells perm zoneIds catIds blocks hb hne hp

/-- **the percentage is taken the same way on both paths**: the expression `_crosstab_df_dask` normalises the
    combined counts with (`Gen.Zonal.pctDask`, translated from the source) has the value of the one
    `_crosstab_numpy` uses (`Gen.Zonal.pctNumpy`) for every total and every count -- so `crosstab_blocks_add`
    carries over from counts to `agg='percentage'`.  A dask path that normalises by something else (the sum of the
    selected columns, say) is not of this form: `pctDask` is `unknown` and this theorem does not check. -/
theorem percentage_same_on_both_paths {F : Type} [Field F] [CharZero F] (total n : Nat) :
    (pctCell Gen.Zonal.pctDask Gen.Zonal.stridesBits total n : Option F)
      = pctCell Gen.Zonal.pctNumpy Gen.Zonal.stridesBits total n := by
  unfold pctCell
  by_cases h : total = 0
  · simp [h]
  · have ht : ((total : Nat) : F) ≠ 0 := by exact_mod_cast h
    simp only [h, if_false, Gen.Zonal.pctDask, Gen.Zonal.pctNumpy, PExpr.eval, PVal.toF, Option.some.injEq]
    try (first | rfl | (push_cast; ring1) | (push_cast; field_simp; done) | (push_cast; field_simp; ring1))

/-- **every chunking** of both rasters (2-D crosstab): needs the rechunk of the values onto the zones
    chunking, `crosstab2d_aligns_fact` (defect D12 on a tree without it) -/
theorem crosstab_any_chunking (h w : Nat) (zones : Nat → X κ) (values : Nat → X γ) (valid : X γ → Bool)
    (zch vch : List Nat × List Nat) (perms : List (List Nat)) (perm : List Nat)
    (zoneIds : Option (List κ)) (catIds : Option (List γ))
    (hr : zch.1.sum = h) (hc : zch.2.sum = w)
    (hl : perms.length = (gridBlocks w zch.1 zch.2).length) (hne : gridBlocks w zch.1 zch.2 ≠ [])
    (hs : ∀ b ∈ pairBlocks true w zch vch perms, SortsCells (Block.fn b.zc zones) (List.range b.zc.length) b.perm)
    (hp : SortsCells zones (List.range (h * w)) perm) :
    crosstabDask2d Gen.Zonal.stripIndices Gen.Zonal.catStartAlways Gen.Zonal.rowsSortedDask
        zones values valid (List.range (h * w)) zoneIds catIds (pairBlocks Gen.Zonal.crosstab2dAligns w zch vch perms)
      = crosstabNumpy2d Gen.Zonal.stripIndices Gen.Zonal.catStartAlways Gen.Zonal.rowsSortedNumpy
        zones values valid (List.range (h * w)) zoneIds catIds perm := by
  rw [crosstab2d_aligns_fact]
  have ha := pairBlocks_aligned w zch vch perms hl
  refine crosstab_blocks_add zones values valid _ perm zoneIds catIds _ ⟨ha.1, ?_, hs⟩ ?_ hp
  · rw [ha.2.1]; exact gridBlocks_perm h w zch.1 zch.2 hr hc
  · intro e
    have := congrArg (List.map (fun b : Block => b.zc)) e
    rw [ha.2.1] at this
    exact hne this

/-- **3-D** (`agg='count'`, the only aggregate the dask path offers): block columns add up to the NumPy
    table for every partition into aligned blocks, hence (rechunk onto the zones chunking,
    `crosstab3d_aligns_fact`) for every chunking of both rasters -/
theorem crosstab3d_blocks_add {ν : Type} (zones : Nat → X κ) (layers : List (γ × (Nat → ν))) (valid : ν → Bool)
    (cells perm : List Nat) (zoneIds : Option (List κ)) (catIds : Option (List γ))
    (blocks : List Block) (hb : GoodBlocks zones cells blocks) (hne : blocks ≠ [])
    (hp : SortsCells zones cells perm) :
    crosstabDask3d Gen.Zonal.stripIndices Gen.Zonal.rowsSortedDask zones layers valid cells zoneIds catIds blocks
      = crosstabNumpy3d Gen.Zonal.stripIndices Gen.Zonal.rowsSortedNumpy zones layers valid List.length
          cells zoneIds catIds perm := by
  rw [strip_fact, rows_flags_agree]
  exact crosstabDask3d_eq_numpy _ zones layers valid cells perm zoneIds catIds blocks hb hne hp

theorem crosstab3d_any_chunking {ν : Type} (h w : Nat) (zones : Nat → X κ) (layers : List (γ × (Nat → ν)))
    (valid : ν → Bool) (zch vch : List Nat × List Nat) (perms : List (List Nat)) (perm : List Nat)
    (zoneIds : Option (List κ)) (catIds : Option (List γ))
    (hr : zch.1.sum = h) (hc : zch.2.sum = w)
    (hl : perms.length = (gridBlocks w zch.1 zch.2).length) (hne : gridBlocks w zch.1 zch.2 ≠ [])
    (hs : ∀ b ∈ pairBlocks true w zch vch perms, SortsCells (Block.fn b.zc zones) (List.range b.zc.length) b.perm)
    (hp : SortsCells zones (List.range (h * w)) perm) :
    crosstabDask3d Gen.Zonal.stripIndices Gen.Zonal.rowsSortedDask zones layers valid (List.range (h * w))
        zoneIds catIds (pairBlocks Gen.Zonal.crosstab3dAligns w zch vch perms)
      = crosstabNumpy3d Gen.Zonal.stripIndices Gen.Zonal.rowsSortedNumpy zones layers valid List.length
          (List.range (h * w)) zoneIds catIds perm := by
  rw [crosstab3d_aligns_fact]
  have ha := pairBlocks_aligned w zch vch perms hl
  refine crosstab3d_blocks_add zones layers valid _ perm zoneIds catIds _ ⟨ha.1, ?_, hs⟩ ?_ hp
  · rw [ha.2.1]; exact gridBlocks_perm h w zch.1 zch.2 hr hc
  · intro e
    have := congrArg (List.map (fun b : Block => b.zc)) e
    rw [ha.2.1] at this
    exact hne this

/-! ### why the facts matter -/

/-- D2: a zone that is NaN in every block: `np.nansum` turns it into 0, the repaired combiner keeps NaN -/
theorem unrepaired_empty_zone :
    Comb.nansum.eval ([none, none] : List (Option Int)) = some 0 ∧
    Comb.nansumNaN.eval ([none, none] : List (Option Int)) = none := ⟨rfl, rfl⟩

/-- D12: a 2×2 raster, zones chunked by rows, values by columns: without the rechunk the pairs of
    `zip(zones_blocks, values_blocks)` cover different cells; with it they cover the same -/
theorem unaligned_pairs :
    (pairBlocks false 2 ([1, 1], [2]) ([2], [1, 1]) [[], []]).map (fun b => (b.zc, b.vc))
      = [([0, 1], [0, 2]), ([2, 3], [1, 3])] ∧
    (pairBlocks true 2 ([1, 1], [2]) ([2], [1, 1]) [[], []]).map (fun b => (b.zc, b.vc))
      = [([0, 1], [0, 1]), ([2, 3], [2, 3])] := by decide

/-! ### non-vacuity -/

/-- good blocks exist: the 2×2 raster split by rows, each block sorted -/
example : GoodBlocks (fun i => ([X.fin 2, .fin 1, .nan, .fin 1] : List (X Int)).getD i .nan) (List.range 4)
    [{ zc := [0, 1], vc := [0, 1], perm := [1, 0] }, { zc := [2, 3], vc := [2, 3], perm := [1, 0] }] :=
  ⟨by decide, by decide, by
    intro b hb
    simp only [List.mem_cons, List.not_mem_nil, or_false] at hb
    rcases hb with rfl | rfl <;> exact ⟨by decide, by decide⟩⟩

example : (gridBlocks 3 [1, 1] [2, 1]).flatten = [0, 1, 2, 3, 4, 5] := by decide

end XrsVerif.C03
