import XrsVerif.Proofs.AStarEuclid
import XrsVerif.Proofs.AStarCoord
import XrsVerif.Proofs.AStarQ2
import XrsVerif.Proofs.AStarGen
import XrsVerif.Proofs.ILAStarMain
import XrsVerif.Proofs.ILAStarER
import Mathlib.Analysis.Real.Sqrt
/-
  C14 -- A* returns a valid, shortest path between the cells the caller named.

  All statements are about `Model/AStar.lean`, the hand model of `xrspatial/pathfinding.py`
  (after repairs D6 and D7), tied to the code (a) by the correspondence run (harness/corr_C14.py) and
  (b) piece by piece by the theorems of the last section, which mention the definitions that
  `harness/facts_astar.py` regenerates from the source on every run (`Gen/AStarFacts.lean`): the
  heuristic and step-length kernels, the neighbour tables, the body of the relaxation loop, the
  min-cost selection, the barrier test, the coordinate -> pixel expressions, the snap scan.

  Vocabulary (Proofs/AStarInv.lean): `Free e c` = inside the raster and crossable; `Adj e u v` =
  `v` is `u` plus one of the 4 / 8 neighbour offsets; `Route e c l` = a route of crossable cells
  from `start` to `c` of length `l`; `ValidPath e chain g` = the non-NaN cells of the result (the
  list `chain`, goal first) are a duplicate-free chain of crossable cells from `goal` back to
  `start`, consecutive cells are neighbours, `g start = 0` and `g child = g parent + step`.

  Two layers:
   * for EVERY cost structure (`Ops C`: nothing assumed about `+`, `<`, the step lengths or the
     heuristic; in particular for the IEEE-double instance that the driver runs and that agrees
     bit for bit with numba): a returned path is a valid chain, an all-NaN result means no route;
   * for exact costs in any linearly ordered field with a Euclidean distance `d` (`0 ≤ d`,
     `d² = Δy² + Δx²`, so `d` of a diagonal step is a square root of two): additionally the
     sentinel is never hit, a route is found whenever one exists, and the goal's value is the
     minimum over all routes.
-/
set_option linter.unusedSectionVars false
set_option linter.unusedVariables false
namespace XrsVerif.C14
open XrsVerif XrsVerif.AStar

/-! ### coordinates denote the cell whose centre is nearest -/

/-- a cell's own coordinate denotes that cell (any offset, any non-zero spacing -- ascending,
    descending, fractional --, cell size `|step|` as `calc_res` computes it) -/
theorem pixel_own_coordinate (c0 step : ℚ) (hstep : step ≠ 0) (i : ℕ) :
    pixelId c0 (absR step) (c0 + (i : ℚ) * step) = (i : ℤ) :=
  pixelId_own c0 step hstep i

/-- the index returned is that of the nearest centre: no centre `c0 + j*step` is closer to `p` -/
theorem pixel_nearest_centre (c0 step p : ℚ) (hstep : step ≠ 0) (hside : 0 ≤ (p - c0) / step) (j : ℤ) :
    |p - (c0 + (pixelId c0 (absR step) p : ℚ) * step)| ≤ |p - (c0 + (j : ℚ) * step)| :=
  pixelId_nearest c0 step p hstep hside j

example : pixelId 2 (absR (1 / 10)) (2 + 3 * (1 / 10)) = 3 := by decide +kernel
example : pixelId 0 (absR (-1 / 3)) (0 + 7 * (-1 / 3)) = 7 := by decide +kernel
example : pixelId 0 1 (9 / 10) = 1 := by decide +kernel

/-! ### snapping moves an end point to the nearest crossable cell -/

/-- a crossable cell keeps its place; otherwise the result is a crossable cell of the raster at
    minimum distance; `none` only when no cell is crossable -/
theorem snap_argmin (h w : Nat) (cross : Cell → Bool) (p : Cell) :
    (cross p = true → findNearest h w cross p = some p) ∧
    (∀ c, findNearest h w cross p = some c →
      cross c = true ∧ (inside h w p = true → inside h w c = true) ∧
      ∀ c', inside h w c' = true → cross c' = true → sqDist c p ≤ sqDist c' p) ∧
    (findNearest h w cross p = none → ∀ c', inside h w c' = true → cross c' = false) :=
  findNearest_spec h w cross p

-- the lone crossable far corner is found (D7)
example : findNearest 3 3 (fun c => c == (2, 2)) (0, 0) = some (2, 2) := by decide +kernel

/-! ### every cost structure: a returned path is a valid chain; all-NaN means there is no route -/

/-- **path validity** (any `Ops C`, e.g. IEEE doubles): when the search returns a path, its
    non-NaN cells are exactly `chain`, a chain from start (value `zero`) to goal in which each
    step goes to a 4- or 8-neighbour, adds exactly that step's length and never enters a barrier or
    NaN cell; in particular a route of that length exists -/
theorem path_is_chain {C : Type} (e : Env C) (hs : inside e.h e.w e.start = true)
    {chain : List Cell} {g : Cell → C} (h : search e = .path chain g) :
    ValidPath e chain g ∧ Route e e.goal (g e.goal) ∧
    ∀ c, (search e).raster c = if c ∈ chain then some (g c) else none := by
  have := search_spec e hs (fun _ => True) (fun _ _ _ _ _ _ => trivial) trivial
  rw [h] at this
  obtain ⟨hv, _⟩ := this
  refine ⟨hv, ?_, fun c => by rw [h]; rfl⟩
  obtain ⟨t, ht⟩ : ∃ t, chain = e.goal :: t := by
    have := hv.head
    cases chain with
    | nil => simp at this
    | cons a t => simp at this; exact ⟨t, by rw [this]⟩
  exact route_of_chain ht hv.links hv.free

/-- (any `Ops C`) the search answers "every cell NaN" only when no route of crossable cells joins
    start and goal -/
theorem all_nan_means_no_route {C : Type} (e : Env C) (hs : inside e.h e.w e.start = true)
    (h : search e = .noPath) : ∀ l, ¬ Route e e.goal l := by
  have := search_spec e hs (fun _ => True) (fun _ _ _ _ _ _ => trivial) trivial
  rw [h] at this
  exact this

/-- (any `Ops C`) the loop always ends within `h*w + 1` iterations and the parent walk reaches
    start: the only way to leave the described behaviour is the sentinel of
    `_min_cost_pixel_id` (excluded for exact costs by `astar_exact`) -/
theorem anomaly_is_sentinel {C : Type} (e : Env C) (hs : inside e.h e.w e.start = true)
    {what : String} (h : search e = .anomaly what) :
    ∃ st, Inv e st ∧ anyOpen e st = true ∧ minCostOpen e st = none := by
  have := search_spec e hs (fun _ => True) (fun _ _ _ _ _ _ => trivial) trivial
  rw [h] at this
  obtain ⟨st, hi, _, h1, h2⟩ := this
  exact ⟨st, hi, h1, h2⟩

/-- the docstring example of `a_star_search`, executed by the model over exact costs `a + b√2`:
    the goal (4,1) carries `0 + 3√2` -/
def docExample : Env Q2 :=
  { ops := opsQ2, h := 5, w := 4
    cross := fun c => c ∈ [(0, 1), (1, 0), (1, 1), (2, 1), (2, 2), (2, 3), (3, 0), (3, 2), (4, 1), (4, 2), (4, 3)]
    nbrs := nbrs8, start := (1, 0), goal := (4, 1) }

example : (search docExample).raster (4, 1) = some (0, 3) ∧ (search docExample).raster (3, 2) = some (0, 2)
    ∧ (search docExample).raster (1, 0) = some (0, 0) ∧ (search docExample).raster (0, 0) = none := by
  decide +kernel

/-! ### exact costs: complete, optimal, sentinel never hit -/

section exact
variable {K : Type} [Field K] [LinearOrder K] [IsStrictOrderedRing K]

/-- the environment of `a_star_search` over exact arithmetic: step length and heuristic are
    both the Euclidean distance `d` (as in the source: `_heuristic` calls `_distance`) -/
def envOf (d : Cell → Cell → K) (h w : Nat) (cross : Cell → Bool) (conn : Nat) (start goal : Cell) : Env K :=
  { ops := fieldOps d d, h := h, w := w, cross := cross, nbrs := nbrsOf conn, start := start, goal := goal }

/-- the Euclidean heuristic is consistent: it never drops by more than the step taken -/
theorem euclid_consistent {d : Cell → Cell → K} (hd : IsEuclid d) (h w : Nat) (cross : Cell → Bool)
    (conn : Nat) (start goal : Cell) : Consistent (envOf d h w cross conn start goal) d d :=
  fun u v _ _ _ => hd.triangle u v goal

/-- **each step adds exactly its length, 1 or √2** (and only 1 under 4-connectivity) -/
theorem step_is_one_or_sqrt2 {d : Cell → Cell → K} (hd : IsEuclid d) (h w : Nat) (cross : Cell → Bool)
    (conn : Nat) (start goal u v : Cell) (hadj : Adj (envOf d h w cross conn start goal) u v) :
    (d u v = 1 ∨ d u v = IsEuclid.sqrt2 d) ∧ (conn ≠ 8 → d u v = 1) ∧
    IsEuclid.sqrt2 d * IsEuclid.sqrt2 d = 2 ∧ 1 < IsEuclid.sqrt2 d := by
  obtain ⟨off, hoff, rfl⟩ := hadj
  have hoff' : off ∈ nbrsOf conn := hoff
  refine ⟨?_, ?_, hd.sqrt2_sq, hd.sqrt2_bounds.1⟩
  · rcases hd.step_len u off (nbrsOf_sub_nbrs8 hoff') with h1 | h1
    · exact Or.inl h1.1
    · exact Or.inr h1.1
  · intro hc
    have h4 : off ∈ nbrs4 := by unfold nbrsOf at hoff'; simpa [hc] using hoff'
    rcases hd.step_len u off (nbrs4_sub_nbrs8 h4) with h1 | h1
    · exact h1.1
    · rcases nbrs4_straight h4 with h0 | h0
      · exact absurd h0 h1.2.1
      · exact absurd h0 h1.2.2

/-- **the main theorem** over exact costs, all rasters, all barrier layouts, both
    connectivities, all start/goal cells of the raster:
    * the search never leaves the modelled behaviour (`sentinel_safe`: every cost the loop can
      produce is below `(h+w)²`; the loop and the parent walk terminate);
    * a returned path is a valid chain whose goal value is the minimum over all routes
      (`astar_optimal`);
    * "every cell NaN" is returned exactly when no route exists. -/
theorem astar_exact {d : Cell → Cell → K} (hd : IsEuclid d) (h w : Nat) (cross : Cell → Bool)
    (conn : Nat) (start goal : Cell)
    (hs : inside h w start = true) (hg : inside h w goal = true) :
    match search (envOf d h w cross conn start goal) with
    | .path chain g => ValidPath (envOf d h w cross conn start goal) chain g ∧
        ∀ l, Route (envOf d h w cross conn start goal) goal l → g goal ≤ l
    | .noPath => ∀ l, ¬ Route (envOf d h w cross conn start goal) goal l
    | .anomaly _ => False := by
  have hb := hd.sqrt2_bounds
  refine search_exact (e := envOf d h w cross conn start goal) (wt := d) (hh := d) rfl
    (euclid_consistent hd h w cross conn start goal) hs (s := IsEuclid.sqrt2 d)
    (by linarith) hb.2 ?_ ?_
  · intro u v hadj
    rcases (step_is_one_or_sqrt2 hd h w cross conn start goal u v hadj).1 with h1 | h1
    · rw [h1]; linarith
    · rw [h1]
  · intro v hv
    exact hd.le_h_add_w hv.1 hg

/-- **a route exists ⇒ the result is one chain from start to goal with the minimum value** -/
theorem route_gives_optimal_path {d : Cell → Cell → K} (hd : IsEuclid d) (h w : Nat) (cross : Cell → Bool)
    (conn : Nat) (start goal : Cell) (hs : inside h w start = true) (hg : inside h w goal = true)
    {l0 : K} (hroute : Route (envOf d h w cross conn start goal) goal l0) :
    ∃ chain g, search (envOf d h w cross conn start goal) = .path chain g ∧
      ValidPath (envOf d h w cross conn start goal) chain g ∧
      Route (envOf d h w cross conn start goal) goal (g goal) ∧
      ∀ l, Route (envOf d h w cross conn start goal) goal l → g goal ≤ l := by
  have := astar_exact hd h w cross conn start goal hs hg
  cases hsr : search (envOf d h w cross conn start goal) with
  | path chain g =>
    rw [hsr] at this
    exact ⟨chain, g, rfl, this.1, (path_is_chain _ hs hsr).2.1, this.2⟩
  | noPath => rw [hsr] at this; exact absurd hroute (this l0)
  | anomaly w => rw [hsr] at this; exact this.elim

/-- **no route ⇒ every cell is NaN** -/
theorem no_route_all_nan {d : Cell → Cell → K} (hd : IsEuclid d) (h w : Nat) (cross : Cell → Bool)
    (conn : Nat) (start goal : Cell) (hs : inside h w start = true) (hg : inside h w goal = true)
    (hno : ∀ l, ¬ Route (envOf d h w cross conn start goal) goal l) (c : Cell) :
    (search (envOf d h w cross conn start goal)).raster c = none := by
  have := astar_exact hd h w cross conn start goal hs hg
  cases hsr : search (envOf d h w cross conn start goal) with
  | path chain g =>
    exact absurd (path_is_chain _ hs hsr).2.1 (hno _)
  | noPath => rfl
  | anomaly w => rfl

theorem route_ends_free {C : Type} {e : Env C} {v : Cell} {l : C} (h : Route e v l) :
    Free e e.start ∧ Free e v := by
  induction h with
  | start hf => exact ⟨hf, hf⟩
  | step _ _ hf ih => exact ⟨ih.1, hf⟩

/-- **an end point that is not crossable (snapping off) ⇒ every cell is NaN** -/
theorem blocked_endpoint_all_nan {d : Cell → Cell → K} (hd : IsEuclid d) (h w : Nat) (cross : Cell → Bool)
    (conn : Nat) (start goal : Cell) (hs : inside h w start = true) (hg : inside h w goal = true)
    (hblocked : cross start = false ∨ cross goal = false) (c : Cell) :
    (search (envOf d h w cross conn start goal)).raster c = none := by
  apply no_route_all_nan hd h w cross conn start goal hs hg
  intro l hr
  obtain ⟨h1, h2⟩ := route_ends_free hr
  rcases hblocked with hb | hb
  · have : cross start = true := h1.2
    rw [hb] at this; cases this
  · have : cross goal = true := h2.2
    rw [hb] at this; cases this

/-- the whole call after the coordinate conversion: either both end points resolve (snapped or
    not) to cells of the raster and the result is `search` between them (to which the theorems
    above apply), or snapping found nothing because no cell is crossable, and every cell is NaN -/
theorem run_cases {C : Type} (ops : Ops C) (h w : Nat) (cross : Cell → Bool) (conn : Nat) (sp gp : Cell)
    (snapS snapG : Bool) (hsp : inside h w sp = true) (hgp : inside h w gp = true) :
    (∃ s g, (s = sp ∧ snapS = false ∨ findNearest h w cross sp = some s ∧ snapS = true) ∧
            (g = gp ∧ snapG = false ∨ findNearest h w cross gp = some g ∧ snapG = true) ∧
            inside h w s = true ∧ inside h w g = true ∧
            runCells ops h w cross conn sp gp snapS snapG =
              search { ops, h, w, cross, nbrs := nbrsOf conn, start := s, goal := g }) ∨
    ((∀ c, inside h w c = true → cross c = false) ∧
      runCells ops h w cross conn sp gp snapS snapG = .noPath) := by
  unfold runCells
  have hS := findNearest_spec h w cross sp
  have hG := findNearest_spec h w cross gp
  cases snapS <;> cases snapG <;> simp only [Bool.false_eq_true, if_false, if_true]
  · exact Or.inl ⟨sp, gp, (by simp), (by simp), hsp, hgp, rfl⟩
  · cases hg : findNearest h w cross gp with
    | none => exact Or.inr ⟨hG.2.2 hg, rfl⟩
    | some g => exact Or.inl ⟨sp, g, (by simp), (by simp), hsp, (hG.2.1 g hg).2.1 hgp, rfl⟩
  · cases hs : findNearest h w cross sp with
    | none => exact Or.inr ⟨hS.2.2 hs, rfl⟩
    | some s => exact Or.inl ⟨s, gp, (by simp), (by simp), (hS.2.1 s hs).2.1 hsp, hgp, rfl⟩
  · cases hs : findNearest h w cross sp with
    | none => exact Or.inr ⟨hS.2.2 hs, rfl⟩
    | some s =>
      cases hg : findNearest h w cross gp with
      | none => exact Or.inr ⟨hG.2.2 hg, rfl⟩
      | some g =>
        exact Or.inl ⟨s, g, (by simp), (by simp), (hS.2.1 s hs).2.1 hsp,
          (hG.2.1 g hg).2.1 hgp, rfl⟩

/-- **the exact instance executed by the driver** (`opsQ2`: costs `a + b√2` as pairs of naturals
    compared in integers, heuristic 0) is itself covered: it is a homomorphic image of exact field
    arithmetic (`opsQ2_hom`, `search_map`), so for every square root of two `s` of an ordered field
    the pair `(a, b)` it reports at the goal satisfies `a + b·s ≤` every route's length (steps
    cost `1` or `s`), a path is reported whenever a route exists, the sentinel is never reached.
    The correspondence run compares exactly this value with the real function's goal value. -/
theorem exact_instance_optimal (s : K) (hs : s * s = 2) (hs0 : 0 < s) (h w : Nat) (cross : Cell → Bool)
    (conn : Nat) (start goal : Cell) (hstart : inside h w start = true) :
    match search { ops := opsQ2, h := h, w := w, cross := cross, nbrs := nbrsOf conn, start := start, goal := goal } with
    | .path chain g =>
        ValidPath { ops := opsQ2, h := h, w := w, cross := cross, nbrs := nbrsOf conn, start := start, goal := goal } chain g ∧
        ∀ l, Route { ops := fieldOps (wtQ s) (fun _ _ => 0), h := h, w := w, cross := cross, nbrs := nbrsOf conn,
                     start := start, goal := goal } goal l → q2val s (g goal) ≤ l
    | .noPath => ∀ l, ¬ Route { ops := opsQ2, h := h, w := w, cross := cross, nbrs := nbrsOf conn, start := start, goal := goal } goal l
    | .anomaly _ => False :=
  search_q2_exact s hs hs0 _ rfl hstart

example : Real.sqrt 2 * Real.sqrt 2 = 2 ∧ 0 < Real.sqrt 2 :=
  ⟨Real.mul_self_sqrt (by norm_num), Real.sqrt_pos.mpr (by norm_num)⟩

/-- non-vacuity: over the reals the Euclidean distance exists, so `astar_exact` applies to
    `K = ℝ`, `d = √(Δy² + Δx²)`, whose diagonal step is `√2` -/
noncomputable def realDist (a b : Cell) : ℝ :=
  Real.sqrt (((a.1 - b.1) * (a.1 - b.1) + (a.2 - b.2) * (a.2 - b.2) : Int) : ℝ)

example : IsEuclid realDist :=
  ⟨fun _ _ => Real.sqrt_nonneg _, fun a b => Real.mul_self_sqrt (by
    have : (0 : Int) ≤ (a.1 - b.1) * (a.1 - b.1) + (a.2 - b.2) * (a.2 - b.2) := by nlinarith [mul_self_nonneg (a.1 - b.1), mul_self_nonneg (a.2 - b.2)]
    exact_mod_cast this)⟩

-- non-vacuity of `Route`: on a 2x2 raster with every cell crossable the diagonal step is a route
example (d : Cell → Cell → K) :
    Route (envOf d 2 2 (fun _ => true) 8 (0, 0) (1, 1)) (1, 1) ((0 : K) + d (0, 0) (1, 1)) :=
  Route.step (Route.start ⟨by simp [envOf, inside], rfl⟩) ⟨(1, 1), by simp [envOf, nbrsOf, nbrs8], by simp⟩
    ⟨by simp [envOf, inside], rfl⟩

end exact


/-! ### the generated pieces of pathfinding.py (`Gen/AStarFacts.lean`, regenerated from the source on every run)

  `K` is any linearly ordered field with an interpretation of the transcendental functions (`Trig K`);
  of `np.sqrt` only `SqrtOk K` is assumed: on non-negative arguments it returns the non-negative
  square root.  `distG a b` / `heurG a b` are the generated kernels `_distance` / `_heuristic`
  evaluated at `(a.x, a.y, b.x, b.y)` over `NV K`; `stepK`, `heurK` their values as field elements. -/

section generated
open XrsVerif.Gen.AStarFacts
variable {K : Type} [Field K] [LinearOrder K] [IsStrictOrderedRing K] [Trig K]

/-- the generated `_distance` and `_heuristic` both compute `sqrt((x1 - x2)² + (y1 - y2)²)` on pixel
    indices, for every interpretation of `sqrt` -/
theorem distance_heuristic_kernels (a b : Cell) :
    (distG a b : NV K) = some (Trig.sqrt (sqK a b)) ∧ (heurG a b : NV K) = some (Trig.sqrt (sqK a b)) :=
  ⟨distG_val a b, heurG_val a b⟩

/-- **the generated heuristic is consistent** with respect to the generated step length: it never
    drops by more than the step taken -- for every pair of cells, in particular along every
    generated neighbour offset -- and it is `0` at the goal; hence admissible.  (A heuristic scaled
    by `1 + 1e-3`, seeded change C14-4, makes this theorem fail.) -/
theorem heuristic_consistent (hs : SqrtOk K) (u goal : Cell) :
    (∀ conn : Nat, ∀ off ∈ neighborsFor (conn : Int),
      (heurK u goal : K) ≤ stepK u (u.1 + off.1, u.2 + off.2) + heurK (u.1 + off.1, u.2 + off.2) goal) ∧
    (∀ v, (heurK u goal : K) ≤ stepK u v + heurK v goal) ∧ (heurK goal goal : K) = 0 :=
  ⟨fun _ off _ => heurK_consistent hs u _ goal, fun v => heurK_consistent hs u v goal, heurK_goal hs goal⟩

/-- `_neighborhood_structure`, traced through `a_star_search` into the `zip` loop: the offsets the
    loop adds to the popped cell are the model's tables, in the same order, for every `connectivity`;
    the public function rejects every connectivity other than 4 and 8 -/
theorem neighbour_tables_generated (conn : Nat) :
    neighborsFor (conn : Int) = nbrsOf conn ∧
    ((validate.cellFailed (argEnv validate [some (conn : K)]) (fun _ _ _ => none) (fun _ => [])).isSome ↔
      (conn ≠ 4 ∧ conn ≠ 8)) :=
  ⟨neighbors_generated conn, validate_generated conn⟩

/-- the environment of the search built from generated pieces only: step length `_distance`,
    heuristic `_heuristic`, offsets `_neighborhood_structure` -/
def envGen (h w : Nat) (cross : Cell → Bool) (conn : Nat) (start goal : Cell) : Env K :=
  { ops := fieldOps stepK heurK, h := h, w := w, cross := cross, nbrs := neighborsFor (conn : Int),
    start := start, goal := goal }

/-- **the main theorem with the generated heuristic, step length and neighbour tables**: the search
    never leaves the modelled behaviour, a returned path is a valid chain whose goal value is the
    minimum over all routes, "every cell NaN" means no route.  Consistency of the heuristic enters
    through `heuristic_consistent`, the step bound through the generated tables. -/
theorem astar_generated (hs : SqrtOk K) (h w : Nat) (cross : Cell → Bool) (conn : Nat) (start goal : Cell)
    (hstart : inside h w start = true) (hgoal : inside h w goal = true) :
    match search (envGen (K := K) h w cross conn start goal) with
    | .path chain g => ValidPath (envGen (K := K) h w cross conn start goal) chain g ∧
        ∀ l, Route (envGen (K := K) h w cross conn start goal) goal l → g goal ≤ l
    | .noPath => ∀ l, ¬ Route (envGen (K := K) h w cross conn start goal) goal l
    | .anomaly _ => False := by
  have hd := stepK_euclid hs
  have hb := hd.sqrt2_bounds
  refine search_exact (e := envGen h w cross conn start goal) (wt := stepK) (hh := heurK) rfl
    (fun u v _ _ _ => (heuristic_consistent hs u goal).2.1 v) hstart (s := IsEuclid.sqrt2 stepK)
    (by linarith) hb.2 ?_ ?_
  · rintro u v ⟨off, hoff, rfl⟩
    have hoff' : off ∈ nbrsOf conn := by rw [← neighbors_generated conn]; exact hoff
    rcases hd.step_len u off (nbrsOf_sub_nbrs8 hoff') with h1 | h1
    · rw [h1.1]; linarith
    · rw [h1.1]
  · intro v hv
    exact (heurK_euclid hs).le_h_add_w hv.1 hgoal

/-- **the body of the neighbour loop is `relax`**: executing the generated statement on the variables
    of the popped cell `u`, the offset and the state either ends in `continue` -- then the model
    leaves the state unchanged -- or stores `d_from_start` (`g`), `cost` (`f`), `is_open = True` and the parent
    `(py, px)` for the neighbour, and these are exactly the model's new state (closed cells are
    skipped; an open cell is overwritten unless the new distance is strictly greater; out-of-raster
    and barrier / NaN cells are skipped) -/
theorem relaxation_generated (e : Env K) (hx : e.ops = fieldOps stepK heurK)
    (dataV : Cell → NV K) (bars : List (NV K)) (hc : e.cross = crossG dataV bars) (u off : Cell) (st : St K) :
    let s' := relaxBody.exec (fun _ _ _ => none) (vecOf bars) ⟨relaxEnv e dataV u off st, none, false, none⟩
    s'.failed = none ∧
    (s'.halted = true → relax e u st off = st) ∧
    (s'.halted = false →
      ∃ g f, s'.env "g@v" = some g ∧ s'.env "f@v" = some f ∧ s'.env "open@v" = some 1 ∧
        s'.env "par_y@v" = some (u.1 : K) ∧ s'.env "par_x@v" = some (u.2 : K) ∧
        relax e u st off = relaxed st u (u.1 + off.1, u.2 + off.2) g f) :=
  relax_generated e stepK heurK hx stepK_eq heurK_eq dataV bars hc u off st

/-- between the pop and the neighbour loop the popped cell leaves the open list and enters the closed
    list: the generated statements are `close` -/
theorem pop_bookkeeping_generated (st : St K) (u : Cell) :
    let s' := popBody.exec (fun _ _ _ => none) (fun _ => [])
      ⟨XrsVerif.envOf [("open@u", b2n (st.isOpen u)), ("closed@u", b2n (st.isClosed u))], none, false, none⟩
    s'.env "open@u" = (b2n ((close st u).isOpen u) : NV K) ∧ s'.env "closed@u" = b2n ((close st u).isClosed u) ∧
    s'.failed = none ∧ s'.halted = false :=
  pop_generated st u

/-- **`_min_cost_pixel_id` is `minCostOpen`**: the statements before the scan set `(NONE, NONE)` and the
    sentinel `(height + width)²`, the loops run row-major, and one iteration of the scan is `minStep`
    (an open cell with a strictly smaller cost replaces the running minimum) -/
theorem min_cost_generated (e : Env K) (hx : e.ops = fieldOps stepK heurK) (st : St K)
    (acc : Option Cell × K) (c : Cell) :
    (let s0 := minCostInit.exec (fun _ _ _ => none) (fun _ => [])
        ⟨XrsVerif.envOf [("rows", some (e.h : K)), ("cols", some (e.w : K))], none, false, none⟩
     readAcc s0.env = accVars ((none : Option Cell), e.ops.big e.h e.w) ∧ s0.failed = none ∧ minCostRowMajor = true) ∧
    (let s' := minCostBody.exec (fun _ _ _ => none) (fun _ => []) ⟨minEnv st acc c, none, false, none⟩
     readAcc s'.env = accVars (minStep e st acc c) ∧ s'.failed = none ∧ s'.halted = false) :=
  ⟨minInit_generated e stepK heurK hx, minStep_generated e stepK heurK hx st acc c⟩

/-- **the whole of `_min_cost_pixel_id`**: the generated loop body run over the cells in row-major order from
    the generated initialisation leaves in `(best_y, best_x)` the cell `minCostOpen` returns (`(-1, -1)` for
    `none`) -/
theorem min_cost_scan_generated (e : Env K) (hx : e.ops = fieldOps stepK heurK) (st : St K) :
    ((cells e.h e.w).foldl (genMinStep st) (accVars ((none : Option Cell), e.ops.big e.h e.w))).1 =
      (match minCostOpen e st with | none => (some (-1) : NV K) | some c => some (c.1 : K)) ∧
    ((cells e.h e.w).foldl (genMinStep st) (accVars ((none : Option Cell), e.ops.big e.h e.w))).2.1 =
      (match minCostOpen e st with | none => (some (-1) : NV K) | some c => some (c.2 : K)) := by
  rw [minScan_generated e stepK heurK hx st]
  unfold minCostOpen accVars
  constructor <;> split <;> simp_all

/-- **`_is_not_crossable` is the model's barrier test** (NaN, or equal as a real number to a listed
    value; no conversion of the list), and `_is_inside` is `inside` -/
theorem barrier_and_inside_tests_generated (v : Val) (bars : List Val) (hv : v.finiteOrNaN)
    (hb : ∀ b ∈ bars, b.finiteOrNaN) (h w : Nat) (c : Cell) :
    notCrossable.eval ⟨XrsVerif.envOf [("value", (valNV v : NV K))], fun _ _ _ => none, vecOf (bars.map valNV)⟩
      = notCrossableV v bars ∧
    isInside.cell (argEnv isInside [some (c.1 : K), some (c.2 : K), some (h : K), some (w : K)])
      (fun _ _ _ => none) (fun _ => []) = some (if inside h w c then 1 else 0) :=
  ⟨notCrossable_generated v bars hv hb, isInside_generated h w c⟩

/-- `a_star_search` hands the caller's barrier list to the kernels as `np.array(barriers)`: no `astype`, no
    `dtype=`, no rounding (seeded change C14-3 adds `.astype(surface.dtype)`) -/
theorem barrier_list_not_converted : barrierCasts = [] := by decide

/-- **`_get_pixel_id` is `pixelId`**: the generated row / column expressions under `int(...)` are
    `|p - c0| / cellsize + 1/2` with the axis' own first coordinate and cell size; the value is
    non-negative, so `int` (truncation) is the floor -/
theorem pixel_rule_generated [Trig ℚ] (c0 cs p : ℚ) (hcs : 0 < cs) :
    (∃ q : ℚ, pixelRow.eval ⟨XrsVerif.envOf [("point0", some p), ("coords_y0", some c0), ("cellsize_y", some cs)],
        fun _ _ _ => none, fun _ => []⟩ = some q ∧ 0 ≤ q ∧ pixelId c0 cs p = ⌊q⌋) ∧
    (∃ q : ℚ, pixelCol.eval ⟨XrsVerif.envOf [("point1", some p), ("coords_x0", some c0), ("cellsize_x", some cs)],
        fun _ _ _ => none, fun _ => []⟩ = some q ∧ 0 ≤ q ∧ pixelId c0 cs p = ⌊q⌋) ∧
    pixelCasts = ["int", "int"] :=
  pixel_generated c0 cs p hcs

/-- **a search leaves the caller's raster alone and the cell mapping is a function of this raster's coordinates and `res`
    only**: no statement of `a_star_search`, `_get_pixel_id`, `get_dataarray_resolution`, `calc_res`, `get_xy_range`, or of a
    kernel the surface (or a part of it) is handed to, stores into the raster -- no `raster.attrs[...] = ...`, no item /
    attribute assignment, `del`, mutating method, `out=`, `inplace=True`, directly or through a local alias --, the raster
    is handed to no function outside pathfinding.py / utils.py, and everything `_get_pixel_id` reads of it is in
    the list below: the dimension names and the shape, the two coordinate arrays (`_get_pixel_id` takes their first element,
    `calc_res` their extremes) and the `res` attribute.  This is what the model assumes when it maps a point with `pixelId c0 cs p` where `c0`, `cs` come
    from the raster of the call itself: nothing an earlier call computed is remembered on the caller's objects (xarray
    carries `attrs` through slicing, `assign_coords`, `copy`; a cell size cached there would be read back by
    `get_dataarray_resolution` for a raster derived with another spacing -- seeded change C14-6; the `derived` stream of
    the correspondence run searches such rasters) -/
theorem cell_mapping_reads_coords_or_res :
    surfaceWrites = [] ∧ pixelRasterWrites = [] ∧ surfaceEscapes = [] ∧
    (∀ r ∈ pixelRasterReads, r ∈ (
      ["_get_pixel_id: get_dataarray_resolution(raster, xdim, ydim)",
       "_get_pixel_id: raster.coords[xdim].data",
       "_get_pixel_id: raster.coords[ydim].data",
       "_get_pixel_id: raster.dims[-1]",
       "_get_pixel_id: raster.dims[-2]",
       "calc_res: get_xy_range(raster, xdim, ydim)",
       "calc_res: raster.shape[-2:]",
       "get_dataarray_resolution: calc_res(raster, xdim, ydim)",
       "get_dataarray_resolution: raster.attrs.get('res')",
       "get_xy_range: raster.dims[-1]",
       "get_xy_range: raster.dims[-2]",
       "get_xy_range: raster[xdim].max().item()",
       "get_xy_range: raster[xdim].min().item()",
       "get_xy_range: raster[ydim].max().item()",
       "get_xy_range: raster[ydim].min().item()"] : List String)) ∧
    "get_dataarray_resolution: raster.attrs.get('res')" ∈ pixelRasterReads ∧
    "_get_pixel_id: raster.coords[ydim].data" ∈ pixelRasterReads ∧
    "_get_pixel_id: raster.coords[xdim].data" ∈ pixelRasterReads := by decide

/-- **`_find_nearest_pixel` is `findNearest`**: the queried cell is kept exactly when it is crossable;
    the running minimum starts at infinity and the scan is row-major; one iteration of the scan is
    `nearStep` (the code compares Euclidean distances, the model their squares) -/
theorem snap_rule_generated (hs : SqrtOk K) (dataV : Cell → NV K) (bars : List (NV K)) (p c : Cell)
    (acc : Option (Cell × Int)) (md : K)
    (hacc : match acc with
      | none => Trig.sqrt (sqK c p) < md
      | some (_, m) => 0 ≤ m ∧ md = Trig.sqrt ((m : Int) : K)) :
    snapKeep.eval ⟨XrsVerif.envOf [("data@p", dataV p)], fun _ _ _ => none, vecOf bars⟩ = crossG dataV bars p ∧
    (let s' := snapBody.exec (fun _ _ _ => none) (vecOf bars) ⟨snapEnv dataV p c acc md, none, false, none⟩
     let acc' := nearStep (crossG dataV bars) p acc c
     s'.failed = none ∧ (s'.env "near_y", s'.env "near_x") = nearVars acc' ∧
     s'.env "min_distance" = some (if acc' = acc then md else Trig.sqrt (((sqDist c p : Int)) : K)) ∧
     snapInitInf = true ∧ snapRowMajor = true) :=
  ⟨snapKeep_generated dataV bars p, snapStep_generated hs dataV bars p c acc md hacc⟩

end generated

/-! ### the programs generated statement by statement from pathfinding.py (layer T3, `Gen/IL.lean`)

  `harness/facts_il.py` translates the numba functions `_is_not_crossable`, `_is_inside`, `_min_cost_pixel_id`,
  `_find_nearest_pixel`, `_reconstruct_path` and `_a_star_search` (helpers inlined) into programs of the imperative
  language `Core/ILang.lean` on every run; `Proofs/ILAStar*.lean` prove that each program computes the hand model
  (`refinement`), for every number type `F` (`[Fl F]`: only `+`, `<`, `==`, `isnan`, `sqrt` of the type are used, no
  laws) -- so in particular for IEEE doubles.  The theorems below restate the clauses of the property for the
  *generated* programs.  States: `s.ienv / s.fenv / s.benv` scalar variables, `s.ia / s.fa` flat arrays with shapes
  `s.shp`; `cidx w c` is the row-major offset of cell `c`; an out-of-range access would end in `Ctl.err`, so
  `ctl = ret` also says that every access was in range. -/

section il
open XrsVerif.IL
variable {F : Type} [Fl F]

/-- **generated `_is_not_crossable`**: returns `True` exactly for NaN and for values `==` to a listed barrier value;
    no array is written -/
theorem il_crossable (s : State F) (fuel : Nat) (hs : s.ctl = .run) (hb : (s.shp "barriers").length = 1) :
    let r := Gen.IL.isNotCrossable.run s fuel
    r.ctl = .ret ∧
      (r.benv "ret0" = true ↔
        Fl.isnan (s.fenv "cell_value") = true ∨ ∃ b ∈ s.fa "barriers", Fl.eq (s.fenv "cell_value") b = true) ∧
      r.fa = s.fa ∧ r.ia = s.ia := by
  have h := isNotCrossable_refines s fuel hs hb
  refine ⟨h.1, ?_, h.2.2⟩
  rw [h.2.1]
  simp [notCross, List.any_eq_true]

/-- **generated `_is_inside`** is the model's `inside` -/
theorem il_inside (s : State F) (fuel : Nat) (hs : s.ctl = .run) (h w : Nat)
    (hh : s.ienv "h" = (h : Int)) (hw : s.ienv "w" = (w : Int)) :
    let r := Gen.IL.isInside.run s fuel
    r.ctl = .ret ∧ r.benv "ret0" = inside h w (s.ienv "py", s.ienv "px") :=
  isInside_refines s fuel hs h w hh hw

/-- **the selection of the generated `_min_cost_pixel_id` is the model's `minCostOpen`**: for every model state
    whose `isOpen` / `f` are the arrays `is_open` / `cost`, the program returns `minCostOpen` (`(-1, -1)` for
    `none`): the first cell in row-major order that is open and strictly cheaper than every earlier candidate and
    than the initial bound `(h + w)^2`; a returned cell is open and lies in the raster -/
theorem il_selection (e : Env F) (mst : AStar.St F) (s : State F) (fuel : Nat) (hs : s.ctl = .run)
    (habs : McAbs e mst s) :
    let r := Gen.IL.minCostPixelId.run s fuel
    r.ctl = .ret ∧ (r.ienv "ret0", r.ienv "ret1") = enc (minCostOpen e mst) ∧ r.ia = s.ia ∧ r.fa = s.fa ∧
      ∀ u, minCostOpen e mst = some u → mst.isOpen u = true ∧ inside e.h e.w u = true := by
  have h := minCostPixelId_refines e mst s fuel hs habs
  exact ⟨h.1, h.2.1, h.2.2.1, h.2.2.2, fun u hu => ⟨minCostOpen_open hu, minCostOpen_inside hu⟩⟩

/-- **the generated `_find_nearest_pixel` snaps to the nearest crossable cell with the model's tie-breaking**
    (number types in which `sqrt` is strictly monotone on the integers and `< 1/0`, `SqrtLt F`): the result is the
    model's `findNearest` -- the queried cell if it is crossable, otherwise the first crossable cell in row-major order
    at minimum distance, `(-1, -1)` if no cell is crossable -- hence (`snap_argmin`) a crossable cell of the raster at
    minimum distance.  Without `SqrtLt` (any `F`): `findNearestPixel_refines` (the scan with float comparisons). -/
theorem il_snap (hF : SqrtLt F) (h w : Nat) (cross : Cell → Bool) (s : State F) (fuel : Nat) (hs : s.ctl = .run)
    (habs : FnAbs h w cross s) (hp : inside h w (s.ienv "py", s.ienv "px") = true) :
    let r := Gen.IL.findNearestPixel.run s fuel
    r.ctl = .ret ∧ (r.ienv "ret0", r.ienv "ret1") = enc (findNearest h w cross (s.ienv "py", s.ienv "px")) ∧
      r.fa = s.fa ∧ r.ia = s.ia ∧
      (cross (s.ienv "py", s.ienv "px") = true → (r.ienv "ret0", r.ienv "ret1") = (s.ienv "py", s.ienv "px")) ∧
      (∀ c, findNearest h w cross (s.ienv "py", s.ienv "px") = some c →
        (r.ienv "ret0", r.ienv "ret1") = c ∧ cross c = true ∧ inside h w c = true ∧
        ∀ c', inside h w c' = true → cross c' = true →
          sqDist c (s.ienv "py", s.ienv "px") ≤ sqDist c' (s.ienv "py", s.ienv "px")) ∧
      (findNearest h w cross (s.ienv "py", s.ienv "px") = none →
        (r.ienv "ret0", r.ienv "ret1") = (-1, -1) ∧ ∀ c', inside h w c' = true → cross c' = false) := by
  have hr := findNearestPixel_refines h w cross s fuel hs habs hp
  have hsnap := snap_argmin h w cross (s.ienv "py", s.ienv "px")
  rw [findNearestF_eq hF] at hr
  refine ⟨hr.1, hr.2.1, hr.2.2.1, hr.2.2.2, ?_, ?_, ?_⟩
  · intro hc; rw [hr.2.1, hsnap.1 hc]; rfl
  · intro c hc
    have := hsnap.2.1 c hc
    exact ⟨by rw [hr.2.1, hc]; rfl, this.1, this.2.1 hp, this.2.2⟩
  · intro hn
    exact ⟨by rw [hr.2.1, hn]; rfl, hsnap.2.2 hn⟩

/-- **the generated `_reconstruct_path` writes exactly the chain**: when the goal has a back pointer and the model's
    parent walk over the arrays `parent_ys / parent_xs` reaches the start within some fuel (what the search invariant
    provides, `anomaly_is_sentinel` / `path_is_chain`), the program terminates (`while` fuel `≥` the length of the
    chain), `path_img[c] = cost[c]` on the cells of the chain, every other cell of `path_img` keeps its value and no
    other array is written -/
theorem il_path_written (h w : Nat) (s : State F) (fuel : Nat) (hs : s.ctl = .run)
    (hshp : RcShp h w "cost" s) (hlen : (s.fa "path_img").length = h * w) (start goal : Cell)
    (ha : RcArgs (fun a => a) start goal s)
    (hsome : parentOf (s.ia "parent_ys") (s.ia "parent_xs") w goal ≠ none)
    (n : Nat) (chain : List Cell)
    (hw : walk (parentOf (s.ia "parent_ys") (s.ia "parent_xs") w) start n goal = some chain)
    (hin : ∀ c ∈ chain, inside h w c = true) (hfuel : chain.length ≤ fuel) :
    let r := Gen.IL.reconstructPath.run s fuel
    r.ctl = .ret ∧ r.ia = s.ia ∧ (∀ a, a ≠ "path_img" → r.fa a = s.fa a) ∧
      (r.fa "path_img").length = h * w ∧
      ∀ c, inside h w c = true → ∀ d, (r.fa "path_img").getD (cidx w c) d =
        if c ∈ chain then (s.fa "cost").getD (cidx w c) Fl.nan else (s.fa "path_img").getD (cidx w c) d :=
  reconstructPath_refines h w s fuel hs hshp hlen start goal ha hsome n chain hw hin hfuel

/-- **the generated `_a_star_search` is the model's `search`** (any number type, in particular IEEE doubles), and
    what it returns is a valid path: for well-formed inputs (`SrchIn e s`) and `while` fuel `≥ 2·h·w + 1`
    * model `path chain g`: the program returns; `path_img[c] = g c` exactly on the cells of `chain`, the other cells
      keep their value (NaN in `a_star_search`); `chain` is a `ValidPath` (from goal back to start through allowed
      neighbours, each step adding its length, never entering a barrier);
    * model `noPath`: the program returns with `path_img` untouched, and there is no route;
    * model `anomaly`: only the sentinel of `_min_cost_pixel_id` (an open cell with cost `≥ (h+w)^2` or NaN; excluded
      for exact costs by `astar_exact`); nothing is claimed about the program there. -/
theorem il_search (e : Env F) (s : State F) (fuel : Nat) (hs : s.ctl = .run) (hi : SrchIn e s)
    (hlen : (s.fa "path_img").length = e.h * e.w) (hfuel : 2 * (e.h * e.w) + 1 ≤ fuel) :
    let r := Gen.IL.aStarSearch.run s fuel
    match search e with
    | .path chain g => ValidPath e chain g ∧ r.ctl = .ret ∧ (r.fa "path_img").length = e.h * e.w ∧
        ∀ c, inside e.h e.w c = true → ∀ d, (r.fa "path_img").getD (cidx e.w c) d =
          if c ∈ chain then g c else (s.fa "path_img").getD (cidx e.w c) d
    | .noPath => (∀ l, ¬ Route e e.goal l) ∧ r.ctl = .ret ∧ r.fa "path_img" = s.fa "path_img"
    | .anomaly _ => ∃ st, Inv e st ∧ anyOpen e st = true ∧ minCostOpen e st = none := by
  intro r
  have h := aStarSearch_refines e s fuel hs hi hlen hfuel
  cases hsr : search e with
  | path chain g =>
    rw [hsr] at h
    have hv := (path_is_chain e hi.start_in hsr).1
    exact ⟨hv, h (fun c hc => (hv.free c hc).1)⟩
  | noPath =>
    rw [hsr] at h
    exact ⟨all_nan_means_no_route e hi.start_in hsr, h⟩
  | anomaly w => exact anomaly_is_sentinel e hi.start_in hsr

/-! non-vacuity of the hypotheses of the `il_*` theorems: a 1 × 2 raster of crossable cells, start `(0,0)`, goal
    `(0,1)`, one allowed offset `(0, +1)`, over any number type -/

def ilDemo : State F :=
  { (State.empty : State F) with
    shp := setS (setS (setS (setS (setS (setS (setS (setS (setS (fun _ => []) "data" [1, 2]) "path_img" [1, 2])
      "barriers" [0]) "neighbor_ys" [1]) "neighbor_xs" [1]) "cost" [1, 2]) "is_open" [1, 2]) "parent_ys" [1, 2])
      "parent_xs" [1, 2]
    fa := setS (setS (setS (fun _ => []) "data" [Fl.lit 1 1, Fl.lit 1 1]) "path_img" [Fl.nan, Fl.nan])
      "cost" [Fl.lit 1 1, Fl.lit 0 1]
    ia := setS (setS (setS (setS (setS (fun _ => []) "neighbor_ys" [0]) "neighbor_xs" [1]) "is_open" [1, 0])
      "parent_ys" [0, 0]) "parent_xs" [0, 0]
    ienv := setS (fun _ => 0) "goal_px" 1 }

def ilDemoEnv : Env F :=
  { ops := flOps, h := 1, w := 2, nbrs := [(0, 1)], start := (0, 0), goal := (0, 1)
    cross := fun c => !notCross (((ilDemo : State F).fa "data").getD (cidx 2 c) Fl.nan)
      ((ilDemo : State F).fa "barriers") }

def ilDemoSt : AStar.St F :=
  { isOpen := fun c => decide (((ilDemo : State F).ia "is_open").getD (cidx 2 c) 0 ≠ 0)
    isClosed := fun _ => false, g := fun _ => Fl.nan, parent := fun _ => none
    f := fun c => ((ilDemo : State F).fa "cost").getD (cidx 2 c) Fl.nan }

example : (((ilDemo : State F).shp "barriers").length = 1) ∧ (ilDemo : State F).ctl = .run := ⟨rfl, rfl⟩

example : McAbs (ilDemoEnv : Env F) ilDemoSt ilDemo :=
  ⟨rfl, rfl, by simp [ilDemo, ilDemoEnv, setS_apply], by simp [ilDemo, ilDemoEnv, setS_apply], fun _ _ => rfl,
   fun _ _ => rfl⟩

example : FnAbs 1 2 (ilDemoEnv : Env F).cross (ilDemo : State F) ∧
    inside 1 2 ((ilDemo : State F).ienv "py", (ilDemo : State F).ienv "px") = true :=
  ⟨⟨by simp [ilDemo, setS_apply], by simp [ilDemo, setS_apply], fun _ _ => rfl⟩,
   by simp [ilDemo, setS_apply, inside]⟩

example : SqrtLt ER := sqrtLt_ER

example : RcShp 1 2 "cost" (ilDemo : State F) ∧ RcArgs (fun a => a) (0, 0) (0, 1) (ilDemo : State F) ∧
    parentOf ((ilDemo : State F).ia "parent_ys") ((ilDemo : State F).ia "parent_xs") 2 (0, 1) ≠ none ∧
    walk (parentOf ((ilDemo : State F).ia "parent_ys") ((ilDemo : State F).ia "parent_xs") 2) (0, 0) 2 (0, 1)
      = some [(0, 1), (0, 0)] := by
  refine ⟨?_, ?_, ?_, ?_⟩
  · constructor <;> simp [ilDemo, setS_apply]
  · constructor <;> simp [ilDemo, setS_apply]
  all_goals simp [ilDemo, setS_apply, parentOf, cidx, walk]

example : SrchIn (ilDemoEnv : Env F) ilDemo ∧ ((ilDemo : State F).fa "path_img").length = 1 * 2 := by
  refine ⟨⟨rfl, ?_, ?_, ?_, ?_, ?_, ?_, fun _ _ => rfl, ?_, ?_, ?_, ?_, ?_⟩, ?_⟩
  all_goals simp [ilDemo, ilDemoEnv, setS_apply, inside]

end il

/-- non-vacuity: over the reals `np.sqrt` is `Real.sqrt` (the other functions do not occur in the
    generated A* kernels), and `SqrtOk` holds -/
@[instance_reducible] noncomputable def realSqrt : Trig ℝ := ⟨Real.sqrt, id, fun a _ => a, id, id, id, id⟩

example : @SqrtOk ℝ _ _ _ realSqrt :=
  @SqrtOk.mk ℝ _ _ _ realSqrt (fun x _ => Real.sqrt_nonneg x) (fun x hx => Real.mul_self_sqrt hx)

end XrsVerif.C14
